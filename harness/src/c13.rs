//! C13: colour quantisation — KDTree / ColorPalette::{new, find, find_naive, colors, size, get, from_image},
//! OcTree::{insert, prune, prune_until, build_palette, to_digraph, find} + Clone / Default / Extend / FromIterator,
//! Image::quantize through every constructor of Image (API table: design/C13.md, props.d/C13.py).
use crate::util::*;
use serde_json::{json, Value};
use std::sync::mpsc;
use std::time::Duration;
use surf_n_term::image::OcTree;
use surf_n_term::{Color, ColorPalette, Image, Shape, Size, Surface, RGBA};

type Rgb = [u8; 3];

pub fn crgb(c: &Rgb) -> String {
    format!("({},{},{})", c[0], c[1], c[2])
}
pub fn crgbs(cs: &[Rgb]) -> String {
    clist(cs.iter().map(crgb))
}
fn vrgb(v: &Value) -> Rgb {
    let a = vusizes(v);
    [
        *a.first().unwrap_or(&0) as u8,
        *a.get(1).unwrap_or(&0) as u8,
        *a.get(2).unwrap_or(&0) as u8,
    ]
}
fn jrgb(c: &Rgb) -> Value {
    json!([c[0], c[1], c[2]])
}
fn rgba_of(c: &Rgb) -> RGBA {
    RGBA::new(c[0], c[1], c[2], 255)
}

/// Run `f` on its own thread; None when it does not finish in time (the thread is abandoned,
/// the caller stops issuing cases and the process exits at the end of the batch).
fn with_timeout<T: Send + 'static>(secs: u64, f: impl FnOnce() -> T + Send + 'static) -> Option<T> {
    let (tx, rx) = mpsc::channel();
    std::thread::Builder::new()
        .stack_size(64 << 20)
        .spawn(move || {
            let _ = tx.send(f());
        })
        .ok()?;
    rx.recv_timeout(Duration::from_secs(secs)).ok()
}

// ------------------------------------------------------------------ KD

fn run_kd(input: &Value) -> Case {
    let pal: Vec<Rgb> = input["pal"].as_array().map(|a| a.iter().map(vrgb).collect()).unwrap_or_default();
    let qs: Vec<Rgb> = input["qs"].as_array().map(|a| a.iter().map(vrgb).collect()).unwrap_or_default();
    let colors: Vec<RGBA> = pal.iter().map(rgba_of).collect();
    let palette = catch(move || ColorPalette::new(colors)).flatten();
    let mut impl_coq = vec![];
    let mut impl_json = vec![];
    for q in &qs {
        let r = match &palette {
            None => None,
            Some(p) => {
                let q = rgba_of(q);
                catch(std::panic::AssertUnwindSafe(|| p.find(q)))
            }
        };
        match r {
            None => {
                impl_coq.push("IPanic".to_string());
                impl_json.push(json!("panic"));
            }
            Some((i, c)) => {
                let c = c.to_rgb();
                impl_coq.push(format!("IOk ({},{})", i, crgb(&c)));
                impl_json.push(json!([i, c[0], c[1], c[2]]));
            }
        }
    }
    let mut j = input.clone();
    j["impl"] = Value::Array(impl_json);
    let mut distinct = pal.clone();
    distinct.sort();
    distinct.dedup();
    Case {
        coq: format!("KD {} {} {}", crgbs(&pal), crgbs(&qs), clist(impl_coq)),
        json: j,
        tags: vec![
            "kind=kd".to_string(),
            format!("pal={}", bucket(pal.len())),
            format!("dups={}", distinct.len() < pal.len()),
        ],
        nontrivial: pal.len() >= 2 && !qs.is_empty(),
    }
}

fn bucket(n: usize) -> &'static str {
    match n {
        0 => "0",
        1 => "1",
        2..=8 => "2-8",
        9..=16 => "9-16",
        17..=64 => "17-64",
        65..=256 => "65-256",
        _ => ">256",
    }
}

// ------------------------------------------------------------------ OCT

/// Parse OcTree::to_digraph output into a Coq `dnode` term.
fn parse_digraph(text: &str) -> Option<String> {
    #[derive(Clone)]
    enum N {
        Leaf(Rgb, u64),
        Tree(u64, u64),
    }
    let mut nodes: Vec<Option<N>> = vec![];
    let mut children: Vec<Vec<usize>> = vec![];
    for line in text.lines() {
        let line = line.trim();
        if line.starts_with("digraph") || line.starts_with("rankdir") || line == "}" || line.is_empty() {
            continue;
        }
        if let Some((a, b)) = line.split_once(" -> ") {
            let a: usize = a.trim().parse().ok()?;
            let b: usize = b.trim().parse().ok()?;
            while children.len() <= a.max(b) {
                children.push(vec![]);
            }
            children[a].push(b);
            continue;
        }
        let (id, rest) = line.split_once(' ')?;
        let id: usize = id.parse().ok()?;
        while nodes.len() <= id {
            nodes.push(None);
        }
        let label = rest.split("label=\"").nth(1)?.split('"').next()?;
        if rest.contains("fillcolor") {
            let col = rest.split("fillcolor=\"#").nth(1)?.split('"').next()?;
            let r = u8::from_str_radix(col.get(0..2)?, 16).ok()?;
            let g = u8::from_str_radix(col.get(2..4)?, 16).ok()?;
            let b = u8::from_str_radix(col.get(4..6)?, 16).ok()?;
            nodes[id] = Some(N::Leaf([r, g, b], label.trim().parse().ok()?));
        } else {
            let (lc, mn) = label.split_once(' ')?;
            nodes[id] = Some(N::Tree(lc.parse().ok()?, mn.parse().ok()?));
        }
    }
    while children.len() < nodes.len() {
        children.push(vec![]);
    }
    fn render(id: usize, nodes: &[Option<N>], children: &[Vec<usize>]) -> Option<String> {
        match nodes.get(id)?.clone()? {
            N::Leaf(c, n) => Some(format!("DLeaf {} {}", crgb(&c), n)),
            N::Tree(lc, mn) => {
                let mut ch = vec![];
                for c in &children[id] {
                    ch.push(render(*c, nodes, children)?);
                }
                Some(format!("DTree {} {} {}", lc, mn, clist(ch)))
            }
        }
    }
    render(0, &nodes, &children)
}

fn run_oct(input: &Value) -> (Case, bool) {
    let ops: Vec<Value> = input["ops"].as_array().cloned().unwrap_or_default();
    let mut coq_ops = vec![];
    let mut n_ins = 0usize;
    let mut n_prune = 0usize;
    let mut inserted: Vec<Rgb> = vec![];
    let mut pruned = false;
    let mut clean = false;
    let mut other_api = false;
    let mut find_clean: Vec<bool> = vec![];
    for op in &ops {
        let a = op.as_array().cloned().unwrap_or_default();
        let tag = a.first().and_then(|t| t.as_str()).unwrap_or("");
        match tag {
            "i" => {
                let c = [
                    a[1].as_u64().unwrap_or(0) as u8,
                    a[2].as_u64().unwrap_or(0) as u8,
                    a[3].as_u64().unwrap_or(0) as u8,
                ];
                coq_ops.push(format!("OIns {}", crgb(&c)));
                inserted.push(c);
                n_ins += 1;
            }
            "p" => {
                coq_ops.push("OPrune".to_string());
                n_prune += 1;
                pruned = true;
            }
            "u" => {
                let k = a[1].as_u64().unwrap_or(1);
                coq_ops.push(format!("OPruneUntil {}", k));
                let mut d = inserted.clone();
                d.sort();
                d.dedup();
                if d.len() as u64 > k.max(8) {
                    pruned = true;
                }
            }
            "b" => {
                coq_ops.push("OPalette".to_string());
                clean = true;
            }
            // Extend<RGBA>: the model has no separate operation, it is the inserts
            "e" | "x" => {
                if tag == "x" {
                    // FromIterator<RGBA>: a new tree
                    coq_ops.push("ONew".to_string());
                    inserted.clear();
                    pruned = false;
                }
                for c in a[1].as_array().cloned().unwrap_or_default() {
                    let c = [
                        c[0].as_u64().unwrap_or(0) as u8,
                        c[1].as_u64().unwrap_or(0) as u8,
                        c[2].as_u64().unwrap_or(0) as u8,
                    ];
                    coq_ops.push(format!("OIns {}", crgb(&c)));
                    inserted.push(c);
                    n_ins += 1;
                }
                clean = false;
                other_api = true;
            }
            // Default
            "n" => {
                coq_ops.push("ONew".to_string());
                inserted.clear();
                pruned = false;
                clean = false;
                other_api = true;
            }
            // Clone (derived): the history goes on with the copy; identity in the model
            "c" => other_api = true,
            // OcTree::find; the index it returns is only meaningful directly after build_palette
            "f" => {
                let c = [
                    a[1].as_u64().unwrap_or(0) as u8,
                    a[2].as_u64().unwrap_or(0) as u8,
                    a[3].as_u64().unwrap_or(0) as u8,
                ];
                coq_ops.push(format!("{} {}", if clean { "OFindIdx" } else { "OFind" }, crgb(&c)));
                find_clean.push(clean);
                other_api = true;
            }
            _ => coq_ops.push("ODigraph".to_string()),
        }
        if matches!(tag, "i" | "p" | "u") {
            clean = false;
        }
    }
    let ops2 = ops.clone();
    let find_clean2 = find_clean.clone();
    // Some(Some(obs)) ok, Some(None) panic, None hang
    let r = with_timeout(20, move || {
        catch(move || {
            let mut tree = OcTree::new();
            let mut obs: Vec<String> = vec![];
            let mut obs_json: Vec<Value> = vec![];
            let mut n_find = 0usize;
            for op in &ops2 {
                let a = op.as_array().cloned().unwrap_or_default();
                match a.first().and_then(|t| t.as_str()).unwrap_or("") {
                    "i" => tree.insert(RGBA::new(
                        a[1].as_u64().unwrap_or(0) as u8,
                        a[2].as_u64().unwrap_or(0) as u8,
                        a[3].as_u64().unwrap_or(0) as u8,
                        255,
                    )),
                    "p" => tree.prune(),
                    "u" => tree.prune_until(a[1].as_u64().unwrap_or(1) as usize),
                    "b" => {
                        let p: Vec<Rgb> = tree.build_palette().iter().map(|c| c.to_rgb()).collect();
                        obs.push(format!("BPal {}", crgbs(&p)));
                        obs_json.push(Value::Array(p.iter().map(jrgb).collect()));
                    }
                    "e" | "x" => {
                        let cols: Vec<RGBA> = a[1]
                            .as_array()
                            .cloned()
                            .unwrap_or_default()
                            .iter()
                            .map(|c| {
                                RGBA::new(
                                    c[0].as_u64().unwrap_or(0) as u8,
                                    c[1].as_u64().unwrap_or(0) as u8,
                                    c[2].as_u64().unwrap_or(0) as u8,
                                    255,
                                )
                            })
                            .collect();
                        if a[0].as_str() == Some("x") {
                            tree = cols.into_iter().collect::<OcTree>();
                        } else {
                            tree.extend(cols);
                        }
                    }
                    "n" => tree = OcTree::default(),
                    "c" => {
                        let copy = tree.clone();
                        tree = copy;
                    }
                    "f" => {
                        let q = RGBA::new(
                            a[1].as_u64().unwrap_or(0) as u8,
                            a[2].as_u64().unwrap_or(0) as u8,
                            a[3].as_u64().unwrap_or(0) as u8,
                            255,
                        );
                        let with_idx = find_clean2.get(n_find).copied().unwrap_or(false);
                        n_find += 1;
                        match tree.find(q) {
                            None => {
                                obs.push(if with_idx { "BFindIdx None".to_string() } else { "BFind None".to_string() });
                                obs_json.push(json!(["find", Value::Null]));
                            }
                            Some((i, c)) => {
                                let c = c.to_rgb();
                                obs.push(if with_idx {
                                    format!("BFindIdx (Some ({}, {}))", i, crgb(&c))
                                } else {
                                    format!("BFind (Some {})", crgb(&c))
                                });
                                obs_json.push(json!(["find", i, jrgb(&c)]));
                            }
                        }
                    }
                    _ => {
                        let mut buf = Vec::new();
                        tree.to_digraph(&mut buf).expect("digraph");
                        let text = String::from_utf8_lossy(&buf).to_string();
                        let d = parse_digraph(&text).unwrap_or_else(|| "DLeaf (0,0,0) 0".to_string());
                        obs.push(format!("BDig ({})", d));
                        obs_json.push(json!(d));
                    }
                }
            }
            (obs, obs_json)
        })
    });
    let hang = r.is_none();
    let (ic, ij) = match r {
        None => ("IHang".to_string(), json!("hang")),
        Some(None) => ("IPanic".to_string(), json!("panic")),
        Some(Some((obs, oj))) => (format!("(IOk {})", clist(obs)), Value::Array(oj)),
    };
    let mut j = input.clone();
    j["impl"] = ij;
    let mut d = inserted.clone();
    d.sort();
    d.dedup();
    (
        Case {
            coq: format!("OCT {} {}", clist(coq_ops), ic),
            json: j,
            tags: vec![
                "kind=oct".to_string(),
                format!("inserts={}", bucket(n_ins)),
                format!("distinct={}", bucket(d.len())),
                format!("pruned={}", pruned),
                format!("find_clone_extend={}", other_api),
                format!("manual_prunes={}", n_prune.min(3)),
            ],
            nontrivial: pruned,
        },
        hang,
    )
}

// ------------------------------------------------------------------ QNT

fn run_qnt(input: &Value) -> (Case, bool) {
    let w = input["w"].as_u64().unwrap_or(0) as usize;
    let h = input["h"].as_u64().unwrap_or(0) as usize;
    let data: Vec<[u8; 4]> = input["data"]
        .as_array()
        .map(|a| {
            a.iter()
                .map(|p| {
                    let v = vusizes(p);
                    [v[0] as u8, v[1] as u8, v[2] as u8, *v.get(3).unwrap_or(&255) as u8]
                })
                .collect()
        })
        .unwrap_or_default();
    let crop = input["crop"].as_array().map(|a| {
        let v: Vec<usize> = a.iter().map(|x| x.as_u64().unwrap_or(0) as usize).collect();
        (v[0], v[1], v[2], v[3])
    });
    let k = input["k"].as_u64().unwrap_or(1) as usize;
    let dither = input["dither"].as_bool().unwrap_or(false);
    let bg: Option<[u8; 4]> = input["bg"].as_array().map(|a| {
        let v: Vec<u8> = a.iter().map(|x| x.as_u64().unwrap_or(0) as u8).collect();
        [v[0], v[1], v[2], v[3]]
    });
    let bg_rgba = bg.map(|b| RGBA::new(b[0], b[1], b[2], b[3]));
    // the effective image, sliced by the harness itself; compositing through rasterize (oracle)
    let (r0, r1, c0, c1) = crop.unwrap_or((0, h, 0, w));
    let bg_eff = bg_rgba.unwrap_or_else(|| RGBA::new(0, 0, 0, 255));
    let mut rows: Vec<Vec<Rgb>> = vec![];
    let mut alpha = false;
    for r in r0..r1.min(h) {
        let mut row = vec![];
        for c in c0..c1.min(w) {
            let p = data[r * w + c];
            let px = RGBA::new(p[0], p[1], p[2], p[3]);
            if p[3] < 255 {
                alpha = true;
                row.push(bg_eff.blend_over(px).to_rgb());
            } else {
                row.push(px.to_rgb());
            }
        }
        rows.push(row);
    }
    let pixels: Vec<RGBA> = data.iter().map(|p| RGBA::new(p[0], p[1], p[2], p[3])).collect();
    let ctor = input["ctor"].as_u64().unwrap_or(0);
    let repeat = input.get("ctor").map(|c| !c.is_null()).unwrap_or(false) && w * h <= 2000;
    let r = with_timeout(30, move || {
        catch(move || {
            let img = Image::from_parts(pixels.into(), Shape::from(Size::new(h, w)));
            let img = match crop {
                None => img,
                Some((r0, r1, c0, c1)) => img.crop(r0..r1, c0..c1),
            };
            // the same picture through another construction path of Image
            let img = match ctor {
                1 => img.clone(),
                2 => Image::new(&img),
                3 => Image::from(img.to_owned_surf()),
                _ => img,
            };
            // quantize is a pure function of the picture: a second call on the same Image (only when another
            // construction path was asked for, to keep the run short) must give the same palette and indices
            if repeat {
                let a = img.quantize(k, dither, bg_rgba);
                let b = img.quantize(k, dither, bg_rgba);
                let same = match (&a, &b) {
                    (None, None) => true,
                    (Some((pa, qa)), Some((pb, qb))) => pa.colors() == pb.colors() && qa.data() == qb.data() && qa.shape() == qb.shape(),
                    _ => false,
                };
                assert!(same, "Image::quantize called twice on one image gave two results");
            }
            img.quantize(k, dither, bg_rgba).map(|(pal, q)| {
                let pal: Vec<Rgb> = pal.colors().iter().map(|c| c.to_rgb()).collect();
                let mut idx: Vec<Vec<usize>> = vec![];
                for r in 0..q.height() {
                    let mut row = vec![];
                    for c in 0..q.width() {
                        row.push(*q.get(surf_n_term::Position::new(r, c)).expect("index in range"));
                    }
                    idx.push(row);
                }
                (pal, idx)
            })
        })
    });
    let hang = r.is_none();
    let (ic, ij) = match &r {
        None => ("IHang".to_string(), json!("hang")),
        Some(None) => ("IPanic".to_string(), json!("panic")),
        Some(Some(None)) => ("INone".to_string(), json!("none")),
        Some(Some(Some((pal, idx)))) => (
            format!("(IOk ({}, {}))", crgbs(pal), clist(idx.iter().map(|r| cnums(r)))),
            json!({"pal": pal.iter().map(jrgb).collect::<Vec<_>>(), "idx": idx}),
        ),
    };
    let mut j = input.clone();
    j["impl"] = ij;
    let mut d: Vec<Rgb> = rows.iter().flatten().copied().collect();
    d.sort();
    d.dedup();
    let npix = rows.iter().map(|r| r.len()).sum::<usize>();
    let sampled = k > 0 && k.checked_mul(100).map(|d| npix / d >= 2).unwrap_or(false);
    (
        Case {
            coq: format!(
                "QNT {} {} {} {}",
                clist(rows.iter().map(|r| crgbs(r))),
                k,
                cbool(dither),
                ic
            ),
            json: j,
            tags: vec![
                "kind=qnt".to_string(),
                format!("k={}", if k > 100000 { "huge".to_string() } else { k.to_string() }),
                format!("dither={}", dither),
                format!("distinct={}", bucket(d.len())),
                format!("fits={}", d.len() <= k),
                format!("alpha={}", alpha),
                format!("crop={}", crop.is_some()),
                format!("small_view_of_large_parent={}", crop.is_some() && k > 0 && k.checked_mul(100).map(|d| (w * h) / d >= 2).unwrap_or(false) && !sampled),
                format!("sampled={}", sampled),
                format!("sample_factor={}", {
                    let f = k.checked_mul(100).map(|d| npix / d).unwrap_or(0);
                    match f { 0 | 1 => "<2", 2..=3 => "2-3", 4..=9 => "4-9", 10..=19 => "10-19", _ => ">=20" }
                }),
                format!("bg_alpha={}", match bg { None => "default", Some(b) if b[3] == 255 => "255", Some(b) if b[3] == 0 => "0", Some(_) => "translucent" }),
            ],
            nontrivial: d.len() >= 2,
        },
        hang,
    )
}

// ------------------------------------------------------------------ KDN / PAL

/// ColorPalette::new(pal): find_naive for every query, colors(), size(), get(i)
fn run_kdn(input: &Value) -> Case {
    let pal: Vec<Rgb> = input["pal"].as_array().map(|a| a.iter().map(vrgb).collect()).unwrap_or_default();
    let qs: Vec<Rgb> = input["qs"].as_array().map(|a| a.iter().map(vrgb).collect()).unwrap_or_default();
    let colors: Vec<RGBA> = pal.iter().map(rgba_of).collect();
    let palette = catch(move || ColorPalette::new(colors)).flatten();
    let mut impl_coq = vec![];
    let mut impl_json = vec![];
    for q in &qs {
        let r = match &palette {
            None => None,
            Some(p) => {
                let q = rgba_of(q);
                catch(std::panic::AssertUnwindSafe(|| p.find_naive(q)))
            }
        };
        match r {
            None => {
                impl_coq.push("IPanic".to_string());
                impl_json.push(json!("panic"));
            }
            Some((i, c)) => {
                let c = c.to_rgb();
                impl_coq.push(format!("IOk ({},{})", i, crgb(&c)));
                impl_json.push(json!([i, c[0], c[1], c[2]]));
            }
        }
    }
    let (cols, size): (Vec<Rgb>, usize) = match &palette {
        None => (vec![], 0),
        Some(p) => {
            // colors() and get(i) must be the same list
            let by_get: Vec<Rgb> = (0..p.size()).map(|i| p.get(i).to_rgb()).collect();
            let cols: Vec<Rgb> = p.colors().iter().map(|c| c.to_rgb()).collect();
            (if by_get == cols { cols } else { vec![] }, p.size())
        }
    };
    let mut j = input.clone();
    j["impl"] = json!({"naive": impl_json, "size": size});
    Case {
        coq: format!("KDN {} {} {} {} {}", crgbs(&pal), crgbs(&qs), clist(impl_coq), crgbs(&cols), size),
        json: j,
        tags: vec!["kind=kdn".to_string(), format!("pal={}", bucket(pal.len()))],
        nontrivial: pal.len() >= 2 && !qs.is_empty(),
    }
}

/// ColorPalette::from_image on a surface that is not an Image: a sub-view (Surface::view) or a transposed view
fn run_pal(input: &Value) -> (Case, bool) {
    let w = input["w"].as_u64().unwrap_or(0) as usize;
    let h = input["h"].as_u64().unwrap_or(0) as usize;
    let data: Vec<Rgb> = input["data"].as_array().map(|a| a.iter().map(vrgb).collect()).unwrap_or_default();
    let k = input["k"].as_u64().unwrap_or(1) as usize;
    let transposed = input["transpose"].as_bool().unwrap_or(false);
    let (r0, r1, c0, c1) = input["view"]
        .as_array()
        .map(|a| {
            let v: Vec<usize> = a.iter().map(|x| x.as_u64().unwrap_or(0) as usize).collect();
            (v[0], v[1], v[2], v[3])
        })
        .unwrap_or((0, h, 0, w));
    // the pixels in the surface's own row-major order, cut / transposed by the harness itself
    let mut rows: Vec<Vec<Rgb>> = vec![];
    for r in r0..r1.min(h) {
        rows.push((c0..c1.min(w)).map(|c| data[r * w + c]).collect());
    }
    if transposed {
        let (vh, vw) = (rows.len(), rows.first().map(|r| r.len()).unwrap_or(0));
        rows = (0..vw).map(|c| (0..vh).map(|r| rows[r][c]).collect()).collect();
    }
    let pixels: Vec<RGBA> = data.iter().map(rgba_of).collect();
    let r = with_timeout(30, move || {
        catch(move || {
            let img = Image::from_parts(pixels.into(), Shape::from(Size::new(h, w)));
            let bg = RGBA::new(0, 0, 0, 255);
            let view = img.view(r0..r1, c0..c1);
            let pal = if transposed { ColorPalette::from_image(view.transpose(), k, bg) } else { ColorPalette::from_image(view, k, bg) };
            pal.map(|p| p.colors().iter().map(|c| c.to_rgb()).collect::<Vec<Rgb>>())
        })
    });
    let hang = r.is_none();
    let (ic, ij) = match &r {
        None => ("IHang".to_string(), json!("hang")),
        Some(None) => ("IPanic".to_string(), json!("panic")),
        Some(Some(None)) => ("INone".to_string(), json!("none")),
        Some(Some(Some(p))) => (format!("(IOk {})", crgbs(p)), Value::Array(p.iter().map(jrgb).collect())),
    };
    let mut j = input.clone();
    j["impl"] = ij;
    let mut d: Vec<Rgb> = rows.iter().flatten().copied().collect();
    d.sort();
    d.dedup();
    (
        Case {
            coq: format!("PAL {} {} {}", clist(rows.iter().map(|r| crgbs(r))), k, ic),
            json: j,
            tags: vec!["kind=pal".to_string(), format!("transposed={}", transposed), format!("distinct={}", bucket(d.len()))],
            nontrivial: d.len() >= 2,
        },
        hang,
    )
}

// ------------------------------------------------------------------ ACC

/// `pixels` copies of one colour through OcTree::insert (what from_image does for a one-colour image that is
/// not sub-sampled), then build_palette.  Replays the input computed by props.d/C13.py from the declared
/// accumulator widths; sizes above 200 M are not run.
fn run_acc(input: &Value) -> (Case, bool) {
    let n = input["pixels"].as_u64().unwrap_or(0);
    let c = vrgb(&input["colour"]);
    let r = if n > 200_000_000 {
        None
    } else {
        with_timeout(600, move || {
            catch(move || {
                let mut tree = OcTree::new();
                let col = rgba_of(&c);
                for _ in 0..n {
                    tree.insert(col);
                }
                tree.build_palette().iter().map(|c| c.to_rgb()).collect::<Vec<Rgb>>()
            })
        })
    };
    let hang = r.is_none();
    let (ic, ij) = match &r {
        None => ("IHang".to_string(), json!("not run / hang")),
        Some(None) => ("IPanic".to_string(), json!("panic")),
        Some(Some(p)) if p.len() == 1 => (format!("(IOk {})", crgb(&p[0])), json!([p[0][0], p[0][1], p[0][2]])),
        Some(Some(p)) if p.is_empty() => ("INone".to_string(), json!("empty palette")),
        Some(Some(p)) => (format!("(IOk {})", crgb(&p[1])), json!("several colours")),
    };
    let mut j = input.clone();
    j["impl"] = ij;
    (
        Case {
            coq: format!("ACC {} {} {}", n, crgb(&c), ic),
            json: j,
            tags: vec!["kind=acc".to_string()],
            nontrivial: n >= 2,
        },
        hang && n <= 200_000_000,
    )
}

// ------------------------------------------------------------------ RND

fn run_rnd(input: &Value) -> Case {
    let seed = input["seed"].as_u64().unwrap_or(0) as u32;
    let n = input["n"].as_u64().unwrap_or(0) as usize;
    let mut rnd = surf_n_term::common::Rnd::with_seed(seed);
    let outs: Vec<u32> = (0..n).map(|_| rnd.next_u32()).collect();
    let mut j = input.clone();
    j["impl"] = json!(outs);
    Case {
        coq: format!("RND {} {}", seed, cnums(&outs)),
        json: j,
        tags: vec!["kind=rnd".to_string()],
        nontrivial: n >= 2,
    }
}

// ------------------------------------------------------------------ generators

const EDGE: [u8; 16] = [0, 1, 2, 3, 63, 64, 65, 126, 127, 128, 129, 191, 192, 253, 254, 255];

fn gen_color(rng: &mut Rng, style: u64, base: &Rgb) -> Rgb {
    match style {
        0 => [rng.byte(), rng.byte(), rng.byte()],
        1 => [*rng.pick(&EDGE), *rng.pick(&EDGE), *rng.pick(&EDGE)],
        // cluster around a base colour: low bits differ (deep shared octree paths, k-d ties)
        2 => [
            base[0] ^ (rng.below(4) as u8),
            base[1] ^ (rng.below(4) as u8),
            base[2] ^ (rng.below(4) as u8),
        ],
        // lattice
        3 => [(rng.below(5) * 60) as u8, (rng.below(5) * 60) as u8, (rng.below(5) * 60) as u8],
        // grey ramp
        4 => {
            let v = rng.byte();
            [v, v, v]
        }
        // one channel varies
        _ => {
            let mut c = *base;
            c[rng.below(3) as usize] = rng.byte();
            c
        }
    }
}

fn gen_colors(rng: &mut Rng, n: usize) -> Vec<Rgb> {
    let style = rng.below(8);
    let base = [rng.byte(), rng.byte(), rng.byte()];
    let mut v: Vec<Rgb> = vec![];
    for _ in 0..n {
        let s = if style >= 6 { rng.below(6) } else { style };
        let c = if !v.is_empty() && rng.chance(1, 6) {
            *rng.pick(&v) // duplicate
        } else {
            gen_color(rng, s, &base)
        };
        v.push(c);
    }
    v
}

fn gen_size(rng: &mut Rng, max: usize) -> usize {
    match rng.below(10) {
        0 => 1,
        1 => 2,
        2 | 3 => 1 + rng.below(8) as usize,
        4 | 5 | 6 => 1 + rng.below(40) as usize,
        7 | 8 => 1 + rng.below(130) as usize,
        _ => 1 + rng.below(max as u64) as usize,
    }
}

fn gen_kd(rng: &mut Rng, thorough: bool) -> Value {
    let n = gen_size(rng, 512);
    let pal = gen_colors(rng, n);
    let nq = if thorough { 24 } else { 12 };
    let mut qs: Vec<Rgb> = vec![];
    for _ in 0..nq {
        let q = match rng.below(6) {
            // on / next to a split plane: a palette entry moved by at most one in each channel
            0 | 1 | 2 => {
                let p = *rng.pick(&pal);
                let mut q = p;
                for ch in 0..3 {
                    let d = rng.range(-1, 1);
                    q[ch] = (q[ch] as i64 + d).clamp(0, 255) as u8;
                }
                q
            }
            // midpoint of two entries (distance ties)
            3 => {
                let a = *rng.pick(&pal);
                let b = *rng.pick(&pal);
                [
                    ((a[0] as u16 + b[0] as u16) / 2) as u8,
                    ((a[1] as u16 + b[1] as u16) / 2) as u8,
                    ((a[2] as u16 + b[2] as u16) / 2) as u8,
                ]
            }
            4 => [*rng.pick(&EDGE), *rng.pick(&EDGE), *rng.pick(&EDGE)],
            _ => [rng.byte(), rng.byte(), rng.byte()],
        };
        qs.push(q);
    }
    json!({"kind": "kd", "pal": pal.iter().map(jrgb).collect::<Vec<_>>(), "qs": qs.iter().map(jrgb).collect::<Vec<_>>()})
}

const KS: [u64; 9] = [1, 2, 7, 8, 9, 16, 256, 3, 12];

fn gen_oct(rng: &mut Rng) -> Value {
    let n = gen_size(rng, 300);
    let cols = gen_colors(rng, n);
    let mut ops: Vec<Value> = vec![];
    let ins = |c: &Rgb| json!(["i", c[0], c[1], c[2]]);
    match rng.below(4) {
        // the from_image pipeline
        0 | 1 => {
            ops.extend(cols.iter().map(ins));
            ops.push(json!(["d"]));
            ops.push(json!(["u", *rng.pick(&KS)]));
            ops.push(json!(["b"]));
            ops.push(json!(["d"]));
        }
        // manual prunes with the tree observed after each
        2 => {
            ops.extend(cols.iter().map(ins));
            let steps = 1 + rng.below(12);
            for _ in 0..steps {
                ops.push(json!(["p"]));
                if rng.chance(1, 2) {
                    ops.push(json!(["d"]));
                }
            }
            ops.push(json!(["b"]));
            ops.push(json!(["u", *rng.pick(&KS)]));
            ops.push(json!(["b"]));
            ops.push(json!(["d"]));
        }
        // inserts, pruning, more inserts
        _ => {
            let cut = rng.below(cols.len() as u64 + 1) as usize;
            ops.extend(cols[..cut].iter().map(ins));
            ops.push(json!(["u", *rng.pick(&KS)]));
            ops.push(json!(["b"]));
            if rng.chance(1, 2) {
                ops.push(json!(["p"]));
            }
            ops.extend(cols[cut..].iter().map(ins));
            ops.push(json!(["d"]));
            ops.push(json!(["u", *rng.pick(&KS)]));
            ops.push(json!(["b"]));
            ops.push(json!(["d"]));
        }
    }
    if rng.chance(1, 3) {
        ops = oct_other_api(rng, ops, &cols);
    }
    json!({"kind": "oct", "ops": ops})
}

/// The same histories through the rest of OcTree's public surface: the leading inserts through
/// FromIterator / Default + Extend, the history continued on clones, OcTree::find after build_palette (index
/// observed) and anywhere else (colour only) for inserted colours and near misses.
fn oct_other_api(rng: &mut Rng, ops: Vec<Value>, cols: &[Rgb]) -> Vec<Value> {
    let lead = ops.iter().take_while(|o| o[0].as_str() == Some("i")).count();
    let mut out: Vec<Value> = vec![];
    let list: Vec<Value> = ops[..lead].iter().map(|o| json!([o[1], o[2], o[3]])).collect();
    let mut rest = &ops[..];
    if lead > 0 {
        match rng.below(3) {
            0 => {
                out.push(json!(["i", 1, 2, 3]));
                out.push(json!(["x", list]));
                rest = &ops[lead..];
            }
            1 => {
                out.push(json!(["n"]));
                let cut = rng.below(lead as u64 + 1) as usize;
                out.push(json!(["e", list[..cut].to_vec()]));
                out.push(json!(["e", list[cut..].to_vec()]));
                rest = &ops[lead..];
            }
            _ => {}
        }
    }
    let query = |rng: &mut Rng| -> Value {
        let mut c = if cols.is_empty() { [0, 0, 0] } else { *rng.pick(cols) };
        if rng.chance(1, 3) {
            let ch = rng.below(3) as usize;
            c[ch] ^= 1 << rng.below(8);
        }
        json!(["f", c[0], c[1], c[2]])
    };
    for o in rest {
        if rng.chance(1, 12) {
            out.push(json!(["c"]));
        }
        if rng.chance(1, 15) {
            out.push(query(rng));
        }
        out.push(o.clone());
        if o[0].as_str() == Some("b") {
            let n = 1 + rng.below(4);
            for _ in 0..n {
                out.push(query(rng));
            }
            if rng.chance(1, 2) {
                out.push(json!(["c"]));
                out.push(query(rng));
            }
        }
    }
    out
}

fn gen_qnt(rng: &mut Rng, big: bool) -> Value {
    let k = if big { 1 + rng.below(16) } else { *rng.pick(&KS) };
    let (h, w) = if big {
        // enough pixels for the subsampling branch: h*w / (k*100) in 2..~40, up to ~10k pixels
        let w = 10 + rng.below(90) as usize;
        let lo = 200 * k as usize;
        // sample factors from 2 up to 50 (small k, many pixels), at most 10k pixels
        let hi = (lo * if rng.chance(1, 2) { 4 } else { 25 }).min(10000).max(lo + 1);
        let need = lo + rng.below((hi - lo) as u64) as usize;
        (need / w + 1, w)
    } else {
        (1 + rng.below(12) as usize, 1 + rng.below(16) as usize)
    };
    // colours: few or many
    let ncol = match rng.below(4) {
        0 => 1 + rng.below(3) as usize,
        1 => 1 + rng.below(k.min(300)) as usize,
        2 => 1 + rng.below(20) as usize,
        _ => h * w,
    };
    let cols = gen_colors(rng, ncol.max(1));
    let with_alpha = rng.chance(1, 3);
    let mut data = vec![];
    for _ in 0..h * w {
        let c = *rng.pick(&cols);
        let rb = rng.byte();
        let a: u8 = if with_alpha && rng.chance(1, 3) { *rng.pick(&[0u8, 1, 127, 128, 254, rb]) } else { 255 };
        data.push(json!([c[0], c[1], c[2], a]));
    }
    let crop = if rng.chance(1, 3) {
        let r0 = rng.below(h as u64) as usize;
        let r1 = r0 + 1 + rng.below((h - r0) as u64) as usize;
        let c0 = rng.below(w as u64) as usize;
        let c1 = c0 + 1 + rng.below((w - c0) as u64) as usize;
        json!([r0, r1, c0, c1])
    } else {
        Value::Null
    };
    let bg = if rng.chance(1, 2) {
        // opaque and translucent backgrounds (the latter reach rasterize's un-premultiplication)
        let rb = rng.byte();
        let a = if rng.chance(1, 3) { *rng.pick(&[0u8, 1, 127, 254, rb]) } else { 255 };
        json!([rng.byte(), rng.byte(), rng.byte(), a])
    } else {
        Value::Null
    };
    json!({"kind": "qnt", "w": w, "h": h, "data": data, "crop": crop, "k": k, "dither": rng.chance(1, 2), "bg": bg})
}

/// n pairwise distinct colours
fn gen_distinct(rng: &mut Rng, n: usize) -> Vec<Rgb> {
    let mut v: Vec<Rgb> = vec![];
    let style = rng.below(3);
    let base = [rng.byte(), rng.byte(), rng.byte()];
    let mut guard = 0;
    while v.len() < n && guard < 100000 {
        guard += 1;
        let c = match style {
            0 => [rng.byte(), rng.byte(), rng.byte()],
            // deep shared prefixes: only the low 3 bits of each channel vary (512 values)
            1 => [
                (base[0] & 0xf8) | rng.below(8) as u8,
                (base[1] & 0xf8) | rng.below(8) as u8,
                (base[2] & 0xf8) | rng.below(8) as u8,
            ],
            _ => [*rng.pick(&EDGE), *rng.pick(&EDGE), *rng.pick(&EDGE)],
        };
        if !v.contains(&c) {
            v.push(c);
        }
    }
    v
}

/// octree pipeline with exactly max(k,8) + delta distinct colours (delta in -1, 0, +1, +2)
fn gen_oct_boundary(rng: &mut Rng) -> Value {
    let k = *rng.pick(&KS);
    let m = (k.max(8) as i64 + rng.range(-1, 2)).max(1) as usize;
    let cols = gen_distinct(rng, m);
    let mut seq: Vec<Rgb> = cols.clone();
    for _ in 0..rng.below(2 * m as u64 + 1) {
        seq.push(*rng.pick(&cols));
    }
    // shuffle
    for i in (1..seq.len()).rev() {
        let j = rng.below(i as u64 + 1) as usize;
        seq.swap(i, j);
    }
    let mut ops: Vec<Value> = seq.iter().map(|c| json!(["i", c[0], c[1], c[2]])).collect();
    ops.push(json!(["u", k]));
    ops.push(json!(["b"]));
    ops.push(json!(["d"]));
    json!({"kind": "oct", "ops": ops})
}

/// image with exactly m distinct colours, m around k and around max(k,8); or one dominant colour
/// plus a few single pixels of other colours (what subsampling would lose)
fn gen_qnt_boundary(rng: &mut Rng) -> Value {
    let k = *rng.pick(&KS);
    let rare = rng.chance(1, 3);
    let m = if rare {
        // fits the requested size, so the image must come back exactly
        (1 + rng.below(k.min(6)) as usize).max(if k >= 2 { 2 } else { 1 })
    } else {
        let around = if rng.chance(1, 2) { k } else { k.max(8) };
        (around as i64 + rng.range(-1, 1)).max(1) as usize
    };
    let cols = gen_distinct(rng, m);
    let (h, w) = if rare {
        (4 + rng.below(9) as usize, 8 + rng.below(13) as usize)
    } else {
        let w = 1 + rng.below(16) as usize;
        ((m + w - 1) / w + rng.below(3) as usize, w)
    };
    let npix = h * w;
    let mut px: Vec<Rgb> = vec![];
    if rare {
        px = vec![cols[0]; npix];
        for c in cols.iter().skip(1) {
            let at = rng.below(npix as u64) as usize;
            px[at] = *c;
        }
    } else {
        for i in 0..npix {
            px.push(if i < m { cols[i] } else { *rng.pick(&cols) });
        }
        for i in (1..px.len()).rev() {
            let j = rng.below(i as u64 + 1) as usize;
            px.swap(i, j);
        }
    }
    let data: Vec<Value> = px.iter().map(|c| json!([c[0], c[1], c[2], 255])).collect();
    json!({"kind": "qnt", "w": w, "h": h, "data": data, "crop": Value::Null, "k": k, "dither": rng.chance(1, 2), "bg": Value::Null})
}

/// a small cropped view (a few pixels, colours fitting the requested size) of a LARGE parent image
/// (parent >= 200 * k pixels): crop/view share the parent's buffer, the view itself is far below the
/// sub-sampling threshold, so it must be quantised from all of its own pixels and come back exactly
fn gen_qnt_small_crop(rng: &mut Rng) -> Value {
    let k = *rng.pick(&[1u64, 1, 2, 2, 3, 7, 8, 9]);
    let w = 12 + rng.below(30) as usize;
    let need = 200 * k as usize + rng.below(300) as usize;
    let h = need / w + 2;
    // the view
    let vh = 1 + rng.below(3) as usize;
    let vw = 1 + rng.below(3) as usize;
    let r0 = rng.below((h - vh + 1) as u64) as usize;
    let c0 = rng.below((w - vw + 1) as u64) as usize;
    let m = (1 + rng.below(k.min((vh * vw) as u64)) as usize).max(1);
    let view_cols = gen_distinct(rng, m);
    let other = gen_colors(rng, 40);
    let mut data = vec![];
    for r in 0..h {
        for c in 0..w {
            let inside = r >= r0 && r < r0 + vh && c >= c0 && c < c0 + vw;
            let col = if inside {
                let idx = (r - r0) * vw + (c - c0);
                if idx < m { view_cols[idx] } else { *rng.pick(&view_cols) }
            } else {
                *rng.pick(&other)
            };
            data.push(json!([col[0], col[1], col[2], 255]));
        }
    }
    json!({"kind": "qnt", "w": w, "h": h, "data": data, "crop": [r0, r0 + vh, c0, c0 + vw], "k": k,
           "dither": rng.chance(1, 2), "bg": Value::Null})
}

/// requested sizes around usize::MAX / 100 and powers of two up to 2^63 (`palette_size * 100`)
const HUGE_KS: [u64; 10] = [
    184467440737095516,      // floor(2^64 / 100): the product still fits
    184467440737095517,      // the first size whose product does not fit
    184467440737095515,
    1 << 62,
    1 << 63,
    u64::MAX,
    u64::MAX / 2,
    (1 << 57) + 1,           // product < 2^64
    368934881474191033,      // 2 * floor(2^64/100) + 1: wraps to a small divisor (100)
    553402322211286549,      // wraps to 84
];

fn gen_qnt_huge_k(rng: &mut Rng) -> Value {
    let mut v = if rng.chance(1, 2) { gen_qnt_boundary(rng) } else { gen_qnt(rng, false) };
    let k = *rng.pick(&HUGE_KS);
    v["k"] = json!(k);
    if rng.chance(1, 2) {
        // 250..700 pixels, few colours, one of them rare: a release build of the unfixed code wraps
        // `palette_size * 100` to 100 or 84 for two of these sizes, sub-samples such an image and loses the colour
        let w = 16 + rng.below(20) as usize;
        let h = 250 / w + 1 + rng.below(20) as usize;
        let cols = gen_distinct(rng, 4);
        let mut data: Vec<Value> = (0..w * h).map(|_| { let c = cols[rng.below(3) as usize]; json!([c[0], c[1], c[2], 255]) }).collect();
        let at = rng.below((w * h) as u64) as usize;
        data[at] = json!([cols[3][0], cols[3][1], cols[3][2], 255]);
        v = json!({"kind": "qnt", "w": w, "h": h, "data": data, "crop": Value::Null, "k": k, "dither": rng.chance(1, 2), "bg": Value::Null});
    }
    v
}

fn gen_pal(rng: &mut Rng) -> Value {
    let k = *rng.pick(&KS);
    let big = rng.chance(1, 4);
    let (h, w) = if big {
        let w = 10 + rng.below(40) as usize;
        ((200 * k.min(8) as usize + rng.below(400) as usize) / w + 2, w)
    } else {
        (1 + rng.below(12) as usize, 1 + rng.below(16) as usize)
    };
    let ncols = 1 + rng.below(24) as usize;
    let cols = gen_colors(rng, ncols);
    let data: Vec<Value> = (0..h * w).map(|_| jrgb(rng.pick(&cols))).collect();
    let r0 = rng.below(h as u64) as usize;
    let r1 = r0 + 1 + rng.below((h - r0) as u64) as usize;
    let c0 = rng.below(w as u64) as usize;
    let c1 = c0 + 1 + rng.below((w - c0) as u64) as usize;
    let view = if rng.chance(1, 2) { json!([r0, r1, c0, c1]) } else { json!([0, h, 0, w]) };
    json!({"kind": "pal", "w": w, "h": h, "data": data, "k": if big { k.min(8) } else { k }, "view": view, "transpose": rng.chance(1, 2)})
}

/// image sizes, requested sizes and colour counts aimed at the integer constants written in src/image.rs and
/// their neighbours: pixel count vs palette size (h*w in {k-1, k, k+1, 100k.., 200k..}), distinct colours
/// around k and around max(k, 8)
fn gen_qnt_source_boundary(rng: &mut Rng) -> Value {
    let bs = source_boundaries(&["src/image.rs"], 300);
    let k = if bs.is_empty() { 8 } else { (*rng.pick(&bs)).max(1) };
    let npix = match rng.below(5) {
        0 => k.saturating_sub(1).max(1),
        1 => k,
        2 => k + 1,
        3 => (199 * k + rng.below(3)).min(3000),      // around the sub-sampling threshold h*w / (100k) = 2
        _ => (2 * k).max(2),
    } as usize;
    // h * w is exactly the aimed pixel count: the width is one of its divisors
    let npix = npix.max(1);
    let divs: Vec<usize> = (1..=npix.min(64)).filter(|d| npix % d == 0).collect();
    let d = *rng.pick(&divs);
    let (h, w) = if rng.chance(1, 2) { (npix / d, d) } else { (d, npix / d) };
    let m = match rng.below(4) {
        0 => k.saturating_sub(1).max(1),
        1 => k,
        2 => k + 1,
        _ => k.max(8),
    }
    .min((h * w) as u64) as usize;
    let cols = gen_distinct(rng, m.max(1));
    let mut px: Vec<Rgb> = (0..h * w).map(|i| if i < cols.len() { cols[i] } else { cols[i % cols.len()] }).collect();
    for i in (1..px.len()).rev() {
        let j = rng.below(i as u64 + 1) as usize;
        px.swap(i, j);
    }
    let data: Vec<Value> = px.iter().map(|c| json!([c[0], c[1], c[2], 255])).collect();
    json!({"kind": "qnt", "w": w, "h": h, "data": data, "crop": Value::Null, "k": k, "dither": rng.chance(1, 2), "bg": Value::Null,
           "ctor": rng.below(4)})
}

pub fn generate(rng: &mut Rng, n: usize, tier: &str) -> Vec<Value> {
    let thorough = tier == "thorough";
    let mut v = vec![];
    // common::Rnd against the model: the seed from_image uses (0) and a few others, long streams
    v.push(json!({"kind": "rnd", "seed": 0, "n": 400}));
    for _ in 0..3 {
        v.push(json!({"kind": "rnd", "seed": (rng.next() & 0xffff_ffff), "n": 120}));
    }
    for i in 0..n {
        let x = match i % 10 {
            0 | 1 => gen_kd(rng, thorough),
            2 => {
                // the same palettes through find_naive / colors / size / get
                let mut v = gen_kd(rng, thorough);
                if i % 20 == 2 {
                    v["kind"] = json!("kdn");
                }
                v
            }
            3 | 4 | 5 => gen_oct(rng),
            6 => {
                if i % 20 == 6 {
                    gen_pal(rng)
                } else if i % 20 == 16 {
                    gen_qnt_source_boundary(rng)
                } else {
                    let mut v = gen_qnt(rng, false);
                    v["ctor"] = json!(rng.below(4));
                    v
                }
            }
            7 => {
                if i % 30 == 7 {
                    gen_qnt_huge_k(rng)
                } else {
                    gen_qnt(rng, false)
                }
            }
            8 => {
                if i % 20 == 8 {
                    gen_qnt_small_crop(rng)
                } else {
                    gen_qnt(rng, false)
                }
            }
            _ => {
                if i % 20 == 9 {
                    gen_qnt(rng, true)
                } else if i % 40 == 19 {
                    gen_oct_boundary(rng)
                } else {
                    gen_qnt_boundary(rng)
                }
            }
        };
        let mut x = x;
        // every quantize case may reach the picture through another construction path
        if x["kind"].as_str() == Some("qnt") && x.get("ctor").is_none() && rng.below(2) == 0 {
            x["ctor"] = json!(rng.below(4));
        }
        v.push(x);
    }
    v
}

pub fn batch(inputs: &[Value]) -> Batch {
    let mut cases = vec![];
    for input in inputs {
        let (case, hang) = match input["kind"].as_str().unwrap_or("") {
            "kd" => (run_kd(input), false),
            "kdn" => (run_kdn(input), false),
            "pal" => run_pal(input),
            "rnd" => (run_rnd(input), false),
            "acc" | "accumulator-overflow" => run_acc(input),
            "oct" => run_oct(input),
            _ => run_qnt(input),
        };
        cases.push(case);
        if hang {
            // an abandoned thread is still spinning: report what we have
            break;
        }
    }
    Batch {
        prop: "C13",
        coq_import: "Corr.C13Corr",
        case_type: "c13_case",
        report_fn: "c13_report",
        rule: "kd: palette of >= 2 colours and >= 1 query; oct: at least one colour was pruned away (manual prune, or more distinct colours than max(k,8)); qnt: image with >= 2 distinct effective colours",
        cases,
        preamble: String::new(),
    }
}
