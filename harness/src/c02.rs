//! C02: input decoding is total and events are well formed.
//!
//! The three public decoders are run in a CHILD process (`snt_harness tool c02run`): an abort
//! (`from_u32_unchecked` debug assertion, stack overflow) or a hang (alarm) kills the child, the
//! parent records the case in flight as crashed and restarts the child for the remaining cases.
use crate::util::*;
use serde_json::{json, Value};
use std::io::{BufRead, BufReader, Cursor, Write};
use std::panic::AssertUnwindSafe;
use std::process::{Child, ChildStdin, ChildStdout, Command, Stdio};
use std::sync::OnceLock;
use surf_n_term::decoder::{verif, Decoder, TTYCommandDecoder, TTYEventDecoder, Utf8Decoder};
use surf_n_term::{FaceModify, Key, KeyMod, KeyName, TerminalColor, TerminalCommand, TerminalEvent, UnderlineStyle, RGBA};

// ------------------------------------------------------------------ running the implementation (child side)

fn literal_names() -> &'static Vec<String> {
    static NAMES: OnceLock<Vec<String>> = OnceLock::new();
    NAMES.get_or_init(|| {
        // same interning order as tool_dfa / translate/dfa.py (Gen/ProdDFA.v tags)
        let d = verif::dump_dfa("event").expect("dump");
        let mut items = crate::registry::tool_dfa::Items::new();
        for (_, _, tags) in d.infos.iter() {
            for t in tags {
                crate::registry::tool_dfa::tag_of(&mut items, t);
            }
        }
        items.names
    })
}

fn mod_bits(m: KeyMod) -> u64 {
    let flags = [
        (KeyMod::SHIFT, 1u64),
        (KeyMod::ALT, 2),
        (KeyMod::CTRL, 4),
        (KeyMod::SUPER, 8),
        (KeyMod::HYPER, 16),
        (KeyMod::META, 32),
        (KeyMod::CAPSLOCK, 64),
        (KeyMod::NUMLOCK, 128),
        (KeyMod::PRESS, 256),
    ];
    flags.iter().filter(|(f, _)| m.contains(*f)).map(|(_, b)| *b).sum()
}

fn key_name(n: &KeyName) -> (u64, u64) {
    match n {
        KeyName::Esc => (0, 0),
        KeyName::Enter => (1, 0),
        KeyName::Tab => (2, 0),
        KeyName::Backspace => (3, 0),
        KeyName::F(i) => (4, *i as u64),
        KeyName::Char(c) => (5, *c as u32 as u64),
        KeyName::Delete => (6, 0),
        KeyName::Insert => (7, 0),
        KeyName::Down => (8, 0),
        KeyName::End => (9, 0),
        KeyName::Home => (10, 0),
        KeyName::Left => (11, 0),
        KeyName::PageDown => (12, 0),
        KeyName::PageUp => (13, 0),
        KeyName::Right => (14, 0),
        KeyName::Up => (15, 0),
        _ => (16, 0),
    }
}

fn mouse_name(n: &KeyName) -> u64 {
    match n {
        KeyName::MouseLeft => 0,
        KeyName::MouseMiddle => 1,
        KeyName::MouseRight => 2,
        KeyName::MouseMove => 3,
        KeyName::MouseWheelDown => 4,
        KeyName::MouseWheelUp => 5,
        _ => 9,
    }
}

fn enc_key(k: &Key, debug: String) -> Value {
    let lit = literal_names().iter().position(|n| *n == debug);
    let (kind, arg) = key_name(&k.name);
    json!({"key": [lit, kind, arg, mod_bits(k.mode)]})
}

fn enc_rgb(c: &Option<RGBA>) -> Value {
    match c {
        None => Value::Null,
        Some(c) => json!([c.red(), c.green(), c.blue()]),
    }
}

fn enc_facem(f: &FaceModify) -> Value {
    let ul = f.underline.map(|u| match u {
        UnderlineStyle::None => 0,
        UnderlineStyle::Straight => 1,
        UnderlineStyle::Double => 2,
        UnderlineStyle::Curly => 3,
        UnderlineStyle::Dotted => 4,
        UnderlineStyle::Dashed => 5,
    });
    json!({"facem": [f.reset, enc_rgb(&f.fg), enc_rgb(&f.bg), enc_rgb(&f.underline_color), ul, f.bold, f.italic, f.blink, f.strike]})
}

fn enc_event(e: &TerminalEvent) -> Value {
    match e {
        TerminalEvent::Raw(b) => json!({"raw": jbytes(b)}),
        TerminalEvent::Key(k) => enc_key(k, format!("{:?}", e)),
        TerminalEvent::Mouse(m) => json!({"mouse": [mouse_name(&m.name), mod_bits(m.mode), m.pos.row, m.pos.col]}),
        TerminalEvent::CursorPosition(p) => json!({"cursor": [p.row, p.col]}),
        TerminalEvent::Size(s) => json!({"size": [s.cells.height, s.cells.width, s.pixels.height, s.pixels.width]}),
        TerminalEvent::DecMode { mode, status } => json!({"decmode": [*mode as usize, *status as usize]}),
        TerminalEvent::KittyImage { id, placement, error } => json!({"kitty": [id, placement, error.is_some()]}),
        TerminalEvent::KeyboardLevel(n) => json!({"level": n}),
        TerminalEvent::Termcap(_) => json!("termcap"),
        TerminalEvent::DeviceAttrs(set) => json!({"attrs": set.iter().collect::<Vec<_>>()}),
        TerminalEvent::Color { name, color } => {
            let c = [color.red(), color.green(), color.blue()];
            match name {
                TerminalColor::Foreground => json!({"color": [0, 0, c]}),
                TerminalColor::Background => json!({"color": [1, 0, c]}),
                TerminalColor::Palette(i) => json!({"color": [2, i, c]}),
            }
        }
        TerminalEvent::FaceGet(f) => json!({"faceget": [enc_rgb(&f.fg), enc_rgb(&f.bg)]}),
        TerminalEvent::Command(TerminalCommand::FaceModify(f)) => enc_facem(f),
        TerminalEvent::Paste(s) => json!({"paste": jbytes(s.as_bytes())}),
        _ => json!("other"),
    }
}

fn enc_command(c: &TerminalCommand) -> Value {
    match c {
        TerminalCommand::Raw(b) => json!({"raw": jbytes(b)}),
        TerminalCommand::Char(c) => json!({"char": *c as u32}),
        TerminalCommand::FaceModify(f) => enc_facem(f),
        _ => json!("other"),
    }
}

/// all 256 strings `prefix ++ [a, b]` through TTYEventDecoder / TTYCommandDecoder, whole and byte by
/// byte: no panic, same events, exhausted decoder returns None, raw events non-empty and in order
fn sweep_block(input: &Value) -> Value {
    let prefix = vbytes(&input["prefix"]);
    let a = input["a"].as_u64().unwrap_or(0) as u8;
    let which = input["which"].as_u64().unwrap_or(0);
    let mut bad: Vec<Value> = vec![];
    for b in 0..=255u8 {
        let mut data = prefix.clone();
        data.push(a);
        data.push(b);
        let n = data.len();
        let case = json!({"kind":"ev","which":which,"input":jbytes(&data),"parts":[[n], vec![1usize; n]]});
        let r = exec(&case);
        let runs = r.as_array().cloned().unwrap_or_default();
        let ok = runs.len() == 2
            && runs.iter().all(|x| x.is_object() && x["exhausted"].as_bool() == Some(true))
            && runs[0] == runs[1]
            && runs[0]["events"].as_array().map(|evs| {
                // raw events are non-empty and their bytes occur in the input in order
                let mut pos = 0usize;
                evs.iter().all(|e| match e.get("raw") {
                    Some(raw) => {
                        let raw = vbytes(raw);
                        if raw.is_empty() {
                            return false;
                        }
                        match (pos..=data.len().saturating_sub(raw.len())).find(|i| data[*i..].starts_with(&raw)) {
                            Some(i) => {
                                pos = i + raw.len();
                                true
                            }
                            None => false,
                        }
                    }
                    None => true,
                })
            }).unwrap_or(false);
        if !ok {
            bad.push(json!({"input": jbytes(&data), "impl": r}));
        }
    }
    json!({"bad": bad})
}

/// run one case on the real decoders; the result goes under "impl"
pub fn exec(input: &Value) -> Value {
    let kind = input["kind"].as_str().unwrap_or("ev");
    if kind == "sweep" {
        return sweep_block(input);
    }
    let data = vbytes(&input["input"]);
    let parts: Vec<Vec<usize>> = input["parts"].as_array().map(|a| a.iter().map(vusizes).collect()).unwrap_or_default();
    let mut outs = vec![];
    for cuts in parts.iter() {
        let r = catch(AssertUnwindSafe(|| {
            let mut out: Vec<Value> = vec![];
            let mut pos = 0;
            let mut exhausted = true;
            if kind == "u8" {
                let mut dec = Utf8Decoder::new();
                for n in cuts {
                    let end = (pos + n).min(data.len());
                    let mut cur = Cursor::new(&data[pos..end]);
                    loop {
                        match dec.decode(&mut cur) {
                            Ok(Some(c)) => out.push(json!(c as u32)),
                            Ok(None) => break,
                            Err(_) => out.push(json!("err")),
                        }
                    }
                    pos = end;
                }
            } else if input["which"].as_u64().unwrap_or(0) == 0 {
                let mut dec = TTYEventDecoder::new();
                for n in cuts {
                    let end = (pos + n).min(data.len());
                    let mut evs = vec![];
                    dec.decode_into(Cursor::new(&data[pos..end]), &mut evs).expect("decode_into");
                    out.extend(evs.iter().map(enc_event));
                    pos = end;
                }
                exhausted = matches!(dec.decode(Cursor::new(&[][..])), Ok(None));
            } else {
                let mut dec = TTYCommandDecoder::new();
                for n in cuts {
                    let end = (pos + n).min(data.len());
                    let mut evs = vec![];
                    dec.decode_into(Cursor::new(&data[pos..end]), &mut evs).expect("decode_into");
                    out.extend(evs.iter().map(enc_command));
                    pos = end;
                }
                exhausted = matches!(dec.decode(Cursor::new(&[][..])), Ok(None));
            }
            json!({"events": out, "exhausted": exhausted})
        }));
        outs.push(r.unwrap_or(json!("panic")));
    }
    // multi-step histories over scripted readers (tool_oddreader.rs): decoder reused after reader errors,
    // empty reads, one-byte / repeated fill_buf windows, decode and decode_into mixed, Default::default()
    for (sticky, script, ops) in crate::registry::tool_oddreader::hist_specs(&input["hist"]) {
        use crate::registry::tool_oddreader::{drive, Hist, Step};
        fn fin<I>(h: Hist<I>, enc: &dyn Fn(&I) -> Value) -> Value {
            if let Some(note) = h.fail {
                return json!(format!("history failed: {}", note));
            }
            let events: Vec<Value> = h.steps.iter().map(|s| match s { Step::Item(i) => enc(i), Step::OwnErr => json!("err") }).collect();
            json!({"events": events, "exhausted": h.exhausted, "cuts": h.cuts})
        }
        let r = catch(AssertUnwindSafe(|| {
            if kind == "u8" {
                fin(drive::<Utf8Decoder>(&data, &script, sticky, &ops, &|e: &std::io::Error| e.kind() == std::io::ErrorKind::InvalidInput), &|c| json!(*c as u32))
            } else if input["which"].as_u64().unwrap_or(0) == 0 {
                fin(drive::<TTYEventDecoder>(&data, &script, sticky, &ops, &|_| false), &enc_event)
            } else {
                fin(drive::<TTYCommandDecoder>(&data, &script, sticky, &ops, &|_| false), &enc_command)
            }
        }));
        outs.push(r.unwrap_or(json!("panic")));
    }
    Value::Array(outs)
}

// ------------------------------------------------------------------ parent side: child management

struct Worker {
    child: Child,
    stdin: ChildStdin,
    stdout: BufReader<ChildStdout>,
}

fn spawn() -> Option<Worker> {
    let exe = std::env::current_exe().ok()?;
    let mut child = Command::new(exe)
        .args(["tool", "c02run"])
        .stdin(Stdio::piped())
        .stdout(Stdio::piped())
        .stderr(Stdio::null())
        .spawn()
        .ok()?;
    let stdin = child.stdin.take()?;
    let stdout = BufReader::new(child.stdout.take()?);
    Some(Worker { child, stdin, stdout })
}

/// impl results for all inputs; a crashed child yields "abort" for the case in flight
pub fn exec_all(inputs: &[Value]) -> Vec<Value> {
    let mut res = Vec::with_capacity(inputs.len());
    let mut w = spawn();
    for input in inputs {
        let mut answer: Option<Value> = None;
        if w.is_none() {
            w = spawn();
        }
        if let Some(worker) = w.as_mut() {
            let line = format!("{}\n", input);
            if worker.stdin.write_all(line.as_bytes()).is_ok() && worker.stdin.flush().is_ok() {
                let mut buf = String::new();
                if let Ok(n) = worker.stdout.read_line(&mut buf) {
                    if n > 0 {
                        answer = serde_json::from_str(&buf).ok();
                    }
                }
            }
        }
        match answer {
            Some(v) => res.push(v),
            None => {
                // the child died (abort / alarm): that is the observation for this case
                if let Some(mut worker) = w.take() {
                    let _ = worker.child.kill();
                    let _ = worker.child.wait();
                }
                res.push(json!("abort"));
            }
        }
    }
    if let Some(mut worker) = w.take() {
        drop(worker.stdin);
        let _ = worker.child.wait();
    }
    res
}

/// exhaustive sweeps (run through the child, so that an abort is an observation): all two-byte
/// strings through both decoders, all `ESC [` + two bytes through the event decoder
pub fn sweep_main() -> i32 {
    let mut blocks = vec![];
    for a in 0..=255u64 {
        blocks.push(json!({"kind":"sweep","which":0,"prefix":[],"a":a}));
        blocks.push(json!({"kind":"sweep","which":1,"prefix":[],"a":a}));
        blocks.push(json!({"kind":"sweep","which":0,"prefix":[27, 91],"a":a}));
    }
    let res = exec_all(&blocks);
    let mut violations = vec![];
    for (b, r) in blocks.iter().zip(res.iter()) {
        match r.get("bad").and_then(|x| x.as_array()) {
            Some(bad) => {
                for x in bad {
                    violations.push(json!({"kind":"ev","which":b["which"],"class":"sweep","input":x["input"],"parts":[[x["input"].as_array().map(|a| a.len()).unwrap_or(0)]],"impl":x["impl"]}));
                }
            }
            None => violations.push(json!({"block": b, "impl": "abort"})),
        }
    }
    println!("{}", json!({"strings": blocks.len() * 256, "violations": violations}));
    0
}

/// child main loop: one JSON case per line on stdin, one JSON result per line on stdout
pub fn child_main() -> i32 {
    std::panic::set_hook(Box::new(|_| {}));
    let stdin = std::io::stdin();
    let stdout = std::io::stdout();
    for line in stdin.lock().lines() {
        let Ok(line) = line else { break };
        let Ok(input) = serde_json::from_str::<Value>(&line) else { continue };
        unsafe {
            libc::alarm(20);
        }
        let r = exec(&input);
        unsafe {
            libc::alarm(0);
        }
        let mut out = stdout.lock();
        if writeln!(out, "{}", r).is_err() || out.flush().is_err() {
            break;
        }
    }
    0
}

// ------------------------------------------------------------------ Coq terms

fn cn_v(v: &Value) -> String {
    v.as_u64().map(|n| n.to_string()).unwrap_or_else(|| "0".into())
}

fn crgb(v: &Value) -> String {
    match v.as_array() {
        Some(a) if a.len() == 3 => format!("(Some ({}, {}, {}))", cn_v(&a[0]), cn_v(&a[1]), cn_v(&a[2])),
        _ => "None".into(),
    }
}

fn cobool(v: &Value) -> String {
    copt(v.as_bool().map(|b| cbool(b).to_string()))
}

fn chev(v: &Value) -> String {
    if let Some(s) = v.as_str() {
        return match s {
            "termcap" => "HTermcap".into(),
            _ => "HOther".into(),
        };
    }
    let o = v.as_object().unwrap();
    let (k, a) = o.iter().next().unwrap();
    let at = |i: usize| cn_v(&a[i]);
    match k.as_str() {
        "raw" => format!("HRaw {}", cbytes(&vbytes(a))),
        "key" => format!("HKey {} {} {} {}", copt(a[0].as_u64().map(|n| n.to_string())), at(1), at(2), at(3)),
        "char" => format!("HChar {}", cn_v(a)),
        "level" => format!("HKeyLevel {}", cn_v(a)),
        "cursor" => format!("HCursor {} {}", at(0), at(1)),
        "mouse" => format!("HMouse {} {} {} {}", at(0), at(1), at(2), at(3)),
        "size" => format!("HSize {} {} {} {}", at(0), at(1), at(2), at(3)),
        "decmode" => format!("HDecMode {} {}", at(0), at(1)),
        "attrs" => format!("HDevAttrs {}", clist(a.as_array().unwrap().iter().map(cn_v))),
        "kitty" => format!("HKitty {} {} {}", at(0), copt(a[1].as_u64().map(|n| n.to_string())), cbool(a[2].as_bool().unwrap_or(false))),
        "color" => format!(
            "HColor {} {} ({}, {}, {})",
            at(0),
            at(1),
            cn_v(&a[2][0]),
            cn_v(&a[2][1]),
            cn_v(&a[2][2])
        ),
        "paste" => format!("HPaste {}", cbytes(&vbytes(a))),
        "faceget" => format!("HFaceG {} {}", crgb(&a[0]), crgb(&a[1])),
        "facem" => format!(
            "HFaceM {} {} {} {} {} {} {} {} {}",
            cbool(a[0].as_bool().unwrap_or(false)),
            crgb(&a[1]),
            crgb(&a[2]),
            crgb(&a[3]),
            copt(a[4].as_u64().map(|n| n.to_string())),
            cobool(&a[5]),
            cobool(&a[6]),
            cobool(&a[7]),
            cobool(&a[8])
        ),
        _ => "HOther".into(),
    }
}

fn crun_ev(r: &Value) -> String {
    match r.as_object() {
        None => "None".into(),
        Some(o) => format!(
            "(Some ({}, {}))",
            clist(o["events"].as_array().unwrap().iter().map(chev)),
            cbool(o["exhausted"].as_bool().unwrap_or(false))
        ),
    }
}

fn crun_u8(r: &Value) -> String {
    match r.as_object() {
        None => "None".into(),
        Some(o) => format!(
            "(Some {})",
            clist(o["events"].as_array().unwrap().iter().map(|x| match x.as_u64() {
                Some(c) => format!("HU {}", c),
                None => "HUErr".into(),
            }))
        ),
    }
}

pub fn to_case(input: &Value, imp: &Value) -> Case {
    let kind = input["kind"].as_str().unwrap_or("ev").to_string();
    let data = vbytes(&input["input"]);
    let mut parts: Vec<Vec<usize>> = input["parts"].as_array().map(|a| a.iter().map(vusizes).collect()).unwrap_or_default();
    let nhist = input["hist"].as_array().map(|a| a.len()).unwrap_or(0);
    // an aborted child: every run of the case counts as crashed
    let runs: Vec<Value> = match imp.as_array() {
        Some(a) => a.clone(),
        None => (0..parts.len() + nhist).map(|_| json!("abort")).collect(),
    };
    // a history's partition is what the decoder consumed call by call (whole stream when it crashed)
    for _ in 0..nhist {
        let cuts = runs.get(parts.len()).and_then(|r| r.get("cuts")).map(vusizes);
        parts.push(cuts.unwrap_or_else(|| vec![data.len()]));
    }
    // distinct outputs printed once
    let render = |r: &Value| if kind == "u8" { crun_u8(r) } else { crun_ev(r) };
    let mut distinct: Vec<String> = vec![];
    let mut idx = vec![];
    for r in runs.iter() {
        let s = render(r);
        match distinct.iter().position(|d| *d == s) {
            Some(i) => idx.push(i),
            None => {
                distinct.push(s);
                idx.push(distinct.len() - 1);
            }
        }
    }
    let ty = if kind == "u8" { "uhout" } else { "hout" };
    let mut coq = String::from("(");
    for (i, d) in distinct.iter().enumerate() {
        coq.push_str(&format!("let o{} : {} := {} in ", i, ty, d));
    }
    let runs_s = clist(parts.iter().zip(idx.iter()).map(|(p, i)| format!("({}, o{})", clist(p.iter().map(|n| cnat(*n))), i)));
    if kind == "u8" {
        coq.push_str(&format!("U8 {} {})", cbytes(&data), runs_s));
    } else {
        coq.push_str(&format!("Ev {} {} {})", input["which"].as_u64().unwrap_or(0), cbytes(&data), runs_s));
    }
    let mut j = input.clone();
    j["impl"] = imp.clone();
    let crashed = runs.iter().any(|r| !r.is_object());
    let first_events: Vec<Value> = runs.first().and_then(|r| r.get("events")).and_then(|e| e.as_array().cloned()).unwrap_or_default();
    let kinds: Vec<String> = first_events
        .iter()
        .map(|e| match e.as_str() {
            Some(s) => s.to_string(),
            None => e.as_object().and_then(|o| o.keys().next().cloned()).unwrap_or_else(|| "num".into()),
        })
        .collect();
    let mut tags = vec![
        format!("{}{}", kind, if kind == "ev" { format!(".{}", input["which"].as_u64().unwrap_or(0)) } else { String::new() }),
        format!("crashed={}", crashed),
        format!("class={}", input["class"].as_str().unwrap_or("?")),
        format!("events={}", kinds.len().min(8)),
    ];
    let mut seen = std::collections::BTreeSet::new();
    for k in kinds.iter() {
        if seen.insert(k.clone()) {
            tags.push(format!("has.{}", k));
        }
    }
    let nontrivial = data.len() >= 2 && (kinds.iter().any(|k| k != "raw" && k != "key" && k != "num") || kinds.iter().any(|k| k == "raw") || crashed);
    Case { coq, json: j, tags, nontrivial }
}

// ------------------------------------------------------------------ generators

/// integer constants written in the decoder / automata sources and their neighbours (harvested at run
/// time): numeric parameters, digit counts, parameter counts and payload lengths are aimed at them
fn src_bounds() -> &'static Vec<u64> {
    static B: OnceLock<Vec<u64>> = OnceLock::new();
    B.get_or_init(|| {
        let mut v = source_boundaries(&["src/decoder.rs", "src/automata.rs"], u64::MAX);
        if v.is_empty() {
            v.push(256);
        }
        v
    })
}

fn src_num(rng: &mut Rng, cap: u64) -> u64 {
    let small: Vec<u64> = src_bounds().iter().copied().filter(|x| *x <= cap).collect();
    if small.is_empty() {
        cap.min(1)
    } else {
        small[rng.below(small.len() as u64) as usize]
    }
}

/// a sequence one of whose SIZES (digit count, parameter count, payload length, run of characters) is a source constant
fn src_sized(rng: &mut Rng, which: u64) -> (Vec<u8>, &'static str) {
    let l = src_num(rng, 200) as usize;
    let params = |l: usize, rng: &mut Rng| (0..l.min(70)).map(|_| rng.below(10).to_string()).collect::<Vec<_>>().join(";");
    let text = |l: usize, rng: &mut Rng| (0..l).map(|_| (0x20 + rng.below(0x5f) as u8) as char).collect::<String>();
    let v = if which == 1 {
        match rng.below(3) {
            0 => format!("\x1b[{}m", params(l, rng)),
            1 => format!("\x1b[38;5;{}m", "7".repeat(l.clamp(1, 70))),
            _ => text(l, rng),
        }
    } else {
        match rng.below(10) {
            0 => format!("\x1b[{}m", params(l, rng)),
            1 => format!("\x1b[{};1R", "7".repeat(l.clamp(1, 70))),
            2 => format!("\x1b[?{}c", params(l.max(1), rng)),
            3 => format!("\x1b[200~{}\x1b[201~", text(l, rng)),
            4 => format!("\x1b]{};{}\x07", rng.pick(&[10u32, 4, 52]), text(l, rng).replace('\x07', "a")),
            5 => format!("\x1b_Gi=1;{}\x1b\\", text(l, rng)),
            6 => format!("\x1bP1+r{}\x1b\\", "41".repeat(l.min(70))),
            7 => format!("\x1b[{}u", params(l.max(1), rng)),
            8 => format!("\x1bP1$r{}m\x1b\\", params(l, rng)),
            _ => "\u{20ac}".repeat(l.min(60)),
        }
    };
    (v.into_bytes(), "srcsize")
}

fn digits(rng: &mut Rng) -> String {
    if rng.chance(1, 8) {
        return src_num(rng, u64::MAX).to_string();
    }
    match rng.below(16) {
        0 => String::new(),
        1 => "0".into(),
        2 => "00".into(),
        3 => "1".into(),
        4 => "18446744073709551615".into(),   // usize::MAX
        5 => "18446744073709551616".into(),   // usize::MAX + 1
        6 => "9999999999999999999".into(),    // 19 digits
        7 => "99999999999999999999".into(),   // 20 digits
        8 => "100000000000000000000".into(),  // 21 digits
        9 => "000000000000000000000001".into(),
        10 => "4294967296".into(),
        11 => "4294967298".into(),
        12 => format!("{}", rng.below(256)),
        13 => format!("{}", rng.below(70000)),
        14 => format!("{}", rng.next()),
        _ => format!("{}", 1 + rng.below(99)),
    }
}

/// boundary values per field
const KEY_CODES: [u64; 30] = [
    0, 1, 9, 13, 27, 32, 97, 127, 128, 55295, 55296, 57343, 57344, 57375, 57376, 57377, 57397, 57398, 57399, 63743, 63744, 65535, 65536,
    1114111, 1114112, 4294967295, 4294967296, 4294967297, 18446744073709551615, 57380,
];
const KEY_MODS: [u64; 16] = [0, 1, 2, 3, 5, 9, 256, 257, 511, 512, 513, 1025, 4294967296, 4294967297, 4294967298, 18446744073709551615];
const MOUSE_CODES: [u64; 28] = [
    0, 1, 2, 3, 4, 8, 16, 28, 31, 32, 35, 63, 64, 65, 66, 67, 92, 95, 128, 255, 256, 257, 320, 65536, 65600, 4294967296, 4294967361, 18446744073709551615,
];
/// DECRPM modes / statuses and OSC ids: the known codes and the same codes + 2^16 / 2^32 (+ 2^64 clamps)
const DEC_MODES: [u64; 20] = [
    7, 25, 80, 1000, 1003, 1006, 1049, 2004, 2026, 1, 0, 65543, 65561, 66536, 4294967303, 4294967321, 4294968296, 18446744073709551615, 26, 2027,
];
const DEC_STATUS: [u64; 12] = [0, 1, 2, 3, 4, 5, 65536, 65537, 4294967296, 4294967297, 4294967300, 18446744073709551615];
const OSC_IDS: [u64; 14] = [4, 10, 11, 12, 0, 65540, 65546, 65547, 4294967300, 4294967306, 4294967307, 18446744073709551615, 104, 110];
const COORDS: [u64; 10] = [0, 1, 2, 80, 255, 256, 65535, 65536, 4294967296, 18446744073709551615];
const PALETTE: [u64; 20] = [0, 1, 7, 8, 15, 16, 17, 21, 51, 52, 196, 230, 231, 232, 233, 254, 255, 256, 257, 4294967312];
const CHANNELS: [u64; 10] = [0, 1, 127, 128, 254, 255, 256, 257, 300, 65536];
const SGR_CODES: [u64; 40] = [
    0, 1, 2, 3, 4, 5, 9, 21, 22, 23, 24, 25, 29, 30, 37, 38, 39, 40, 47, 48, 49, 58, 59, 89, 90, 97, 98, 99, 100, 107, 108, 29, 31, 41, 91, 101, 256,
    4294967297, 18446744073709551615, 33,
];

fn pk(rng: &mut Rng, xs: &[u64]) -> String {
    if rng.chance(1, 6) {
        return src_num(rng, u64::MAX).to_string();
    }
    xs[rng.below(xs.len() as u64) as usize].to_string()
}

/// templates that pin the fields the decoders do arithmetic / table lookups on
fn boundary_piece(rng: &mut Rng, which: u64) -> (Vec<u8>, &'static str) {
    let sep = if rng.chance(1, 2) { ';' } else { ':' };
    let sgr_colour = |rng: &mut Rng| -> String {
        let role = rng.pick(&[38u32, 48, 58]).to_string();
        match rng.below(4) {
            0 => format!("{r}{s}5{s}{n}", r = role, s = sep, n = pk(rng, &PALETTE)),
            1 => format!("{r}{s}2{s}{a}{s}{b}{s}{c}", r = role, s = sep, a = pk(rng, &CHANNELS), b = pk(rng, &CHANNELS), c = pk(rng, &CHANNELS)),
            2 => format!("{r}:2:{x}:{a}:{b}:{c}", r = role, x = pk(rng, &CHANNELS), a = pk(rng, &CHANNELS), b = pk(rng, &CHANNELS), c = pk(rng, &CHANNELS)),
            _ => format!("{r}{s}{k}", r = role, s = sep, k = pk(rng, &[0, 1, 2, 3, 5, 6])),
        }
    };
    let k = if which == 1 { rng.below(3) } else { rng.below(15) };
    match k {
        0 => (format!("\x1b[{}m", sgr_colour(rng)).into_bytes(), "b.sgrcolour"),
        1 => (format!("\x1b[{};{};{}m", pk(rng, &SGR_CODES), sgr_colour(rng), pk(rng, &SGR_CODES)).into_bytes(), "b.sgrcolour"),
        2 => (format!("\x1b[{}{}{}m", pk(rng, &SGR_CODES), if rng.chance(1, 2) { ";" } else { ":" }, pk(rng, &SGR_CODES)).into_bytes(), "b.sgr"),
        3 => (format!("\x1b[{}u", pk(rng, &KEY_CODES)).into_bytes(), "b.kbd"),
        4 => (format!("\x1b[{};{}{}u", pk(rng, &KEY_CODES), pk(rng, &KEY_MODS), if rng.chance(1, 4) { format!(":{}", rng.below(4)) } else { String::new() }).into_bytes(), "b.kbd"),
        5 => (format!("\x1b[<{};{};{}{}", pk(rng, &MOUSE_CODES), pk(rng, &COORDS), pk(rng, &COORDS), if rng.chance(1, 2) { 'M' } else { 'm' }).into_bytes(), "b.mouse"),
        6 => (format!("\x1b[{};{}R", pk(rng, &COORDS), pk(rng, &COORDS)).into_bytes(), "b.cpr"),
        7 => (format!("\x1bP1$r{}m\x1b\\", sgr_colour(rng)).into_bytes(), "b.decrpss"),
        9 | 10 => (format!("\x1b[?{};{}$y", pk(rng, &DEC_MODES), pk(rng, &DEC_STATUS)).into_bytes(), "b.decmode"),
        12 | 13 | 14 => {
            // legacy keys with a modifier parameter (ModifiedKeyMatcher) and their literal neighbours
            const MASKS: [&str; 16] = ["0", "1", "2", "3", "8", "9", "16", "17", "128", "129", "255", "256", "257", "258", "65537", "99999999999999999999"];
            const CODES: [&str; 24] = ["0", "1", "2", "3", "4", "5", "6", "7", "8", "9", "10", "11", "15", "16", "17", "21", "22", "23", "24", "25", "65537", "4294967297", "100000000000000000001", ""];
            let fin = *rng.pick(&[b'A', b'B', b'C', b'D', b'F', b'H', b'P', b'Q', b'S', b'~', b'~', b'~', b'R', b'E']) as char;
            let code = if fin == '~' || rng.chance(1, 4) { CODES[rng.below(CODES.len() as u64) as usize] } else { "1" };
            (format!("\x1b[{};{}{}", code, MASKS[rng.below(MASKS.len() as u64) as usize], fin).into_bytes(), "b.modkey")
        }
        11 => {
            let id = pk(rng, &OSC_IDS);
            let body = rng.pick(&["rgb:ff/00/80", "#ff0080", "1;rgb:1/2/3", "255;#000000", ";rgb:f/f/f"]).to_string();
            (format!("\x1b]{};{}{}", id, body, if rng.chance(1, 2) { "\x07" } else { "\x1b\\" }).into_bytes(), "b.oscid")
        }
        _ => {
            const RGB: [&str; 14] = ["", "/", "//", "ff//ff", "ff/ff/", "ff/ff", "f/f/f", "fff/fff/fff", "ffff/0000/8000", "fffff/0/0", "+f/+ff/+fff", "+/0/0", "gg/0/0", "1/22/333/4444"];
            let id = if rng.chance(1, 2) { format!("4;{}", pk(rng, &PALETTE)) } else { rng.pick(&[10u32, 11]).to_string() };
            (format!("\x1b]{};rgb:{}{}", id, RGB[rng.below(RGB.len() as u64) as usize], if rng.chance(1, 2) { "\x07" } else { "\x1b\\" }).into_bytes(), "b.osc")
        }
    }
}

fn utf8_boundary(rng: &mut Rng) -> Vec<u8> {
    const SETS: [&[u8]; 26] = [
        b"\xed\xa0\x80", b"\xed\xbf\xbf", b"\xed\x9f\xbf", b"\xee\x80\x80", b"\xf4\x90\x80\x80", b"\xf4\x8f\xbf\xbf", b"\xf7\xbf\xbf\xbf",
        b"\xf5\x80\x80\x80", b"\xc0\x80", b"\xc1\xbf", b"\xe0\x80\x80", b"\xe0\x9f\xbf", b"\xf0\x80\x80\x80", b"\xf0\x8f\xbf\xbf",
        b"\xc2\x80", b"\xdf\xbf", b"\xe0\xa0\x80", b"\xef\xbf\xbf", b"\xf0\x90\x80\x80", b"\xf8\x88\x80\x80\x80", b"\xfe", b"\xff",
        b"\x80", b"\xbf", b"\xe2\x82", b"\xf0\x9f\x90",
    ];
    let mut v = SETS[rng.below(SETS.len() as u64) as usize].to_vec();
    match rng.below(4) {
        0 => v.push(b'A'),
        1 => v.push(0x80 + rng.below(0x40) as u8),
        2 => {
            // lead class x continuation / non-continuation
            let lead = [0x00u8, 0x7f, 0x80, 0xbf, 0xc0, 0xc2, 0xdf, 0xe0, 0xed, 0xef, 0xf0, 0xf4, 0xf5, 0xf7, 0xf8, 0xff];
            v = vec![*rng.pick(&lead)];
            for _ in 0..rng.below(4) {
                v.push(if rng.chance(3, 4) { 0x80 + rng.below(0x40) as u8 } else { *rng.pick(&[0x00u8, 0x41, 0x7f, 0xc0, 0xff, 0x1b]) });
            }
        }
        _ => {}
    }
    v
}

fn piece(rng: &mut Rng, which: u64) -> (Vec<u8>, &'static str) {
    let d = |rng: &mut Rng| digits(rng);
    let semis = |rng: &mut Rng| ";".repeat(rng.below(4) as usize);
    if which == 1 {
        return match rng.below(7) {
            6 => src_sized(rng, which),
            0 | 1 => (format!("\x1b[{}{}{}{}m", d(rng), semis(rng), d(rng), if rng.chance(1, 2) { ":2:300:1:2" } else { "" }).into_bytes(), "sgr"),
            2 => (utf8_boundary(rng), "utf8"),
            3 => (vec![rng.byte()], "byte"),
            4 => (format!("\x1b[38;2;{};{};{}m", d(rng), d(rng), d(rng)).into_bytes(), "sgr"),
            _ => (format!("\x1b[{}", d(rng)).into_bytes(), "trunc"),
        };
    }
    match rng.below(26) {
        24 | 25 => src_sized(rng, which),
        0 => (format!("\x1b[{};{}R", d(rng), d(rng)).into_bytes(), "cpr"),
        1 => (format!("\x1b[<{};{};{}{}", d(rng), d(rng), d(rng), if rng.chance(1, 2) { 'M' } else { 'm' }).into_bytes(), "mouse"),
        2 => (format!("\x1b[{}{}u", d(rng), if rng.chance(1, 2) { format!(";{}", d(rng)) } else { String::new() }).into_bytes(), "kbd"),
        3 => (format!("\x1b[{}:{};{}:{}{}u", d(rng), d(rng), d(rng), d(rng), semis(rng)).into_bytes(), "kbd"),
        4 => (format!("\x1b[?{}u", d(rng)).into_bytes(), "kbdlevel"),
        5 => (format!("\x1b[?{};{}$y", if rng.chance(1, 2) { rng.pick(&[25u32, 7, 80, 1000, 1003, 1006, 1049, 2026, 2004, 1]).to_string() } else { d(rng) }, if rng.chance(1, 2) { rng.below(6).to_string() } else { d(rng) }).into_bytes(), "decmode"),
        6 => (format!("\x1b[?{}{}{}{}c", d(rng), semis(rng), d(rng), semis(rng)).into_bytes(), "da1"),
        7 => (format!("\x1b[{}{}{}m", d(rng), semis(rng), d(rng)).into_bytes(), "sgr"),
        8 => (format!("\x1b[38;2;{};{};{}m", d(rng), d(rng), d(rng)).into_bytes(), "sgr"),
        9 => (format!("\x1b_Gi={},p={},x{}=y;{}\x1b\\", d(rng), d(rng), d(rng), if rng.chance(1, 2) { "OK" } else { "E\u{fffd}:\u{7f}" }).into_bytes(), "kitty"),
        10 => (format!("\x1b_G{}=;\x1b\\", if rng.chance(1, 2) { "i" } else { "p" }).into_bytes(), "kitty"),
        11 => {
            let term = if rng.chance(1, 2) { "\x1b\\" } else { "\x07" };
            const BODIES: [&str; 26] = [
                "rgb:", "rgb:/", "rgb://", "rgb:///", "rgb:ff//ff", "rgb:ff/ff/", "rgb:/ff/ff", "rgb:ff/ff", "rgb:f/f/f", "rgb:fff/fff/fff",
                "rgb:ffff/0000/8000", "rgb:fffff/0/0", "rgb:+f/+ff/+fff", "rgb:+/0/0", "rgb:-f/0/0", "rgb:gg/0/0", "rgb:ff/ff/ff/ff", "rgb:FF/Aa/0",
                "rgb:ff/00/11/", "#", "#fff", "#ff0080", "#ff008080", "red", "", "rgb",
            ];
            let body = match rng.below(4) {
                0 => format!("rgb:{:x}/{:x}/{:x}", rng.below(65536), rng.below(256), rng.below(16)),
                1 => format!("rgb:{:04x}/{:03x}/{:02x}", rng.below(65536), rng.below(4096), rng.below(256)),
                _ => BODIES[rng.below(BODIES.len() as u64) as usize].to_string(),
            };
            let id = if rng.chance(2, 3) { rng.pick(&[10u32, 11, 4, 12]).to_string() } else { d(rng) };
            let mid = if rng.chance(1, 2) { format!("{};", d(rng)) } else { String::new() };
            let mut v = format!("\x1b]{};{}{}", id, mid, body).into_bytes();
            if rng.chance(1, 6) {
                v.push(0xff); // not UTF-8
            }
            v.extend(term.as_bytes());
            (v, "osc")
        }
        12 => (format!("\x1bP{}$r{}{}\x1b\\", rng.below(2), d(rng), if rng.chance(2, 3) { "m" } else { "q" }).into_bytes(), "decrpss"),
        13 => (format!("\x1bP{}+r{}\x1b\\", rng.below(2), match rng.below(14) {
            0 => "",
            1 => "4142=4344",
            2 => "4142;4344",
            3 => "41=42;43=44",
            4 => "4",
            5 => "414",
            6 => "41=4",
            7 => "4=41",
            8 => "41;4",
            9 => "4g=41",
            10 => "41=4g;4",
            11 => "41==42",
            12 => "aBcD=eF01;0a",
            _ => "41=42=43;;44",
        }).into_bytes(), "termcap"),
        14 => (format!("\x1b[8;{};{}t\x1b[4;{};{}t", d(rng), d(rng), d(rng), d(rng)).into_bytes(), "size"),
        15 => {
            let mut v = b"\x1b[200~".to_vec();
            for _ in 0..rng.below(4) {
                v.extend(utf8_boundary(rng));
            }
            v.extend(b"\x1b[201~");
            (v, "paste")
        }
        16 | 17 => (utf8_boundary(rng), "utf8"),
        18 => (vec![rng.byte()], "byte"),
        19 => {
            let k = 1 + rng.below(4) as usize;
            (rng.bytes(k), "garbage")
        }
        20 => {
            const KEYS: [&[u8]; 12] = [b"\x1b", b"\x1bOP", b"\x1b[A", b"\x1b[1;5R", b"\x1b[15~", b"\x1b[15;2~", b"\x7f", b"\x00", b"\x1bz", b"\x1b[", b"\x1bO", b"\x1b[1;"];
            (KEYS[rng.below(KEYS.len() as u64) as usize].to_vec(), "key")
        }
        21 => (format!("\x1b{}", ["[", "]", "P", "_", "[<", "[?", "[2", "P1", "P1+r4", "]4;", "_Gi"][rng.below(11) as usize]).into_bytes(), "unterminated"),
        22 => {
            // unterminated string sequences with long bodies
            let n = 1 + rng.below(40) as usize;
            let mut v = [&b"\x1b]11;"[..], &b"\x1b_Gi=1;"[..], &b"\x1bP1$r"[..], &b"\x1b[200~"[..]][rng.below(4) as usize].to_vec();
            v.extend((0..n).map(|_| 0x20 + rng.below(0x5f) as u8));
            (v, "unterminated")
        }
        _ => {
            let n = 19 + rng.below(30) as usize;
            (format!("\x1b[{};1R", "7".repeat(n)).into_bytes(), "longnum")
        }
    }
}

fn trivial_and(rng: &mut Rng, n: usize) -> Vec<Vec<usize>> {
    let mut parts = vec![vec![n], vec![1; n]];
    let mut p = vec![];
    let mut left = n;
    while left > 0 {
        let k = (rng.below(5) as usize).min(left);
        p.push(k);
        left -= k;
    }
    parts.push(p);
    // a second random partition with larger reads, one with an empty read in the middle, one single cut
    let mut p = vec![];
    let mut left = n;
    while left > 0 {
        let k = (1 + rng.below(17) as usize).min(left);
        p.push(k);
        left -= k;
    }
    parts.push(p);
    if n >= 2 {
        let i = 1 + rng.below(n as u64 - 1) as usize;
        parts.push(vec![i, 0, n - i]);
        let j = 1 + rng.below(n as u64 - 1) as usize;
        parts.push(vec![j, n - j]);
    }
    parts
}

/// every way of cutting n bytes into non-empty reads (2^(n-1)), plus a few with empty reads
fn all_splits(n: usize) -> Vec<Vec<usize>> {
    if n == 0 {
        return vec![vec![0]];
    }
    let mut out = vec![];
    for mask in 0..(1u32 << (n - 1)) {
        let mut p = vec![];
        let mut run = 1;
        for i in 0..n - 1 {
            if mask & (1 << i) != 0 {
                p.push(run);
                run = 1;
            } else {
                run += 1;
            }
        }
        p.push(run);
        out.push(p);
    }
    out.push(vec![0, n]);
    out.push(vec![n, 0]);
    out.push(vec![1, 0, 0, n - 1]);
    out
}

fn all_single_cuts(n: usize) -> Vec<Vec<usize>> {
    let mut parts = vec![vec![n], vec![1; n]];
    for i in 1..n {
        parts.push(vec![i, n - i]);
    }
    parts
}

/// reader scripts / caller programs of a case (tool_oddreader.rs): `keep` of the three fixed and two random ones
fn hist(rng: &mut Rng, keep: usize) -> Value {
    let all = crate::registry::tool_oddreader::hist_gen(|n| rng.below(n), 2);
    let mut all = all.as_array().cloned().unwrap_or_default();
    while all.len() > keep {
        let i = rng.below(all.len() as u64) as usize;
        all.remove(i);
    }
    Value::Array(all)
}

pub fn generate(rng: &mut Rng, n: usize, tier: &str) -> Vec<Value> {
    let mut v = vec![];
    let thorough = tier == "thorough";
    // all single bytes; ESC / lead bytes followed by every (thorough) or boundary second byte
    for b in 0..=255u8 {
        v.push(json!({"kind":"ev","which":0,"class":"len1","input":[b],"parts":[[1]]}));
    }
    let second: Vec<u8> = if thorough {
        (0..=255u8).collect()
    } else {
        vec![0, 9, 27, 32, 48, 57, 59, 63, 64, 65, 77, 79, 80, 82, 91, 92, 93, 95, 109, 117, 126, 127, 128, 143, 144, 159, 160, 191, 192, 194, 224, 237, 240, 244, 245, 255]
    };
    for a in [27u8, 0xc2, 0xe0, 0xed, 0xf0, 0xf4, 0xf7, 0x80] {
        for b in second.iter() {
            v.push(json!({"kind":"ev","which":0,"class":"len2","input":[a, *b],"parts":[[2],[1,1]]}));
        }
    }
    // ESC [ + 2 bytes (sample; exhaustive in the thorough tier)
    let csi: Vec<u8> = if thorough { (0..=255u8).collect() } else { vec![27, 48, 49, 57, 59, 60, 63, 65, 77, 82, 109, 116, 117, 126, 128, 200] };
    for a in csi.iter() {
        for b in csi.iter() {
            v.push(json!({"kind":"ev","which":0,"class":"csi2","input":[27, 91, *a, *b],"parts":[[4],[2,2]]}));
        }
    }
    // the same sweeps for the command decoder
    for b in 0..=255u8 {
        v.push(json!({"kind":"ev","which":1,"class":"len1","input":[b],"parts":[[1]]}));
    }
    for a in [27u8, 0xc2, 0xe0, 0xed, 0xf4, 0x80] {
        for b in second.iter() {
            v.push(json!({"kind":"ev","which":1,"class":"len2","input":[a, *b],"parts":[[2],[1,1]]}));
        }
    }
    for a in csi.iter().step_by(if thorough { 1 } else { 2 }) {
        for b in csi.iter() {
            v.push(json!({"kind":"ev","which":1,"class":"csi2","input":[27, 91, *a, *b],"parts":[[4],[2,2],[1,3]]}));
        }
    }
    // field boundaries: every template several times, single sequence, every single cut;
    // short ones under every way of splitting them into reads
    for i in 0..(if thorough { 3000 } else { 420 }) {
        let which = if i % 4 == 3 { 1 } else { 0 };
        let (s, class) = boundary_piece(rng, which);
        let parts = if s.len() <= 9 { all_splits(s.len()) } else { all_single_cuts(s.len()) };
        v.push(json!({"kind":"ev","which":which,"class":class,"input":jbytes(&s),"parts":parts,"hist":hist(rng, 2)}));
    }
    // UTF-8 boundary set through all three decoders
    for _ in 0..60 {
        let s = utf8_boundary(rng);
        v.push(json!({"kind":"u8","class":"utf8","input":jbytes(&s),"parts":all_single_cuts(s.len()),"hist":hist(rng, 5)}));
        v.push(json!({"kind":"ev","which":0,"class":"utf8","input":jbytes(&s),"parts":all_single_cuts(s.len()),"hist":hist(rng, 2)}));
        v.push(json!({"kind":"ev","which":1,"class":"utf8","input":jbytes(&s),"parts":all_single_cuts(s.len()),"hist":hist(rng, 2)}));
    }
    // the thorough tier adds its n random cases on top of the (much larger) exhaustive part
    let target = if thorough { v.len() + n } else { n };
    while v.len() < target {
        match rng.below(10) {
            0 => {
                let mut s = vec![];
                for _ in 0..1 + rng.below(4) {
                    s.extend(utf8_boundary(rng));
                }
                s.truncate(48);
                v.push(json!({"kind":"u8","class":"utf8","input":jbytes(&s),"parts":trivial_and(rng, s.len()),"hist":hist(rng, 3)}));
            }
            1 | 2 => {
                // a single protocol-shaped sequence with extreme parameters
                let which = if rng.chance(1, 5) { 1 } else { 0 };
                let (s, class) = piece(rng, which);
                let parts = if s.len() <= 8 { all_splits(s.len()) } else if s.len() <= 48 { all_single_cuts(s.len()) } else { trivial_and(rng, s.len()) };
                v.push(json!({"kind":"ev","which":which,"class":class,"input":jbytes(&s),"parts":parts,"hist":hist(rng, 1)}));
            }
            _ => {
                // streams: sequences with garbage interleaved
                let which = if rng.chance(1, 5) { 1 } else { 0 };
                let mut s = vec![];
                for _ in 0..1 + rng.below(5) {
                    let (p, _) = if rng.chance(1, 3) { boundary_piece(rng, which) } else { piece(rng, which) };
                    s.extend(p);
                    if rng.chance(1, 4) {
                        s.push(rng.byte());
                    }
                }
                if s.len() > 240 {
                    s.truncate(240);
                }
                v.push(json!({"kind":"ev","which":which,"class":"stream","input":jbytes(&s),"parts":trivial_and(rng, s.len()),"hist":hist(rng, 1)}));
            }
        }
    }
    v
}

pub fn batch(inputs: &[Value]) -> Batch {
    let impls = exec_all(inputs);
    Batch {
        prop: "C02",
        coq_import: "Corr.C02Corr",
        case_type: "c02_case",
        report_fn: "c02_report",
        rule: "stream of >= 2 bytes that yields an event other than a plain key (a report, a raw span, ...) or crashes the decoder; distinct by input",
        cases: inputs.iter().zip(impls.iter()).map(|(i, r)| to_case(i, r)).collect(),
        preamble: String::new(),
    }
}
