"""C01 check configuration (data only)."""
from propbase import KERNEL, HARNESS

PROP = {'gen': [],
 'coq_props': ['theories/Props/C01.vo'],
 'coq_corr': ['theories/Corr/C01Corr.vo'],
 'props_file': 'theories/Props/C01.v',
 'props_module': 'Props.C01',
 'corr_check': 'SNT.Corr.C01Corr.c01_check (model Render/Frame.v vs surf_n_term::render::TerminalRenderer driven through its public API '
               'against a recording Terminal; predicate: reference terminal Render/Screen.v executes the implementation\'s commands and '
               'must display show(S) after every frame)',
 'level_text': 'work in progress',
 'level_note': 'work in progress',
 'technique': 'Coq proof (invariant over histories) + model/implementation correspondence on command lists + reference-terminal predicate',
 'design_ref': 'DESIGN.md 6.1',
 'n_quick': 2000,
 'n_thorough': 40000,
 'shard': 125,
 'level': 'proof',
 'trusted_base': [KERNEL, HARNESS],
 'assumptions': []}
