"""C01 check configuration."""
import os
import subprocess
import sys

from propbase import KERNEL, HARNESS


def _regen(ctx):
    """TERMINAL_FRAMES_DROP and the drop comparison of run_render -> Gen/C01Const.v"""
    env = dict(ctx["env"], VERIF_REPO=ctx["repo"])
    gen = os.path.join(ctx["root"], "translate", "c01const.py")
    p = subprocess.run([sys.executable, gen], env=env, stdout=subprocess.PIPE, stderr=subprocess.STDOUT, text=True, timeout=300)
    return p.returncode, p.stdout.strip()

PROP = {'gen': [],
 'pre_coq': [_regen],
 'coq_props': ['theories/Props/C01.vo'],
 'coq_corr': ['theories/Corr/C01Corr.vo'],
 'props_file': 'theories/Props/C01.v',
 'props_module': 'Props.C01',
 'corr_check': 'SNT.Corr.C01Corr.c01_check (model Render/Frame.v vs surf_n_term::render::TerminalRenderer driven through its public API '
               'against a recording Terminal: same TerminalCommand list per operation; predicate Render/Spec.v spec_run: the reference '
               'terminal Render/Screen.v executes the IMPLEMENTATION\'s commands from a blank screen and must display show(S) after every '
               'frame, no protocol error; first component also Spec.resume_run / Loop.loop_spec false: what holds inside the known '
               'classes as well)',
 'level_text': 'Coq theorems over an executable model of TerminalRenderer (new, surface, frame with its three passes, clear) and a '
               'reference terminal: for every terminal size and every finite history of draws, frames, dropped frames, clear(), '
               're-created renderers and resizes to arbitrary screens '
               '(unbounded length; clear(), a new renderer and a resize reset the surface by API contract, so draw S; clear(); frame() '
               'must show the blank surface, not S) over surfaces with arbitrary narrow/wide characters (wide characters may hide one another), faces, '
               'images and glyphs (including cells behind wide characters and under images), after every frame the terminal displays '
               'exactly the denotation of the drawn surface = what a naive painter leaves on a blank terminal, and no command is a '
               'protocol error (C01_history, C01_history_final, C01_scratch); after new(clear=true) / clear() the next frame repaints '
               'every cell on an arbitrary previous screen (C01_forced; C01_forced_history: a renderer re-created without clear() on any screen, then any history, tolerating '
               'exactly the placements the terminal had; C01_clear_then_frame: clear(), draw S, frame() shows S); '
               'the "forced clear" part of the property is carried by the order of run_render (poll; frames_drop; clear(); on a Resize '
               'event clear() and a new renderer; only then the handler draws; frame()) and proved for the render loop with its '
               'output queue and frame dropping, end to end: whatever the tty takes, whatever frames_pending() answers and whichever prefix '
               'of the queue survives a drop, every delivered frame of every session displays the surface drawn for it - cells, no '
               'protocol error, its placements - and places nothing besides them and the images whose ImageErase the last drop '
               'discarded (C01_render_loop, unconditional; TERMINAL_FRAMES_DROP regenerated from the source); without such a stale '
               'drop (known class DroppedImageErase) the display is exact (C01_render_loop_exact); a frame that repeats the previous '
               'one issues no command, for every surface (C01_idle_frame); show is characterised cell by cell '
               '(C01_show_is_denotation) and never contains a split wide character (C01_show_no_orphan). Surfaces in which an image '
               'shares a cell with another image or with a wide character are the recorded known classes OverlapImages / '
               'OverlapWideImage (one _refuted witness each; a wide character under an image has no picture at all: '
               'C01_overlap_wide_image_no_picture); the classes are cut to their extent: for every history over surfaces of the domain, '
               'overlaps allowed, judging is suspended only from the frame() of such a surface to the next clear() / new renderer / '
               'resize and every frame after that is right again up to the placements left at that moment (C01_history_resumes). '
               'The model is tied to the '
               'code by a differential run on command lists, and the property predicates (exact ones, and the ones that hold inside '
               'the known classes too) are evaluated on the implementation\'s own commands.',
 'level_note': 'Trusted: Coq kernel + vm_compute; the reference terminal Render/Screen.v (a printed space shows fspace(pen), '
               'EraseChars leaves ferase(pen) = background only, clipped, cursor unmoved; CUP row clamp; images do not alter cells; an '
               'overwritten wide half leaves an Orphan cell that no surface denotes); hand-written model Render/Frame.v validated by '
               'the correspondence run; oracle_ok (space is one column wide, a default blank is an untouched cell, erasable faces erase '
               'like spaces); ten fix: commits in the crate, hashes as on /repo main: a440c10+e0b5bd4, 95ca8bb, 55d8917, 6af61c9, e6568d9+4881348, 432a209 superseded by 555d560, 93ac8da (marks reset after use / force_repaint flag, wide-character extent, Option-tracked face/cursor, '
               'run_render drops and clears before the handler draws (clear() itself resets the surface, as documented) and before it '
               'handles a Resize event (93ac8da: the image erases of that clear() were dropped), '
               'no EraseChars for faces with underline/strike/reverse, hidden wide characters '
               'do not own the column behind them and damage it only when their cover was repainted). Render/Loop.v takes from Props/C16.v (C16_frames, C16_frames_flush_delimited, '
               'C16_render_loop_schema, C16_queue_drop) the interface of the output queue: chunks delimited by flush/poll, delivered in order and '
               'whole, frames_drop discards only whole chunks never seen by the tty (modelled: a drop keeps a prefix of the queue). '
               'translate/c01const.py regenerates TERMINAL_FRAMES_DROP and checks the shape of the comparison. No axioms (Print Assumptions: closed for all theorems). '
               'Limits: not modelled - command bytes (C05), image protocols, glyph pixels, a Terminal whose execute() fails (aborted frames are in the correspondence '
               'run and the predicate, not in the theorems; the error-cleanup branch of run_render is not run), a resize to another size while frames are pending; changes that alter the '
               'command list but not the picture (EraseChars threshold, command order) are reported as broken correspondence without a '
               'failing input; changes visible only between an overlapping frame and the next forced repaint are detected as model != code only. '
               'Seeded changes C01_a, b, c, d, n, p: all caught with failing inputs. translate/c01const.py also fails when TerminalRenderer '
               'gains a public method or run_render calls the renderer in another order than Render/Loop.v models.',
 'technique': 'Coq proof (invariant over histories; last-writer-wins fold invariant for pass 1; order-free "a correct cell stays correct" '
              'argument for passes 2 and 3) + model/implementation correspondence on command lists + reference-terminal predicate on the '
              'implementation\'s commands',
 'design_ref': 'DESIGN.md 6.1, design/C01.md',
 'n_quick': 3000,
 'n_thorough': 100000,
 'shard': 125,
 'level': 'proof',
 'trusted_base': [KERNEL,
                  'reference terminal Render/Screen.v (exec): xterm/kitty meaning of Char, Face, CursorTo, EraseChars, Image, ImageErase; '
                  'the naive painter show is the specification of "repainting from scratch"',
                  'hand-written models Render/Frame.v of TerminalRenderer::{new, surface, frame, clear} (cell_extent, marks, three passes, '
                  'flip) and Render/Loop.v of Terminal::run_render (poll, frames_pending/frames_drop, clear, Resize event, handler, frame), '
                  'tied to the code by the correspondence run on exact command lists (real run_render on a scripted queue)',
                  'oracle tables (display width of the pool characters, image sizes in cells, glyph image identity) computed by the harness '
                  'independently of the crate',
                  HARNESS],
 'assumptions': ['histories (C01_history*, C01_scratch): the terminal executes exactly the commands the renderer issued; output dropped by '
                 'frames_drop is covered by the render-loop theorems (chunks executed whole or not at all) and by "arbitrary previous '
                 'screen" (C01_forced, C01_forced_history, C01_clear_then_frame, Resize); a frame() that returns Err (execute() failed) is '
                 'not a rendered frame and is outside the theorems; that the next rendered frame shows its surface is checked on the '
                 'code only (op FailFrame, Spec.resume_run)',
                 'oracle_ok: a space has display width 1; a blank in the default face is an untouched cell; the faces the renderer '
                 'treats as erasable erase like printed spaces. Characters of width 0 and wide characters in the last column are '
                 'outside the domain',
                 'surfaces in which an image/glyph rectangle shares a cell with another image or with a wide character are the known '
                 'classes OverlapImages / OverlapWideImage: no statement from the frame() of such a surface to the next clear() / new '
                 'renderer / resize, and placements still on the terminal at that moment are tolerated afterwards',
                 'render loop: the queue interface proved in C16 (whole chunks, in order, drops keep a prefix); sessions in which a '
                 'dropped chunk carried the ImageErase of a delivered image are the known class DroppedImageErase (that image stays; '
                 'everything else is still judged); Resize events of the sessions keep the size and the screen contents - '
                 'a resize to another size while frames are pending (frames of the old size executed on the new screen) is outside '
                 'the sessions and covered by op Resize of the histories only']}
