"""C04 check configuration."""
import importlib.util
import os
import subprocess
import sys

from propbase import KERNEL, HARNESS

_root = os.path.dirname(os.path.dirname(os.path.abspath(__file__)))


def _load(name, path):
    spec = importlib.util.spec_from_file_location(name, os.path.join(_root, "translate", path))
    mod = importlib.util.module_from_spec(spec)
    spec.loader.exec_module(mod)
    return mod


_dfa = _load("translate_dfa", "dfa.py")
_keys = _load("translate_c04keys", "c04keys.py")


def _tables(ctx):
    """Gen/C06Tables.v (FaceAttrs constants, SGR colour tables) and Gen/C06CmdDFA.v (the command automaton), both used
    by the SGR payload model this development imports from C06: regenerated here too, so that C04 never checks
    against stale data of another property's run"""
    env = dict(ctx["env"], VERIF_REPO=ctx["repo"])
    gen = os.path.join(ctx["root"], "translate", "c06gen.py")
    out, rc = [], 0
    for args in (["tables"], ["dfa", ctx["exe"], "command", "C06CmdDFA"]):
        p = subprocess.run([sys.executable, gen] + args, env=env, stdout=subprocess.PIPE, stderr=subprocess.STDOUT, text=True, timeout=900)
        out.append(p.stdout.strip())
        rc = rc or p.returncode
    return rc, "\n".join(out)


PROP = {
 'gen': [],
 'pre_coq': [_dfa.pre_coq, _keys.pre_coq, _tables],
 'coq_props': ['theories/Props/C04.vo'],
 'coq_corr': ['theories/Corr/C04Corr.vo'],
 'props_file': 'theories/Props/C04.v',
 'props_module': 'Props.C04',
 'corr_check': 'SNT.Corr.C04Corr.c04_check (model Decoder/EvModel.v over Gen/ProdDFA.v + Gen/C04Keys.v vs surf_n_term::TTYEventDecoder; '
               'inputs produced by the protocol printer Decoder/Printer.v, mirrored in the harness and re-printed in Coq)',
 'level_text': 'Coq theorems: an independent protocol printer (keys, kitty keys, SGR mouse, CPR, size, DECRPM, DA1, OSC colours in '
               '4/8/12/16-bit forms, XTGETTCAP, kitty image replies, bracketed paste, UTF-8 text) followed by the model of '
               'TTYEventDecoder over the regenerated production automaton returns, for every well-formed self-delimiting report with any '
               'parameter values and any following input, the event the report denotes (every family accepted by `proved_family`: all but '
               'SGR events, which are characterised by the meaning of their modification record via the C06 reference machine '
               '(C04_sgr_event), and DECRPSS face reports carrying SGR 7/27/39/49, a known finding); sequences decode to the sequence of '
               'their events; table theorems (DEC modes, literal key table, xterm reference encoding of the keys with every modifier mask '
               '0..255, modifier convention of the parsed matcher, CPR vs F3) are re-checked on regenerated data.',
 'level_note': 'Restricted statements: *_partial = every report with `proved_family r = true`, i.e. all but RSgr (which has C04_sgr_event, '
               'hypotheses sgr_wf and not sgr_inexpressible) and RFaceReport with 7/27/39/49 (known finding, class sgr-inexpressible-report '
               'with require_agree, tag derived in the harness from the parameter string; predicate = reference machine only). '
               'C04_xterm_keys covers every mask since crate fix 8f4107f (former finding C04-key-mask); PC-style F3 with mask >= 8 is '
               'outside wf because its bytes are a cursor position report. C04_key_modifiers: codes below 32, parameters 1..256. Counted: 11 theorems; lemmas C04_fast_decode, C04_key_mask8_decodes, C04_da_set, C04_face_report_recorded audited, not counted. Trusted: Coq kernel + vm_compute; DFA dump hook + translate/dfa.py + translate/c04keys.py; hand-written payload '
               'models validated by the correspondence run; C03 theorem (feeding any partition of the stream = munch); the printer '
               '(Decoder/Printer.v) as the meaning of the protocols. No axioms.',
 'technique': 'Coq proof (reflection: verified reachability checker over the regenerated automaton for each family grammar, '
              'parse-print lemmas, generic terminal-token lemma over the C03 tokeniser specification) + regenerated automaton/tables + '
              'model/implementation correspondence',
 'design_ref': 'DESIGN.md 6.4',
 'n_quick': 1500,
 'n_thorough': 20000,
 'shard': 125,
 'level': 'proof',
 'trusted_base': [KERNEL,
                  'verif-hooks dump of the compiled event automaton, translate/dfa.py (Gen/ProdDFA.v) and translate/c04keys.py '
                  '(Gen/C04Keys.v: key names of the literal items, DecMode / DecModeStatus discriminants)',
                  'hand-written model Decoder/EvModel.v of the fifteen Matcher::decode bodies, tied to the code by the correspondence run',
                  'specification Decoder/Printer.v: protocol printer written from ECMA-48 / DEC / xterm ctlseqs / kitty protocol documents',
                  'C03: the incremental tokeniser under any partition into reads computes `munch` (Automata/TokenizerTheorems.v)',
                  HARNESS],
 'assumptions': ['coordinates 1..65535, other numbers below 2^32 (at most 19 digits); colour channels of 4, 8, 12 or 16 bits, any value',
                 'kitty keys without event types and text field (enhancement flags 2 and 16 are not requested by the library)',
                 'payload text is valid UTF-8 without ESC',
                 'modifier masks 0..255 for xterm-style and kitty keys; PC-style modified F3 (CSI 1;n R) only with masks 1..7: for larger n the '
                 'bytes are read as the cursor position report (RCursor excludes row 1, columns 2..8 instead)',
                 'DA1 attribute lists are non-empty with every attribute > 0; they denote the sorted duplicate-free list',
                 'SGR mouse: the event carries button, modifiers, press/release and coordinates; the motion flag (bit 32) is not represented in '
                 'MouseEvent and is dropped by `denote`; codes without a named button denote Raw',
                 'SGR events and DECRPSS face reports: parameter strings with sgr_wf (digits, `;`, `:`; bounded numbers; complete colour '
                 'specifications) and, for the reference-machine statements, none of 7/27/39/49',
                 'table keys other than the six bare ESC-prefixes (ESC, ESC O, ESC P, ESC [, ESC ], ESC _), which are not self-delimiting; '
                 'CSI 1;nR is resolved for the key; self-delimitation of every other well-formed report is a theorem'],
}
