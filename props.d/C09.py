"""C09 check configuration."""
import json
import os

from propbase import KERNEL, HARNESS

# what a run must have reached to count as evidence for the cases named in level_text / design
REQUIRED_TAGS = ["exact_fit_view=true", "exact_fit_height=true", "height_cut=true", "chained_view=true", "layout_position=nonzero",
                 "clipped=true", "view=transposed", "view=strided", "invalid_scalar_bytes=true", "set_cursor=true", "session=true",
                 "put_text=true", "tty=true", "multi_chunk=true", "kind=json_text", "json_glyph_with_text=true", "str_view=true",
                 "wraps=false", "glyphs=false", "builder_form=true", "scope=true", "put_image=true", "write_entry=write_all",
                 "write_entry=vectored", "write_entry=fmt", "write_entry=flush", "fixed_sgr_split=true"]


def require_reach(ctx):
    """a run whose generated cases miss one of the required kinds is reported (not silently accepted)"""
    if ctx.get("replay"):
        return {}
    dist = json.load(open(os.path.join(ctx.get("case_dir") or os.path.join(ctx["build"], "cases", "C09"), "meta.json"))).get("distribution", {})
    cov = {"reach " + t: dist.get(t, 0) for t in REQUIRED_TAGS}
    missing = [t for t in REQUIRED_TAGS if not dist.get(t, 0)]
    violations = []
    if missing:
        violations.append({"kind": "broken-correspondence",
                           "what": "the generated cases did not reach: %s (generator changed?)" % ", ".join(missing), "case": {}})
    return {"violations": violations, "coverage": cov}


API_FILES = ["src/render.rs", "src/view/text.rs"]
API_HEADS = ["CellWrite", "TerminalWriter", "Utf8CellWriter", "TTYCellWriter", "Text", "Write for"]
API_IMPLS_ONLY = False
API_KNOWN = [
    "impl CellWrite for TerminalWriter<'_> :: face",
    "impl CellWrite for TerminalWriter<'_> :: put_cell",
    "impl CellWrite for TerminalWriter<'_> :: set_face",
    "impl CellWrite for TerminalWriter<'_> :: set_wraps",
    "impl CellWrite for TerminalWriter<'_> :: wraps",
    "impl CellWrite for Text :: face",
    "impl CellWrite for Text :: put_cell",
    "impl CellWrite for Text :: set_face",
    "impl CellWrite for Text :: set_wraps",
    "impl CellWrite for Text :: wraps",
    "impl FromIterator<Cell> for Text :: from_iter",
    "impl Text :: cells",
    "impl Text :: clear",
    "impl Text :: is_empty",
    "impl Text :: len",
    "impl Text :: mark",
    "impl Text :: new",
    "impl Text :: take",
    "impl View for Text :: layout",
    "impl View for Text :: render",
    "impl std::fmt::Write for Text :: write_str",
    "impl std::io::Write for TerminalWriter<'_> :: flush",
    "impl std::io::Write for TerminalWriter<'_> :: write",
    "impl<'a> From<&'a str> for Text :: from",
    "impl<'a> TerminalWriter<'a> :: cursor",
    "impl<'a> TerminalWriter<'a> :: new",
    "impl<'a> TerminalWriter<'a> :: set_cursor",
    "impl<'a> TerminalWriter<'a> :: size",
    "impl<'de> Deserialize<'de> for Text :: deserialize",
    "impl<'de> DeserializeSeed<'de> for TextDeserializer<'_> :: deserialize",
    "impl<W: CellWrite + ?Sized> CellWrite for &mut W :: face",
    "impl<W: CellWrite + ?Sized> CellWrite for &mut W :: put_cell",
    "impl<W: CellWrite + ?Sized> CellWrite for &mut W :: set_face",
    "impl<W: CellWrite + ?Sized> CellWrite for &mut W :: set_wraps",
    "impl<W: CellWrite + ?Sized> CellWrite for &mut W :: wraps",
    "impl<W: Write> Write for TerminalDebug<W> :: flush",
    "impl<W: Write> Write for TerminalDebug<W> :: write",
    "impl<W> TTYCellWriter<W> :: parent",
    "impl<W> Utf8CellWriter<W> :: parent",
    "impl<W> std::io::Write for TTYCellWriter<W> where W: CellWrite, :: flush",
    "impl<W> std::io::Write for TTYCellWriter<W> where W: CellWrite, :: write",
    "impl<W> std::io::Write for Utf8CellWriter<W> where W: CellWrite, :: flush",
    "impl<W> std::io::Write for Utf8CellWriter<W> where W: CellWrite, :: write",
    "trait CellWrite :: by_ref",
    "trait CellWrite :: face",
    "trait CellWrite :: put_cell",
    "trait CellWrite :: put_char",
    "trait CellWrite :: put_fmt",
    "trait CellWrite :: put_glyph",
    "trait CellWrite :: put_image",
    "trait CellWrite :: put_text",
    "trait CellWrite :: scope",
    "trait CellWrite :: set_face",
    "trait CellWrite :: set_wraps",
    "trait CellWrite :: tty_writer",
    "trait CellWrite :: utf8_writer",
    "trait CellWrite :: with_cell",
    "trait CellWrite :: with_char",
    "trait CellWrite :: with_face",
    "trait CellWrite :: with_fmt",
    "trait CellWrite :: with_glyph",
    "trait CellWrite :: with_image",
    "trait CellWrite :: with_text",
    "trait CellWrite :: with_wraps",
    "trait CellWrite :: wraps",
]


def _impl_blocks(text):
    """(header, [fn names]) of every impl block outside the tests module"""
    import re
    cut = text.find("#[cfg(test)]\nmod tests")
    if cut > 0:
        text = text[:cut]
    out = []
    for m in re.finditer(r"\n(?:pub )?(impl|trait)\b([^{;]*)\{", text):
        head = " ".join((m.group(1) + m.group(2)).split())
        i, depth = m.end(), 1
        while depth and i < len(text):
            depth += (text[i] == "{") - (text[i] == "}")
            i += 1
        out.append((head, re.findall(r"\n    (?:pub )?fn (\w+)", text[m.end():i])))
    return out


def api_surface(ctx):
    """the methods / impls of the property's domain as they are in the source now, against the list the harness and the
    model were written for: a method or impl that appears (an overridden write_all, a new view type ...) is reported"""
    found = set()
    for f in API_FILES:
        try:
            text = open(os.path.join(ctx["repo"], f)).read()
        except OSError:
            continue
        for head, fns in _impl_blocks(text):
            if not any(k in head for k in API_HEADS):
                continue
            if API_IMPLS_ONLY:
                found.add(head)
            else:
                for fn in fns:
                    found.add(head + " :: " + fn)
    new = sorted(found - set(API_KNOWN))
    violations = []
    if new:
        violations.append({"kind": "broken-correspondence",
                           "what": "API surface of the property's domain not covered by harness and model: %s" % "; ".join(new), "case": {}})
    return {"violations": violations, "coverage": {"api_items_checked": len(found)}}


PROP = {'gen': [],
 'extra': [require_reach, api_surface],
 'coq_props': ['theories/Props/C09.vo'],
 'coq_corr': ['theories/Corr/C09Corr.vo'],
 'props_file': 'theories/Props/C09.v',
 'props_module': 'Props.C09',
 'corr_check': 'SNT.Corr.C09Corr.c09_check (model Render/CellLayout.v + Render/Writer.v vs surf_n_term::{TerminalWriter, Cell::layout, '
               'Utf8Decoder inside the io::Write adapters, CellWrite::put_text / put_fmt, Utf8CellWriter::parent / TTYCellWriter::parent, '
               'view::Text, TextDeserializer})',
 'level_text': 'Coq theorems over an executable model of Cell::layout, TerminalWriter::put_cell (glyph fallback, overlay, face fill), the '
               'three io::Write adapters (UTF-8 decoder, escape-sequence tokenizer over any automaton) and Text::layout/render: every '
               'client program (put_char/put_cell/put_text/set_face/set_wraps/set_cursor/writes, and sessions that keep one utf8_writer()/'
               'tty_writer() adapter over several writes with operations on adapter.parent() in between) leaves cells outside the view unchanged and never '
               'panics; for a caller that stops a write operation at its first Err, outcome and writer state do not depend on how written '
               'bytes are partitioned (in a session: the bytes between two parent operations; a caller ignoring Err can observe the split: C09_ignoring_errors_refuted); the escape-sequence '
               'write loop as coded equals the fold over bytes for any automaton; a text rendered at the size its layout reported shows every printable cell exactly once in reading '
               'order (without wrapping: exactly those not beyond the right edge; hypotheses: no carriage return among the written cells, '
               'the constraint does not cut the measured height, the layout rectangle is non-empty and inside the view); a Text deserialised from JSON (TextDeserializer) holds '
               'exactly the characters and glyphs of the document in document order under the faces of the enclosing objects, except the '
               '"text" of an object that also has a "glyph", which TextDeserializer does not visit; the reference of the predicate is proved '
               'equal to the notions of the theorems (C09_reference_link). Model tied to the code by a differential run '
               '(canvas of sentinel cells, plain/offset/strided/transposed views, all partitions of short strings).',
 'level_note': 'Trusted: Coq kernel + vm_compute; hand-written model validated by the correspondence run; char widths (unicode-width), '
               'image cell sizes, glyph sizes, the dump of TTY_COMMAND_AUTOMATA, the effect of SGR sequences on faces and parsed JSON faces are sent by the '
               'harness with each case. CR excluded from the no-lost-cell theorems. No axioms (Print Assumptions: closed).',
 'technique': 'Coq proof (induction over cell sequences and write partitions, frame conditions over the shape algebra of C07) + '
              'model/implementation correspondence',
 'design_ref': 'DESIGN.md 6.9',
 'n_quick': 2400,
 'n_thorough': 40000,
 'shard': 150,
 'level': 'proof',
 'trusted_base': [KERNEL,
                  'hand-written model Render/CellLayout.v, Render/Writer.v of Cell::layout, TerminalWriter::put_cell, Utf8Decoder, the '
                  'io::Write adapters, put_text, adapter sessions, Text::layout/render, TextDeserializer, tied to the code by the correspondence run',
                  'oracles sent with each case: unicode-width of every character used, Image::size_cells, Glyph::size, the automaton '
                  'the crate compiles for TTYCommandDecoder (verif-hooks dump), SGR sequence -> face effect computed by the crate (C06), the crate\'s Face parser for faces of JSON text documents (C14)',
                  HARNESS],
 'assumptions': ['cell sizes, cursor positions and text lengths stay below 2^63 (no usize overflow in cursor arithmetic)',
                 'colours are opaque (alpha 255) in the correspondence run; the theorems do not depend on the face algebra',
                 'a caller of io::Write::write gives up at the first Err (write_all semantics)',
                 'JSON text: faces arrive parsed (the crate\'s own Face parser is the oracle, C14), glyphs are compared by size and fallback '
                 'text; documents that are not string | list | object (an error value) are not generated',
                 'operations on adapter.parent() are the writer\'s own operations other than io::Write::write']}
