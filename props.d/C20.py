"""C20 check configuration (data only)."""
import os
import sys
from propbase import KERNEL, HARNESS


def _tables_path(ctx):
    return os.path.join(ctx["build"], "c20_tables_%s.json" % ctx.get("pid", "C20"))


def _write_tables(ctx):
    """the numbers of Gen/TabColor.v as JSON for the Rust side (tool c20sweep, harness/src/c20.rs); temp file + rename"""
    import json
    import re
    tab = open(os.path.join(ctx["coq"], "theories", "Gen", "TabColor.v")).read()

    def lst(name):
        m = re.search(r"Definition %s : [^:=]*:= \[([^\]]*)\]" % name, tab)
        return [x.strip() for x in m.group(1).split(";")] if m else []

    def one(name):
        m = re.search(r"Definition %s : Z := (\d+)\." % name, tab)
        return [m.group(1)] if m else []

    tables = {"den": one("color_den"), "luma_den": one("luma_den"), "cube": lst("cube_z"), "greys": lst("greys_z"),
              "srgb": lst("srgb_z"), "gray_levels": lst("gray_levels_z")}
    path = _tables_path(ctx)
    tmp = path + ".%d.tmp" % os.getpid()
    with open(tmp, "w") as f:
        json.dump(tables, f)
    os.replace(tmp, path)
    return path


def regen_color_tables(ctx):
    """CUBE / GREYS / grey levels from src/encoder.rs and the library's sRGB->linear table (dumped through the harness)"""
    rc, out = ctx["sh"]([sys.executable, os.path.join(ctx["root"], "translate", "enc_tables.py"), "encoder", "color"],
                        cwd=ctx["root"], env=dict(ctx["env"], VERIF_REPO=ctx["repo"], VERIF_EXE=ctx["exe"] or ""))
    if rc == 0:
        # harness/src/c20.rs reads this file (cwd = framework root) to attach the Rust predicate's verdict to every case
        path = _write_tables(ctx)
        os.environ["VERIF_C20_TABLES"] = path
        ctx["env"]["VERIF_C20_TABLES"] = path
    return rc, out


def sweep(ctx):
    """exact-integer sweep of ALL 2^24 colours x 3 roles x 3 depths in Rust (tool c20sweep, 8 threads), both tiers"""
    import json
    path = _write_tables(ctx)
    stride = os.environ.get("VERIF_C20_STRIDE", "1")
    rc, out = ctx["sh"]([ctx["exe"], "tool", "c20sweep", path, stride, "16"], cwd=ctx["root"], timeout=3000)
    if rc != 0:
        return {"violations": [{"kind": "broken-correspondence", "what": "c20sweep tool failed: " + out[-500:], "case": {}}]}
    try:
        res = json.loads(out.strip().split("\n")[-1])
    except ValueError:
        return {"violations": [{"kind": "broken-correspondence", "what": "c20sweep output unreadable: " + out[-300:], "case": {}}]}
    vio = [{"kind": "failing-input",
            "what": "exact-integer sweep: the entry chosen by the implementation is more than 1e-6 from the optimum, the grey level is not nearest / not monotone, or the SGR bytes are not of the expected form",
            "case": {"depth": v.get("depth"), "kind": "sweep", "c": v.get("first", v.get("c")), "role": v.get("role"),
                     "role_colour": v.get("c"), "observed": v.get("observed")}} for v in res["violations"]]
    if res["differs_from_exact_model"] > 0:
        # the implementation (f32) and the exact model chose entries of different exact distance over the typed tables:
        # reported as a model/implementation difference (the property itself is judged by the entries above)
        vio.append({"kind": "broken-correspondence",
                    "what": "c20sweep: %d (colour, role) pairs where the implementation's entry is not an exact optimum over the typed tables, i.e. differs from the exact model" % res["differs_from_exact_model"],
                    "case": (res.get("model_diff_examples") or [{}])[0]})
    return {"violations": vio,
            "coverage": {"sweep_colours_per_depth_and_role": res["checked"], "sweep_roles": res["roles"], "sweep_stride": res["stride"],
                         "sweep_exhaustive": res["stride"] == 1,
                         "near_ties": res["near_ties"], "differs_from_exact_model": res["differs_from_exact_model"], "worst_excess": res["worst_excess"], "worst_at": res["worst_at"],
                         "gray_lumas_with_two_levels": res["gray_lumas_with_two_levels"],
                         "gray_inversions_within_tolerance": res["gray_inversions_within_tolerance"],
                         "tolerance": res["tolerance"]},
            "notes": ["c20sweep: %d colours per depth and role (fg, bg, underline; stride %d); %d (colour, role) pairs differ from the exact optimum over the typed tables; against the palette entries placed by the library's own conversion %d are not exactly optimal, worst excess %.3g (tolerance 1e-6); grey: no level decreases when luma increases by more than 1e-6, %d inversions within the tolerance, %d luma values (exact ties between two levels) carry two levels"
                      % (res["checked"], res["stride"], res["differs_from_exact_model"], res["near_ties"], res["worst_excess"],
                         res["gray_inversions_within_tolerance"], res["gray_lumas_with_two_levels"])]}


PROP = {'gen': [],
 'pre_coq': [regen_color_tables],
 'coq_props': ['theories/Props/C20.vo'],
 'coq_corr': ['theories/Corr/C20Corr.vo'],
 'props_file': 'theories/Props/C20.v',
 'props_module': 'Props.C20',
 'corr_check': 'SNT.Corr.C20Corr.c20_check (exact model Encoder/Color256.v vs the SGR bytes of surf_n_term::encoder::TTYEncoder for '
               'FaceModify{fg,bg,underline_color}; predicate: brute-force minimum over the 240 entries / 4 levels, tolerance 1e-6)',
 'level_text': 'Coq theorems about an EXACT-RATIONAL model of the colour reduction in color_sgr_encode (names *_exact_model; the f32 '
               'evaluation of the code is not modelled): for ALL channel values and ANY strictly increasing tables (6 cube levels, 24 '
               'greys) the selected index is a non-system one whose entry minimises the Euclidean distance among all 240 entries '
               '(C20_algorithm_exact_model); the tables in the source, re-extracted on every run, are strictly increasing, in [0,1] '
               'and within eps = 1e-6 of the library\'s own linearisation of the xterm levels, the grey codes are 30/90/37/97 and the '
               'grey levels the VGA luminances 0,1/3,2/3,1 within 0.01 (C20_tables); hence for every opaque 8-bit colour the exact '
               'model picks a closest entry over the typed tables (C20_closest_256_exact_model) and, at the true palette positions, '
               'a closest entry up to 12 eps = 1.2e-5 in SQUARED distance (C20_closest_256_true_palette_upto_eps_exact_model; in '
               'distance this is only 3.5e-3 in the worst case, weaker than what is run); the grey level of the exact model is a '
               'nearest of the four by luma and monotone in it; the bytes of the encoder model carry exactly these indices / levels '
               '/ unchanged channels for the fg, bg and underline roles (C20_roles_exact_model). FOR THE CODE the property is '
               'established by running it, not proved: on every check ALL 2^24 colours x 3 roles x 3 depths go through the real '
               'encoder (Rust tool c20sweep, exact integers): entry within eps = 1e-6 in DISTANCE of the brute-force optimum at the '
               'true palette positions (observed worst 2.62e-7 on 30 colours); nearest grey level within 1e-6 in luma; no grey level '
               'decreases when luma increases by more than 1e-6 (observed: none; 3 luma values that are exact ties carry two '
               'levels); unchanged channels; no panic; any colour where the code\'s entry is not an exact optimum over the typed '
               'tables (= differs from the exact model) is reported as a model/implementation difference (observed: none). About '
               '3300 sampled cases are parsed by the independent SGR interpreter and judged in Coq, where the verdict of the Rust '
               'tool on the same bytes must equal the Coq verdict.',
 'level_note': 'Trusted: Coq kernel + vm_compute; translate/enc_tables.py (CUBE, GREYS, grey levels as exact decimals; sRGB->linear '
               'table dumped through LinColor::from as exact values of the f32 results); harness/src/tool_c20sweep.rs, an UNPROVED '
               'second implementation of the predicate (f64 square roots, separable minimum) that carries the exhaustive part, '
               'cross-checked against the Coq predicate on every sampled case; slice::binary_search_by modelled by its contract on '
               'sorted slices; luma weights 0.2126/0.7152/0.0722 of rasterize::Color::luma as read; f32 evaluation is NOT modelled: '
               'optimality / monotonicity of the code itself are run results with tolerance 1e-6, not theorems. No axioms.',
 'technique': 'Coq proof (sorted-table nearest search, per-channel separability, mean argument for greys) + regenerated tables + '
              'model/implementation correspondence by the property with a stated tolerance',
 'design_ref': 'DESIGN.md 6.20',
 'n_quick': 300,
 'n_thorough': 200000,
 'shard': 100,
 'level': 'proof',
 'extra': [sweep],
 'trusted_base': [KERNEL,
                  'translate/enc_tables.py + harness tool srgb: CUBE / GREYS / grey-depth levels and SGR codes re-extracted from '
                  'src/encoder.rs, the 256-entry sRGB->linear table re-dumped from the built crate, on every run (Gen/TabColor.v)',
                  'harness/src/tool_c20sweep.rs: unproved Rust implementation of the property predicate used for the exhaustive sweep; its '
                  'verdict is attached to every sampled case and must equal the verdict of Corr/C20Corr.v (c20_check)',
                  'hand-written exact model Encoder/Color256.v of nearest / the EightBit and Gray arms of color_sgr_encode, tied to the '
                  'code by the correspondence run (tolerance 1e-6) and by the exact-integer sweep (harness tool c20sweep)',
                  'specification: Euclidean distance in the library\'s linear-light space to the 240 non-system xterm palette '
                  'entries (cube levels 0,95,135,175,215,255; greys 8+10k); brute-force minimum (proved to be the minimum)',
                  HARNESS],
 'assumptions': ['opaque colours (alpha 255): premultiplication by alpha = 1 is the identity; the theorems carry rgba_ok c and ca c = 255 '
                 'as scope hypotheses (the exact model itself ignores alpha)',
                 'the implementation evaluates in f32; agreement with the exact model and optimality are required up to eps = 1e-6 in '
                 'distance / luma (observed: identical choice for all 2^24 colours with respect to the typed tables)',
                 'SPEC DECISION grey depth: the four available levels are the system colours 0 < 8 < 7 < 15 (SGR 30/90/37/97) standing '
                 'for the VGA / Linux-console luminances 0, 1/3, 2/3, 1; the terminal\'s real palette is unknown to the library (in '
                 'xterm\'s default palette, luma 0/.498/.898/1, the choice is ordered but not always the nearest, e.g. luma .55 -> 7)',
                 'SPEC DECISION grey depth: an underline colour has no grey rendering; the code sends nothing for it and predicate and '
                 'sweep require exactly that -- a change of the crate that sends one would be reported and needs this decision revisited',
                 'monotonicity for the code is judged on exact luma with tolerance 1e-6: colours of exactly equal luma at a tie between '
                 'two levels may get either level (corpus/C20/002-gray-ties.jsonl)']}
