"""C20 check configuration (data only)."""
import os
import sys
from propbase import KERNEL, HARNESS


def regen_color_tables(ctx):
    """CUBE / GREYS / grey levels from src/encoder.rs and the library's sRGB->linear table (dumped through the harness)"""
    return ctx["sh"]([sys.executable, os.path.join(ctx["root"], "translate", "enc_tables.py"), "encoder", "color"],
                     cwd=ctx["root"], env=dict(ctx["env"], VERIF_REPO=ctx["repo"], VERIF_EXE=ctx["exe"] or ""))


def sweep(ctx):
    """exact-integer sweep of ALL 2^24 colours x 3 roles x 3 depths in Rust (tool c20sweep, 8 threads), both tiers"""
    import json
    import re
    tab = open(os.path.join(ctx["coq"], "theories", "Gen", "TabColor.v")).read()

    def lst(name):
        m = re.search(r"Definition %s : [^:=]*:= \[([^\]]*)\]" % name, tab)
        return [x.strip() for x in m.group(1).split(";")] if m else []

    def one(name):
        m = re.search(r"Definition %s : Z := (\d+)\." % name, tab)
        return [m.group(1)] if m else []

    tables = {"den": one("color_den"), "luma_den": one("luma_den"), "cube": lst("cube_z"), "greys": lst("greys_z"),
              "srgb": lst("srgb_z"), "gray_levels": lst("gray_levels_z")}
    path = os.path.join(ctx["build"], "c20_tables.json")
    with open(path, "w") as f:
        json.dump(tables, f)
    stride = os.environ.get("VERIF_C20_STRIDE", "1")
    rc, out = ctx["sh"]([ctx["exe"], "tool", "c20sweep", path, stride], cwd=ctx["root"], timeout=3000)
    if rc != 0:
        return {"violations": [{"kind": "broken-correspondence", "what": "c20sweep tool failed: " + out[-500:], "case": {}}]}
    res = json.loads(out.strip().split("\n")[-1])
    vio = [{"kind": "failing-input",
            "what": "exact-integer sweep: the entry chosen by the implementation is more than 1e-6 from the optimum (or the SGR bytes are not of the expected form)",
            "case": {"depth": v.get("depth"), "kind": "sweep", "c": v.get("first", v.get("c")), "role": v.get("role"),
                     "role_colour": v.get("c"), "observed": v.get("observed")}} for v in res["violations"]]
    return {"violations": vio,
            "coverage": {"sweep_colours_per_depth_and_role": res["checked"], "sweep_roles": res["roles"], "sweep_stride": res["stride"],
                         "sweep_exhaustive": res["stride"] == 1,
                         "near_ties": res["near_ties"], "differs_from_exact_model": res["differs_from_exact_model"], "worst_excess": res["worst_excess"], "worst_at": res["worst_at"],
                         "tolerance": res["tolerance"]},
            "notes": ["c20sweep: %d colours per depth and role (fg, bg, underline; stride %d); %d (colour, role) pairs differ from the exact optimum over the typed tables; against the palette entries placed by the library's own conversion %d are not exactly optimal, worst excess %.3g (tolerance 1e-6)"
                      % (res["checked"], res["stride"], res["differs_from_exact_model"], res["near_ties"], res["worst_excess"])]}


PROP = {'gen': [],
 'pre_coq': [regen_color_tables],
 'coq_props': ['theories/Props/C20.vo'],
 'coq_corr': ['theories/Corr/C20Corr.vo'],
 'props_file': 'theories/Props/C20.v',
 'props_module': 'Props.C20',
 'corr_check': 'SNT.Corr.C20Corr.c20_check (exact model Encoder/Color256.v vs the SGR bytes of surf_n_term::encoder::TTYEncoder for '
               'FaceModify{fg,bg,underline_color}; predicate: brute-force minimum over the 240 entries / 4 levels, tolerance 1e-6)',
 'level_text': 'Coq theorems about an EXACT-RATIONAL model of the colour reduction in color_sgr_encode (the f32 evaluation of the '
               'code is not modelled): for ALL channel values and ANY strictly increasing tables (6 cube levels, 24 greys) the selected '
               'index is a non-system one whose entry minimises the Euclidean distance among all 240 entries (C20_algorithm); the '
               'tables in the source, re-extracted on every run, are strictly increasing, in [0,1] and within eps = 1e-6 of the '
               'library\'s own linearisation of the xterm levels (C20_tables); hence for every 8-bit colour the exact model picks a '
               'closest entry over the typed tables (C20_closest_256_exact_model) and, measured at the true palette positions, a '
               'closest entry up to 12 eps in squared distance (C20_closest_256_true_palette_upto_eps); the grey level is a nearest of '
               'the four by luma and monotone in it; the bytes the encoder model emits carry exactly these indices / levels / '
               'unchanged channels for the fg, bg and underline roles (C20_roles; an underline colour has no grey rendering: nothing is sent, a decision of the code recorded in the specification). FOR '
               'THE CODE the property is established by running it: on every check ALL 2^24 colours x 3 roles x 3 depths go through '
               'the real encoder (exact-integer comparison in Rust: entry within eps = 1e-6 in distance of the brute-force optimum '
               'at the true palette positions, equal to the exact model\'s entry, nearest grey level, unchanged channels, no '
               'panic), and ~8000 sampled colours are parsed by the independent SGR interpreter and compared in Coq.',
 'level_note': 'Trusted: Coq kernel + vm_compute; translate/enc_tables.py (CUBE, GREYS, grey levels as exact decimals; sRGB->linear '
               'table dumped through LinColor::from as exact values of the f32 results); slice::binary_search_by modelled by its '
               'contract on sorted slices (partition point); luma weights 0.2126/0.7152/0.0722 of rasterize::Color::luma as read; '
               'f32 evaluation is NOT modelled: optimality of the code itself is a run result (exhaustive, tolerance 1e-6 in '
               'distance; observed worst excess 2.62e-7 on 30 colours), not a theorem. No axioms.',
 'technique': 'Coq proof (sorted-table nearest search, per-channel separability, mean argument for greys) + regenerated tables + '
              'model/implementation correspondence by the property with a stated tolerance',
 'design_ref': 'DESIGN.md 6.20',
 'n_quick': 1500,
 'n_thorough': 200000,
 'shard': 100,
 'level': 'proof',
 'extra': [sweep],
 'trusted_base': [KERNEL,
                  'translate/enc_tables.py + harness tool srgb: CUBE / GREYS / grey-depth levels and SGR codes re-extracted from '
                  'src/encoder.rs, the 256-entry sRGB->linear table re-dumped from the built crate, on every run (Gen/TabColor.v)',
                  'hand-written exact model Encoder/Color256.v of nearest / the EightBit and Gray arms of color_sgr_encode, tied to the '
                  'code by the correspondence run (tolerance 1e-6) and by the exact-integer sweep (harness tool c20sweep)',
                  'specification: Euclidean distance in the library\'s linear-light space to the 240 non-system xterm palette '
                  'entries (cube levels 0,95,135,175,215,255; greys 8+10k); brute-force minimum (proved to be the minimum)',
                  HARNESS],
 'assumptions': ['opaque colours (alpha 255): premultiplication by alpha = 1 is the identity',
                 'the implementation evaluates in f32; agreement with the exact model is required up to 1e-6 in distance '
                 '(observed: identical choice for all 2^24 colours with respect to the typed tables)',
                 'grey depth: the four levels are the system colours black < bright black < white < bright white, standing for '
                 'luminance 0, 1/3, 2/3, 1 (checked within 0.01 on the regenerated levels)']}
