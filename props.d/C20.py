"""C20 check configuration (data only)."""
import os
import sys
from propbase import KERNEL, HARNESS


def regen_color_tables(ctx):
    """CUBE / GREYS / grey levels from src/encoder.rs and the library's sRGB->linear table (dumped through the harness)"""
    return ctx["sh"]([sys.executable, os.path.join(ctx["root"], "translate", "enc_tables.py"), "encoder", "color"],
                     cwd=ctx["root"], env=dict(ctx["env"], VERIF_REPO=ctx["repo"], VERIF_EXE=ctx["exe"] or ""))


def sweep(ctx):
    """exact-integer sweep of the colour space in Rust (tool c20sweep): quick = every 7th colour, thorough = all 2^24"""
    import json
    import re
    tab = open(os.path.join(ctx["coq"], "theories", "Gen", "TabColor.v")).read()

    def lst(name):
        m = re.search(r"Definition %s : [^:=]*:= \[([^\]]*)\]" % name, tab)
        return [x.strip() for x in m.group(1).split(";")] if m else []

    def one(name):
        m = re.search(r"Definition %s : Z := (\d+)\." % name, tab)
        return [m.group(1)] if m else []

    tables = {"den": one("color_den"), "luma_den": one("luma_den"), "cube": lst("cube_z"), "greys": lst("greys_z"),
              "srgb": lst("srgb_z"), "gray_levels": lst("gray_levels_z")}
    path = os.path.join(ctx["build"], "c20_tables.json")
    with open(path, "w") as f:
        json.dump(tables, f)
    stride = "1" if ctx["tier"] == "thorough" else "7"
    rc, out = ctx["sh"]([ctx["exe"], "tool", "c20sweep", path, stride], cwd=ctx["root"], timeout=3000)
    if rc != 0:
        return {"violations": [{"kind": "broken-correspondence", "what": "c20sweep tool failed: " + out[-500:], "case": {}}]}
    res = json.loads(out.strip().split("\n")[-1])
    vio = [{"kind": "failing-input",
            "what": "exact-integer sweep: the entry chosen by the implementation is more than 1e-6 from the optimum (or the SGR bytes are not of the expected form)",
            "case": {k: v[k] for k in v}} for v in res["violations"]]
    return {"violations": vio,
            "coverage": {"sweep_colours_per_depth": res["checked"], "sweep_stride": res["stride"],
                         "sweep_exhaustive": res["stride"] == 1,
                         "near_ties": res["near_ties"], "worst_excess": res["worst_excess"], "worst_at": res["worst_at"],
                         "tolerance": res["tolerance"]},
            "notes": ["c20sweep: %d colours per depth (stride %d), %d not exactly optimal under f32, worst excess %.3g (tolerance 1e-6)"
                      % (res["checked"], res["stride"], res["near_ties"], res["worst_excess"])]}


PROP = {'gen': [],
 'pre_coq': [regen_color_tables],
 'coq_props': ['theories/Props/C20.vo'],
 'coq_corr': ['theories/Corr/C20Corr.vo'],
 'props_file': 'theories/Props/C20.v',
 'props_module': 'Props.C20',
 'corr_check': 'SNT.Corr.C20Corr.c20_check (exact model Encoder/Color256.v vs the SGR bytes of surf_n_term::encoder::TTYEncoder for '
               'FaceModify{fg,bg,underline_color}; predicate: brute-force minimum over the 240 entries / 4 levels, tolerance 1e-6)',
 'level_text': 'placeholder',
 'level_note': 'placeholder',
 'technique': 'Coq proof (sorted-table nearest search, per-channel separability, mean argument for greys) + regenerated tables + '
              'model/implementation correspondence by the property with a stated tolerance',
 'design_ref': 'DESIGN.md 6.20',
 'n_quick': 9000,
 'n_thorough': 200000,
 'shard': 1000,
 'level': 'proof',
 'extra': [sweep],
 'trusted_base': [KERNEL, HARNESS],
 'assumptions': []}
