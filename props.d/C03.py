"""C03 check configuration."""
import importlib.util
import os

from propbase import KERNEL, HARNESS

_root = os.path.dirname(os.path.dirname(os.path.abspath(__file__)))
_spec = importlib.util.spec_from_file_location("translate_dfa", os.path.join(_root, "translate", "dfa.py"))
_dfa = importlib.util.module_from_spec(_spec)
_spec.loader.exec_module(_dfa)

_spec2 = importlib.util.spec_from_file_location("translate_c15prod", os.path.join(_root, "translate", "c15prod.py"))
_c15prod = importlib.util.module_from_spec(_spec2)
_spec2.loader.exec_module(_c15prod)

_spec_rc = importlib.util.spec_from_file_location("tools_releasecheck", os.path.join(_root, "tools", "releasecheck.py"))
_rc = importlib.util.module_from_spec(_spec_rc)
_spec_rc.loader.exec_module(_rc)


def _release(ctx):
    """thorough tier: the same cases through a --release build of the harness, identical observations required"""
    return _rc.release_crosscheck(ctx, ['c03', 'c15'], PROP['n_thorough'])


PROP = {'gen': [],
 'extra': [_release],
 'pre_coq': [_dfa.pre_coq, _c15prod.pre_coq],
 'harness_mods': ['c15'],
 'coq_props': ['theories/Props/C03.vo'],
 'coq_props_more': [{'target': 'theories/Props/C03Prod.vo', 'file': 'theories/Props/C03Prod.v', 'module': 'Props.C03Prod'}],
 'coq_corr': ['theories/Corr/C03Corr.vo'],
 'props_file': 'theories/Props/C03.v',
 'props_module': 'Props.C03',
 'corr_check': 'SNT.Corr.C03Corr.c03_check (model Automata/Tokenizer.v vs MatcherDecoder through verif::Tokenizer over generated '
               'pattern sets, and vs TTYEventDecoder / TTYCommandDecoder / Utf8Decoder over the regenerated production automata)',
 'level_text': 'Coq theorems, generic in the automaton (any DFA, any payload decoder; counted obligations: C03_chunking, C03_munch, C03_fuel, '
               'C03_prod_terminal, C03_public_wrappers, C03_poll_loop, and in Props/C03Prod.v C03_prod_language_event / _command): feeding '
               'a stream to the model of MatcherDecoder in any partition into reads (empty reads allowed) yields the same events and the '
               'same final state as one read; the events are the tokenisation `munch` and spans plus pending bytes reassemble the stream; '
               'the loops terminate within a stated fuel bound. What `munch` means is stated by lemmas about the specification alone '
               '(C03_no_loss, C03_munch_unfold, C03_first_stop, C03_longest_acc, C03_longest, C03_raw_span, C03_accepted_span: not '
               'counted). Spec decisions / readings of the property: (1) "recognised" = accepted by the automaton; the longest accepted '
               'prefix is emitted, as ONE raw event of the same span when its payload decoder rejects it (a shorter complete sequence is '
               'not reconsidered); (2) longest over the WHOLE remaining stream holds when is_terminal states have no successor '
               '(hypothesis of C03_longest; checked on the regenerated tables: C03_prod_terminal); (3) when nothing recognised starts at '
               'a position, the raw event is the longest live prefix there (or one byte) and the bytes inside it are not re-tokenised; '
               '(4) C03_poll_loop models the read loop of UnixTerminal::poll with a STATELESS image handler that does not fail; '
               'Lemma C03_poll_loop_handler_error states the limit: when `handle(..)?` fails, poll returns that error and the rest of the '
               'current read buffer is dropped (events are lost there; unreachable with the crate\'s handlers, whose writes go to the '
               'in-memory queue; a `recv == 0` read ends poll with Error::Quit before decoding and is not modelled); (5) the Utf8Decoder '
               'specification of the correspondence (u8_spec) follows the code in consuming the byte that kills a sequence together with '
               'it (`C3 41` yields one error and no `A`): the property asks chunking independence of Utf8Decoder, not resynchronisation. '
               'C03_prod_language_event / _command compose with C15_production_*: tokens characterised on the production NFA DUMP '
               '(accepted / live / tags), not on pattern ASTs. Model tied to the code by a differential run at two levels; for generated '
               'pattern sets every emitted token is also checked against the languages of the patterns (verified regex matcher of C15).',
 'level_note': 'Trusted: Coq kernel + vm_compute; hand-written model of MatcherDecoder::{decode, decode_byte, take_candidate} and '
               'Decoder::decode_into validated by the correspondence run; DFA dump hook + translate/dfa.py; readers expose all their '
               'bytes in one fill_buf (Cursor / slice, as at every call site). No axioms.',
 'technique': 'Coq proof (invariants, big-step relation for the flattened byte stream, refinement to a leftmost-longest specification) + '
              'regenerated production automata + model/implementation correspondence',
 'design_ref': 'DESIGN.md 6.3',
 'n_quick': 1500,
 'n_thorough': 30000,
 'shard': 100,
 'level': 'proof',
 'trusted_base': [KERNEL,
                  'hand-written model Automata/Tokenizer.v of MatcherDecoder (decode, decode_byte, take_candidate) and decode_into, tied '
                  'to the code by the correspondence run',
                  'verif-hooks dump of the compiled automata (verif::dump_dfa, Tokenizer::dump) and translate/dfa.py (Gen/ProdDFA.v; listing of the '
                  'methods of the decoder types, any other surface is reported)',
                  'for C03_prod_language_event / _command (Props/C03Prod.v): verif::dump_nfa, harness tool c15prod (DOT parser), translate/c15prod.py (Gen/ProdNFA.v) and the '
                  'certificate checker of C15 (Automata/ProdCheck.v, verified)',
                  HARNESS],
 'assumptions': ['the BufRead handed to decode exposes all bytes of the read in one fill_buf (Cursor, &[u8]) as at every call site in '
                 'the crate; a reader exposing less is a finer partition into reads (exercised by the correspondence run: scripted '
                 'readers exposing one byte / a window at a time, empty reads, Interrupted / TimedOut errors, decoder reused)',
                 'payload decoders are deterministic functions of the matched bytes (they are pure Rust functions of a byte slice)',
                 'C03_longest: is_terminal states have no outgoing transition (proved for the production tables, C03_prod_terminal)',
                 'C03_poll_loop: the image handler is a stateless function of the event and returns Ok on every event of the stream',
                 'C03_prod_language_*: input bytes are below 256; the NFA is the one dumped right before compile()']}
