"""C03 check configuration."""
import importlib.util
import os

from propbase import KERNEL, HARNESS

_root = os.path.dirname(os.path.dirname(os.path.abspath(__file__)))
_spec = importlib.util.spec_from_file_location("translate_dfa", os.path.join(_root, "translate", "dfa.py"))
_dfa = importlib.util.module_from_spec(_spec)
_spec.loader.exec_module(_dfa)

_spec2 = importlib.util.spec_from_file_location("translate_c15prod", os.path.join(_root, "translate", "c15prod.py"))
_c15prod = importlib.util.module_from_spec(_spec2)
_spec2.loader.exec_module(_c15prod)

_spec_rc = importlib.util.spec_from_file_location("tools_releasecheck", os.path.join(_root, "tools", "releasecheck.py"))
_rc = importlib.util.module_from_spec(_spec_rc)
_spec_rc.loader.exec_module(_rc)


def _release(ctx):
    """thorough tier: the same cases through a --release build of the harness, identical observations required"""
    return _rc.release_crosscheck(ctx, ['c03', 'c15'], PROP['n_thorough'])


PROP = {'gen': [],
 'extra': [_release],
 'pre_coq': [_dfa.pre_coq, _c15prod.pre_coq],
 'harness_mods': ['c15'],
 'coq_props': ['theories/Props/C03.vo'],
 'coq_corr': ['theories/Corr/C03Corr.vo'],
 'props_file': 'theories/Props/C03.v',
 'props_module': 'Props.C03',
 'corr_check': 'SNT.Corr.C03Corr.c03_check (model Automata/Tokenizer.v vs MatcherDecoder through verif::Tokenizer over generated '
               'pattern sets, and vs TTYEventDecoder / TTYCommandDecoder / Utf8Decoder over the regenerated production automata)',
 'level_text': 'Coq theorems, generic in the automaton (any DFA, any payload decoder): feeding a stream to the model of MatcherDecoder '
               'in any partition into reads (empty reads allowed) yields the same events and the same final state as one read; the '
               'events are the leftmost-longest tokenisation (spec munch) and spans plus pending bytes reassemble the stream; the '
               'loops terminate within a stated fuel bound. Instantiated at the production automata regenerated from the source each '
               'run, and composed with C15_production_* (each dumped DFA is the subset construction of the NFA built from the registered '
               'patterns): C03_prod_language states the tokenisation on the production NFAs (accepted / live / tags of the NFA). '
               'Model tied to the code by a differential run at two levels; for generated pattern sets every emitted token is also checked '
               'against the languages of the patterns (verified regex matcher of C15).',
 'level_note': 'Trusted: Coq kernel + vm_compute; hand-written model of MatcherDecoder::{decode, decode_byte, take_candidate} and '
               'Decoder::decode_into validated by the correspondence run; DFA dump hook + translate/dfa.py; readers expose all their '
               'bytes in one fill_buf (Cursor / slice, as at every call site). No axioms.',
 'technique': 'Coq proof (invariants, big-step relation for the flattened byte stream, refinement to a leftmost-longest specification) + '
              'regenerated production automata + model/implementation correspondence',
 'design_ref': 'DESIGN.md 6.3',
 'n_quick': 1500,
 'n_thorough': 30000,
 'shard': 100,
 'level': 'proof',
 'trusted_base': [KERNEL,
                  'hand-written model Automata/Tokenizer.v of MatcherDecoder (decode, decode_byte, take_candidate) and decode_into, tied '
                  'to the code by the correspondence run',
                  'verif-hooks dump of the compiled automata (verif::dump_dfa, Tokenizer::dump) and translate/dfa.py (Gen/ProdDFA.v)',
                  'for C03_prod_language: verif::dump_nfa, harness tool c15prod (DOT parser), translate/c15prod.py (Gen/ProdNFA.v) and the '
                  'certificate checker of C15 (Automata/ProdCheck.v, verified)',
                  HARNESS],
 'assumptions': ['the BufRead handed to decode exposes all bytes of the read in one fill_buf (Cursor, &[u8]) as at every call site in '
                 'the crate; a reader exposing less is a finer partition into reads',
                 'payload decoders are deterministic functions of the matched bytes (they are pure Rust functions of a byte slice)']}
