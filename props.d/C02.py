"""C02 check configuration."""
import importlib.util
import os

from propbase import KERNEL, HARNESS

_root = os.path.dirname(os.path.dirname(os.path.abspath(__file__)))
_spec = importlib.util.spec_from_file_location("translate_dfa", os.path.join(_root, "translate", "dfa.py"))
_dfa = importlib.util.module_from_spec(_spec)
_spec.loader.exec_module(_dfa)

def _sweep(ctx):
    """exhaustive short-input sweep through the real decoders (crash isolation in a child process)"""
    import json
    import subprocess
    try:
        p = subprocess.run([ctx["exe"], "tool", "c02sweep"], env=ctx["env"], stdout=subprocess.PIPE, stderr=subprocess.DEVNULL,
                           timeout=1200, text=True)
        out = json.loads(p.stdout)
    except Exception as e:  # noqa: BLE001
        return {"violations": [{"kind": "failing-input", "what": "short-input sweep did not complete: %s" % e, "case": {}}]}
    vio = [{"kind": "failing-input", "what": "short-input sweep: crash, chunking-dependent events, empty or out-of-order raw event",
            "case": v} for v in out.get("violations", [])[:5]]
    return {"violations": vio, "coverage": {"sweep_strings": out.get("strings", 0), "sweep_failures": len(out.get("violations", []))},
            "notes": ["exhaustive sweep of all 2-byte strings (both decoders) and all ESC [ + 2 bytes: %d strings, %d failures"
                      % (out.get("strings", 0), len(out.get("violations", [])))]}


_spec_rc = importlib.util.spec_from_file_location("tools_releasecheck", os.path.join(_root, "tools", "releasecheck.py"))
_rc = importlib.util.module_from_spec(_spec_rc)
_spec_rc.loader.exec_module(_rc)


def _release(ctx):
    """thorough tier: the same cases through a --release build of the harness, identical observations required"""
    return _rc.release_crosscheck(ctx, ['c02'], PROP['n_thorough'])


PROP = {'gen': [],
 'extra': [_sweep, _release],
 'pre_coq': [_dfa.pre_coq],
 'coq_props': ['theories/Props/C02.vo'],
 'coq_corr': ['theories/Corr/C02Corr.vo'],
 'props_file': 'theories/Props/C02.v',
 'props_module': 'Props.C02',
 'corr_check': 'SNT.Corr.C02Corr.c02_check (models Decoder/Payload.v + Decoder/Events.v over Gen/ProdDFA.v vs TTYEventDecoder / '
               'TTYCommandDecoder / Utf8Decoder run in a child process)',
 'level_text': 'Coq theorems over an executable model of the three public decoders (generic tokeniser of C03 instantiated at the '
               'automata regenerated from the source, one checked Gallina function per Matcher::decode body, sgr_face / sgr_color in '
               'full). Counted obligations: C02_total_event/_command, C02_run_no_panic_event/_command (the run in which a panicking '
               'payload decoder aborts at the byte where it is called, also for candidates later replaced), C02_payload_no_panic '
               '(_command), C02_utf8_decoder, C02_utf8_decoder_chunking, C02_chars_scalar, C02_numbers, C02_parameter_values, '
               'C02_cursor_position, C02_numeric_fields, C02_modified_keys, C02_mouse_protocol, C02_mouse_unnamed, C02_spans_in_order(_command); '
               'for every '
               'byte string and every partition into reads: no payload decoder panics on any string the automaton accepts (three '
               'shape certificates - lengths, XTWINOPS pieces, XTGETTCAP hex fields - and the palette table sizes, checked by '
               'reflection on the regenerated tables), the loops terminate, an exhausted decoder returns None, Utf8Decoder never '
               'overruns its buffer and is chunking independent; characters are scalar values; numeric fields are the unbounded decimal '
               'values of their digits clamped to usize::MAX (minus one where one-based; a zero there makes the sequence '
               'unrecognised); raw events are non-empty and spans reassemble the input in order. Spec decisions: (1) bit SETS are not '
               'numeric fields: kitty keyboard modifiers are the nine known bits of (m - 1) (KeyMod::from_bits masks by design) and an '
               'SGR mouse button code is read as a bit field - bits 0-1 button, 2-4 modifiers, 6 wheel, 7 = unnamed -> unrecognised, bits '
               'above 7 ignored (`ESC[<256;1;1M` is MouseLeft); (2) an SGR true-colour channel above 255 makes the colour '
               'unrecognised (the predicate also accepts the clamp to 255, never a wrapped value); (3) overlong UTF-8 forms decode to '
               'the scalar value their shape denotes; (4) DecMode / DecModeStatus / OSC ids are compared as whole numbers. Lemmas '
               '(not counted): C02_calls_accepted(_command), C02_tables, C02_utf8_decoder_exhausted (definitional), '
               'C02_old_code_refuted (the pre-fix bodies).',
 'level_note': 'Trusted: Coq kernel + vm_compute; hand-written payload models validated by the correspondence run; DFA dump hook + '
               'translate/dfa.py (automata, matcher order, DecMode lists, palette tables); RGBA::from_str, String::from_utf8_lossy, '
               'FaceModify::apply / FaceAttrs of a DECRPSS reply treated as total opaque functions. '
               'No axioms.',
 'technique': 'Coq proof (generic tokeniser theorems of C03 + per-decoder totality lemmas + reflection certificates over the regenerated '
              'automata) + model/implementation correspondence with crash observation in a child process',
 'design_ref': 'DESIGN.md 6.2',
 'n_quick': 2800,
 'escalate': 2,
 'n_thorough': 20000,
 'shard': 125,
 'level': 'proof',
 'trusted_base': [KERNEL,
                  'hand-written models Decoder/Payload.v (payload decoders, number_decode, utf8_decode) and Decoder/Events.v (wrappers, '
                  'Utf8Decoder), tied to the code by the correspondence run',
                  'verif-hooks dump of the compiled automata and translate/dfa.py (Gen/ProdDFA.v: tables, matcher order, DecMode code '
                  'lists, CUBE / GREYS / COLORS; listing of the methods of the decoder types, any other surface is reported)',
                  'opaque total functions: rasterize RGBA::from_str, String::from_utf8_lossy, FaceModify::apply / FaceAttrs (only the colours '
                  'of FaceGet are modelled)',
                  HARNESS],
 'assumptions': ['the BufRead handed to decode exposes all bytes of the read in one fill_buf (Cursor, &[u8]); other readers (one byte / a window '
                 'at a time, empty reads, Interrupted / TimedOut errors, decoder reused after Err) are exercised by the correspondence run only',
                 '64-bit target: usize = u64',
                 'kitty keyboard modifiers are a bit set: KeyMod::from_bits keeps the nine known bits of (m - 1) by design (a mask, not a '
                 'wrapped numeric field); an SGR mouse button code is a bit field whose bits above 7 are ignored',
                 'theorems describe the debug-profile semantics (overflow = panic); the release profile is covered by the thorough-tier '
                 'cross-check (tools/releasecheck.py: identical observations required)']}
