"""C15 check configuration (data only)."""
from propbase import KERNEL, HARNESS

PROP = {'gen': [],
 'coq_props': ['theories/Props/C15.vo'],
 'coq_corr': ['theories/Corr/C15Corr.vo'],
 'props_file': 'theories/Props/C15.v',
 'props_module': 'Props.C15',
 'corr_check': 'SNT.Corr.C15Corr.c15_check (model Automata/{NFA,Build,Compile}.v vs surf_n_term::automata::{NFA, DFA}: NFA graph from '
               'the Debug output, DFA enumerated through start/transition/info, acceptance/terminal/tags after every short string)',
 'level_text': 'Coq theorems over an executable model of the NFA combinators and of NFA::compile: for every expression and every byte '
               'string the built NFA accepts the string iff the expression matches it; the compiled DFA steps without panic, '
               'reports a dead transition exactly when no NFA state is reachable, is accepting iff the expression matches, reports '
               'exactly the tags of the matching alternatives and is terminal only if no byte extends. Model tied to the code by a '
               'differential run over generated expressions.',
 'level_note': 'Trusted: Coq kernel + vm_compute; hand-written model validated by the correspondence run. No axioms.',
 'technique': 'Coq proof (structural induction over expressions with path decomposition lemmas; invariant of the subset construction) '
              '+ model/implementation correspondence',
 'design_ref': 'DESIGN.md 5, 6.15',
 'n_quick': 300,
 'n_thorough': 6000,
 'shard': 60,
 'level': 'proof',
 'trusted_base': [KERNEL,
                  'hand-written model Automata/NFA.v, Build.v, Compile.v of src/automata.rs, tied to the code by the correspondence run '
                  '(NFA graph, DFA, observations)',
                  'specification Automata/Regex.v: textbook denotation of the expressions',
                  HARNESS],
 'assumptions': ['symbols are bytes (below 256)']}
