"""C15 check configuration (data only)."""
from propbase import KERNEL, HARNESS

PROP = {'gen': [],
 'coq_props': ['theories/Props/C15.vo'],
 'coq_corr': ['theories/Corr/C15Corr.vo'],
 'props_file': 'theories/Props/C15.v',
 'props_module': 'Props.C15',
 'corr_check': 'SNT.Corr.C15Corr.c15_check (model Automata/{NFA,Build,Compile}.v vs surf_n_term::automata::{NFA, DFA}: NFA graph from '
               'the Debug output, DFA enumerated through start/transition/info, acceptance/terminal/tags after every short string)',
 'level_text': 'Coq theorems over an executable model of the NFA combinators, NFA::compile and DFA stepping (src/automata.rs): for '
               'every expression (arbitrary nesting) and every byte string, the built NFA has an accepting path iff the expression '
               'matches (C15_build); for every NFA whose edge lists are maps, compile terminates without panic and the DFA, stepped '
               'through any byte string without panic, reports a dead transition exactly when no NFA state is reachable, is accepting '
               'iff the stop state is reachable, carries exactly the tags of the reachable tagged states and is terminal only if no '
               'byte has a transition (C15_compile, C15_compile_total); hence DFA::matches = expression matches (C15_main, '
               'C15_main_unconditional), terminal/dead only if no extension matches (C15_terminal_dead), tags of a tagged choice = tags '
               'of the matching alternatives (C15_tags). The model is tied to the code by a differential run: NFA graph (Debug output), '
               'DFA (canonical enumeration), acceptance/terminal/tags after every short string and guided long strings, with a '
               'verified derivative matcher as property predicate.',
 'level_note': 'Trusted: Coq kernel + vm_compute; hand-written model (BTreeMap<NFAStateId,_> as a list indexed by id: ids are dense by '
               'construction, compared with the ids printed by the code); denotation of expressions is the specification; symbols are '
               'bytes. Tags characterised at expression level for tagged choices only. No axioms (Print Assumptions: closed).',
 'technique': 'Coq proof (structural induction over expressions with path decomposition lemmas; invariant of the subset construction) '
              '+ model/implementation correspondence',
 'design_ref': 'DESIGN.md 5, 6.15',
 'n_quick': 900,
 'n_thorough': 12000,
 'shard': 60,
 'level': 'proof',
 'trusted_base': [KERNEL,
                  'hand-written model Automata/NFA.v, Build.v, Compile.v of src/automata.rs, tied to the code by the correspondence run '
                  '(NFA graph, DFA, observations)',
                  'specification Automata/Regex.v: textbook denotation of the expressions',
                  HARNESS],
 'assumptions': ['symbols are bytes (below 256)']}
