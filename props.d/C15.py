"""C15 check configuration (data only)."""
import importlib.util
import os
import re
import subprocess
import time

from propbase import KERNEL, HARNESS

_root = os.path.dirname(os.path.dirname(os.path.abspath(__file__)))


def _load(name):
    spec = importlib.util.spec_from_file_location("translate_" + name, os.path.join(_root, "translate", name + ".py"))
    mod = importlib.util.module_from_spec(spec)
    spec.loader.exec_module(mod)
    return mod


_dfa = _load("dfa")
_c15prod = _load("c15prod")


def prod_model_agreement(ctx):
    """The production NFAs through the MODEL of compile (Automata/Compile.v, evaluated through its
    proved-equal efficient rendering Automata/CompileFast.v): the DFA the model computes must equal
    the production DFA state for state (same numbering), for utf8, command and event."""
    names = ["utf8", "command", "event"]
    d = os.path.join(ctx["build"], "c15prod")
    os.makedirs(d, exist_ok=True)
    src = "From Coq Require Import List NArith.\nFrom SNT Require Import Corr.C15Prod Automata.ProdCheck Gen.ProdNFA Gen.ProdDFA.\nImport ListNotations.\nLocal Open Scope N_scope.\n"
    for nm in names:
        src += "Eval vm_compute in (prod_agree 4096 (Nat.mul 400 400) %s_nfa_data %s_data).\n" % (nm, nm)
    # the certificate check behind Props/C15Prod.v, and a shortest string on which DFA and NFA differ when it fails
    for nm in names:
        src += ("Eval vm_compute in (if check %s_nfa_data %s_data %s_subsets (N.to_nat 100000) then (true, None) "
                "else (false, prod_witness %s_nfa_data %s_data)).\n" % (nm, nm, nm, nm, nm))
    path = os.path.join(d, "prod_agree.v")
    with open(path, "w") as f:
        f.write(src)
    t0 = time.time()
    p = subprocess.run(["coqc", "-noglob", "-Q", os.path.join(ctx["coq"], "theories"), "SNT", path], cwd=d,
                       stdout=subprocess.PIPE, stderr=subprocess.STDOUT, text=True, timeout=3000)
    codes = re.findall(r"=\s*(\d+)(?:%N)?\s*:\s*N\b", p.stdout)
    certs = re.findall(r"=\s*\((true|false),\s*(None|Some\s*\[[^\]]*\])\)", p.stdout)
    res = {"violations": [], "coverage": {"production_automata_through_model": names}, "notes": [
        "model compile vs production DFA (%s): codes %s, %.1fs" % (", ".join(names), codes, time.time() - t0)]}
    if p.returncode != 0 or len(codes) != len(names) or len(certs) != len(names):
        res["violations"].append({"kind": "broken-correspondence", "what": "cannot evaluate the model of compile on the production NFAs: " + p.stdout[-800:], "case": {}})
        return res
    what = {"1": "start state", "2": "number of states", "3": "transition table", "4": "accepting/terminal/tags"}
    for nm, c in zip(names, codes):
        if c == "10":
            res["notes"].append("production %s: the model's DFA equals the production DFA up to the numbering of states "
                                "(the discovery order of the code differs from the model's; not a violation)" % nm)
            continue
        if c != "0":
            res["violations"].append({"kind": "broken-correspondence",
                                      "what": "the model of NFA::compile run on the production %s NFA does not reproduce the production DFA (%s; code %s)" % (nm, what.get(c, "model panic/fuel"), c),
                                      "case": {"automaton": nm}})
    for nm, (ok, wit) in zip(names, certs):
        if ok == "true":
            continue
        if wit.startswith("Some"):
            bs = [int(x) for x in re.findall(r"\d+", wit)]
            res["violations"].append({"kind": "failing-input",
                                      "what": "production %s automaton: after this byte string the compiled DFA (verif::dump_dfa) and the NFA it was compiled from "
                                              "(verif::dump_nfa) disagree (dead vs reachable, accepting vs stop reachable, or tags); shortest such string" % nm,
                                      "case": {"automaton": nm, "bytes": bs, "text": bytes(bs).decode("latin-1")}})
        else:
            res["violations"].append({"kind": "broken-correspondence",
                                      "what": "production %s automaton: the subset-construction certificate no longer checks; no disagreeing string found "
                                              "within the search budget" % nm, "case": {"automaton": nm}})
    res["coverage"]["production_certificates"] = {nm: ok for nm, (ok, _) in zip(names, certs)}
    return res


PROP = {'gen': [],
 'pre_coq': [_dfa.pre_coq, _c15prod.pre_coq],
 'extra': [prod_model_agreement],
 'coq_props': ['theories/Props/C15.vo'],
 'coq_corr': ['theories/Corr/C15Corr.vo', 'theories/Corr/C15Prod.vo', 'theories/Corr/C15All.vo'],
 'coq_props_more': [{'target': 'theories/Props/C15Prod.vo', 'file': 'theories/Props/C15Prod.v', 'module': 'Props.C15Prod'}],
 'props_file': 'theories/Props/C15.v',
 'props_module': 'Props.C15',
 'corr_check': 'SNT.Corr.C15All.c15_any_check (expression cases: model Automata/{NFA,Build,Compile}.v vs surf_n_term::automata::{NFA, DFA}: NFA '
               'graph from the Debug output, DFA enumerated through start/transition/info, acceptance/matches/terminal/tags after every '
               'short string and DFA-derived probes; production cases: byte strings through the real event/command/utf8 DFAs vs the '
               'dumped production NFA)',
 'level_text': 'Coq theorems over an executable model of the NFA combinators, NFA::compile and DFA stepping (src/automata.rs): for '
               'every expression (arbitrary nesting) and every byte string, the built NFA has an accepting path iff the expression '
               'matches (C15_build); for every NFA whose edge lists are maps, compile terminates without panic (C15_compile_total: for NFAs that are also well formed, `wf n`: start, stop and every edge '
               'target exist) and the DFA, stepped '
               'through any byte string without panic, reports a dead transition exactly when no NFA state is reachable, is accepting '
               'iff the stop state is reachable, carries exactly the tags of the reachable tagged states and is terminal only if no '
               'byte has a transition (C15_compile, C15_compile_total); hence DFA::matches = expression matches (C15_main, '
               'C15_main_unconditional), terminal/dead only if no extension matches (C15_terminal_dead), tags of a tagged choice = tags '
               'of the matching alternatives (C15_tags_tagged_choice), as the special case of the general expression-level law for tags in '
               'arbitrary positions (C15_tags: reported tags = {t | some (t, r) of tex e has r matching s}; C15_tags_reachable is the '
               'NFA-level form); the efficient rendering compile_fast used under vm_compute equals the reference compile '
               '(Lemma C15_compile_fast); each production DFA of decoder.rs, as dumped on this run, is the subset construction of the '
               'production NFA dumped before compile (Props/C15Prod.v, a separate target: C15_production_event/command/utf8, verified '
               'certificate checker = translation validation; the model of compile run on the production NFAs reproduces the production '
               'DFAs state for state). The model is tied to the code by a differential run: NFA graph (Debug output), '
               'DFA (canonical enumeration), acceptance/terminal/tags after every short string and guided long strings, with a '
               'verified derivative matcher as property predicate.',
 'level_note': 'Trusted: Coq kernel + vm_compute; hand-written model (BTreeMap<NFAStateId,_> as a list indexed by id: ids are dense by '
               'construction, compared with the ids printed by the code); denotation of expressions is the specification; symbols are '
               'bytes. Tags characterised at expression level for every expression (tex). No axioms (Print Assumptions: closed).',
 'technique': 'Coq proof (structural induction over expressions with path decomposition lemmas; invariant of the subset construction) '
              '+ model/implementation correspondence',
 'design_ref': 'DESIGN.md 5, 6.15',
 'n_quick': 600,
 'n_thorough': 12000,
 'shard': 60,
 'level': 'proof',
 'trusted_base': [KERNEL,
                  'hand-written model Automata/NFA.v, Build.v, Compile.v of src/automata.rs, tied to the code by the correspondence run '
                  '(NFA graph, DFA, observations)',
                  'specification Automata/Regex.v: textbook denotation of the expressions',
                  'verif-hooks verif::dump_nfa / dump_dfa / NFA::verif_ends, harness tool c15prod (DOT parser), translate/c15prod.py and '
                  'translate/dfa.py (Gen/ProdNFA.v, Gen/ProdDFA.v); the subset certificates are NOT trusted (checked in Coq)',
                  HARNESS],
 'assumptions': ['symbols are bytes (below 256)',
                 'production theorems: the NFA text returned by the add-only hook verif::dump_nfa is the NFA that MatcherAutomata::new / '
                 'utf8_nfa pass to compile (the hook repeats the ten lines of MatcherAutomata::new; a divergence shows as a failed '
                 'certificate check or a model/production DFA disagreement)']}
