"""C08 check configuration (data only)."""
from propbase import KERNEL, HARNESS

PROP = {'gen': [],
 'coq_props': ['theories/Props/C08.vo'],
 'coq_corr': ['theories/Corr/C08Corr.vo'],
 'props_file': 'theories/Props/C08.v',
 'props_module': 'Props.C08',
 'corr_check': 'SNT.Corr.C08Corr.c08_check (model Surface/Bounds.v vs surf_n_term::surface::ViewBounds for 10 integer types x 7 selector '
               'forms)',
 'level_text': 'Coq theorem (C08_python_slice): for every axis length a usize can hold (also beyond i64::MAX), every selector form, every '
               'integer type and every bound of that type, the model of view_bounds equals Python slice resolution over unbounded '
               'integers; hence the answer is absent or 0 <= start < end <= n (C08_range_model, about the model of the code; C08_range '
               'about the specification) and type-independent (C08_type_independent); a single index is absent exactly outside '
               '[-n, n) (C08_index_absent). The specification py_slice is itself characterised by element membership '
               '(C08_spec_by_membership). Model tied to the code by a differential run over all ten types, seven forms, extreme '
               'bounds and axis lengths up to usize::MAX (plus an exhaustive small sweep).',
 'level_note': 'Trusted: Coq kernel; hand-written model of range_bounds/index_i128/casts validated by correspondence; py_slice as the '
               'reading of Python slicing (step 1); 64-bit target. Defects found and fixed: six slips at extreme bounds (fix b134c42), '
               'axes longer than i64::MAX resolved in i64 and type-dependent (fix 3c25d1b). No open known finding. No axioms.',
 'technique': 'Coq proof (case analysis + lia against a Python-slice specification over Z) + model/implementation correspondence',
 'design_ref': 'DESIGN.md 6.8',
 'n_quick': 3000,
 'n_thorough': 60000,
 'shard': 1000,
 'level': 'proof',
 'trusted_base': [KERNEL,
                  'hand-written model Surface/Bounds.v of ViewBounds::view_bounds / range_bounds / index_i128 (casts and saturating '
                  'arithmetic explicit), tied to the code by the correspondence run over all ten integer types',
                  'specification py_slice written from the Python data model (PySlice_AdjustIndices, step 1) over unbounded Z',
                  'Rust harness (generators, canonical printing of observations) and the case files it writes; differential testing '
                  'validates the model, it is not the theorem'],
 'assumptions': ['64-bit target: usize = u64, isize = i64']}
