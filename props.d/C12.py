"""C12 check configuration (data only)."""
from propbase import KERNEL, HARNESS

PROP = {'gen': ['sixel', 'octree'],
 'coq_props': ['theories/Props/C12.vo'],
 'coq_corr': ['theories/Corr/C12Corr.vo'],
 'props_file': 'theories/Props/C12.v',
 'props_module': 'Props.C12',
 'corr_check': 'SNT.Corr.C12Corr.c12_check (reference sixel interpreter run on the bytes of SixelImageHandler::draw; encoder model '
               'Image/Sixel.v + Image/SixelDraw.v compared byte for byte under the observed strip order)',
 'level_text': 'Coq theorems: for every palette, index image and every hash-map iteration order the encoder model output is one '
               'well-formed sixel sequence that a reference interpreter (written from the DEC description) decodes to a picture of '
               'the declared size with every pixel painted in its register colour and nothing outside; draw on any image of height '
               '>= 6 yields <= 256 registers; with <= 256 colours at 0..100 resolution the picture equals the source at that '
               'resolution; repeated draws return the cached bytes. Scaling tables and constants are regenerated from the source '
               'each run; the interpreter is run on the implementation bytes in the correspondence check.',
 'level_note': 'Trusted: Coq kernel + vm_compute; translate/sixel_tables.py (scaling tables and constants re-extracted from the source each '
               'run; scale(pre(x)) validated against the real code for all 256 values); hand-written models validated by the correspondence run; '
               'rasterize blend_over and the 64-bit content hash are oracles. No axioms.',
 'technique': 'Coq proof (encoder/interpreter round trip for every hash iteration order) + regenerated tables + model/implementation correspondence',
 'design_ref': 'DESIGN.md 6.12',
 'n_quick': 140,
 'n_thorough': 3500,
 'shard': 16,
 'level': 'proof',
 'trusted_base': [KERNEL,
                  'translate/sixel_tables.py: the two channel scalings (256 entries each, exact binary32 evaluation), palette size, dither '
                  'flag, band height, skip/repeat thresholds and code offset are re-extracted from src/image.rs on every run '
                  '(Gen/TabSixel.v); the composite scale(pre(x)) is validated against SixelImageHandler::draw for all 256 values of every '
                  'channel, `scale` on values off the reduced grid only through averaged palette entries of > 256-colour images; '
                  'IMAGE_CACHE_SIZE is extracted too',
                  'hand-written models Image/Sixel.v, Image/SixelDraw.v (encoder) and the C13 models (quantisation), tied to the code by '
                  'the correspondence run; the reference interpreter is written from the DEC sixel description',
                  'rasterize::RGBA::blend_over (alpha compositing) supplies the composited colour of each transparent pixel; every such value is '
                  'checked against the exact linear-light mix of Image/SrgbSpec.v (IEC 61966-2-1 table, independent of the crates) within '
                  '+-1 level; Surface::hash (cache key) is an oracle',
                  HARNESS],
 'assumptions': ['an image has at most 2^56 pixels (src_ok; the octree accumulators of the regenerated widths then never overflow, see C13)',
                 'the 64-bit FNV content hash used as cache key does not collide between different images drawn on one handler',
                 'the encoded-image cache stays below its 128 MB eviction threshold',
                 'io errors of the writer are outside the model']}
