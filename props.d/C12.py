"""C12 check configuration (data only)."""
from propbase import KERNEL, HARNESS

PROP = {'gen': ['sixel', 'octree'],
 'coq_props': ['theories/Props/C12.vo'],
 'coq_corr': ['theories/Corr/C12Corr.vo'],
 'props_file': 'theories/Props/C12.v',
 'props_module': 'Props.C12',
 'corr_check': 'SNT.Corr.C12Corr.c12_check (reference sixel interpreter run on the bytes of SixelImageHandler::draw; encoder model '
               'Image/Sixel.v + Image/SixelDraw.v compared byte for byte under the observed strip order)',
 'level_text': 'Coq theorems: (C12_roundtrip) for every palette, index image and every hash-map iteration order the encoder model output is '
               'one well-formed sixel sequence that a reference interpreter (written from the DEC description) decodes to a picture of the '
               'declared size with every pixel painted in its register colour and nothing outside; (C12_decode_upto_2p56px) draw on any image '
               'of height >= 6, width >= 1 and at most 2^56 pixels yields <= 256 registers and such a picture of size w x (h - h mod 6); '
               '(C12_exact_upto_2p56px) if moreover the image has <= 256 colours at 0..100 resolution AND is not sub-sampled '
               '(h6 * w / 25600 < 2) the picture equals the source at that resolution; (C12_crop_reads_view) a cropped Image (shared buffer + '
               'Shape::view, C07 model) reads exactly the window the theorems are applied to; (C12_repeat_while_cached) a repeated draw returns '
               'the bytes of the first one ONLY while its entry is cached (total output <= IMAGE_CACHE_SIZE): after an eviction it is false '
               '(C12_repeat_refuted_after_eviction) and only a correct picture is guaranteed. Scaling tables and constants are regenerated '
               'from the source each run; the interpreter is run on the implementation bytes in the correspondence check, with the same '
               'predicates (C12_checked_predicates, lemma).',
 'level_note': 'Trusted: Coq kernel + vm_compute; translate/sixel_tables.py (scaling tables and constants re-extracted from the source each '
               'run; scale(pre(x)) validated against the real code for all 256 values); hand-written models validated by the correspondence run; '
               'rasterize blend_over (bounded within one level against the exact linear-light mix) and the 64-bit content hash are oracles; '
               'translate/octree_types.py (declared widths, see C13). Restricted to images of height >= 6, width >= 1, at most 2^56 pixels; '
               'identical bytes on a repeated draw only while cached. No axioms.',
 'technique': 'Coq proof (encoder/interpreter round trip for every hash iteration order) + regenerated tables + model/implementation correspondence',
 'design_ref': 'DESIGN.md 6.12',
 'n_quick': 110,
 'n_thorough': 3500,
 'shard': 16,
 'level': 'proof',
 'trusted_base': [KERNEL,
                  'translate/sixel_tables.py: the two channel scalings (256 entries each, exact binary32 evaluation), palette size, dither '
                  'flag, band height, skip/repeat thresholds and code offset are re-extracted from src/image.rs on every run '
                  '(Gen/TabSixel.v); the composite scale(pre(x)) is validated against SixelImageHandler::draw for all 256 values of every '
                  'channel, `scale` on values off the reduced grid only through averaged palette entries of > 256-colour images; '
                  'IMAGE_CACHE_SIZE is extracted too',
                  'hand-written models Image/Sixel.v, Image/SixelDraw.v (encoder), Image/SixelCache.v (LRU cache) and the C13 models '
                  '(quantisation), tied to the code by the correspondence run (cache state observed through the verif-hooks accessor '
                  'e794f5f); the reference interpreter is written from the DEC sixel description; cropped views are connected to the C07 '
                  'Shape model by C12_crop_reads_view',
                  'rasterize::RGBA::blend_over (alpha compositing) supplies the composited colour of each transparent pixel; every such value is '
                  'checked against the exact linear-light mix of Image/SrgbSpec.v (IEC 61966-2-1 table, independent of the crates) within '
                  '+-1 level; Surface::hash (cache key) is an oracle',
                  HARNESS],
 'assumptions': ['an image has at most 2^56 pixels (src_ok; the octree accumulators of the regenerated widths then never overflow, see C13)',
                 'the 64-bit FNV content hash used as cache key does not collide between different images drawn on one handler',
                 'C12_repeat_while_cached only: the encoded-image cache stays below its 128 MB eviction threshold (after an eviction identical '
                 'bytes are not guaranteed: C12_repeat_refuted_after_eviction)',
                 'C12_exact_upto_2p56px only: <= 256 colours at 0..100 resolution and fewer than 51200 pixels (no sub-sampling)',
                 'io errors of the writer are outside the model']}
