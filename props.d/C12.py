"""C12 check configuration (data only)."""
from propbase import KERNEL, HARNESS
import os

# API surface of the types C12 is about (translate/image_api.py lists it from src/image.rs on every run; an item that is
# not in this table, or an item of this table that is gone, is reported as a broken obligation).  Status:
#   history  called by the operation programs of harness/src/c12.rs on ONE handler inside multi-step histories
#   layout   data layout the models are written against
#   out      not part of the sixel output; the property that covers it, or the reason it is left out
_H, _L, _O = 'history', 'layout', 'out'
API = {
 'Image derives Clone': (_H, 'draws of clones (ctor 1) and of the uncropped parent next to its crops'),
 'Image.data: Arc<[RGBA]>': (_L, 'one shared buffer under all crops of a parent (crop siblings, both orders)'),
 'Image.shape: Shape': (_L, 'C07 Shape model: C12_crop_reads_view'),
 'Image::new': (_H, 'ctor 2'),
 'Image::from_parts': (_H, 'every parent image'),
 'Image::crop': (_H, 'crop siblings: parent + 2..3 views in order and in reverse order on one handler'),
 'Image::resize': (_O, 'resampling, no property'),
 'Image::size_cells': (_O, 'cell geometry (C01)'),
 'Image::quantize': (_H, 'inside every draw (C13 models)'),
 'Image::write_png': (_O, 'kitty path / png crate'),
 'Image::ascii_view': (_O, 'debug view'),
 'impl PartialEq for Image {eq}': (_O, 'C11'), 'impl Eq for Image {}': (_O, 'C11'),
 'impl PartialOrd for Image {partial_cmp}': (_O, 'C11'), 'impl Ord for Image {cmp}': (_O, 'C11'),
 'impl std::hash::Hash for Image {hash}': (_H, 'the cache key of every draw: same picture through 4 constructors must hit, '
                                                'different views of one buffer must not'),
 'impl fmt::Debug for Image {fmt}': (_O, 'debug output'),
 'impl Surface for Image {shape, data}': (_H, 'read by every draw'),
 'impl From<SurfaceOwned<RGBA>> for Image {from}': (_H, 'ctor 3'),
 'impl View for Image {render, layout}': (_O, 'C01 renderer'),
 "impl Deserialize<'de> for Image {deserialize}": (_O, 'serde format, no property'),
 'impl Serialize for Image {serialize}': (_O, 'serde format, no property'),
 'trait ImageHandler::kind': (_H, 'asserted Sixel in every case'),
 'trait ImageHandler::draw': (_H, 'every operation program'),
 'trait ImageHandler::erase': (_H, 'DNop: no bytes, cache untouched, next draw unchanged'),
 'trait ImageHandler::handle': (_H, 'DNop: no bytes, not handled, cache untouched'),
 'impl ImageHandler for Box {kind, draw, erase, handle}': (_H, 'boxed=true: the whole history through Box<SixelImageHandler>'),
 'SixelImageHandler.imgs: lru::LruCache<u64, Vec<u8>>': (_L, 'SixelCache.v (LRU list of (hash, bytes))'),
 'SixelImageHandler.size: usize': (_L, 'SixelCache.v; observed after every operation'),
 'SixelImageHandler.bg: Option<RGBA>': (_L, 'SIX bg; a twin handler with another background in between'),
 'SixelImageHandler::new': (_H, 'one per case + twin'),
 'SixelImageHandler::verif_set_cache_size [verif-hooks]': (_H, 'DSize (eviction histories)'),
 'SixelImageHandler::verif_cache_state [verif-hooks]': (_H, 'after every operation'),
 'impl ImageHandler for SixelImageHandler {kind, draw, erase, handle}': (_H, 'every operation program; draw also with a writer '
                                                                            'that fails after k bytes (DFail), then drawn again'),
}
C12_TYPES = ['Image', 'SixelImageHandler', 'ImageHandler', 'Box']


def _load_api():
    import importlib.util
    here = os.path.dirname(os.path.dirname(os.path.abspath(__file__)))
    spec = importlib.util.spec_from_file_location('image_api', os.path.join(here, 'translate', 'image_api.py'))
    mod = importlib.util.module_from_spec(spec)
    spec.loader.exec_module(mod)
    return mod


_api_surface = _load_api().hook('C12', C12_TYPES, API)


PROP = {'gen': ['sixel', 'octree'],
 'extra': [_api_surface],
 'coq_props': ['theories/Props/C12.vo'],
 'coq_corr': ['theories/Corr/C12Corr.vo'],
 'props_file': 'theories/Props/C12.v',
 'props_module': 'Props.C12',
 'corr_check': 'SNT.Corr.C12Corr.c12_check (reference sixel interpreter run on the bytes of SixelImageHandler::draw; encoder model '
               'Image/Sixel.v + Image/SixelDraw.v compared byte for byte under the observed strip order)',
 'level_text': 'Coq theorems: (C12_roundtrip) for every palette, index image and every hash-map iteration order the encoder model output is '
               'one well-formed sixel sequence that a reference interpreter (written from the DEC description) decodes to a picture of the '
               'declared size with every pixel painted in its register colour and nothing outside; (C12_decode_upto_2p56px) draw on any image '
               'of height >= 6, width >= 1 and at most 2^56 pixels yields <= 256 registers and such a picture of size w x (h - h mod 6); '
               '(C12_exact_upto_2p56px) if moreover the image has <= 256 colours at 0..100 resolution AND is not sub-sampled '
               '(h6 * w / 25600 < 2) the picture equals the source at that resolution; (C12_crop_reads_view) a cropped Image (shared buffer + '
               'Shape::view, C07 model) reads exactly the window the theorems are applied to; (C12_repeat_while_cached) a repeated draw returns '
               'the bytes of the first one ONLY while its entry is cached (total output <= IMAGE_CACHE_SIZE): after an eviction it is false '
               '(C12_repeat_refuted_after_eviction) and only a correct picture is guaranteed. Scaling tables and constants are regenerated '
               'from the source each run; the interpreter is run on the implementation bytes in the correspondence check, with the same '
               'predicates (C12_checked_predicates, lemma).',
 'level_note': 'Trusted: Coq kernel + vm_compute; translate/sixel_tables.py (scaling tables and constants re-extracted from the source each '
               'run; scale(pre(x)) validated against the real code for all 256 values); hand-written models validated by the correspondence run; '
               'rasterize blend_over (bounded within one level against the exact linear-light mix) and the 64-bit content hash are oracles; '
               'translate/octree_types.py (declared widths, see C13). Restricted to images of height >= 6, width >= 1, at most 2^56 pixels; '
               'identical bytes on a repeated draw only while cached. No axioms.',
 'technique': 'Coq proof (encoder/interpreter round trip for every hash iteration order) + regenerated tables + model/implementation correspondence',
 'design_ref': 'DESIGN.md 6.12',
 'n_quick': 110,
 'n_thorough': 3500,
 'shard': 16,
 'level': 'proof',
 'trusted_base': [KERNEL,
                  'translate/sixel_tables.py: the two channel scalings (256 entries each, exact binary32 evaluation), palette size, dither '
                  'flag, band height, skip/repeat thresholds and code offset are re-extracted from src/image.rs on every run '
                  '(Gen/TabSixel.v); the composite scale(pre(x)) is validated against SixelImageHandler::draw for all 256 values of every '
                  'channel, `scale` on values off the reduced grid only through averaged palette entries of > 256-colour images; '
                  'IMAGE_CACHE_SIZE is extracted too',
                  'hand-written models Image/Sixel.v, Image/SixelDraw.v (encoder), Image/SixelCache.v (LRU cache) and the C13 models '
                  '(quantisation), tied to the code by the correspondence run (cache state observed through the verif-hooks accessor '
                  'e794f5f); the reference interpreter is written from the DEC sixel description; cropped views are connected to the C07 '
                  'Shape model by C12_crop_reads_view',
                  'rasterize::RGBA::blend_over (alpha compositing) supplies the composited colour of each transparent pixel; every such value is '
                  'checked against the exact linear-light mix of Image/SrgbSpec.v (IEC 61966-2-1 table, independent of the crates) within '
                  '+-1 level; Surface::hash (cache key) is an oracle',
                  HARNESS],
 'assumptions': ['an image has at most 2^56 pixels (src_ok; the octree accumulators of the regenerated widths then never overflow, see C13)',
                 'the 64-bit FNV content hash used as cache key does not collide between different images drawn on one handler',
                 'C12_repeat_while_cached only: the encoded-image cache stays below its 128 MB eviction threshold (after an eviction identical '
                 'bytes are not guaranteed: C12_repeat_refuted_after_eviction)',
                 'C12_exact_upto_2p56px only: <= 256 colours at 0..100 resolution and fewer than 51200 pixels (no sub-sampling)',
                 'io errors of the writer are outside the theorems; the correspondence covers a writer that fails after k bytes (nothing cached on a miss, the next draw complete)']}
