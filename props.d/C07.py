"""C07 check configuration (data only)."""
import importlib.util
import os

from propbase import KERNEL, HARNESS

_root = os.path.dirname(os.path.dirname(os.path.abspath(__file__)))
_spec_rh = importlib.util.spec_from_file_location("tools_releaseholds", os.path.join(_root, "tools", "releaseholds.py"))
_rh = importlib.util.module_from_spec(_spec_rh)
_spec_rh.loader.exec_module(_rh)


def _release(ctx):
    """thorough tier: the same cases through a --release build, the window predicate evaluated on its observations"""
    return _rh.release_holds(ctx, ['c07'], 3000, PROP['shard'])


PROP = {'gen': [],
 'coq_props': ['theories/Props/C07.vo'],
 'coq_corr': ['theories/Corr/C07Corr.vo'],
 'props_file': 'theories/Props/C07.v',
 'props_module': 'Props.C07',
 'corr_check': 'SNT.Corr.C07Corr.c07_check (model Surface/Shape.v vs surf_n_term::surface::{Shape, Surface, SurfaceMut} through chains of '
               'view_owned/transpose over owned, &mut, & and Arc bases, the last step taken through view / view_mut / as_ref / as_mut)',
 'level_text': 'Coq theorems: for every root size and every finite chain of view/transpose with arbitrary selectors the Shape computed by '
               'the code represents the window the same operations cut out of a plain matrix (induction over the chain, using the C08 '
               'theorem for selectors); for every represented shape offsets are in bounds and injective (the obligation of the unsafe '
               "iter_mut), get/iter/fill_with/map touch exactly the window's cells, each once, row-major; iter_mut hands out exactly "
               'those cells in that order; fill_with leaves every other element unchanged; insert writes only window cells (for '
               'positions whose row-major index is below usize::MAX: ..._upto_usize; from there on - no window has such a position - '
               'only the frame condition is checked per case: a panic or no write outside the window); is_empty says exactly "no cell" '
               'for every chain-built shape; an iterator at index k yields the k-th window cell and with_position() after k items '
               'continues with exactly the cells k.. and their positions, for iter and iter_mut, every k '
               '(C07_iterator_at_index, C07_with_position_continues). Roots up to i64::MAX per axis. Model tied to the code by differential runs '
               'observing shapes, reads (get, get_mut, iter, nth, position, with_position; iterator programs on one iterator of iter() '
               'and iter_mut(): next / nth / skip / take / position / index, then with_position and on), handed-out addresses and the whole backing '
               'vector after each mutation (fill, fill_with, clear, set, insert), through every view kind of the API.',
 'level_note': 'Trusted: Coq kernel; hand-written model Surface/Shape.v validated by correspondence; the memory model of rustc is not '
               'modelled (the unsafe block is covered through the arithmetic obligation: distinct in-bounds offsets). Defect found and '
               'fixed: SurfaceMut::set checked its position in debug builds only (fix 1927cbc). No open known finding. No axioms.',
 'technique': 'Coq proof (representation invariant by induction over the view chain; nia/lia; NoDup of handed-out offsets) + '
              'model/implementation correspondence',
 'design_ref': 'DESIGN.md 6.7',
 'extra': [_release],
 'n_quick': 2500,
 'n_thorough': 30000,
 'shard': 100,
 'level': 'proof',
 'trusted_base': [KERNEL,
                  'hand-written model Surface/Shape.v of Shape::{offset,nth,view}, transpose, get, SurfaceIter, SurfaceMutIter, '
                  'fill/fill_with/clear, insert, map; tied to the code by the correspondence run',
                  'window semantics (win_view/win_transpose/win_coord) as the plain-matrix specification',
                  'Rust harness (generators, canonical printing of observations) and the case files it writes; differential testing '
                  'validates the model, it is not the theorem'],
 'assumptions': ['root surfaces have height, width <= i64::MAX and a backing vector of at least H*W elements (SurfaceOwned::new/new_with)',
                 'the correspondence run uses the debug profile; the release profile is cross-checked in the thorough tier by '
                 'evaluating the window predicate on the observations of a --release build (tools/releaseholds.py)',
                 'the view kinds (view_owned, view, view_mut, as_ref, as_mut, &S, &mut S, Arc<S>, Box<S>) all reduce to (shape, data) in '
                 'the model; that they do is validated by the correspondence run through each of them, not proved',
                 'clear, set, get_mut, SurfaceIter::nth/position/with_position are modelled and compared, without theorems of their own '
                 '(clear is fill with the default; get_mut addresses like get)']}
