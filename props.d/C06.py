"""C06 check configuration."""
import os
import subprocess
import sys

from propbase import KERNEL, HARNESS


def _regen(ctx):
    """tables from src/face.rs, src/decoder.rs; the command automaton from the crate's own compile()"""
    env = dict(ctx["env"], VERIF_REPO=ctx["repo"])
    gen = os.path.join(ctx["root"], "translate", "c06gen.py")
    out = []
    rc = 0
    for args in (["tables"], ["dfa", ctx["exe"], "command", "C06CmdDFA"]):
        p = subprocess.run([sys.executable, gen] + args, env=env, stdout=subprocess.PIPE, stderr=subprocess.STDOUT, text=True, timeout=900)
        out.append(p.stdout.strip())
        rc = rc or p.returncode
    return rc, "\n".join(out)


PROP = {
 'gen': [],
 'pre_coq': [_regen],
 'coq_props': ['theories/Props/C06.vo'],
 'coq_corr': ['theories/Corr/C06Corr.vo'],
 'props_file': 'theories/Props/C06.v',
 'props_module': 'Props.C06',
 'corr_check': 'SNT.Corr.C06Corr.c06_check (models Encoder/FaceEnc.v, Decoder/Sgr.v, Decoder/CmdTok.v, Render/FaceModel.v vs '
               'surf_n_term::{TTYEncoder, TTYCommandDecoder, FaceModify::apply, CellWrite::tty_writer}; property predicate from the '
               'reference SGR machine Decoder/SgrRef.v)',
 'level_text': 'Coq theorems over executable models of the SGR encoder (true colour), the SGR parameter interpreter, FaceModify::apply, '
               'the command tokeniser over the regenerated production automaton and the escape-sequence cell writer: every modification '
               'record / face with opaque colours is read back as itself (a face minus inverse video, which a record cannot express) and every '
               'character as itself, except ESC and the C1 introducers, which the encoder writes as U+FFFD on purpose; for every history of SGR sequences '
               'whose parameters are all completely defined by the standards (C06_semantics_wf: no truncated or out-of-range colour '
               'specification, no undefined sub-parameter such as 4:6 or 1:2, numbers of at most 19 digits) interleaved with text, and '
               'every chunking, the cells carry the faces of a reference SGR state machine written from ECMA-48 / xterm, provided none of '
               '7/27/39/49 occurs (known finding C06-inexpressible; the lemma C06_semantics_recorded pins the model to the reference machine '
               'with these four parameters as no-ops). The run judges every history by the reference machine only: characters preserved '
               'in order, faces on the longest well-formed prefix; a case of the known class is suppressed only if it is tagged and the '
               'model reproduces the implementation. Models tied to the code by a differential run through the harness recorder, view::Text '
               'and TerminalWriter as cell writers; tables and the automaton are regenerated each run.',
 'level_note': 'Trusted: Coq kernel + vm_compute; translate/c06gen.py and the verif-hooks DFA dump; hand-written models validated by the '
               'correspondence run; the reference SGR machine (Decoder/SgrRef.v) as the meaning of SGR. Known finding: parameters 7/27/39/49 '
               '(inverse, default colours) cannot be expressed by FaceModify (repair = additive public-API change); class sgr-inexpressible with require_agree, tag derived in the harness from the history. '
               'Counted: 10 theorems; lemmas C06_roundtrip_empty_modify, C06_text_same, C06_semantics_recorded audited, not counted. No axioms.',
 'technique': 'Coq proof (induction over parameter lists and histories, reflection on the regenerated command automaton, finite sweeps '
              'for bit operations) + regenerated tables/automaton + model/implementation correspondence',
 'design_ref': 'DESIGN.md 6.6',
 'n_quick': 3200,
 'n_thorough': 40000,
 'shard': 250,
 'level': 'proof',
 'trusted_base': [KERNEL,
                  'translate/c06gen.py: FaceAttrs constants, decoder CUBE/GREYS/COLORS re-extracted from src/face.rs, src/decoder.rs; '
                  'the command automaton dumped from the crate\'s own TTY_COMMAND_AUTOMATA through the verif-hooks feature (Gen/C06*.v)',
                  'hand-written models Encoder/FaceEnc.v, Decoder/Sgr.v, Decoder/CmdTok.v, Render/FaceModel.v, tied to the code by the '
                  'correspondence run',
                  'specification Decoder/SgrRef.v: SGR state machine written from ECMA-48 / xterm ctlseqs / kitty underline extension',
                  HARNESS],
 'assumptions': ['colours are opaque (alpha = 255)',
                 'numeric parameters have at most 19 digits (longer ones belong to C02)',
                 'C06_semantics_wf: every SGR parameter is completely defined by the standards (sgr_wf: no truncated / out-of-range colour '
                 'specification, no undefined sub-parameter) and none of 7/27/39/49 occurs',
                 'text through the encoder: every Unicode scalar value (ESC and C1 introducers read back as U+FFFD); text in written histories: '
                 'scalar values other than ESC',
                 'the reference machine has the aspects a Face can carry (no underline colour, faint, conceal, overline)'],
}
