"""C11 check configuration (data only, plus the hook that regenerates the handler's constants)."""
import os
import sys

from propbase import KERNEL, HARNESS


def regen_kitty_consts(ctx):
    """KITTY_MAX_ID, KITTY_MAX_DIM and the chunk size are re-extracted from src/image.rs on every run"""
    env = dict(ctx["env"], VERIF_REPO=ctx["repo"])
    return ctx["sh"]([sys.executable, os.path.join(ctx["root"], "translate", "kitty.py")], cwd=ctx["root"], env=env)


PROP = {'gen': ['base64'],
 'pre_coq': [regen_kitty_consts],
 'coq_props': ['theories/Props/C11.vo'],
 'coq_corr': ['theories/Corr/C11Corr.vo'],
 'props_file': 'theories/Props/C11.v',
 'props_module': 'Props.C11',
 'corr_check': 'SNT.Corr.C11Corr.c11_check (model Image/Kitty.v vs surf_n_term::KittyImageHandler::{draw, erase, handle}; property '
               'predicate Image/KittySpec.v check_history = independent kitty-graphics parser + terminal-side store applied to the '
               "implementation's bytes)",
 'level_text': 'Coq theorems over an executable model of KittyImageHandler (draw / erase / handle, id allocation, chunking) read '
               'through an independent protocol side (parser of the escape codes, RFC 4648 decoder, terminal store of images and '
               'placements): payload of one draw = row-major RGBA with declared s, v, chunks <= 4096, multiples of four, m=1 exactly '
               'on non-final chunks (any image size, by induction over the chunking); over all histories, with genuine or spurious '
               'error responses in any mix, no protocol error, every placement names a transmitted image, pixels transmitted at most '
               'once BETWEEN ERROR RESPONSES naming the id (C11_once_between_errors), not once per handler lifetime; image and '
               'placement ids in 1..2^32-1; image ids are allocated per content, two contents never share one (C11_ids_distinct), also '
               'over whole histories and for ids assigned while nothing is transmitted under them, for arbitrary hash values '
               '(C11_live_contents_distinct_ids: id table vs transmitted set); '
               'placement ids invertible and injective for coordinates < 65536 except the forced pair (65534,65535)/(65535,65535); '
               'draw adds and erase removes exactly one placement (C11_pairing_*); the model passes the very predicate applied to '
               'the implementation on every well-formed case outside the known class pid-corner '
               '(C11_model_meets_predicate_outside_known_classes). Audited but not counted: 7 lemmas (pigeonhole for placement ids, '
               'defect pins, the resolved id collision) and 7 non-vacuity examples. Constants regenerated from the source each run; '
               'model tied to the code by the byte-for-byte correspondence run, which also compares the hash the crate reports for '
               'every drawn view (crops and clones sharing one pixel buffer included) with the model of Surface::hash on that '
               "view's pixels.",
 'level_note': 'Trusted: Coq kernel + vm_compute; translate/kitty.py, translate/tables.py; hand-written model validated by the '
               'correspondence run; Image/KittySpec.v as the reading of the kitty graphics protocol document; Surface::hash modelled '
               '(fnv-1a, Image/Fnv.v) and compared with the crate on every case. Hypotheses of C11_model_meets_predicate_...: no '
               'collision of the full 64-bit hash between the contents of one history, histories shorter than 2^32-1 calls. Defects '
               'found and fixed: placement id 0 (82493c7+adbe35d), image id 0 (ce05ea8), empty image placed (10e9b17), two contents '
               'sharing one id (c7a01ef). Open known finding: pid-corner (the last two positions share a placement id; forced by '
               'counting, require_agree). No axioms (Print Assumptions: closed; coqchk clean).',
 'technique': 'Coq proof (induction over chunking and over histories, parser/printer round trip, refinement to a terminal-side store) '
              '+ regenerated constants + model/implementation correspondence',
 'design_ref': 'DESIGN.md 6.11',
 'n_quick': 288,
 'n_thorough': 6000,
 'shard': 25,
 'level': 'proof',
 'trusted_base': [KERNEL,
                  'translate/kitty.py: KITTY_MAX_ID, KITTY_MAX_DIM and the argument of payload.chunks(..) are re-extracted from '
                  'src/image.rs on every run (Gen/KittyConst.v); translate/tables.py for the base64 tables (Gen/TabBase64.v)',
                  'hand-written model Image/Kitty.v of KittyImageHandler::{draw, erase, handle, image_id}, kitty_placement_id, '
                  'kitty_placement_to_pos, tied to the code by the correspondence run on the bytes of every call',
                  'Image/KittySpec.v: the reading of the kitty graphics protocol document (parser, terminal-side store) the theorems are '
                  'stated against',
                  HARNESS],
 'assumptions': ['distinct contents in one history have distinct 64-bit fnv hashes; the hash function itself is modelled (Image/Fnv.v) '
                 'and compared with the crate on every image of every case',
                 'fewer than 2^32-1 image ids in use (with every id taken the allocation loop of the handler would not terminate)',
                 'images are well formed (their shape is a window of the backing vector, as produced by Image::new/from/crop)',
                 'the theorems assume that writes to the output do not fail; a sink that fails during draw is covered by the '
                 'correspondence run and a per-case terminal-side predicate (CaseFail), erase/handle always get a working sink']}
