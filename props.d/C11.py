"""C11 check configuration (data only, plus the hook that regenerates the handler's constants)."""
import os
import sys

from propbase import KERNEL, HARNESS


def regen_kitty_consts(ctx):
    """KITTY_MAX_ID, KITTY_MAX_DIM and the chunk size are re-extracted from src/image.rs on every run"""
    env = dict(ctx["env"], VERIF_REPO=ctx["repo"])
    return ctx["sh"]([sys.executable, os.path.join(ctx["root"], "translate", "kitty.py")], cwd=ctx["root"], env=env)


PROP = {'gen': ['base64'],
 'pre_coq': [regen_kitty_consts],
 'coq_props': ['theories/Props/C11.vo'],
 'coq_corr': ['theories/Corr/C11Corr.vo'],
 'props_file': 'theories/Props/C11.v',
 'props_module': 'Props.C11',
 'corr_check': 'SNT.Corr.C11Corr.c11_check (model Image/Kitty.v vs surf_n_term::KittyImageHandler::{draw, erase, handle}; property '
               'predicate Image/KittySpec.v check_history = independent kitty-graphics parser + terminal-side store applied to the '
               "implementation's bytes)",
 'level_text': 'Coq theorems over an executable model of KittyImageHandler and an independent protocol-side reading of its bytes.',
 'level_note': 'Trusted: Coq kernel + vm_compute; translate/kitty.py, translate/tables.py; hand-written model validated by the '
               'correspondence run; Surface::hash (fnv) is an oracle whose value the harness supplies.',
 'technique': 'Coq proof (induction over chunking and over histories, parser/printer round trip, refinement to a terminal-side store) '
              '+ regenerated constants + model/implementation correspondence',
 'design_ref': 'DESIGN.md 6.11',
 'n_quick': 400,
 'n_thorough': 6000,
 'shard': 50,
 'level': 'proof',
 'trusted_base': [KERNEL,
                  'translate/kitty.py: KITTY_MAX_ID, KITTY_MAX_DIM and the argument of payload.chunks(..) are re-extracted from '
                  'src/image.rs on every run (Gen/KittyConst.v); translate/tables.py for the base64 tables (Gen/TabBase64.v)',
                  'hand-written model Image/Kitty.v of KittyImageHandler::{draw, erase, handle}, kitty_image_id, kitty_placement_id, '
                  'kitty_placement_to_pos, tied to the code by the correspondence run on the bytes of every call',
                  'Image/KittySpec.v: the reading of the kitty graphics protocol document (parser, terminal-side store) the theorems are '
                  'stated against',
                  HARNESS],
 'assumptions': ['Surface::hash (fnv-1a over height, width, pixels) is a deterministic function of the image content; its value is '
                 'supplied per image by the harness; distinct contents in one history have distinct ids (no 32-bit hash collision)',
                 'images are well formed (their shape is a window of the backing vector, as produced by Image::new/from/crop)',
                 'writes to the output never fail']}
