"""C13 check configuration (data only)."""
from propbase import KERNEL, HARNESS

PROP = {'gen': [],
 'coq_props': ['theories/Props/C13.vo'],
 'coq_corr': ['theories/Corr/C13Corr.vo'],
 'props_file': 'theories/Props/C13.v',
 'props_module': 'Props.C13',
 'corr_check': 'SNT.Corr.C13Corr.c13_check (models Image/KDTree.v, Image/Octree.v, Image/Quantize.v vs '
               'surf_n_term::image::{KDTree, ColorPalette, OcTree} and Image::quantize)',
 'level_text': 'Coq theorems over executable models of KDTree, OcTree (packed OcTreePath proved equal to its lane-wise form for every '
               'colour), ColorPalette::from_image and Image::quantize: nearest-colour search returns a minimal-distance entry for every '
               'palette (any length >= 1, duplicates) and every query; for every non-empty image and every requested size >= 1 (up to '
               'usize::MAX since the saturating-product fix) palette extraction terminates (explicit fuel bound, stale caches and '
               'unreachable!() arms as Panic sites included) with 1..max(k,8) colours, every index is valid for any dithering error, '
               'undithered pixels map to nearest entries, images whose colours fit are reproduced exactly with and without dithering; '
               'the Floyd-Steinberg slots stay within 255.0 (exactness of the f32 arithmetic). Models tied to the code by exact '
               'differential runs incl. sub-sampled images up to 10k pixels, crops of large parents and the Rnd stream.',
 'level_note': 'Trusted: Coq kernel + vm_compute; hand-written models validated by the correspondence run; '
               'rasterize blend_over enters as an oracle (effective pixels). No axioms.',
 'technique': 'Coq proof (k-d invariant, octree measure/invariants, induction over pixels) + model/implementation correspondence',
 'design_ref': 'DESIGN.md 6.13',
 'n_quick': 600,
 'n_thorough': 12000,
 'shard': 40,
 'level': 'proof',
 'trusted_base': [KERNEL,
                  'hand-written models Image/KDTree.v, Image/Octree.v, Image/Quantize.v of src/image.rs, tied to the code by the '
                  'correspondence run (exact equality of palettes, indices, octree dumps)',
                  'rasterize::RGBA::blend_over (alpha compositing) is an oracle: the harness passes effective pixels',
                  'Floyd-Steinberg errors are modelled in Z sixteenths instead of f32: justified by C13_dither_slots (every slot is a '
                  'multiple of 1/16 within 255.0, so each binary32 operation of the code is exact) and by the exact '
                  'correspondence of dithered index images',
                  HARNESS],
 'assumptions': ['requested palette size >= 1 (0 divides by zero in from_image); every size up to usize::MAX is covered since the fix 38c2d5c (saturating product)',
                 'usize accumulators do not overflow (needs > 2^56 pixels)']}
