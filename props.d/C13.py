"""C13 check configuration (data only)."""
import os
import re
from propbase import KERNEL, HARNESS

def _widths(ctx):
    """Extra check (fail-closed): the accumulator widths regenerated into Gen/TabOctree.v must hold the sums of
    every image of at most OctreeProofs.max_pixels pixels (the Coq side is C13_machine_words).  When they do not,
    the smallest overflowing input is computed - n copies of #ffffff through OcTree::insert, what from_image does
    for a one-colour image of n pixels that is not sub-sampled (palette size n // 199 + 1) - written as a case of
    kind `acc` (replayable: harness/src/c13.rs run_acc, Corr/C13Corr.v ACC) and, when n <= 60 M, run on the
    real code with `snt_harness tool c13acc`.  It is reported as a failing input when the real code panics or
    returns another colour, and when it is too large to run (failing by construction); when the real code
    nevertheless returns the colour it is reported as a broken obligation without failing input."""
    res = {"coverage": {}, "violations": [], "notes": []}

    def broken(msg):
        res["violations"].append({"kind": "broken-correspondence", "what": msg, "case": {"kind": "acc-widths"}})
        return res

    try:
        text = open(os.path.join(ctx["coq"], "theories", "Gen", "TabOctree.v")).read()
        proofs = open(os.path.join(ctx["coq"], "theories", "Image", "OctreeProofs.v")).read()
    except OSError as e:
        return broken("accumulator widths cannot be checked: %s" % e)
    vals = dict((k, int(v)) for k, v in re.findall(r"Definition (\w+) : N := (\d+)\.", text))
    m = re.search(r"Definition max_pixels : N := (\d+)\.", proofs)
    missing = [k for k in ("leaf_acc_bits", "leaf_count_bits", "leaf_acc_limit", "leaf_count_limit") if k not in vals]
    if missing or not m:
        return broken("accumulator widths cannot be checked: %s not found" % (missing or "max_pixels"))
    max_pixels = int(m.group(1))
    acc, cnt = vals["leaf_acc_bits"], vals["leaf_count_bits"]
    if vals["leaf_acc_limit"] != 2 ** acc or vals["leaf_count_limit"] != 2 ** cnt:
        return broken("Gen/TabOctree.v is inconsistent: limits are not 2^bits")
    n = min(-(-(2 ** acc) // 255), 2 ** cnt)      # smallest n with 255 * n >= 2^acc, or not fitting the counter
    res["coverage"] = {"leaf_acc_bits": acc, "leaf_count_bits": cnt, "max_pixels": max_pixels,
                       "smallest_overflowing_pixel_count": n}
    # the palette index carried by a k-d node (field type and casts, Gen/TabOctree.v kd_index_bits): when it cannot hold
    # every index of a palette of max_pixels entries, the smallest failing input is a palette of 2^bits + 1 distinct
    # colours queried with its last colour (the index wraps to 0); a replayable `kd` case, when it is small enough
    kib = vals.get("kd_index_bits")
    if kib is None:
        return broken("accumulator widths cannot be checked: kd_index_bits not found")
    res["coverage"]["kd_index_bits"] = kib
    if 2 ** kib <= max_pixels:
        m_ = 2 ** kib + 1
        what = ("the k-d node carries palette indices in %d bits: ColorPalette::new of %d distinct colours, find(the last "
                "colour) returns an index that does not name the colour returned" % (kib, m_))
        if kib <= 16:
            pal = [[i % 256, (i // 256) % 256, 7] for i in range(m_)]
            res["violations"].append({"kind": "failing-input", "what": what,
                                      "case": {"kind": "kd", "pal": pal, "qs": [pal[-1], pal[0], pal[2 ** kib - 1]]}})
        else:
            res["violations"].append({"kind": "broken-correspondence", "what": what + "; too large to write down",
                                      "case": {"kind": "kd-index-width", "kd_index_bits": kib}})
    if n > max_pixels:
        return res                                  # adequate: nothing to report
    case = {"kind": "acc", "pixels": n, "colour": [255, 255, 255], "palette_size": n // 199 + 1,
            "leaf_acc_bits": acc, "leaf_count_bits": cnt}
    what = ("the property fails for an image of %d pixels of colour #ffffff (requested palette size %d, not sub-sampled): "
            "the octree leaf accumulators are declared %d / %d bits wide and 255 * %d does not fit; debug builds panic, "
            "release builds wrap and the palette colour is no longer the image colour" % (n, n // 199 + 1, acc, cnt, n))
    kind = "failing-input"
    if n <= 60_000_000 and ctx.get("exe"):
        rc, out = ctx["sh"]([ctx["exe"], "tool", "c13acc", str(n), "255", "255", "255"], timeout=900)
        lines = (out or "").strip().splitlines()
        verdict = lines[-1] if lines else "no output (rc=%d)" % rc
        case["confirmed_by_OcTree_insert"] = verdict
        what += "; OcTree::insert x %d + build_palette on the real code: %s" % (n, verdict)
        if verdict.startswith("ok"):
            kind = "broken-correspondence"
            what += " - the computed input does NOT fail on the real code: the width obligation is broken, the model of the accumulators is wrong"
        elif not (verdict.startswith("panic") or verdict.startswith("wrong")):
            kind = "broken-correspondence"
    else:
        what += "; too large to run (failing by construction)"
    res["violations"].append({"kind": kind, "what": what, "case": case})
    return res


# API surface of the types C13 is about (translate/image_api.py lists it from src/image.rs on every run; an item that is
# not in this table, or an item of this table that is gone, is reported as a broken obligation).  Status:
#   history  called by the operation programs of harness/src/c13.rs inside multi-step histories
#   layout   data layout the models are written against (types of the accumulators: translate/octree_types.py)
#   out      not part of colour quantisation; the property that covers it, or the reason it is left out
_H, _L, _O = 'history', 'layout', 'out'
API = {
 'Image derives Clone': (_H, 'QNT ctor=1: crop -> clone -> quantize (twice)'),
 'Image.data: Arc<[RGBA]>': (_L, 'img = rows of rgba; the shared buffer under crops: gen_qnt_small_crop'),
 'Image.shape: Shape': (_L, 'C07 Shape model (SixelView.crop_is_view_rows)'),
 'Image::new': (_H, 'QNT ctor=2'),
 'Image::from_parts': (_H, 'every QNT / PAL case'),
 'Image::crop': (_H, 'QNT crop (small crops of large parents), then the other constructors on top'),
 'Image::resize': (_O, 'resampling is not quantisation (no property of the 20 is about it)'),
 'Image::size_cells': (_O, 'cell geometry (C01 renderer)'),
 'Image::quantize': (_H, 'every QNT case; called twice on one Image when another constructor was used'),
 'Image::write_png': (_O, 'png encoder of another crate'),
 'Image::ascii_view': (_O, 'debug view'),
 'impl PartialEq for Image {eq}': (_O, 'C11 (content hash / equality)'),
 'impl Eq for Image {}': (_O, 'C11'),
 'impl PartialOrd for Image {partial_cmp}': (_O, 'C11'),
 'impl Ord for Image {cmp}': (_O, 'C11'),
 'impl std::hash::Hash for Image {hash}': (_O, 'C11; as cache key: C12 histories'),
 'impl fmt::Debug for Image {fmt}': (_O, 'debug output'),
 'impl Surface for Image {shape, data}': (_H, 'read by from_image / quantize through view(..) and transpose() (PAL) and crops (QNT)'),
 'impl From<SurfaceOwned<RGBA>> for Image {from}': (_H, 'QNT ctor=3'),
 'impl View for Image {render, layout}': (_O, 'C01 renderer'),
 "impl Deserialize<'de> for Image {deserialize}": (_O, 'serde format, no property'),
 'impl Serialize for Image {serialize}': (_O, 'serde format, no property'),
 'ColorError derives Clone': (_L, ''), 'ColorError derives Copy': (_L, ''),
 'ColorError([f32; 3])': (_L, 'Z sixteenths in Quantize.v; dithered QNT cases'),
 'impl Add<Self> for ColorError {add}': (_H, 'dithered QNT cases'),
 'impl AddAssign for ColorError {add_assign}': (_H, 'dithered QNT cases'),
 'impl Mul<f32> for ColorError {mul}': (_H, 'dithered QNT cases'),
 'OcTreeLeaf derives Debug': (_L, ''), 'OcTreeLeaf derives Clone': (_L, ''), 'OcTreeLeaf derives Copy': (_L, ''),
 'OcTreeLeaf.red_acc: usize': (_L, 'octree_types.py'), 'OcTreeLeaf.green_acc: usize': (_L, 'octree_types.py'),
 'OcTreeLeaf.blue_acc: usize': (_L, 'octree_types.py'), 'OcTreeLeaf.color_count: usize': (_L, 'octree_types.py'),
 'OcTreeLeaf.index: usize': (_L, 'OCT OFindIdx after OPalette'),
 'impl AddAssign<RGBA> for OcTreeLeaf {add_assign}': (_H, 'OCT inserts of repeated colours'),
 'impl AddAssign<OcTreeLeaf> for OcTreeLeaf {add_assign}': (_H, 'OCT prune'),
 'OcTreeNode derives Debug': (_L, ''), 'OcTreeNode derives Clone': (_H, 'OCT clone op'),
 'OcTreeNode::Leaf(OcTreeLeaf)': (_L, 'Octree.node'), 'OcTreeNode::Tree(Box<OcTree>)': (_L, 'Octree.node'),
 'OcTreeNode::Empty': (_L, 'Octree.node'),
 'OcTreeNode::is_empty': (_H, 'OCT prune'),
 'OcTreeInfo derives Debug': (_L, ''), 'OcTreeInfo derives Clone': (_L, ''), 'OcTreeInfo derives Copy': (_L, ''),
 'OcTreeInfo derives PartialEq': (_L, ''), 'OcTreeInfo derives Eq': (_L, ''),
 'OcTreeInfo.leaf_count: usize': (_L, 'octree_types.py; digraph dumps'), 'OcTreeInfo.color_count: usize': (_L, 'octree_types.py'),
 'OcTreeInfo.min_color_count: Option<usize>': (_L, 'octree_types.py; digraph dumps'),
 'OcTreeInfo::empty': (_H, 'OCT'), 'OcTreeInfo::join': (_H, 'OCT (every node_update)'),
 'OcTree derives Debug': (_L, ''), 'OcTree derives Clone': (_H, 'OCT clone op: the history goes on with the copy'),
 'OcTree.info: OcTreeInfo': (_L, 'Octree.octree'), 'OcTree.removed: OcTreeLeaf': (_L, 'Octree.octree'),
 'OcTree.children: [OcTreeNode; 8]': (_L, 'Octree.octree'),
 'impl Default for OcTree {default}': (_H, 'OCT op n'),
 'impl Extend<RGBA> for OcTree {extend}': (_H, 'OCT op e (= the inserts in the model)'),
 'impl FromIterator<RGBA> for OcTree {from_iter}': (_H, 'OCT op x (a new tree, then the inserts)'),
 'OcTree::new': (_H, 'OCT'), 'OcTree::find': (_H, 'OCT ops f: colour anywhere, index directly after build_palette'),
 'OcTree::build_palette': (_H, 'OCT op b, several per history'), 'OcTree::insert': (_H, 'OCT op i, before and after pruning'),
 'OcTree::prune_until': (_H, 'OCT op u'), 'OcTree::prune': (_H, 'OCT op p'),
 'OcTree::to_digraph': (_H, 'OCT op d: the whole tree incl. cached infos after any operation'),
 'OcTreePath.rgba: RGBA': (_L, ''), 'OcTreePath.state: u32': (_L, 'OctreePath.v packed path'), 'OcTreePath.length: u8': (_L, ''),
 'OcTreePath::new': (_H, 'every insert / find'), 'OcTreePath::rgba': (_O, 'accessor, unused by the crate'),
 'impl Iterator for OcTreePath {next}': (_H, 'every insert / find'),
 'KDTree.nodes: Vec<KDNode>': (_L, 'KDTree.v'),
 'KDNode derives Debug': (_L, ''), 'KDNode derives Clone': (_L, ''), 'KDNode derives Copy': (_L, ''),
 'KDNode.color: [u8; 3]': (_L, 'octree_types.py'), 'KDNode.color_index: usize': (_L, ''), 'KDNode.dim: usize': (_L, ''),
 'KDNode.left: Option<usize>': (_L, ''), 'KDNode.right: Option<usize>': (_L, ''),
 'KDTree::new': (_H, 'KD / KDN through ColorPalette::new'), 'KDTree::find': (_H, 'KD / KDN: many queries on one tree'),
 'KDTree::to_digraph': (_O, 'debug dump; the tree is observed through find on every query class'),
 'ColorPalette.colors: Vec<RGBA>': (_L, ''), 'ColorPalette.kdtree: KDTree': (_L, ''),
 'ColorPalette::new': (_H, 'KD / KDN, incl. the empty list'), 'ColorPalette::from_image': (_H, 'PAL (views, transposed views), QNT'),
 'ColorPalette::size': (_H, 'KDN'), 'ColorPalette::get': (_H, 'KDN (every index)'), 'ColorPalette::colors': (_H, 'KDN, QNT, PAL'),
 'ColorPalette::find': (_H, 'KD / KDN interleaved with find_naive'), 'ColorPalette::find_naive': (_H, 'KDN'),
}
C13_TYPES = ['Image', 'ColorPalette', 'KDTree', 'KDNode', 'OcTree', 'OcTreeNode', 'OcTreeInfo', 'OcTreeLeaf', 'OcTreePath', 'ColorError']


def _load_api():
    import importlib.util
    here = os.path.dirname(os.path.dirname(os.path.abspath(__file__)))
    spec = importlib.util.spec_from_file_location('image_api', os.path.join(here, 'translate', 'image_api.py'))
    mod = importlib.util.module_from_spec(spec)
    spec.loader.exec_module(mod)
    return mod


_api_surface = _load_api().hook('C13', C13_TYPES, API)


PROP = {'gen': ['octree'],
 'extra': [_widths, _api_surface],
 'coq_props': ['theories/Props/C13.vo'],
 'coq_corr': ['theories/Corr/C13Corr.vo'],
 'props_file': 'theories/Props/C13.v',
 'props_module': 'Props.C13',
 'corr_check': 'SNT.Corr.C13Corr.c13_check (models Image/KDTree.v, Image/Octree.v, Image/Quantize.v vs '
               'surf_n_term::image::{KDTree, ColorPalette, OcTree} and Image::quantize)',
 'level_text': 'Coq theorems over executable models of KDTree, OcTree, ColorPalette::from_image and Image::quantize. C13_nearest: for every '
               'palette (any length >= 1, duplicates) and every query the search returns a minimal-distance entry. The four theorems named '
               '_upto_2p56px assume an image / colour list of at most 2^56 entries: for every such non-empty input and every requested size '
               '>= 1 (up to usize::MAX) palette extraction never panics (unreachable!() arms and overflow of the leaf accumulators, modelled '
               'as checked words of the regenerated widths, are excluded inside these theorems by the ratio/mass invariants), terminates '
               '(explicit fuel bound, stale caches included) with 1..max(k,8) colours; every index is valid for any dithering error; '
               'undithered pixels map to nearest entries; images whose colours fit and that are not sub-sampled are reproduced exactly with '
               'and without dithering. Auxiliary lemmas (not counted): packed OcTreePath = lane-wise path for every colour; the declared '
               'widths cover 2^56 pixels; one row of the error diffusion keeps every slot within 255.0 (the binary32 exactness itself is an '
               'argument in design/C13.md). Models tied to the code by exact differential runs incl. sub-sampled images up to 10k pixels, '
               'crops of large parents, huge requested sizes and the Rnd stream.',
 'level_note': 'Trusted: Coq kernel + vm_compute; translate/octree_types.py (declared widths); hand-written models validated by the '
               'correspondence run; rasterize blend_over enters as an oracle (effective pixels); the error rows are modelled in Z (binary32 '
               'exactness argued, not proved). Restricted to images of at most 2^56 pixels and requested sizes >= 1. No axioms.',
 'technique': 'Coq proof (k-d invariant, octree measure/invariants, induction over pixels) + model/implementation correspondence',
 'design_ref': 'DESIGN.md 6.13',
 'n_quick': 600,
 'n_thorough': 12000,
 'shard': 40,
 'level': 'proof',
 'trusted_base': [KERNEL,
                  'hand-written models Image/KDTree.v, Image/Octree.v, Image/Quantize.v of src/image.rs, tied to the code by the '
                  'correspondence run (exact equality of palettes, indices, octree dumps)',
                  'translate/octree_types.py: field types of OcTreeLeaf / OcTreeInfo / ColorError / KDNode / Rnd and the k-d distance type are '
                  're-extracted from the source each run (types only, Gen/TabOctree.v); the model checks every leaf accumulator against them; '
                  'OcTreeInfo sums are width-pinned, not checked per operation',
                  'rasterize::RGBA::blend_over (alpha compositing) is an oracle: the harness passes effective pixels',
                  'Floyd-Steinberg errors are modelled in Z sixteenths instead of f32: an argument (lemma C13_dither_slots bounds every slot of '
                  'one row by 255.0; multiples of 1/16 below 2^8 are exact in binary32), supported by the exact correspondence of dithered '
                  'index images; not a Coq statement about floats',
                  HARNESS],
 'assumptions': ['an image has at most 2^56 pixels (OctreeProofs.max_pixels; 2^58 bytes of RGBA): under it the octree accumulators '
                 'of the declared widths (regenerated, Gen/TabOctree.v) provably never overflow',
                 'requested palette size >= 1 (0 divides by zero in from_image); every size up to usize::MAX is covered since the fix 38c2d5c (saturating product)']}
