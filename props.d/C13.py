"""C13 check configuration (data only)."""
import os
import re
from propbase import KERNEL, HARNESS

MAX_PIXELS = 2 ** 56   # OctreeProofs.max_pixels: the images the theorems cover


def _widths(ctx):
    """Extra check: the accumulator widths regenerated into Gen/TabOctree.v must hold the sums of every image
    of at most 2^56 pixels (Coq: C13_machine_words).  When they do not, the smallest overflowing image is
    computed (a failing input by construction: n pixels of one colour with a 255 channel, requested palette
    size large enough that from_image does not sub-sample) and, if it is small enough to run, confirmed by
    inserting that many colours into an OcTree through the public API."""
    path = os.path.join(ctx["coq"], "theories", "Gen", "TabOctree.v")
    try:
        text = open(path).read()
    except OSError:
        return {"notes": ["Gen/TabOctree.v missing: accumulator widths not checked"]}
    vals = dict((k, int(v)) for k, v in re.findall(r"Definition (\w+) : N := (\d+)\.", text))
    acc, cnt = vals.get("leaf_acc_bits", 64), vals.get("leaf_count_bits", 64)
    n_acc = -(-(2 ** acc) // 255)          # smallest n with 255 * n >= 2^acc
    n_cnt = 2 ** cnt                       # smallest n that does not fit the counter
    res = {"coverage": {"leaf_acc_bits": acc, "leaf_count_bits": cnt,
                        "smallest_overflowing_pixel_count": min(n_acc, n_cnt)}, "violations": [], "notes": []}
    if 255 * MAX_PIXELS < 2 ** acc and MAX_PIXELS < 2 ** cnt:
        return res
    n = min(n_acc, n_cnt)
    case = {"kind": "accumulator-overflow", "pixels": n, "colour": [255, 255, 255], "palette_size": n // 199 + 1,
            "leaf_acc_bits": acc, "leaf_count_bits": cnt}
    what = ("the property fails for an image of %d pixels of colour #ffffff (requested palette size %d, not sub-sampled): "
            "the octree leaf accumulators are declared %d / %d bits wide, 255 * %d does not fit; debug builds panic, "
            "release builds wrap and the palette colour is no longer the image colour" % (n, n // 199 + 1, acc, cnt, n))
    if n <= 60_000_000 and ctx.get("exe"):
        rc, out = ctx["sh"]([ctx["exe"], "tool", "c13acc", str(n), "255", "255", "255"], timeout=900)
        verdict = (out or "").strip().splitlines()[-1] if (out or "").strip() else "no output (rc=%d)" % rc
        case["confirmed_by_OcTree_insert"] = verdict
        what += "; OcTree::insert x %d + build_palette on the real code: %s" % (n, verdict)
        if verdict.startswith("ok"):
            res["notes"].append("computed overflow at %d pixels was NOT confirmed by the implementation (%s)" % (n, verdict))
    res["violations"].append({"kind": "failing-input", "what": what, "case": case})
    return res


PROP = {'gen': ['octree'],
 'extra': [_widths],
 'coq_props': ['theories/Props/C13.vo'],
 'coq_corr': ['theories/Corr/C13Corr.vo'],
 'props_file': 'theories/Props/C13.v',
 'props_module': 'Props.C13',
 'corr_check': 'SNT.Corr.C13Corr.c13_check (models Image/KDTree.v, Image/Octree.v, Image/Quantize.v vs '
               'surf_n_term::image::{KDTree, ColorPalette, OcTree} and Image::quantize)',
 'level_text': 'Coq theorems over executable models of KDTree, OcTree (packed OcTreePath proved equal to its lane-wise form for every '
               'colour), ColorPalette::from_image and Image::quantize: nearest-colour search returns a minimal-distance entry for every '
               'palette (any length >= 1, duplicates) and every query; for every non-empty image and every requested size >= 1 (up to '
               'usize::MAX since the saturating-product fix) palette extraction terminates (explicit fuel bound, stale caches and '
               'unreachable!() arms as Panic sites included) with 1..max(k,8) colours, every index is valid for any dithering error, '
               'undithered pixels map to nearest entries, images whose colours fit are reproduced exactly with and without dithering; '
               'the Floyd-Steinberg slots stay within 255.0 (exactness of the f32 arithmetic); leaf accumulators are checked machine words of '
               'the regenerated widths, proved not to overflow for images of at most 2^56 pixels (C13_machine_words). Models tied to the code by exact '
               'differential runs incl. sub-sampled images up to 10k pixels, crops of large parents and the Rnd stream.',
 'level_note': 'Trusted: Coq kernel + vm_compute; hand-written models validated by the correspondence run; '
               'rasterize blend_over enters as an oracle (effective pixels). No axioms.',
 'technique': 'Coq proof (k-d invariant, octree measure/invariants, induction over pixels) + model/implementation correspondence',
 'design_ref': 'DESIGN.md 6.13',
 'n_quick': 600,
 'n_thorough': 12000,
 'shard': 40,
 'level': 'proof',
 'trusted_base': [KERNEL,
                  'hand-written models Image/KDTree.v, Image/Octree.v, Image/Quantize.v of src/image.rs, tied to the code by the '
                  'correspondence run (exact equality of palettes, indices, octree dumps)',
                  'translate/octree_types.py: field types of OcTreeLeaf / OcTreeInfo / ColorError / KDNode / Rnd and the casts feeding the '
                  'accumulators are re-extracted from the source each run (Gen/TabOctree.v); the model checks every accumulator against them',
                  'rasterize::RGBA::blend_over (alpha compositing) is an oracle: the harness passes effective pixels',
                  'Floyd-Steinberg errors are modelled in Z sixteenths instead of f32: justified by C13_dither_slots (every slot is a '
                  'multiple of 1/16 within 255.0, so each binary32 operation of the code is exact) and by the exact '
                  'correspondence of dithered index images',
                  HARNESS],
 'assumptions': ['an image has at most 2^56 pixels (OctreeProofs.max_pixels; 2^58 bytes of RGBA): under it the octree accumulators '
                 'of the declared widths (regenerated, Gen/TabOctree.v) provably never overflow',
                 'requested palette size >= 1 (0 divides by zero in from_image); every size up to usize::MAX is covered since the fix 38c2d5c (saturating product)',
                 'usize accumulators do not overflow (needs > 2^56 pixels)']}
