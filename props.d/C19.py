"""C19 check configuration (data only)."""
import importlib.util
import os

from propbase import KERNEL, HARNESS

_root = os.path.dirname(os.path.dirname(os.path.abspath(__file__)))
_spec = importlib.util.spec_from_file_location("translate_c18keys_for_c19", os.path.join(_root, "translate", "c18keys.py"))
_keys = importlib.util.module_from_spec(_spec)
_spec.loader.exec_module(_keys)

PROP = {'gen': ['base64'],
 'pre_coq': [_keys.pre_coq],   # Keys/KeyParse.v (chord parser) takes its vocabulary from Gen/C18Keys.v
 'coq_props': ['theories/Props/C19.vo'],
 'coq_corr': ['theories/Corr/C19Corr.vo'],
 'props_file': 'theories/Props/C19.v',
 'props_module': 'Props.C19',
 'corr_check': 'SNT.Corr.C19Corr.c19_check (models Serde/{Json,ImageDe,FaceStr,ViewDe}.v and Keys/KeyParse.v vs serde_json::{to_value,'
               'from_value,from_str} and Display/FromStr of surf_n_term::{Image, Face, Size, KeyChord, Glyph, view::Text, '
               'view::ViewDeserializer}; risky documents run in child processes with a watchdog; a deserialised view is laid out and '
               'rendered)',
 'level_text': 'Coq theorems over executable models of the crate\'s hand-written visitors over the serde data model. Substantive: Face text '
               'form and serde form round-trip for every face (any colours, any underline style + flags) and for every face the '
               'crate\'s own parser returns; Size and every parser-accepted KeyChord round-trip; Image serialisation followed by '
               'deserialisation returns the image pixel for pixel (also for the image value of any C07 view chain); 1/3/4-channel '
               'documents (any key order, repeats) give exactly the pixels of the layout; Image deserialisation of every JSON value '
               'returns a value or an error (size arithmetic checked, indexing in range). By construction of the model rather than by '
               'a deep argument: view-tree / Text / Glyph / GlyphFrame / Face deserialisation is total (their models have no panic '
               'site except the embedded image visitor; the theorem adds that recursion is bounded by the nesting depth); what '
               'happens inside put_fmt, Face::overlay, Glyph::new, Path / Scene parsing rests on the run. Last clause: every accepted '
               'document has a view tree of the C10 model (same deserialiser instantiated with C10 constructors, incl. image_ascii, '
               'cached refs and handler types; C19_view_tree_covers) and, C10_total being re-exported at it, that tree lays out under '
               'every valid constraint and renders without panic or InvalidLayout. That the mapping builds the right tree is checked '
               'by the run on its node structure only (the layout-tree skeleton of the really deserialised view equals vskel of the '
               'model tree: child count and order, wrappers, trace-layout, cached ref); node contents are arbitrary in the theorem. '
               'The run lays out and renders every accepted view on the implementation (with and without glyph support, with and '
               'without a cache and a handler, 15 constraints up to usize::MAX; Err counts as failure). "Rendered" in the theorems '
               'means View::render into a surface. Rasterisation of stand-alone glyphs (done later by the terminal renderer) is run '
               'and judged as well, EXCEPT in two known-finding classes decided on the document: a cell size whose pixel size '
               'overflows usize (terminal.rs:658 panics) and degenerate geometry (empty / huge view box, path numbers beyond 1e30: '
               'the rasterize crate panics); such glyphs cannot be rasterised by any arithmetic.',
 'level_note': 'Trusted: Coq kernel + vm_compute; regenerated base64 tables (C14) and the C14 decoder theorems; hand-written models '
               'validated by the correspondence run; serde_json (document -> data model), serde derive (Size) and rasterize (RGBA '
               'text form modelled for #rrggbb[aa]; colour names, /alpha, Path, Scene, BBox, FillRule and the derived Axis / Justify / '
               'Align / Margins are oracles: the totality theorems quantify over all their answers, the run supplies the real '
               'answers); str::to_lowercase constrained by lower_spec (C18). No axioms.',
 'technique': 'Coq proof (induction over documents and pixel grids, finite sweeps for bytes / attribute sets, reuse of the C14 codec '
              'theorems) + regenerated tables + model/implementation correspondence with child-process crash detection',
 'design_ref': 'DESIGN.md 6.19',
 'n_quick': 4000,
 'n_thorough': 60000,
 'shard': 125,
 'level': 'proof',
 'trusted_base': [KERNEL,
                  'translate/tables.py: BASE64 tables re-extracted from the source on every run (Gen/TabBase64.v); Encoder/Base64.v '
                  'model and theorems of C14',
                  'hand-written models Serde/ImageDe.v (Image visitor and serializer), Serde/FaceStr.v (Face and RGBA text forms), '
                  'Serde/ViewDe.v (view / text / glyph deserialisers), Serde/Json.v (serde data model, derived Size), tied to the code '
                  'by the correspondence run',
                  'external deserialisers as oracles (rasterize, serde derive); the real answers are supplied per case',
                  'the C10 development, through Props/C10.v (C10_total) and the vtree constructors only; the node structure of view_tree is tied to the code by the layout-skeleton comparison of the run, its node contents are arbitrary',
                  'rasterisation of glyphs is outside the theorems: run and judged for stand-alone glyphs outside the two known-finding classes',
                  'util::source_boundaries: integer constants of the anchored sources harvested at run time for sizes / channels / dimensions',
                  HARNESS],
 'assumptions': ['attribute sets are an underline style (0..5) plus flags: after the repair of the compound assignment operators these are all values of FaceAttrs reachable through its public API',
                 'an image in memory has h*w pixels of 4 bytes with 4*h*w < 2^64; 64-bit usize',
                 'documents reach the visitors through serde_json (text nested deeper than 128 levels is rejected by its parser)',
                 'KNOWN FINDINGS glyph-size-overflow and glyph-degenerate-geometry: accepted glyph documents of these classes panic when rasterised (after View::render); the last clause is stated for View::layout / View::render'
                 ]}
