"""C19 check configuration (data only)."""
from propbase import KERNEL, HARNESS

PROP = {'gen': ['base64'],
 'coq_props': ['theories/Props/C19.vo'],
 'coq_corr': ['theories/Corr/C19Corr.vo'],
 'props_file': 'theories/Props/C19.v',
 'props_module': 'Props.C19',
 'corr_check': 'SNT.Corr.C19Corr.c19_check',
 'level_text': 'under construction',
 'level_note': 'under construction',
 'technique': 'Coq proof + model/implementation correspondence',
 'design_ref': 'DESIGN.md 6.19',
 'n_quick': 1500,
 'n_thorough': 30000,
 'shard': 125,
 'level': 'proof',
 'trusted_base': [KERNEL, HARNESS],
 'assumptions': []}
