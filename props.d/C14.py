"""C14 check configuration (data only)."""
from propbase import KERNEL, HARNESS

PROP = {'gen': ['base64'],
 'coq_props': ['theories/Props/C14.vo'],
 'coq_corr': ['theories/Corr/C14Corr.vo'],
 'props_file': 'theories/Props/C14.v',
 'props_module': 'Props.C14',
 'corr_check': 'SNT.Corr.C14Corr.c14_check (model Encoder/Base64.v vs surf_n_term::{encoder::Base64Encoder, decoder::Base64Decoder})',
 'level_text': 'Coq theorems over an executable model of Base64Encoder/Base64Decoder: encoder output = RFC 4648 text for every input and '
               'write partition; decoder returns the original bytes for every read schedule and every sequence of destination sizes; '
               'non-multiple-of-4 text is an error; no panic / termination for arbitrary bytes. Tables are regenerated from the source '
               'each run and the table lemmas re-checked; the model is tied to the code by a differential run that also observes the '
               'bytes delivered before an error (they must be a prefix of the decoding of the complete 4-character groups; checked '
               'per case, no theorem) and consumes one decoder in two steps (read, then read_to_end / bytes / take / read_exact).',
 'level_note': 'Trusted: Coq kernel + vm_compute; translate/tables.py; hand-written model validated by the correspondence run; reader '
               'contract (0 only at EOF); io errors outside the model. Defect found and fixed: short reads of the inner reader were '
               'treated as malformed input (fix d7fde13). No open known finding. No axioms (Print Assumptions: closed).',
 'technique': 'Coq proof (induction, refinement to a pure group decoder, finite sweeps for bit operations) + regenerated tables + '
              'model/implementation correspondence',
 'design_ref': 'DESIGN.md 6.14',
 'n_quick': 2000,
 'n_thorough': 40000,
 'shard': 125,
 'level': 'proof',
 'trusted_base': [KERNEL,
                  'translate/tables.py: BASE64_ENCODE, BASE64_DECODE and the decoder buffer length are re-extracted from src/encoder.rs, '
                  'src/decoder.rs on every run (Gen/TabBase64.v)',
                  'hand-written model Encoder/Base64.v of Base64Encoder::{write,finish} and Base64Decoder::{buffer_fill,read}, tied to the '
                  'code by the correspondence run',
                  'Rust harness (generators, canonical printing of observations) and the case files it writes; differential testing '
                  'validates the model, it is not the theorem'],
 'assumptions': ['the inner reader signals end of input only by returning 0 and otherwise returns between 1 and the requested number of '
                 'bytes; io errors of the inner reader/writer are outside the model',
                 'callers drain the decoder until a read returns 0 or an error; bytes a failing read call had already copied into the '
                 "caller's buffer are not observed"]}
