"""C16 check configuration (data only)."""
from propbase import KERNEL, HARNESS

PROP = {'gen': [],
 'coq_props': ['theories/Props/C16.vo'],
 'coq_corr': ['theories/Corr/C16Corr.vo'],
 'props_file': 'theories/Props/C16.v',
 'props_module': 'Props.C16',
 'corr_check': 'SNT.Corr.C16Corr.c16_check (model IO/IOQueue.v and specification IO/FifoSpec.v vs surf_n_term::common::IOQueue under '
               'random histories of write/flush/read/consume/consume_with/clear_but_last/read_to_end)',
 'level_text': 'wip',
 'level_note': 'wip',
 'technique': 'Coq proof (invariant + refinement) + model/implementation correspondence',
 'design_ref': 'DESIGN.md 6.16',
 'n_quick': 1600,
 'n_thorough': 40000,
 'shard': 200,
 'level': 'proof',
 'trusted_base': [KERNEL, HARNESS],
 'assumptions': []}
