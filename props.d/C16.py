"""C16 check configuration."""
import json
import os
import re

from propbase import KERNEL, HARNESS


def pty_sessions(ctx):
    """extra hook: sessions of the real SystemTerminal on a pseudo-terminal (tool pty16), evaluated against the
    model IO/TermIO.v and the frame specification by Corr/C16Pty.v"""
    out = os.path.join(ctx["build"], "cases", "C16-pty" + ("-replay" if ctx.get("replay") else ""))
    os.makedirs(out, exist_ok=True)
    for f in ("sessions.v", "sessions.json", "current_session.json"):
        try:
            os.remove(os.path.join(out, f))
        except OSError as e:
            pass
    cmd = [ctx["exe"], "tool", "pty16", "--out", out, "--seed", str(ctx["seed"]), "--tier", ctx["tier"]]
    if ctx.get("replay"):
        rp = json.load(open(ctx["replay"]))
        sess = [c["pty_session"] for c in rp.get("cases", [rp.get("case")]) if c and "pty_session" in c]
        if not sess:
            return {"notes": ["pty16: replay file holds no pty session"]}
        rj = os.path.join(out, "replay_sessions.json")
        json.dump({"sessions": sess}, open(rj, "w"))
        cmd += ["--replay", rj]
    cur = os.path.join(out, "current_session.json")
    try:
        rc, text = ctx["sh"](cmd, cwd=ctx["root"], timeout=900)
    except Exception as e:  # timeout: the terminal object hung (poll never returned, dispose blocked, ...)
        case = json.load(open(cur)) if os.path.exists(cur) else {}
        return {"violations": [{"kind": "failing-input", "what": "pty session did not finish: %s" % str(e)[:200],
                                "case": {"pty_session": case}}], "notes": ["pty16 tool timed out"]}
    violations = []
    notes = [(text.strip().split("\n") or [""])[-1][:300]]
    meta_path = os.path.join(out, "sessions.json")
    if not os.path.exists(meta_path) and os.path.exists(cur):
        # the process died (abort inside the crate) while this session ran: the session is the witness
        return {"violations": [{"kind": "failing-input", "what": "process aborted while running this pty session (rc=%d): %s" % (rc, text[-300:]),
                                "case": {"pty_session": json.load(open(cur))}}], "notes": notes}
    if not os.path.exists(meta_path):
        raise RuntimeError("pty16 tool produced nothing (rc=%d): %s" % (rc, text[-1500:]))
    meta = json.load(open(meta_path))
    sessions = meta.get("sessions", [])
    for e in meta.get("errors", []):
        m = re.match(r"session (\d+): (.*)", e)
        if m:
            violations.append({"kind": "failing-input", "what": "pty session: " + m.group(2),
                               "case": {"pty_session": strip_impl(sessions[int(m.group(1))])}})
        else:
            raise RuntimeError("pty16: " + e)
    rc, text = ctx["sh"](["coqc", "-noglob", "-Q", os.path.join(ctx["coq"], "theories"), "SNT", "sessions.v"], cwd=out, timeout=3000)
    for junk in ("sessions.vo", "sessions.vok", "sessions.vos", ".sessions.aux"):
        try:
            os.remove(os.path.join(out, junk))
        except OSError as e:
            pass
    m = re.search(r"=\s*(\[.*?\])\s*:\s*list \(N \* bool \* bool\)", text, re.S)
    if rc != 0 or not m:
        raise RuntimeError("evaluating the pty sessions failed:\n" + text[-2000:])
    for a, b, c in re.findall(r"\((\d+)(?:%N)?,\s*(true|false),\s*(true|false)\)", m.group(1)):
        idx, agree, holds = int(a), b == "true", c == "true"
        s = sessions[idx] if idx < len(sessions) else {}
        if not holds:
            violations.append({"kind": "failing-input",
                               "what": "bytes received on the pty master are not the written stream minus whole unsent frames (model agrees: %s)" % agree,
                               "case": {"pty_session": strip_impl(s), "observed": s.get("impl", {})}})
        else:
            violations.append({"kind": "broken-correspondence",
                               "what": "the terminal-object model IO/TermIO.v and the real SystemTerminal differ on this pty session; the frame specification still accepts the received bytes",
                               "case": {"pty_session": strip_impl(s), "observed": s.get("impl", {})}})
    cov = {"pty_sessions": len(sessions), "pty_bytes_written": meta.get("bytes_written", 0),
           "pty_polls_returning_with_output_pending": meta.get("polls_returning_with_output_pending", 0),
           "pty_drops_discarding_frames": meta.get("drops_discarding_frames", 0)}
    # the branches of the write step that only a fault script reaches, and the drop that finds the chunk in flight
    # partly sent, must have been exercised: a run that did not reach them proves nothing about them
    required = ["forced_short_writes", "forced_zero_byte_writes", "forced_eagain", "forced_eintr",
                "drops_with_front_chunk_partly_sent", "polls_returning_with_output_pending", "image_bytes", "sessions_released_with_output_pending"]
    for k in required:
        cov["pty_" + k] = meta.get(k, 0)
    if not ctx.get("replay"):
        missing = [k for k in required if not meta.get(k, 0)]
        # same for the queue histories: drops that find the front chunk partly consumed, big chunks drained in pieces
        try:
            dist = json.load(open(os.path.join(ctx.get("case_dir") or os.path.join(ctx["build"], "cases", "C16"), "meta.json"))).get("distribution", {})
            for tag in ("drop_with_front_partly_consumed=true", "big.partial_takes_in_chunk_over_64K=>=10", "max_chunks=>32",
                        "seg.source_boundary", "via_std_traits"):
                cov["queue_" + tag] = dist.get(tag, 0)
                if not dist.get(tag, 0):
                    missing.append("queue histories with " + tag)
        except OSError as e:
            missing.append("queue reach counters unreadable (%s)" % e)
        if missing:
            violations.append({"kind": "broken-correspondence",
                               "what": "the pty sessions did not reach: %s (fault script hook of Tty::write not effective, or generator changed)" % ", ".join(missing),
                               "case": {"pty_counters": {k: meta.get(k, 0) for k in required}}})
    return {"violations": violations, "coverage": cov, "notes": notes}


# the API surface of IOQueue the model and the histories cover: inherent methods and the std traits it implements
IOQUEUE_API = {"IOQueue": {"new", "is_empty", "len", "clear_but_last", "chunks_count", "as_slice", "consume", "consume_with"},
               "Write": {"write", "flush"}, "Read": {"read"}, "BufRead": {"fill_buf", "consume"}, "Default": {"default"}}


def api_surface(ctx):
    """extra hook: every method in the impl blocks of IOQueue (src/common.rs) must be one the model covers; a new
    inherent method or an overridden std trait method (read_to_end, write_all, write_vectored ...) breaks the tie
    between model and code until it is modelled and called in histories"""
    try:
        text = open(os.path.join(ctx["repo"], "src", "common.rs")).read()
    except OSError as e:
        return {"violations": [{"kind": "broken-correspondence", "what": "src/common.rs unreadable: %s" % e, "case": {}}], "coverage": {}, "notes": []}
    found = {}
    for m in re.finditer(r"^impl(?:<[^>]*>)?\s+(?:([\w:]+)\s+for\s+)?IOQueue\s*\{(.*?)^\}", text, re.S | re.M):
        key = (m.group(1) or "IOQueue").split("::")[-1]
        found.setdefault(key, set()).update(re.findall(r"\bfn\s+(\w+)", m.group(2)))
    unknown = sorted("%s::%s" % (k, f) for k, fs in found.items() for f in fs if f not in IOQUEUE_API.get(k, set()))
    gone = sorted("%s::%s" % (k, f) for k, fs in IOQUEUE_API.items() for f in fs if f not in found.get(k, set()))
    violations = []
    if unknown or gone:
        violations.append({"kind": "broken-correspondence",
                           "what": "the API surface of IOQueue changed: not covered by the model / the histories: %s; no longer there: %s"
                                   % (", ".join(unknown) or "-", ", ".join(gone) or "-"),
                           "case": {"impl_blocks": {k: sorted(v) for k, v in found.items()}}})
    return {"violations": violations, "coverage": {"ioqueue_methods": sum(len(v) for v in found.values())}, "notes": []}


def strip_impl(s):
    s = dict(s)
    s.pop("impl", None)
    return s


PROP = {'gen': [],
 'coq_props': ['theories/Props/C16.vo'],
 'coq_corr': ['theories/Corr/C16Corr.vo', 'theories/Corr/C16Pty.vo'],
 'props_file': 'theories/Props/C16.v',
 'props_module': 'Props.C16',
 'corr_check': 'SNT.Corr.C16Corr.c16_check (model IO/IOQueue.v and specification IO/FifoSpec.v vs surf_n_term::common::IOQueue under '
               'random histories of write/flush/read/consume/consume_with/clear_but_last/read_to_end) and SNT.Corr.C16Pty.pty_check '
               '(model IO/TermIO.v and the frame specification vs surf_n_term::SystemTerminal on a pseudo-terminal)',
 'level_text': 'Coq theorems over an executable, line-by-line model of IOQueue (parametric in the byte type) and of the terminal '
               'object\'s output path (queue + tty under an arbitrary kernel schedule of short writes / EAGAIN): for every history of '
               'write/flush/read/consume/consume_with/drop/read_to_end calls and every program of write/execute/flush/poll/frames_drop '
               'under every schedule, no panic (bar usize overflow of a caller-supplied consume amount), representation invariant, '
               'delivered ++ pending = written minus discarded chunks in order (erasure relation), len() = bytes readable to exhaustion, '
               'discarded chunks are whole frames none of whose bytes is ever delivered (frames delimited by flush/poll/drop in general, by flush/poll '
               'only for programs that drop right after a flush or poll that queued nothing itself, e.g. the render loop outside escape sequence resize mode); '
               'progress from every reachable state: any continuation of accepting / refusing (EAGAIN) / idle rounds with |pending| + chunks accepting ones '
               'drains the queue; the specification sides provably accept the model: FifoSpec every queue history, FrameSpec every run of the terminal '
               'object that ends with nothing pending (not runs that stop with output queued). Models tied to the code by '
               'histories on the real IOQueue (incl. chunks over 64 KiB drained in many pieces; up to 1 MiB in the thorough tier) and by pty sessions of the real SystemTerminal.',
 'level_note': 'Trusted: Coq kernel + vm_compute; hand-written models IO/IOQueue.v, IO/TermIO.v validated by the correspondence runs; '
               'IO/FifoSpec.v / IO/FrameSpec.v (match_frames) as the reading of the property text; kernel behaviour universally quantified, sampled by '
               'the pty run; fewer than 2^64 bytes per history; tee/tracing outside the model. Defects fixed (hashes on /repo main): 1668a13, 1688aac, 5a0ca21 (tee); related e293376 (C17), 93ac8da (C01 owner). No open findings. '
               'No axioms (Print Assumptions: closed).',
 'technique': 'Coq proof (representation invariant, simulation terminal program -> queue history, erasure relation, parametricity + '
              'frame-tagged histories) + model/implementation correspondence (random histories, pty sessions)',
 'design_ref': 'DESIGN.md 6.16',
 'n_quick': 1000,
 'n_thorough': 30000,
 'shard': 125,
 'level': 'proof',
 'extra': [pty_sessions, api_surface],
 'trusted_base': [KERNEL,
                  'hand-written models IO/IOQueue.v (IOQueue) and IO/TermIO.v (UnixTerminal write/execute/flush/poll write step/frames_drop), '
                  'tied to the code by the correspondence runs',
                  'specifications IO/FifoSpec.v (byte FIFO with flush marks) and IO/FrameSpec.v (match_frames), written from the property text',
                  'primitive 63-bit integers of Coq in the correspondence checks only (big histories, pty sessions)',
                  HARNESS + '; pty peer thread (harness/src/ptyutil.rs)',
                  'segment histories (IO/SegQueue.v, harness run_seg): the harness compares every byte it got with the position pattern before it '
                  'reports a run (start, length) - that comparison and its flat list of owed runs are trusted; the abstraction from the byte-level model '
                  'to the segment model is stated (abstraction_ok) and evaluated on every segment history of at most 4096 bytes in every run, not proved'],
 'assumptions': ['fewer than 2^64 bytes are written in one history (so `length += n` cannot overflow and chunk lengths fit usize)',
                 'consume amounts passed by callers fit usize when added to the queue size (BufRead contract: amt <= bytes shown); otherwise the '
                 'only possible panic is the overflow of `offset + amt` (debug build; a release build wraps instead and corrupts length/offset: '
                 'out of contract either way)',
                 'the tty accepts a prefix of the slice it is given (write(2) contract); which prefix, and when, is arbitrary',
                 'a frame is delimited by flush, poll and frames_drop calls (C16_frames); by flush and poll only when nothing is handed over '
                 'between the last flush/poll and a drop (C16_frames_flush_delimited)',
                 'delivery theorems speak about bytes the kernel accepted; a peer that never reads gets nothing (C16_progress needs accepting rounds); '
                 'the tee (duplicate_output) is not modelled']}
