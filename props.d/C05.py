"""C05 check configuration (data only)."""
import os
import sys
from propbase import KERNEL, HARNESS


def regen_encoder_tables(ctx):
    """DecMode discriminants, KEYBOARD_LEVEL, grey-depth SGR codes: re-extracted from the source on every run"""
    return ctx["sh"]([sys.executable, os.path.join(ctx["root"], "translate", "enc_tables.py"), "encoder", "color"],
                     cwd=ctx["root"], env=dict(ctx["env"], VERIF_REPO=ctx["repo"], VERIF_EXE=ctx["exe"] or ""))


def sweep_no_panic(ctx):
    """every 3rd of the 2^24 colours x 3 roles x 3 depths through the real encoder (harness tool c20sweep, shared with C20, whose own check runs all of them):
    for C05 this is the run that backs 'no panic' on the f32 reduction path, which the model does not contain"""
    import importlib.util
    spec = importlib.util.spec_from_file_location("props_c20", os.path.join(ctx["root"], "props.d", "C20.py"))
    mod = importlib.util.module_from_spec(spec)
    spec.loader.exec_module(mod)
    # every 3rd colour here (the exhaustive run is part of C20's check); VERIF_C20_STRIDE overrides
    old = os.environ.get("VERIF_C20_STRIDE")
    os.environ["VERIF_C20_STRIDE"] = old or "3"
    try:
        res = mod.sweep(ctx)
    finally:
        if old is None:
            os.environ.pop("VERIF_C20_STRIDE", None)
    cov = {"c20sweep_" + k: v for k, v in res.get("coverage", {}).items()}
    return {"violations": res.get("violations", []), "coverage": cov, "notes": res.get("notes", [])}


PROP = {'gen': [],
 'pre_coq': [regen_encoder_tables],
 'extra': [sweep_no_panic],
 'coq_props': ['theories/Props/C05.vo'],
 'coq_corr': ['theories/Corr/C05Corr.vo'],
 'props_file': 'theories/Props/C05.v',
 'props_module': 'Props.C05',
 'corr_check': 'SNT.Corr.C05Corr.c05_check (model Encoder/Encode.v vs surf_n_term::encoder::TTYEncoder::encode; predicate: independent '
               'VT/xterm parser+interpreter Encoder/VT.v applied to the implementation bytes = Encoder/Denote.v; streams through one '
               'encoder: operation list and final terminal state (Encoder/Term.v); renderer sessions (Corr/C05bCorr.v): screen through the '
               'bytes = show S)',
 'level_text': 'Coq theorems over an executable model of TTYEncoder::encode (all 27 TerminalCommand variants; 24 carry content, Image/ImageErase emit nothing in this encoder and Raw means its '
               'own bytes, so those three arms are tautological; Chunks join, colour '
               'encoding per depth, alt-screen keyboard bracketing) and an independent UTF-8-mode ECMA-48/xterm parser+interpreter '
               'written from the standards: for EVERY command and parameter value in the domain (usize/i32 extremes included) and '
               'every capability set the emitted bytes are interpreted as exactly the command\'s denotation; Face in true colour '
               'maps ANY prior rendition to exactly the face; reduced depths select one palette entry per colour; after every '
               'command the parser is back in its initial state, so streams of commands parse back into the same operations '
               'whatever complete output preceded; the model has no Panic path for any input, also with the C20 colour reduction (table '
               'indexing, nearest) plugged in (C05_nopanic_with_reduction; f32 evaluation itself is not modelled and is covered by the '
               'c20sweep run (every 3rd colour as an extra hook of this check, all 2^24 in C20\'s check), which reports encoder panics). DEC mode numbers, KEYBOARD_LEVEL and '
               'grey-depth SGR codes are regenerated from the source each run and the theorems re-checked; the model is tied to the '
               'code by a differential run (single commands, and streams through ONE encoder object with deliberate repetitions of stateful '
               'commands around Reset / alt-screen / keyboard-level / mode / face changes; for streams the operation list AND the FINAL TERMINAL STATE from clean '
               'and dirty initial states are compared, C05_stream_one_encoder: one encoder object = concatenation of self-contained encodings). Composition with C01 (true colour): the bytes of every '
               'renderer command, read by this interpreter and run on C01\'s reference screen, do exactly what the command does there '
               '(C05_C01_bytes/_list/_history_bytes), hence after every history ending in a frame the screen reached through the BYTES '
               'displays show(S) (C05_C01_history_final, corollary of C01); renderer sessions are checked this way end to end. Counted theorems (17): C05_meaning, _face_exact, _face_reduced, '
               '_facemodify_reduced, _selfcontained, _stream_after_complete_prefix, _stream_one_encoder (about the model, close to '
               'definitional), _failed_write_harmless (writer that fails after k bytes: a prefix is delivered and nothing leaks into later '
               'commands), _parser_concat, _nopanic, _nopanic_with_reduction, _char_introducer_refuted_before_fix, _decmodes, '
               'C05_C01_bytes, _list, _history_bytes, _history_final. Nine crate defects found and fixed (dc2484b 99cef6a 79f9e06 bdc3281 '
               '3326eaa c4fb555 4d6dbe2 cdeff57 73d8d1c); no open known finding.',
 'level_note': 'Trusted: Coq kernel + vm_compute; translate/enc_tables.py; hand-written model Encoder/Encode.v validated by the '
               'correspondence run; the VT/xterm interpreter Encoder/VT.v and the denotation Encoder/Denote.v ARE the specification '
               '(written from ECMA-48, the DEC parser state machine, xterm ctlseqs, the kitty keyboard protocol). Palette index / grey '
               'level under reduced depths are parameters of the model (any function with index < 256): which entry is chosen is C20. '
               'No axioms (Print Assumptions: closed under the global context).',
 'technique': 'Coq proof + regenerated tables + model/implementation correspondence',
 'design_ref': 'DESIGN.md 6.5',
 'n_quick': 2000,
 'n_thorough': 60000,
 'shard': 500,
 'level': 'proof',
 'trusted_base': [KERNEL,
                  'translate/enc_tables.py: DecMode discriminants, KEYBOARD_LEVEL, grey-depth SGR codes and background offset are '
                  're-extracted from src/terminal.rs, src/decoder.rs, src/encoder.rs on every run (Gen/TabEncoder.v, Gen/TabColor.v)',
                  'hand-written model Encoder/Encode.v of TTYEncoder::encode / Chunks / color_sgr_encode, tied to the code by the '
                  'correspondence run',
                  'specification: Encoder/VT.v (UTF-8 decoder per Unicode Table 3-7, DEC/ECMA-48 parser state machine, xterm/kitty '
                  'interpretation of CSI/OSC/DCS/ESC, SGR as a transformer of renditions) Encoder/Denote.v (meaning of each command, spec decisions D1-D10) and Encoder/Term.v (terminal state machine over the operations)',
                  'harness/src/tool_c20sweep.rs (shared with C20, unproved): every 3rd colour x 3 roles x 3 depths through the real encoder, here for "no panic" on the f32 reduction path (exhaustive in C20)',
                  'composition with C01: Render/Screen.v cell-writing primitives (put_char, erase_cells), its oracle (wcwidth, look of '
                  'blank / erased cells) and image placement model are shared assumptions; face ids and Face values correspond one to one',
                  HARNESS],
 'assumptions': ['terminal in UTF-8 mode (C1 controls recognised as decoded code points); a zero or omitted numeric parameter of '
                 'cursor/erase/scroll functions means 1 (xterm); SGR 22 = normal intensity, 21 = double underline (ECMA-48)',
                 'domain of the meaning theorems (cmd_ok): usize / i32 ranges, colour channels < 256, FaceAttrs underline style code 0..5 '
                 '(codes 6 and 7 are not constructible through the public API), titles without control '
                 'characters (Unicode Cc), Char of any scalar value (a control is executed, DEL / ST ignored, the seven sequence '
                 'introducers are shown as U+FFFD since crate fix 73d8d1c: decisions D8, D10 of Encoder/Denote.v); Raw means its bytes '
                 'and is excluded from self-containedness',
                 'a writer either accepts everything or accepts k bytes and then returns errors (C05_failed_write_harmless, FailWrite cases); error '
                 'kinds and Interrupted retries are not distinguished']}
