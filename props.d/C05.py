"""C05 check configuration (data only)."""
import os
import sys
from propbase import KERNEL, HARNESS


def regen_encoder_tables(ctx):
    """DecMode discriminants, KEYBOARD_LEVEL, grey-depth SGR codes: re-extracted from the source on every run"""
    return ctx["sh"]([sys.executable, os.path.join(ctx["root"], "translate", "enc_tables.py"), "encoder", "color"],
                     cwd=ctx["root"], env=dict(ctx["env"], VERIF_REPO=ctx["repo"]))


PROP = {'gen': [],
 'pre_coq': [regen_encoder_tables],
 'coq_props': ['theories/Props/C05.vo'],
 'coq_corr': ['theories/Corr/C05Corr.vo'],
 'props_file': 'theories/Props/C05.v',
 'props_module': 'Props.C05',
 'corr_check': 'SNT.Corr.C05Corr.c05_check (model Encoder/Encode.v vs surf_n_term::encoder::TTYEncoder::encode; predicate: '
               'independent VT/xterm parser+interpreter Encoder/VT.v applied to the implementation bytes = Encoder/Denote.v)',
 'level_text': 'placeholder',
 'level_note': 'placeholder',
 'technique': 'Coq proof + regenerated tables + model/implementation correspondence',
 'design_ref': 'DESIGN.md 6.5',
 'n_quick': 3000,
 'n_thorough': 60000,
 'shard': 500,
 'level': 'proof',
 'trusted_base': [KERNEL, HARNESS],
 'assumptions': []}
