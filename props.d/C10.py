"""C10 check configuration (data only)."""
from propbase import KERNEL, HARNESS

PROP = {'gen': [],
 'coq_props': ['theories/Props/C10.vo'],
 'coq_corr': ['theories/Corr/C10Corr.vo'],
 'props_file': 'theories/Props/C10.v',
 'props_module': 'Props.C10',
 'corr_check': 'SNT.Corr.C10Corr.c10_check (model View/ViewModel.v vs surf_n_term::view::{Flex, FlexRef, Container, Frame, ScrollBar, Tag, '
               'Dynamic, Text, Layout::apply_to, FindPath, ViewDeserializer} and the View impls of str, (), RGBA, Option, Either, Image, Glyph)',
 'level_text': 'Coq theorems over an executable model of View::layout / View::render for trees of the library views.',
 'level_note': 'Trusted: Coq kernel + vm_compute; hand-written model validated by the correspondence run. No axioms.',
 'technique': 'Coq proof (induction over the view tree) + model/implementation correspondence',
 'design_ref': 'DESIGN.md 6.10',
 'n_quick': 2000,
 'n_thorough': 30000,
 'shard': 100,
 'level': 'proof',
 'trusted_base': [KERNEL,
                  'hand-written model View/ViewModel.v, tied to the code by the correspondence run',
                  HARNESS],
 'assumptions': ['sums of child extents stay below 2^64 (constraint extents and leaf sizes are terminal-sized)',
                 'flex factors are compared on dyadic rationals (quarters), for which the f64 arithmetic of flex_layout is exact']}
