"""C10 check configuration."""
import json
import os

from propbase import KERNEL, HARNESS

# what a run must have reached to count as evidence for the branches named in level_text / assumptions
REQUIRED_TAGS = ["factor_double_compared=true", "factor_inexact=true", "factor_filtered_double=true", "model_compared=true",
                 "model_compared=false", "huge_ct=true", "scroll_den0=true", "ppc=varied", "fp_siblings_overlap=true",
                 "fp_saturating_extent=true", "route=ctor", "route=ref", "route=json", "tiny_ct=true", "fixed_leaf_grid=true", "empty_surface=true", "tight_ct=true", "zero_max=true"]


def require_reach(ctx):
    """a run whose generated cases miss one of the required kinds is reported (not silently accepted)"""
    if ctx.get("replay"):
        return {}
    dist = json.load(open(os.path.join(ctx.get("case_dir") or os.path.join(ctx["build"], "cases", "C10"), "meta.json"))).get("distribution", {})
    cov = {"reach " + t: dist.get(t, 0) for t in REQUIRED_TAGS}
    missing = [t for t in REQUIRED_TAGS if not dist.get(t, 0)]
    violations = []
    if missing:
        violations.append({"kind": "broken-correspondence",
                           "what": "the generated cases did not reach: %s (generator changed?)" % ", ".join(missing), "case": {}})
    return {"violations": violations, "coverage": cov}


API_FILES = ["src/view/mod.rs", "src/view/container.rs", "src/view/dynamic.rs", "src/view/flex.rs", "src/view/frame.rs", "src/view/scrollbar.rs", "src/view/text.rs", "src/view/layout.rs", "src/view/offscreen.rs", "src/image.rs", "src/glyph.rs"]
API_HEADS = ["View for", "Tree for", "TreeMut for", "impl Layout", "FindPath", "impl Align", "BoxConstraint"]
API_IMPLS_ONLY = True
API_KNOWN = [
    "impl Align",
    "impl BoxConstraint",
    "impl IntoView for &Offscreen",
    "impl Layout",
    "impl View for ()",
    "impl View for Glyph",
    "impl View for Image",
    "impl View for ImageAsciiView",
    "impl View for OffscreenView",
    "impl View for RGBA",
    "impl View for ScrollBar",
    "impl View for String",
    "impl View for SurfaceView<'_, Cell>",
    "impl View for Text",
    "impl View for ViewCached",
    "impl View for str",
    "impl<'a> Iterator for FindPath<'a>",
    "impl<'a> View for Flex<'a> where Self: 'a,",
    "impl<A> View for FlexRef<A> where A: FlexArray + Send + Sync,",
    "impl<B, V> Dynamic<B> where B: Fn(&ViewContext, BoxConstraint) -> V + Send + Sync, V: View + 'static,",
    "impl<B, V> View for Dynamic<B> where B: Fn(&ViewContext, BoxConstraint) -> V + Send + Sync, V: View + 'static,",
    "impl<F> View for ScrollBarFn<F> where F: Fn() -> ScrollBarPosition + Send + Sync,",
    "impl<L, R> View for either::Either<L, R> where L: View, R: View,",
    "impl<T, V> View for Tag<T, V> where T: Clone + Any + Send + Sync, V: View,",
    "impl<T: Tree> Tree for &T",
    "impl<T: Tree> Tree for &mut T",
    "impl<T: TreeMut> TreeMut for &mut T",
    "impl<T: View + ?Sized> View for Arc<T>",
    "impl<T: View + ?Sized> View for Box<T>",
    "impl<T> Tree for TreeMutView<'_, T>",
    "impl<T> Tree for TreeView<'_, T>",
    "impl<T> TreeMut for TreeMutView<'_, T>",
    "impl<V, S> View for TraceLayout<V, S> where V: View, S: Fn(&BoxConstraint, ViewLayout<'_>) + Send + Sync,",
    "impl<V: View + ?Sized> View for &V",
    "impl<V: View> IntoView for V",
    "impl<V: View> View for Container<V>",
    "impl<V: View> View for Frame<V>",
    "impl<V: View> View for Option<V>",
]


def _impl_blocks(text):
    """(header, [fn names]) of every impl block outside the tests module"""
    import re
    cut = text.find("#[cfg(test)]\nmod tests")
    if cut > 0:
        text = text[:cut]
    out = []
    for m in re.finditer(r"\n(?:pub )?(impl|trait)\b([^{;]*)\{", text):
        head = " ".join((m.group(1) + m.group(2)).split())
        i, depth = m.end(), 1
        while depth and i < len(text):
            depth += (text[i] == "{") - (text[i] == "}")
            i += 1
        out.append((head, re.findall(r"\n    (?:pub )?fn (\w+)", text[m.end():i])))
    return out


def api_surface(ctx):
    """the methods / impls of the property's domain as they are in the source now, against the list the harness and the
    model were written for: a method or impl that appears (an overridden write_all, a new view type ...) is reported"""
    found = set()
    for f in API_FILES:
        try:
            text = open(os.path.join(ctx["repo"], f)).read()
        except OSError:
            continue
        for head, fns in _impl_blocks(text):
            if not any(k in head for k in API_HEADS):
                continue
            if API_IMPLS_ONLY:
                found.add(head)
            else:
                for fn in fns:
                    found.add(head + " :: " + fn)
    new = sorted(found - set(API_KNOWN))
    violations = []
    if new:
        violations.append({"kind": "broken-correspondence",
                           "what": "API surface of the property's domain not covered by harness and model: %s" % "; ".join(new), "case": {}})
    return {"violations": violations, "coverage": {"api_items_checked": len(found)}}


PROP = {'gen': [],
 'extra': [require_reach, api_surface],
 'coq_props': ['theories/Props/C10.vo'],
 'coq_corr': ['theories/Corr/C10Corr.vo'],
 'props_file': 'theories/Props/C10.v',
 'props_module': 'Props.C10',
 'corr_check': 'SNT.Corr.C10Corr.c10_check (model View/ViewModel.v vs surf_n_term::view::{Flex, FlexRef, Container, Frame, ScrollBar, Tag, '
               'Dynamic, Text, Layout::apply_to, FindPath, ViewDeserializer} and the View impls of str, (), RGBA, Option, Either, Image, Glyph)',
 'level_text': 'Coq theorems, by induction over view trees (text, str, flex, container, frame, scroll bar, tag, dynamic, option/either, '
               'fill, unit, image, glyph, surface view, half-block image, cached view; any constraint with min <= max, extents up to '
               'usize::MAX; both glyph settings; pixels-per-cell and the nine frame fragments as parameters; ANY flex share function capped by the '
               'remaining space as the repaired code caps it): layout returns a tree (the plain - and / of the code are checked operations of the model, proved never to underflow / divide by '
               'zero; no invalid clamp); text/flex/container/image/glyph/fill/surface sizes lie within the constraint; render with any layout tree never '
               'panics and changes nothing outside its surface, with layout\'s own tree it completes; every leaf of every kind is handed, '
               'in drawing order, exactly the window the layout tree records for it and paints only inside it; find_path follows the '
               'first child containing the position; in every tree layout produces siblings are pairwise disjoint, so the order of '
               'children does not matter for hit-testing, and hit-testing any cell a leaf paints leads to that leaf\'s node. '
               'Model tied to the code by a differential run over trees built through constructors, FlexRef and JSON.',
 'level_note': 'Trusted: Coq kernel + vm_compute; hand-written model validated by the correspondence run; extents saturate at usize::MAX as in '
               'the repaired code. The theorems do not depend on the f64 arithmetic of the flex share: they hold for every share '
               'function (no binary64/Flocq development: the intermediate doubles are not always finite, e.g. 1.0/1e-320 = +inf, so the '
               'cap by the remaining space in the code is what bounds the share, and that cap is modelled literally). The correspondence '
               'run instantiates the share with exact rounding for dyadic factors (see assumptions). No axioms (closed).',
 'technique': 'Coq proof (induction over the view tree) + model/implementation correspondence',
 'design_ref': 'DESIGN.md 6.10',
 'n_quick': 2000,
 'n_thorough': 30000,
 'shard': 100,
 'level': 'proof',
 'trusted_base': [KERNEL,
                  'hand-written model View/ViewModel.v, tied to the code by the correspondence run',
                  HARNESS],
 'assumptions': ['correspondence only (the theorems hold for every share function): the model is compared when every factor of a flex node is a '
                 'quarter with a small numerator (integers and doubles such as 1.0, 2.5, 0.25; binary64 is exact while remain * factor < 2^53) '
                 'or a factor the repaired code filters to non-flex (inf, NaN, <= 0); a flex node with any other double (non-dyadic, subnormal, '
                 'huge) and flex layouts under extents >= 2^40 are run against the property predicates only',
                 'scroll bar fractions are rationals num/den (den = 0 meaning ScrollBarPosition::from_counts with total 0)',
                 'pixels-per-cell: unbounded in the model; the code needs surface extent x pixels-per-cell <= usize::MAX (Image::render) and an '
                 'allocatable 3x3-cell pixel raster (Frame)',
                 'domain: surfaces that exist in memory (height * width cells allocated); layout extents may be anything up to usize::MAX '
                 'and are only ever added/subtracted saturating or clipped against the surface (Layout::apply_to); the products '
                 'height * width in Shape::from, SurfaceOwned::new, Size::area and Image::size_cells act on existing surfaces/images, never '
                 'on layout extents; Image::render multiplies the extent of the (existing) surface by pixels-per-cell, which fits usize for '
                 'any surface not larger than the terminal the ratio was computed from (compared cases: ratios 1..40 x 1..24); '
                 'Offscreen::draw_view, which allocates a surface of the laid-out size, is outside the model']}
