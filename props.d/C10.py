"""C10 check configuration (data only)."""
from propbase import KERNEL, HARNESS

PROP = {'gen': [],
 'coq_props': ['theories/Props/C10.vo'],
 'coq_corr': ['theories/Corr/C10Corr.vo'],
 'props_file': 'theories/Props/C10.v',
 'props_module': 'Props.C10',
 'corr_check': 'SNT.Corr.C10Corr.c10_check (model View/ViewModel.v vs surf_n_term::view::{Flex, FlexRef, Container, Frame, ScrollBar, Tag, '
               'Dynamic, Text, Layout::apply_to, FindPath, ViewDeserializer} and the View impls of str, (), RGBA, Option, Either, Image, Glyph)',
 'level_text': 'Coq theorems, by induction over view trees (text, flex, container, frame, scroll bar, tag, dynamic, option/either, fill, '
               'image, glyph; any constraint with min <= max; both glyph settings): layout returns a tree (no underflow, no division by '
               'zero, no invalid clamp); text/flex/container/image/glyph/fill sizes lie within the constraint; render with any layout '
               'tree never panics and changes nothing outside its surface, with layout\'s own tree it completes; every probe leaf is '
               'handed exactly the window the layout tree records for it and every leaf kind paints only inside its recorded rectangle; '
               'find_path follows the first child containing the position. '
               'Model tied to the code by a differential run over trees built through constructors, FlexRef and JSON.',
 'level_note': 'Trusted: Coq kernel + vm_compute; hand-written model validated by the correspondence run; extents saturate at usize::MAX as in '
               'the repaired code; flex factors dyadic (see assumptions). No axioms (closed).',
 'technique': 'Coq proof (induction over the view tree) + model/implementation correspondence',
 'design_ref': 'DESIGN.md 6.10',
 'n_quick': 2000,
 'n_thorough': 30000,
 'shard': 100,
 'level': 'proof',
 'trusted_base': [KERNEL,
                  'hand-written model View/ViewModel.v, tied to the code by the correspondence run',
                  HARNESS],
 'assumptions': ['flex factors of the model are positive numerators over a common power-of-two denominator with remain * factor < 2^53, '
                 'for which the f64 share arithmetic of flex_layout is exact; trees with other doubles (non-dyadic, extreme ratios) and '
                 'flex layouts under extents >= 2^40 are run against the property predicate only (no model agreement)',
                 'scroll bar fractions are rationals num/den (den = 0 meaning ScrollBarPosition::from_counts with total 0)']}
