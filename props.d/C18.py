"""C18 check configuration (data only)."""
from propbase import KERNEL, HARNESS

PROP = {'gen': [],
 'coq_props': ['theories/Props/C18.vo'],
 'coq_corr': ['theories/Corr/C18Corr.vo'],
 'props_file': 'theories/Props/C18.v',
 'props_module': 'Props.C18',
 'corr_check': 'SNT.Corr.C18Corr.c18_check (models Keys/KeyMap.v, Keys/KeyParse.v vs surf_n_term::keys::{KeyMap, KeyMapHandler, Key, KeyChord, KeyName})',
 'level_text': 'under construction',
 'level_note': 'under construction',
 'technique': 'Coq proof (refinement of the trie to a dictionary of chords; parser round trip) + model/implementation correspondence',
 'design_ref': 'DESIGN.md 6.18',
 'n_quick': 1500,
 'n_thorough': 30000,
 'shard': 125,
 'level': 'proof',
 'trusted_base': [KERNEL, HARNESS],
 'assumptions': []}
