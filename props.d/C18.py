"""C18 check configuration (data only)."""
import importlib.util
import os

from propbase import KERNEL, HARNESS

_root = os.path.dirname(os.path.dirname(os.path.abspath(__file__)))


def _load(name, path):
    spec = importlib.util.spec_from_file_location(name, os.path.join(_root, "translate", path))
    mod = importlib.util.module_from_spec(spec)
    spec.loader.exec_module(mod)
    return mod


_keys = _load("translate_c18keys", "c18keys.py")


def lowerspec(ctx):
    """the two facts assumed about str::to_lowercase (lower_spec), swept over every Unicode scalar value"""
    rc, out = ctx["sh"]([ctx["exe"], "tool", "lowerspec"], cwd=ctx["root"], timeout=600)
    if rc == 0 and "lowerspec ok" in out:
        return {"coverage": {"lower_spec_scalars_checked": int(out.split()[-1])}, "notes": [out.strip()]}
    return {"violations": [{"kind": "broken-correspondence",
                            "what": "str::to_lowercase no longer satisfies lower_spec (assumption of the parser theorems): " + out.strip()[-200:],
                            "case": {"tool": "lowerspec", "output": out.strip()[-200:]}}]}


PROP = {'gen': [],
 'pre_coq': [_keys.pre_coq],
 'coq_props': ['theories/Props/C18.vo'],
 'coq_corr': ['theories/Corr/C18Corr.vo'],
 'props_file': 'theories/Props/C18.v',
 'props_module': 'Props.C18',
 'corr_check': 'SNT.Corr.C18Corr.c18_check (models Keys/KeyMap.v, Keys/KeyParse.v vs surf_n_term::keys::{KeyMap, KeyMapHandler, Key, '
               'KeyChord, KeyName}; property predicate = dictionary of chords reg/spec_lookup/spec_override, the matcher clauses '
               'evaluated on the handle() stream, parser no-panic and print-parse round trip on the implementation\'s own output)',
 'level_text': 'Coq theorems over an executable model of KeyMap (trie of ordered association lists = BTreeMap) and of the key/chord '
               'parsers and printers. For every map built by any combination of new / register / register_override / clear and every '
               'non-empty chord, lookup equals lookup in the dictionary of chords built by reg c v d = (c,v) :: [entries of d unrelated '
               'to c] (spec_override for an override); Success / Continue / Failure mean bound / proper prefix of a bound chord / '
               'neither; for_each lists exactly the bound chords, each once. For plain registration histories the dictionary is '
               'characterised as "registered and no related chord registered since" (a lemma about the specification only). Stateful '
               'matcher (same maps): from idle a bound chord fires exactly at its last key; it fires only bound chords; after an '
               'unbound key typed from idle the next chord fires. From an arbitrary pending state the last clause is proved ONLY when '
               'the unbound key does not itself continue the pending chord (pending ++ [u] is not a proper prefix of a bound chord): '
               'without that side condition the clause of the property text is FALSE of the code '
               '(C18_matcher_never_prevents_refuted) and of every matcher that satisfies the first clause (lemma '
               'C18_clauses_incompatible); that class is a known finding. The parsers never panic and whatever they accept prints to a '
               'string that parses back to the same value. The parsers\' vocabulary (name and modifier literals), the variant order behind the derived Ord of Key and the '
               'modifier masks are re-extracted from src/keys.rs on every run (C18_parser_vocabulary_is_source, '
               'C18_key_order_is_source_order), so the parser theorems hold of the table the code has now. Specification-side facts are Lemmas, not '
               'counted as obligations. Model tied to the code by a differential run; the predicate evaluates the English clauses '
               'directly on the stream of handle() answers; idle / pending / the known class are decided on the dictionary side.',
 'level_note': 'Trusted: Coq kernel + vm_compute; translate/c18keys.py; hand-written models validated by the correspondence run; str::to_lowercase is an '
               'oracle: the parser theorems hold for every function satisfying lower_spec (identity on ASCII strings without capitals; '
               'only strings beginning with f/F lower-case to something beginning with f), and each case checks these two facts on '
               'the answers the real to_lowercase gave; 64-bit usize. No axioms (Print Assumptions: closed under the global context).',
 'technique': 'Coq proof (refinement of the trie to a dictionary of chords by induction over histories; representation invariant for '
              'enumeration and override; parser round trip with finite sweeps for character classes and modifier sets) + '
              'model/implementation correspondence',
 'design_ref': 'DESIGN.md 6.18',
 'n_quick': 1500,
 'n_thorough': 30000,
 'shard': 125,
 'level': 'proof',
 'extra': [lowerspec],
 'trusted_base': [KERNEL,
                  'hand-written model Keys/KeyMap.v of KeyMap::{register,lookup,for_each,register_override,lookup_state} and '
                  'KeyMapHandler::handle (BTreeMap as key-ordered association list), tied to the code by the correspondence run',
                  'hand-written model Keys/KeyParse.v of FromStr/Display for KeyName, Key, KeyChord and Debug for KeyMod, tied to the '
                  'code by the correspondence run (every literal name and modifier, every printable ASCII character, F-key indices '
                  'around usize::MAX, structured and malformed strings)',
                  'str::to_lowercase as an oracle constrained by lower_spec (Keys/KeyParseProofs.v); the two assumed facts are '
                  're-checked on every answer used in a case',
                  'specification: dictionary of chords (reg, spec_lookup, spec_override) written from the property text and validated by the lemma C18_last_writer; the matcher clauses are evaluated on the handle() stream, spec_handle serves as bookkeeping (pending keys, class decision) only',
                  'translate/c18keys.py: variant order of enum KeyName, the KeyMod constants and the literal match arms of KeyName::from_str / Key::from_str (the parsers\' vocabulary) re-extracted from src/keys.rs on every run (Gen/C18Keys.v); the model\'s name and modifier tables are built from them, an arm shape the translator cannot read fails the check; the harness reads the same literals from the source for its fixed cases',
                  HARNESS],
 'assumptions': ['the empty chord is not a chord: registering it is a no-op (as in the code) and lookups of it are outside the statement',
                 'KNOWN FINDING (class unbound-key-continues-pending-chord): "an unbound key never prevents the next chord" is proved '
                 'only when pending ++ [u] is not a proper prefix of a bound chord; from the idle state this always holds; in the '
                 'class the clause is false of the code and of any matcher that fires multi-key chords at their last key',
                 '64-bit target: usize = u64',
                 'str::to_lowercase satisfies lower_spec']}
