"""C17 check configuration (data only)."""
from propbase import KERNEL, HARNESS

PROP = {'gen': [],
 'coq_props': ['theories/Props/C17.vo'],
 'coq_corr': ['theories/Corr/C17Corr.vo'],
 'props_file': 'theories/Props/C17.v',
 'props_module': 'Props.C17',
 'corr_check': 'SNT.Corr.C17Corr.c17_check (model IO/PollLoop.v and the outstanding-requests specification vs surf_n_term::SystemTerminal '
               'on a pseudo-terminal: scripted sessions of wake / input / SIGWINCH / termination signals / output / paused peer / polls '
               'with zero, finite and infinite timeouts / drop, plus multi-thread wake stress runs)',
 'level_text': 'PARTIAL. Coq theorems about a transition-system model of UnixTerminal::poll, the waker socket, signal-hook delivery and '
               'dispose, with environment moves (wake from any thread, signals, input, hang-up) interleaved at every point where the '
               'loop can observe them and every kernel schedule: an invariant kept by every move and every poll (unanswered wake => byte '
               'in the socket; unanswered SIGWINCH => flag set; input returned ++ queued ++ waiting = arrived), a wake in the pipeline is '
               'returned or stays in the pipeline through every poll, an iteration that passes select with a byte in the socket queues '
               'Wake (likewise SIGWINCH flagged with the signal pipe readable queues Resize), a poll with a wake in the pipeline never sleeps and, once the Wake is '
               'queued, ends within |pending|+1 iterations NOT COUNTING iterations cut short by EINTR (each needs a signal of its own; the bound says nothing '
               'about a storm of signals), at once when the tty takes nothing; ONLY wake requests have such a bound: every other event keeps the flush-first '
               'contract, i.e. with output queued and a peer that does not read, poll(None) does not return a key, a Resize or a quit error until the peer '
               'reads (proved: C17_key_waits_for_the_flush_example); a returning poll returns the oldest event (FIFO), a flagged termination signal makes the iteration return an '
               'error, every returning path of dispose restores the saved line settings (unless the tty is gone) and has queued the '
               'closing sequence - also with the debugging copy of the output (duplicate_output) as a component of dispose, for every sequence of Ok/Err results of the copy in the polls of the wait (a failure is modelled at the first write step of a poll) - which is delivered whenever the tty accepts the slice in the first iteration, or accepts at least one byte in each of '
               '|slice in flight ++ closing| + 2 iterations of the first poll with no wake request interfering (short writes). The model is tied to the code by scripted pty sessions whose poll results, restored '
               'settings and closing sequence it predicts. Real preemption inside system calls, signal latency and wall-clock bounds '
               'are not exhibited by the model.',
 'level_note': 'proof of the modelled state machine + scripted correspondence; partial. Trusted: Coq kernel + vm_compute; hand-written '
               'model IO/PollLoop.v; assumption select_level_triggered (select reports exactly the descriptors that are ready when it '
               'is called); signal-hook semantics as read from its source (pipe drained, flags in signal-number order); the decoder is '
               'abstracted to tokens (C02/C03). Defects found and fixed: de62e95, 68e120b, 1cf853f+afe2796 (wake only), adc719b, ab83088, 58259f6, cc7dfd1 (failing copy of the output at drop), e293376 + 2decf80 (escape sequence resize '
               'mode, which the model does not cover: pty scenario only); domain assumptions: the peer eventually reads (closing sequence; every event other '
               'than Wake under poll(None) with output queued). Timing checks of the pty sessions allow scripted wait * 1.25 + 250 ms; a late session is run again (twice at most, 20 s budget) and, when a timing probe shows the host is overloaded, judged by order and content of the poll results, the 2 s watchdog and the restored settings only. No axioms.',
 'technique': 'Coq proof (invariants of a transition system under arbitrary schedules) + scripted pty correspondence; partial',
 'design_ref': 'DESIGN.md 6.17',
 'n_quick': 300,
 'n_thorough': 1500,
 'shard': 40,
 'level': 'proof',
 'trusted_base': [KERNEL,
                  'hand-written model IO/PollLoop.v of UnixTerminal::poll / waker / signal delivery / dispose (src/unix.rs), tied to the '
                  'code by scripted pty sessions',
                  'kernel assumption select_level_triggered; signal-hook pending() semantics read from signal-hook 0.3 source',
                  'outstanding-requests specification Corr/C17Corr.spec_run, written from the property text',
                  HARNESS + '; pty peer thread (harness/src/ptyutil.rs); barriers (thread join, FIONREAD, raise) that make scripted '
                  'sessions deterministic'],
 'assumptions': ['select is level-triggered, sound and complete for the three descriptors (tty, signal pipe, waker socket)',
                 'system calls are atomic with respect to environment moves; moves may happen between any two of them',
                 'time is abstract: the loop test sees an arbitrary (schedule-given) answer to `timeout_instant < now`',
                 'input is modelled as already decoded tokens; a read returns a non-empty prefix of the waiting tokens',
                 'no panic in the crate during poll/dispose (C16 for the queue); panics as crash points are not modelled',
                 'the peer eventually reads: the closing sequence cannot be delivered to a peer that never does (dispose waits 1 s per poll, 3 s overall)',
                 'the peer eventually reads, second consequence: poll flushes first, so with output queued and a peer that does not read, poll(None) returns '
                 'no key / Resize / quit error until the peer reads again (a finite timeout returns at the timeout); only a wake request is delivered at once. '
                 'Applications that must react to signals under a stalled terminal have to poll with a timeout or wake themselves',
                 'iteration bounds (|pending|+1, +2) do not count iterations in which select fails with EINTR',
                 'escape sequence resize mode (size queried from the terminal on SIGWINCH) is outside IO/PollLoop.v; it has a model of its own (IO/SizeQuery.v: whole queue items, one chunk each, answers in flight as an oracle queue; no hang-up, write error or silent peer) and pty scenarios',
                 'wake(): the one-byte write on the non-blocking waker socket succeeds or fails with EAGAIN (EINTR, also swallowed by the '
                 'code, does not occur there)',
                 'arrival order is per source; events of different sources ready in the same iteration are queued signals, waker, input']}
