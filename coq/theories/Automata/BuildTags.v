(* Tags.  For an expression of the tagged-choice shape (tagwf: untagged
   expressions, a tag on an untagged expression, choices of such) the tags of
   the NFA states reachable by a string are exactly the tags of the
   alternatives that match the string. *)
From Coq Require Import List NArith Bool Arith Lia.
From SNT Require Import Automata.Regex Automata.RegexInd Automata.RegexProofs Automata.NFA
  Automata.Build Automata.PathLemmas Automata.BuildLeaves Automata.BuildOps Automata.BuildFrames
  Automata.BuildSeq Automata.BuildProofs.
Import ListNotations.

(* the tags of the states, by id *)
Definition tagv (n : nfa) : list (option N) := map tag (states n).

Lemma has_tag_tagv n q t : has_tag n q t <-> nth_error (tagv n) q = Some (Some t).
Proof.
  unfold has_tag, tagv. rewrite nth_error_map. split.
  - intros [st [-> H]]. cbn. congruence.
  - destruct (nth_error (states n) q) as [st|]; cbn; [|discriminate].
    intros H. exists st. split; [reflexivity|congruence].
Qed.

Lemma tagv_length n : length (tagv n) = size n.
Proof. apply map_length. Qed.

Lemma map_tag_update ss i f :
  (forall st, tag (f st) = tag st) -> map tag (update ss i f) = map tag ss.
Proof.
  intros Hf. revert i; induction ss as [|x r IH]; intros [|i]; cbn; auto; f_equal; auto.
Qed.

Lemma map_tag_shift o ss : map tag (map (shift_state o) ss) = map tag ss.
Proof. rewrite map_map. reflexivity. Qed.

Lemma map_tag_merge nfas : forall o, map tag (fst (merge_states nfas o)) = flat_map tagv nfas.
Proof.
  induction nfas as [|n r IH]; intros o; cbn [merge_states flat_map]; [reflexivity|].
  specialize (IH (o + length (states n))).
  destruct (merge_states r (o + length (states n))) as [ss es]. cbn [fst] in *.
  rewrite map_app, map_tag_shift, IH. reflexivity.
Qed.

Lemma map_tag_bridge ends : forall o ss, map tag (bridge o ends ss) = map tag ss.
Proof.
  induction ends as [|[x from] r IH]; intros o ss; [reflexivity|].
  destruct r as [|[to t2] r']; [reflexivity|].
  change (bridge o ((x, from) :: (to, t2) :: r') ss)
    with (bridge o ((to, t2) :: r') (update ss (from - o) (add_eps to))).
  rewrite IH. apply map_tag_update. reflexivity.
Qed.

Lemma choice_loop_tags ends : forall st0 ss st0' ss',
  choice_loop ends st0 ss = (st0', ss') -> tag st0' = tag st0 /\ map tag ss' = map tag ss.
Proof.
  induction ends as [|[f t] r IH]; intros st0 ss st0' ss' E; cbn [choice_loop] in E.
  - inversion E; subst. auto.
  - apply IH in E. destruct E as [E1 E2]. split; [exact E1|].
    rewrite E2. apply map_tag_update. reflexivity.
Qed.

Lemma tagv_sequence n r : tagv (sequence (n :: r)) = flat_map tagv (n :: r).
Proof.
  rewrite sequence_unfold. unfold tagv at 1, seq_states. cbn [states].
  rewrite map_tag_bridge. apply map_tag_merge.
Qed.

Lemma tagv_choice n r : tagv (choice (n :: r)) = None :: None :: flat_map tagv (n :: r).
Proof.
  destruct (choice_unfold (n :: r)) as [st0 [ss' [-> E]]]; [discriminate|].
  apply choice_loop_tags in E. destruct E as [E1 E2].
  unfold tagv at 1. cbn [states map]. rewrite E1, E2, map_tag_merge. reflexivity.
Qed.

Lemma tagv_some n : tagv (some n) = tagv n.
Proof. unfold tagv, some. cbn [states]. apply map_tag_update. reflexivity. Qed.

Lemma tagv_optional n : tagv (optional n) = None :: None :: tagv n.
Proof.
  unfold tagv, optional. rewrite merge_one. cbn [hd states map].
  rewrite map_tag_update by reflexivity. rewrite app_nil_r, map_tag_shift. reflexivity.
Qed.

Lemma tagv_many n : tagv (many n) = None :: None :: tagv n.
Proof.
  unfold tagv, many. rewrite merge_one. cbn [hd states map].
  rewrite map_tag_update by reflexivity. rewrite app_nil_r, map_tag_shift. reflexivity.
Qed.

(* ---------- untagged expressions build untagged automata ---------- *)

Definition notag (n : nfa) : Prop := forall x, In x (tagv n) -> x = None.

Lemma notag_has_tag n q t : notag n -> ~ has_tag n q t.
Proof.
  intros H Ht. apply has_tag_tagv in Ht. apply nth_error_In in Ht. apply H in Ht. discriminate.
Qed.

Lemma notag_flat nfas : Forall notag nfas -> forall x, In x (flat_map tagv nfas) -> x = None.
Proof.
  intros H x Hin. apply in_flat_map in Hin. destruct Hin as [n [Hn Hx]].
  rewrite Forall_forall in H. apply (H n Hn x Hx).
Qed.

Lemma lit_notag bs : forall i x, In x (map tag (lit_states i bs)) -> x = None.
Proof.
  induction bs as [|b r IH]; intros i x; cbn [lit_states map In].
  - intros [<- | []]. reflexivity.
  - intros [<- | H]; [reflexivity|]. apply (IH (S i) x H).
Qed.

Lemma untagged_notag : forall e, untagged e = true -> notag (build e).
Proof.
  apply (regex_rect' (fun e => untagged e = true -> notag (build e))); cbn [untagged build].
  - intros set _ x. unfold tagv, predicate. cbn. intros [<- | [<- | []]]; reflexivity.
  - intros bs _ x. unfold tagv, from_str. cbn [states]. apply lit_notag.
  - intros _ x. unfold tagv, empty. cbn. intros [<- | []]; reflexivity.
  - intros _ x. unfold tagv, nothing. cbn. intros [<- | [<- | []]]; reflexivity.
  - intros es IH H. rewrite forallb_forall in H.
    assert (F : Forall notag (map build es)).
    { apply Forall_forall. intros n Hin. apply in_map_iff in Hin. destruct Hin as [e [<- Hin]].
      rewrite Forall_forall in IH. apply (IH e Hin). apply H. exact Hin. }
    destruct (map build es) as [|n r] eqn:E.
    + intros x. unfold tagv, sequence. cbn. intros [<- | []]; reflexivity.
    + intros x. rewrite tagv_sequence. apply notag_flat. exact F.
  - intros es IH H. rewrite forallb_forall in H.
    assert (F : Forall notag (map build es)).
    { apply Forall_forall. intros n Hin. apply in_map_iff in Hin. destruct Hin as [e [<- Hin]].
      rewrite Forall_forall in IH. apply (IH e Hin). apply H. exact Hin. }
    destruct (map build es) as [|n r] eqn:E.
    + intros x. unfold tagv, choice. cbn. intros [<- | [<- | []]]; reflexivity.
    + intros x. rewrite tagv_choice. intros [<- | [<- | Hin]]; try reflexivity.
      apply (notag_flat _ F x Hin).
  - intros e IH H x. rewrite tagv_some. apply (IH H).
  - intros e IH H x. rewrite tagv_optional. intros [<- | [<- | Hin]]; try reflexivity. apply (IH H x Hin).
  - intros e IH H x. rewrite tagv_many. intros [<- | [<- | Hin]]; try reflexivity. apply (IH H x Hin).
  - intros t e _ H. discriminate.
Qed.

(* ---------- reaching a state inside an operand of a framed construction ---------- *)

Lemma frame_reach cs bypass back oi ni p s :
  good_comps cs -> In (oi, ni) cs -> p < size ni ->
  (path (frame_rel cs bypass back) 0 s (oi + p) <-> path (rel_back back ni) (start ni) s p).
Proof.
  intros G Hin Hp. pose proof G as [G1 G2]. set (R := frame_rel cs bypass back).
  destruct (G1 _ _ Hin) as [Hoi W]. pose proof W as [W1 [W2 W3]].
  assert (Stuck1 : forall l x, ~ R 1 l x).
  { intros l x H. apply (frame_src_ge2 _ _ _ _ _ _ G) in H. lia. }
  split.
  - intros P.
    assert (First : forall l x, R 0 l x ->
              l = None /\ ((exists oj nj, In (oj, nj) cs /\ x = oj + start nj) \/ (bypass = true /\ x = 1))).
    { intros l x [[_ [-> H]] | [[_ [oj [nj [Hj [Hq _]]]]] | [oj [nj [Hj [a [b [Hq _]]]]]]]].
      - auto.
      - apply G1 in Hj. lia.
      - apply G1 in Hj. lia. }
    assert (Comp : forall oj nj, In (oj, nj) cs -> path R (oj + start nj) s (oi + p) ->
                   path (rel_back back ni) (start ni) s p).
    { intros oj nj Hj P1. destruct (G1 _ _ Hj) as [Hoj Wj]. pose proof Wj as [Wj1 [Wj2 Wj3]].
      destruct (path_exit R (shiftrel oj (rel_back back nj))
                  (fun q => oj <= q < oj + size nj)
                  (fun x y => x = oj + stop nj /\ y = 1)) with (q := oj + start nj) (s := s) (t := oi + p)
        as [[Pin Hreg] | [s1 [s2 [x [y [-> [Pin [Hx [[-> ->] [_ Pout]]]]]]]]]]; auto.
      - intros q l q' Hq H.
        destruct H as [[-> _] | [[-> [ok [nk [Hk [-> Hq']]]]] | [ok [nk [Hk Hsh]]]]].
        + lia.
        + destruct (G1 _ _ Hk) as [_ [_ [Wk2 _]]].
          assert (E : (oj, nj) = (ok, nk)) by (eapply (G2 oj nj ok nk (ok + stop nk)); eauto; lia).
          inversion E; subst ok nk.
          destruct Hq' as [-> | [Hb ->]].
          * right. repeat split; auto. lia.
          * left. split; [|lia]. exists (stop nj), (start nj). repeat split.
            unfold rel_back. rewrite Hb. right. auto.
        + destruct (G1 _ _ Hk) as [_ Wk].
          destruct (shift_region ok nk q l q' Wk Hsh) as [Hr1 Hr2].
          assert (E : (oj, nj) = (ok, nk)) by (eapply (G2 oj nj ok nk q); eauto).
          inversion E; subst ok nk. left. split; [|exact Hr2].
          destruct Hsh as [a [b [-> [-> H]]]]. exists a, b. repeat split.
          unfold rel_back. destruct back; [left|]; exact H.
      - lia.
      - assert (E : (oi, ni) = (oj, nj)) by (eapply (G2 oi ni oj nj (oi + p)); eauto; lia).
        inversion E; subst oj nj.
        apply path_shift_elim in Pin; [|lia]. destruct Pin as [_ Pin].
        replace (oi + start ni - oi) with (start ni) in Pin by lia.
        replace (oi + p - oi) with p in Pin by lia. exact Pin.
      - apply path_stuck in Pout; [|exact Stuck1]. lia. }
    inversion P as [|? ? ? ? H1 P1|? c ? ? ? H1 P1]; subst.
    + lia.
    + apply First in H1. destruct H1 as [_ [[oj [nj [Hj ->]]] | [Hb ->]]].
      * apply (Comp oj nj Hj P1).
      * apply path_stuck in P1; [|exact Stuck1]. lia.
    + apply First in H1. destruct H1; discriminate.
  - intros Pn.
    eapply path_eps; [left; repeat split; left; exists oi, ni; auto|].
    apply (path_shift_intro oi) in Pn.
    eapply path_mono; [|exact Pn].
    intros q l q' [a [b [-> [-> H]]]]. unfold rel_back in H. destruct back.
    + destruct H as [H | [-> [-> ->]]].
      * right; right. exists oi, ni. split; [exact Hin|]. exists a, b. auto.
      * right; left. split; [reflexivity|]. exists oi, ni. repeat split; auto.
    + right; right. exists oi, ni. split; [exact Hin|]. exists a, b. auto.
Qed.

(* ---------- tags of a choice ---------- *)

Lemma flat_tag nfas : forall o i t,
  nth_error (flat_map tagv nfas) i = Some (Some t) <->
  exists oi ni p, In (oi, ni) (comps nfas o) /\ o + i = oi + p /\ has_tag ni p t.
Proof.
  induction nfas as [|n r IH]; intros o i t; cbn [flat_map comps].
  - split; [destruct i; discriminate|intros [oi [ni [p [[] _]]]]].
  - destruct (Nat.ltb i (size n)) eqn:E.
    + apply Nat.ltb_lt in E. rewrite nth_error_app1 by (rewrite tagv_length; exact E). split.
      * intros H. exists o, n, i. split; [left; reflexivity|]. split; [reflexivity|].
        apply has_tag_tagv. exact H.
      * intros [oi [ni [p [[Heq | Hin] [Hi Ht]]]]].
        -- inversion Heq; subst. replace i with p by lia. apply has_tag_tagv. exact Ht.
        -- apply comps_range in Hin. lia.
    + apply Nat.ltb_ge in E. rewrite nth_error_app2 by (rewrite tagv_length; exact E).
      rewrite tagv_length. rewrite (IH (o + size n)). split.
      * intros [oi [ni [p [Hin [Hi Ht]]]]]. exists oi, ni, p. split; [right; exact Hin|]. split; [lia|exact Ht].
      * intros [oi [ni [p [[Heq | Hin] [Hi Ht]]]]].
        -- inversion Heq; subst. assert (p < size ni).
           { apply has_tag_tagv in Ht. rewrite <- tagv_length. apply nth_error_Some. congruence. }
           lia.
        -- exists oi, ni, p. split; [exact Hin|]. split; [lia|exact Ht].
Qed.

Lemma has_tag_lt n q t : has_tag n q t -> q < size n.
Proof.
  intros H. apply has_tag_tagv in H. rewrite <- tagv_length. apply nth_error_Some. congruence.
Qed.

Definition tagged (n : nfa) (s : list N) (t : N) : Prop :=
  exists q, path (nstep n) (start n) s q /\ has_tag n q t.

Lemma choice_tagged nfas s t : Forall wf nfas ->
  (tagged (choice nfas) s t <-> exists n, In n nfas /\ tagged n s t).
Proof.
  intros W. destruct nfas as [|n0 r].
  - split.
    + intros [q [_ H]]. exfalso. apply has_tag_tagv in H. unfold tagv, choice in H. cbn in H.
      destruct q as [|[|q]]; cbn in H; try discriminate. destruct q; discriminate.
    + intros [n [[] _]].
  - assert (Hne : n0 :: r <> []) by discriminate.
    pose proof (good_comps_merge (n0 :: r) 2 (le_n 2) W) as G.
    destruct (choice_start_stop (n0 :: r)) as [Hs _].
    assert (Hpath : forall q, path (nstep (choice (n0 :: r))) 0 s q <->
                              path (frame_rel (comps (n0 :: r) 2) false false) 0 s q).
    { intros q. split; apply path_mono; intros a l b H; apply (choice_step _ Hne W); exact H. }
    unfold tagged at 1. rewrite Hs. split.
    + intros [q [P Ht]]. apply has_tag_tagv in Ht. rewrite tagv_choice in Ht.
      destruct q as [|[|i]]; cbn [nth_error] in Ht; try discriminate.
      apply (flat_tag (n0 :: r) 2 i t) in Ht. destruct Ht as [oi [ni [p [Hin [Hi Ht]]]]].
      exists ni. split; [eapply comps_In; eauto|]. exists p. split; [|exact Ht].
      apply Hpath in P. replace (S (S i)) with (oi + p) in P by lia.
      apply (frame_reach _ false false oi ni p s G Hin (has_tag_lt _ _ _ Ht)) in P. exact P.
    + intros [n [Hin [p [P Ht]]]]. destruct (In_comps _ 2 _ Hin) as [oi Hc].
      exists (oi + p). split.
      * apply Hpath. apply (frame_reach _ false false oi n p s G Hc (has_tag_lt _ _ _ Ht)). exact P.
      * apply has_tag_tagv. rewrite tagv_choice.
        pose proof (comps_range _ _ _ _ Hc) as [Hge _].
        replace (oi + p) with (S (S (oi + p - 2))) by lia. cbn [nth_error].
        apply (flat_tag (n0 :: r) 2). exists oi, n, p. split; [exact Hc|]. split; [lia|exact Ht].
Qed.

(* ---------- the tag theorem ---------- *)

Lemma tag_stop_has_tag t n q t' : notag n -> stop n < size n ->
  (has_tag (tag_stop_state t n) q t' <-> q = stop n /\ t' = t).
Proof.
  intros Hno Hs. unfold has_tag, tag_stop_state. cbn [states]. rewrite nth_error_update. split.
  - intros [st [Hn Ht]]. destruct (Nat.eqb (stop n) q) eqn:E.
    + apply Nat.eqb_eq in E. destruct (nth_error (states n) q) as [st0|]; cbn in Hn; [|discriminate].
      inversion Hn; subst st. cbn in Ht. inversion Ht. auto.
    + exfalso. apply (notag_has_tag n q t' Hno). exists st. auto.
  - intros [-> ->]. rewrite Nat.eqb_refl.
    destruct (nth_error (states n) (stop n)) as [st0|] eqn:E.
    + cbn. exists (set_tag t st0). auto.
    + apply nth_error_None in E. unfold size in Hs. lia.
Qed.

Lemma tag_spec_untagged e s t : tagalts e = [] -> ~ tag_spec e s t.
Proof. intros H [a [Hin _]]. rewrite H in Hin. destruct Hin. Qed.

Theorem tags_correct : forall e, tagwf e = true ->
  forall s t, tagged (build e) s t <-> tag_spec e s t.
Proof.
  assert (Plain : forall e, untagged e = true -> tagalts e = [] ->
            forall s t, tagged (build e) s t <-> tag_spec e s t).
  { intros e Hu Ha s t. split.
    - intros [q [_ H]]. exfalso. apply (notag_has_tag _ q t (untagged_notag e Hu) H).
    - intros H. exfalso. apply (tag_spec_untagged e s t Ha H). }
  apply (regex_rect' (fun e => tagwf e = true -> forall s t, tagged (build e) s t <-> tag_spec e s t)).
  - intros set H. apply Plain; auto.
  - intros bs H. apply Plain; auto.
  - intros H. apply Plain; auto.
  - intros H. apply Plain; auto.
  - intros es _ H. apply Plain; auto.
  - intros es IH H s t. cbn [tagwf] in H. rewrite forallb_forall in H. cbn [build].
    assert (W : Forall wf (map build es)).
    { apply Forall_forall. intros n Hin. apply in_map_iff in Hin. destruct Hin as [e [<- _]]. apply build_wf. }
    rewrite (choice_tagged _ s t W). unfold tag_spec. cbn [tagalts]. rewrite Forall_forall in IH. split.
    + intros [n [Hin Ht]]. apply in_map_iff in Hin. destruct Hin as [e [<- Hin]].
      apply (IH e Hin (H e Hin)) in Ht. destruct Ht as [a [Ha Hm]].
      exists a. split; [|exact Hm]. apply in_flat_map. exists e. auto.
    + intros [a [Ha Hm]]. apply in_flat_map in Ha. destruct Ha as [e [Hin Ha]].
      exists (build e). split; [apply in_map; exact Hin|].
      apply (IH e Hin (H e Hin)). exists a. auto.
  - intros e _ H. apply Plain; auto.
  - intros e _ H. apply Plain; auto.
  - intros e _ H. apply Plain; auto.
  - intros t0 e _ H s t. cbn [tagwf] in H. cbn [build]. unfold tag_spec. cbn [tagalts].
    pose proof (build_wf e) as [_ [W2 _]].
    unfold tagged. cbn [start tag_stop_state]. split.
    + intros [q [P Ht]]. apply (tag_stop_has_tag t0 (build e) q t (untagged_notag e H) W2) in Ht.
      destruct Ht as [-> ->]. exists e. split; [left; reflexivity|].
      apply build_accepts. unfold accepts.
      eapply path_mono; [|exact P]. intros a l b Hs. apply (tag_step t0 (build e)). exact Hs.
    + intros [a [[Heq | []] Hm]]. inversion Heq; subst a t0.
      exists (stop (build e)). split.
      * apply build_accepts in Hm. unfold accepts in Hm.
        eapply path_mono; [|exact Hm]. intros a l b Hs. apply (tag_step t (build e)). exact Hs.
      * apply (tag_stop_has_tag t (build e) _ t (untagged_notag e H) W2). auto.
Qed.
