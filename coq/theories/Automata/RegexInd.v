(* Induction principle for the nested inductive type of expressions. *)
From Coq Require Import List NArith.
From SNT Require Import Automata.Regex.
Import ListNotations.

(* induction principle for the nested type *)
Section RegexInd.
  Variable P : regex -> Prop.
  Hypothesis HPred : forall set, P (Pred set).
  Hypothesis HLit : forall bs, P (Lit bs).
  Hypothesis HEmpty : P Empty.
  Hypothesis HNothing : P Nothing.
  Hypothesis HSeq : forall es, Forall P es -> P (Seq es).
  Hypothesis HChoice : forall es, Forall P es -> P (Choice es).
  Hypothesis HPlus : forall e, P e -> P (Plus e).
  Hypothesis HOpt : forall e, P e -> P (Opt e).
  Hypothesis HMany : forall e, P e -> P (Many e).
  Hypothesis HTag : forall t e, P e -> P (Tag t e).

  Fixpoint regex_rect' (e : regex) : P e :=
    match e with
    | Pred set => HPred set
    | Lit bs => HLit bs
    | Empty => HEmpty
    | Nothing => HNothing
    | Seq es => HSeq es ((fix go (es : list regex) : Forall P es :=
                            match es with
                            | [] => Forall_nil P
                            | x :: r => Forall_cons x (regex_rect' x) (go r)
                            end) es)
    | Choice es => HChoice es ((fix go (es : list regex) : Forall P es :=
                                  match es with
                                  | [] => Forall_nil P
                                  | x :: r => Forall_cons x (regex_rect' x) (go r)
                                  end) es)
    | Plus e => HPlus e (regex_rect' e)
    | Opt e => HOpt e (regex_rect' e)
    | Many e => HMany e (regex_rect' e)
    | Tag t e => HTag t e (regex_rect' e)
    end.
End RegexInd.

