(* Lemmas about lists of NFA states as graphs (gstep) and about paths over an
   arbitrary labelled relation: monotonicity, simulation, closed regions, and
   the decomposition of a path at the point where it leaves a region. *)
From Coq Require Import List NArith Bool Arith Lia.
From SNT Require Import Automata.Regex Automata.NFA.
Import ListNotations.

(* ---------- lists ---------- *)

Lemma set_insert_In a l x : In x (set_insert a l) <-> x = a \/ In x l.
Proof.
  induction l as [|b r IH]; cbn [set_insert].
  - cbn. intuition.
  - destruct (a <? b) eqn:E1.
    + cbn. intuition.
    + destruct (a =? b) eqn:E2.
      * apply Nat.eqb_eq in E2. subst. cbn. intuition.
      * cbn. rewrite IH. intuition.
Qed.

Lemma update_length {A} (l : list A) i f : length (update l i f) = length l.
Proof. revert i; induction l as [|x r IH]; intros [|i]; cbn; auto. Qed.

Lemma nth_error_update {A} (l : list A) i f j :
  nth_error (update l i f) j =
  if Nat.eqb i j then option_map f (nth_error l j) else nth_error l j.
Proof.
  revert i j; induction l as [|x r IH]; intros i j.
  - destruct i, j; cbn; try reflexivity. destruct (Nat.eqb i j); reflexivity.
  - destruct i as [|i], j as [|j]; cbn; try reflexivity. apply IH.
Qed.

Lemma update_app_l {A} (a b : list A) i f :
  i < length a -> update (a ++ b) i f = update a i f ++ b.
Proof.
  revert i; induction a as [|x r IH]; intros [|i] H; cbn in *; try lia; auto.
  rewrite IH by lia. reflexivity.
Qed.

Lemma update_app_r {A} (a b : list A) i f :
  length a <= i -> update (a ++ b) i f = a ++ update b (i - length a) f.
Proof.
  revert i; induction a as [|x r IH]; intros i H; cbn in *.
  - rewrite Nat.sub_0_r. reflexivity.
  - destruct i as [|i]; [lia|]. cbn. rewrite IH by lia. reflexivity.
Qed.

(* ---------- gstep ---------- *)

Lemma gstep_bound o ss q l q' : gstep o ss q l q' -> o <= q < o + length ss.
Proof.
  intros [H [st [Hn _]]]. split; [exact H|].
  apply nth_error_Some_lt in Hn || (assert (q - o < length ss) by (apply nth_error_Some; congruence); lia).
Qed.

Lemma gstep_app o a b q l q' :
  gstep o (a ++ b) q l q' <-> gstep o a q l q' \/ gstep (o + length a) b q l q'.
Proof.
  unfold gstep. split.
  - intros [H [st [Hn Hl]]].
    destruct (Nat.ltb (q - o) (length a)) eqn:E.
    + apply Nat.ltb_lt in E. rewrite nth_error_app1 in Hn by exact E.
      left. split; [exact H|]. exists st. auto.
    + apply Nat.ltb_ge in E. rewrite nth_error_app2 in Hn by exact E.
      right. split; [lia|]. exists st. split; [|exact Hl].
      replace (q - (o + length a)) with (q - o - length a) by lia. exact Hn.
  - intros [[H [st [Hn Hl]]] | [H [st [Hn Hl]]]].
    + split; [exact H|]. exists st. split; [|exact Hl].
      rewrite nth_error_app1; [exact Hn|]. apply nth_error_Some. congruence.
    + split; [lia|]. exists st. split; [|exact Hl].
      rewrite nth_error_app2 by lia.
      replace (q - o - length a) with (q - (o + length a)) by lia. exact Hn.
Qed.

Lemma gstep_nil o q l q' : ~ gstep o [] q l q'.
Proof. intros [_ [st [Hn _]]]. destruct (q - o); discriminate. Qed.

Lemma gstep_cons o st ss q l q' :
  gstep o (st :: ss) q l q' <->
  (q = o /\ match l with Some c => In (c, q') (edges st) | None => In q' (eps st) end)
  \/ gstep (S o) ss q l q'.
Proof.
  change (st :: ss) with ([st] ++ ss). rewrite gstep_app. cbn [length].
  replace (o + 1) with (S o) by lia.
  split; (intros [H|H]; [left|right; exact H]).
  - destruct H as [H [st' [Hn Hl]]].
    destruct (q - o) as [|k] eqn:E; cbn in Hn.
    + inversion Hn; subst. split; [lia|exact Hl].
    + destruct k; discriminate.
  - destruct H as [-> Hl]. split; [lia|]. exists st. rewrite Nat.sub_diag. cbn. auto.
Qed.

Lemma gstep_new_state o ss q l q' :
  gstep o (new_state :: ss) q l q' <-> gstep (S o) ss q l q'.
Proof.
  rewrite gstep_cons. split; [|auto].
  intros [[_ H]|H]; [|exact H]. destruct l; cbn in H; contradiction.
Qed.

(* adding an epsilon edge a -> b in place *)
Lemma gstep_add_eps o ss a b q l q' :
  o <= a ->
  (gstep o (update ss (a - o) (add_eps b)) q l q' <->
   gstep o ss q l q' \/ (q = a /\ l = None /\ q' = b /\ a < o + length ss)).
Proof.
  intros Ha. unfold gstep. split.
  - intros [H [st [Hn Hl]]]. rewrite nth_error_update in Hn.
    destruct (Nat.eqb (a - o) (q - o)) eqn:E.
    + apply Nat.eqb_eq in E. assert (q = a) by lia. subst q.
      destruct (nth_error ss (a - o)) as [st0|] eqn:E0; cbn in Hn; [|discriminate].
      inversion Hn; subst st. clear Hn.
      destruct l as [c|]; cbn in Hl.
      * left. split; [exact H|]. exists st0. auto.
      * apply set_insert_In in Hl. destruct Hl as [->|Hl].
        -- right. repeat split; auto.
           assert (a - o < length ss) by (apply nth_error_Some; congruence). lia.
        -- left. split; [exact H|]. exists st0. auto.
    + left. split; [exact H|]. exists st. auto.
  - intros [[H [st [Hn Hl]]] | [-> [-> [-> Hb]]]].
    + split; [exact H|]. rewrite nth_error_update.
      destruct (Nat.eqb (a - o) (q - o)) eqn:E.
      * rewrite Hn. cbn. exists (add_eps b st). split; [reflexivity|].
        destruct l; cbn; [exact Hl|]. apply set_insert_In. auto.
      * exists st. auto.
    + split; [exact Ha|]. rewrite nth_error_update, Nat.eqb_refl.
      destruct (nth_error ss (a - o)) as [st0|] eqn:E0.
      * cbn. exists (add_eps b st0). split; [reflexivity|]. cbn. apply set_insert_In. auto.
      * apply nth_error_None in E0. lia.
Qed.

(* two edges added to the same state *)
Lemma gstep_add_eps2 o ss a b1 b2 q l q' :
  o <= a ->
  (gstep o (update ss (a - o) (fun st => add_eps b2 (add_eps b1 st))) q l q' <->
   gstep o ss q l q' \/ (q = a /\ l = None /\ (q' = b1 \/ q' = b2) /\ a < o + length ss)).
Proof.
  intros Ha.
  assert (E : update ss (a - o) (fun st => add_eps b2 (add_eps b1 st)) =
              update (update ss (a - o) (add_eps b1)) (a - o) (add_eps b2)).
  { generalize (a - o). intros i. revert i. induction ss as [|x r IH]; intros [|i]; cbn; auto.
    rewrite IH. reflexivity. }
  rewrite E, gstep_add_eps by exact Ha. rewrite gstep_add_eps by exact Ha.
  rewrite update_length. intuition.
Qed.

(* tags do not change the graph *)
Lemma gstep_set_tag o ss i t q l q' :
  gstep o (update ss i (set_tag t)) q l q' <-> gstep o ss q l q'.
Proof.
  unfold gstep. split; intros [H [st [Hn Hl]]]; (split; [exact H|]).
  - rewrite nth_error_update in Hn. destruct (Nat.eqb i (q - o)).
    + destruct (nth_error ss (q - o)) as [st0|]; cbn in Hn; [|discriminate].
      inversion Hn; subst. exists st0. split; [reflexivity|]. destruct l; exact Hl.
    + exists st. auto.
  - rewrite nth_error_update. destruct (Nat.eqb i (q - o)).
    + rewrite Hn. cbn. exists (set_tag t st). split; [reflexivity|]. destruct l; exact Hl.
    + exists st. auto.
Qed.

(* renumbering *)
Definition shiftrel (o : nat) (R : rel) : rel :=
  fun q l q' => exists p p', q = o + p /\ q' = o + p' /\ R p l p'.

Lemma gstep_shift o ss q l q' :
  gstep o (map (shift_state o) ss) q l q' <-> shiftrel o (gstep 0 ss) q l q'.
Proof.
  unfold shiftrel, gstep. split.
  - intros [H [st [Hn Hl]]].
    rewrite nth_error_map in Hn.
    destruct (nth_error ss (q - o)) as [st0|] eqn:E0; cbn in Hn; [|discriminate].
    inversion Hn; subst st. clear Hn.
    destruct l as [c|]; cbn in Hl.
    + apply in_map_iff in Hl. destruct Hl as [[c0 p'] [Heq Hin]]. cbn in Heq.
      inversion Heq; subst. exists (q - o), p'. repeat split; try lia.
      exists st0. rewrite Nat.sub_0_r. auto.
    + apply in_map_iff in Hl. destruct Hl as [p' [Heq Hin]].
      exists (q - o), p'. repeat split; try lia.
      exists st0. rewrite Nat.sub_0_r. auto.
  - intros [p [p' [-> [-> [_ [st [Hn Hl]]]]]]]. rewrite Nat.sub_0_r in Hn.
    split; [lia|]. replace (o + p - o) with p by lia.
    rewrite nth_error_map, Hn. cbn. exists (shift_state o st). split; [reflexivity|].
    destruct l as [c|]; cbn.
    + apply in_map_iff. exists (c, p'). auto.
    + apply in_map_iff. exists p'. auto.
Qed.

(* ---------- paths ---------- *)

Lemma path_app R q s1 q1 s2 q2 :
  path R q s1 q1 -> path R q1 s2 q2 -> path R q (s1 ++ s2) q2.
Proof.
  induction 1; intros H2; cbn.
  - exact H2.
  - eapply path_eps; eauto.
  - eapply path_sym; eauto.
Qed.

Lemma path_one_eps (R : rel) q q' : R q None q' -> path R q [] q'.
Proof. intros H. eapply path_eps; [exact H|apply path_refl]. Qed.

Lemma path_sim (R R' : rel) (f : nat -> nat) :
  (forall q l q', R q l q' -> R' (f q) l (f q')) ->
  forall q s q', path R q s q' -> path R' (f q) s (f q').
Proof.
  intros H q s q' P. induction P.
  - apply path_refl.
  - eapply path_eps; eauto.
  - eapply path_sym; eauto.
Qed.

Lemma path_mono (R R' : rel) :
  (forall q l q', R q l q' -> R' q l q') ->
  forall q s q', path R q s q' -> path R' q s q'.
Proof. intros H. apply (path_sim R R' (fun x => x)). exact H. Qed.

(* a region closed under the steps available in it *)
Lemma path_closed (R R' : rel) (S : nat -> Prop) :
  (forall q l q', S q -> R q l q' -> R' q l q' /\ S q') ->
  forall q s q', path R q s q' -> S q -> path R' q s q' /\ S q'.
Proof.
  intros H q s q' P. induction P; intros Hq.
  - split; [apply path_refl|exact Hq].
  - destruct (H _ _ _ Hq H0) as [H1 H2]. destruct (IHP H2) as [H3 H4].
    split; [eapply path_eps; eauto|exact H4].
  - destruct (H _ _ _ Hq H0) as [H1 H2]. destruct (IHP H2) as [H3 H4].
    split; [eapply path_sym; eauto|exact H4].
Qed.

Lemma path_shift_intro o (R : rel) p s p' :
  path R p s p' -> path (shiftrel o R) (o + p) s (o + p').
Proof.
  apply (path_sim R (shiftrel o R) (fun x => o + x)).
  intros q l q' H. exists q, q'. auto.
Qed.

Lemma path_shift_elim o (R : rel) q s q' :
  path (shiftrel o R) q s q' -> o <= q ->
  o <= q' /\ path R (q - o) s (q' - o).
Proof.
  intros P Hq.
  destruct (path_closed (shiftrel o R) (fun q l q' => R (q - o) l (q' - o)) (fun q => o <= q)) with (q := q) (s := s) (q' := q')
    as [P' Hq']; auto.
  - intros x l x' _ [p [p' [-> [-> H]]]]. split; [|lia].
    replace (o + p - o) with p by lia. replace (o + p' - o) with p' by lia. exact H.
  - split; [exact Hq'|].
    apply (path_sim _ R (fun x => x - o)) in P'; auto.
Qed.

(* a state without outgoing steps ends the path *)
Lemma path_stuck (R : rel) q s q' :
  (forall l x, ~ R q l x) -> path R q s q' -> s = [] /\ q' = q.
Proof.
  intros H P. destruct P; auto; exfalso; eapply H; eauto.
Qed.

(* Decomposition at the exit of a region S.  Inside S every step is an inner
   step (Rin, staying in S) or an epsilon exit edge X leaving S. *)
Lemma path_exit (R Rin : rel) (S : nat -> Prop) (X : nat -> nat -> Prop) :
  (forall q l q', S q -> R q l q' ->
                  (Rin q l q' /\ S q') \/ (l = None /\ X q q' /\ ~ S q')) ->
  forall q s t, path R q s t -> S q ->
    (path Rin q s t /\ S t) \/
    (exists s1 s2 x y, s = s1 ++ s2 /\ path Rin q s1 x /\ S x /\ X x y /\ ~ S y /\ path R y s2 t).
Proof.
  intros H q s t P. induction P; intros Hq.
  - left. split; [apply path_refl|exact Hq].
  - destruct (H _ _ _ Hq H0) as [[H1 H2] | [_ [H1 H2]]].
    + destruct (IHP H2) as [[P1 Ht] | [s1 [s2 [x [y [-> [P1 [Hx [HX [Hy P2]]]]]]]]]].
      * left. split; [eapply path_eps; eauto|exact Ht].
      * right. exists s1, s2, x, y. repeat split; auto. eapply path_eps; eauto.
    + right. exists [], s, q, q1. repeat split; auto. apply path_refl.
  - destruct (H _ _ _ Hq H0) as [[H1 H2] | [Hl _]]; [|discriminate].
    destruct (IHP H2) as [[P1 Ht] | [s1 [s2 [x [y [-> [P1 [Hx [HX [Hy P2]]]]]]]]]].
    + left. split; [eapply path_sym; eauto|exact Ht].
    + right. exists (c :: s1), s2, x, y. repeat split; auto. eapply path_sym; eauto.
Qed.
