(* Soundness of the table checks of Automata/DfaData.v *)
From Coq Require Import List NArith PArith FMapPositive Bool.
From SNT Require Import Automata.DfaData.
Import ListNotations.
Local Open Scope N_scope.

Lemma terminal_ok_sound (d : dfa) :
  terminal_ok d = true ->
  forall q b, d_terminal d q = true -> d_delta d q b = None.
Proof.
  unfold terminal_ok, d_terminal, d_info, d_delta. intros H q b.
  destruct (PositiveMap.find (N.succ_pos q) (d_infos d)) as [i|] eqn:E; [|discriminate].
  intros Ht. rewrite forallb_forall in H.
  specialize (H (N.succ_pos q, i) (PositiveMap.elements_correct _ _ E)). cbn [fst snd] in H.
  rewrite Ht in H. cbn [negb orb] in H.
  destruct (PositiveMap.find (N.succ_pos q) (d_rows d)) as [[|e r]|]; try reflexivity. discriminate.
Qed.

Lemma tagged_ok_sound (d : dfa) :
  tagged_ok d = true ->
  forall q, d_accepting d q = true -> d_tag d q <> None.
Proof.
  unfold tagged_ok, d_accepting, d_tag, d_tags, d_info. intros H q.
  destruct (PositiveMap.find (N.succ_pos q) (d_infos d)) as [i|] eqn:E; [|discriminate].
  intros Ha. rewrite forallb_forall in H.
  specialize (H (N.succ_pos q, i) (PositiveMap.elements_correct _ _ E)). cbn [fst snd] in H.
  rewrite Ha in H. cbn [negb orb] in H. destruct (snd i); [discriminate|discriminate].
Qed.
