(* Soundness of the certificate checkers of Automata/Reach.v *)
From Coq Require Import List NArith PArith FMapPositive Bool Lia.
From SNT Require Import Automata.DfaData Automata.Tokenizer Automata.Reach.
Import ListNotations.
Local Open Scope N_scope.

Lemma row_find_spec (r : row) (b t : N) :
  row_find r b = Some t -> exists lo hi, In (lo, hi, t) r /\ lo <= b /\ b <= hi.
Proof.
  induction r as [|[[lo hi] t'] r IH]; cbn [row_find]; [discriminate|].
  destruct ((lo <=? b) && (b <=? hi)) eqn:E.
  - intros H; inversion H; subst. apply andb_prop in E. destruct E as [E1 E2].
    apply N.leb_le in E1, E2. exists lo, hi. split; [left; reflexivity|split; assumption].
  - intros H. destruct (IH H) as (lo' & hi' & Hin & Hb). exists lo', hi'. split; [right; exact Hin|exact Hb].
Qed.

Lemma brange_In (lo hi b : N) : lo <= b -> b <= hi -> In b (brange lo hi).
Proof.
  intros H1 H2. unfold brange. apply in_map_iff. exists (N.to_nat (b - lo)). split.
  - rewrite N2Nat.id. lia.
  - apply in_seq. lia.
Qed.

Lemma bits_In (mask m : N) : m < 63 -> N.testbit mask m = true -> In m (bits mask).
Proof.
  intros Hm Ht. unfold bits. apply filter_In. split; [|exact Ht].
  unfold nrange. apply in_map_iff. exists (N.to_nat m). split; [apply N2Nat.id|].
  apply in_seq. unfold mon_bound. lia.
Qed.

Lemma has_find (V : cert) (q m : N) :
  has V q m = true ->
  exists mask, PositiveMap.find (N.succ_pos q) V = Some mask /\ N.testbit mask m = true.
Proof.
  unfold has, cmask. destruct (PositiveMap.find (N.succ_pos q) V) as [mask|].
  - intros H. exists mask. split; [reflexivity|exact H].
  - rewrite N.bits_0. discriminate.
Qed.

Section Sound.
  Variable d : dfa.
  Variable mstep : N -> N -> N.
  Variable m0 : N.
  Hypothesis mstep_bound : forall m b, mstep m b < 63.
  Hypothesis m0_bound : m0 < 63.

  Notation run := (run N (d_start d) (d_delta d)).
  Notation mrun := (mrun mstep m0).

  Lemma mrun_snoc w b : mrun (w ++ [b]) = mstep (mrun w) b.
  Proof. unfold Reach.mrun. rewrite fold_left_app. reflexivity. Qed.

  Lemma mrun_bound w : mrun w < 63.
  Proof.
    destruct w as [|b w] using rev_ind; [exact m0_bound|].
    rewrite mrun_snoc. apply mstep_bound.
  Qed.

  Lemma run_snoc' w b : run (w ++ [b]) = step N (d_delta d) (run w) b.
  Proof. unfold Tokenizer.run, run_from. rewrite fold_left_app. reflexivity. Qed.

  Theorem closed_sound (V : cert) :
    closed d mstep m0 V = true ->
    forall w q, run w = Some q -> has V q (mrun w) = true.
  Proof.
    intros HC. unfold closed in HC. apply andb_prop in HC. destruct HC as [H0 HC].
    rewrite forallb_forall in HC.
    induction w as [|b w IH] using rev_ind; intros q Hq.
    - cbn in Hq. inversion Hq; subst. exact H0.
    - rewrite run_snoc' in Hq. destruct (run w) as [p|] eqn:Hp; [|discriminate].
      cbn [step] in Hq. specialize (IH p eq_refl).
      destruct (has_find _ _ _ IH) as (mask & Hf & Hb).
      specialize (HC (N.succ_pos p, mask) (PositiveMap.elements_correct _ _ Hf)).
      cbn [fst snd] in HC. rewrite forallb_forall in HC.
      specialize (HC (mrun w) (bits_In _ _ (mrun_bound w) Hb)).
      rewrite forallb_forall in HC.
      unfold d_delta in Hq. unfold row_of in HC.
      destruct (PositiveMap.find (N.succ_pos p) (d_rows d)) as [r|]; [|discriminate].
      destruct (row_find_spec _ _ _ Hq) as (lo & hi & Hin & Hlo & Hhi).
      specialize (HC (lo, hi, q) Hin). cbn in HC. rewrite forallb_forall in HC.
      rewrite mrun_snoc. apply HC. apply brange_In; assumption.
  Qed.

  Lemma accept_ok_at (V : cert) (good : N -> N -> bool) q mask :
    accept_ok d V good = true ->
    PositiveMap.find (N.succ_pos q) V = Some mask ->
    d_accepting d q = true ->
    forallb (good q) (bits mask) = true.
  Proof.
    intros HA Hf Hacc. unfold accept_ok in HA.
    pose proof (proj1 (forallb_forall _ _) HA (N.succ_pos q, mask) (PositiveMap.elements_correct _ _ Hf)) as H.
    change (negb (d_accepting d (Pos.pred_N (N.succ_pos q))) || forallb (good (Pos.pred_N (N.succ_pos q))) (bits mask) = true) in H.
    rewrite N.pos_pred_succ, Hacc in H.
    apply orb_true_iff in H. destruct H as [H|H]; [discriminate H|exact H].
  Qed.

  Theorem accept_sound (V : cert) (good : N -> N -> bool) :
    closed d mstep m0 V = true ->
    accept_ok d V good = true ->
    forall w q, run w = Some q -> d_accepting d q = true -> good q (mrun w) = true.
  Proof.
    intros HC HA w q Hq Hacc.
    pose proof (closed_sound V HC w q Hq) as Hh.
    destruct (has_find _ _ _ Hh) as (mask & Hf & Hb).
    pose proof (accept_ok_at V good q mask HA Hf Hacc) as HG.
    rewrite forallb_forall in HG. apply HG. apply bits_In; [apply mrun_bound|exact Hb].
  Qed.
  Theorem all_sound (V : cert) (good : N -> N -> bool) :
    closed d mstep m0 V = true ->
    states_ok V good = true ->
    forall w q, run w = Some q -> good q (mrun w) = true.
  Proof.
    intros HC HA w q Hq.
    pose proof (closed_sound V HC w q Hq) as Hh.
    destruct (has_find _ _ _ Hh) as (mask & Hf & Hb).
    unfold states_ok in HA.
    pose proof (proj1 (forallb_forall _ _) HA (N.succ_pos q, mask) (PositiveMap.elements_correct _ _ Hf)) as H.
    change (forallb (good (Pos.pred_N (N.succ_pos q))) (bits mask) = true) in H.
    rewrite N.pos_pred_succ in H. rewrite forallb_forall in H.
    apply H. apply bits_In; [apply mrun_bound|exact Hb].
  Qed.
End Sound.

(* the length monitor: counts bytes up to a cap *)
Definition len_cap : N := 12.
Definition len_step (m _b : N) : N := if m <? len_cap then m + 1 else len_cap.

Lemma len_step_bound m b : len_step m b < 63.
Proof. unfold len_step, len_cap. destruct (m <? 12) eqn:E; [apply N.ltb_lt in E|]; lia. Qed.

Lemma len_mrun (w : list N) : mrun len_step 0 w = N.min (N.of_nat (length w)) len_cap.
Proof.
  induction w as [|b w IH] using rev_ind; [reflexivity|].
  unfold mrun in *. rewrite fold_left_app. cbn [fold_left]. rewrite IH.
  rewrite app_length. cbn [length]. unfold len_step, len_cap.
  destruct (N.min (N.of_nat (length w)) 12 <? 12) eqn:E.
  - apply N.ltb_lt in E. lia.
  - apply N.ltb_ge in E. lia.
Qed.
