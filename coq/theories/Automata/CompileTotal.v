(* Termination and panic freedom of the model of NFA::compile: for every well
   formed NFA there is fuel with which `compile` returns a DFA.
   - epsilon_closure: the measure |queue| + D*[top already in output] +
     2*D*(states not yet in output) decreases at every pop (D > largest
     epsilon out-degree), although the stack may hold duplicates;
   - the work list: |queue| + (subsets not yet discovered) decreases. *)
From Coq Require Import List NArith Bool Arith Lia.
From SNT Require Import Base.Outcome Automata.Regex Automata.NFA Automata.Compile
  Automata.PathLemmas Automata.BuildLeaves Automata.CompileSpec Automata.CompileInv
  Automata.CompileProofs.
Import ListNotations.

(* ---------- strictly increasing lists ---------- *)

Fixpoint ssorted (l : list nat) : Prop :=
  match l with
  | [] => True
  | a :: r => (forall x, In x r -> a < x) /\ ssorted r
  end.

Lemma set_insert_sorted a l : ssorted l -> ssorted (set_insert a l).
Proof.
  induction l as [|b r IH]; cbn [set_insert ssorted].
  - intros _. split; [intros x []|exact I].
  - intros [Hb Hr]. destruct (a <? b) eqn:E1.
    + apply Nat.ltb_lt in E1. cbn [ssorted]. split; [|split; assumption].
      intros x [<- | Hx]; [exact E1|]. specialize (Hb x Hx). lia.
    + destruct (a =? b) eqn:E2.
      * cbn [ssorted]. split; assumption.
      * apply Nat.ltb_ge in E1. apply Nat.eqb_neq in E2. cbn [ssorted]. split; [|apply IH; exact Hr].
        intros x Hx. apply set_insert_In in Hx. destruct Hx as [-> | Hx]; [lia|apply Hb; exact Hx].
Qed.

Lemma set_insert_old a l : ssorted l -> In a l -> set_insert a l = l.
Proof.
  induction l as [|b r IH]; cbn [set_insert ssorted In]; [intros _ []|].
  intros [Hb Hr] [<- | Hin].
  - rewrite Nat.ltb_irrefl, Nat.eqb_refl. reflexivity.
  - specialize (Hb a Hin).
    destruct (a <? b) eqn:E1; [apply Nat.ltb_lt in E1; lia|].
    destruct (a =? b) eqn:E2; [apply Nat.eqb_eq in E2; lia|].
    rewrite IH; auto.
Qed.

Lemma ssorted_NoDup l : ssorted l -> NoDup l.
Proof.
  induction l as [|a r IH]; cbn [ssorted]; [constructor|].
  intros [Ha Hr]. constructor; [|apply IH; exact Hr].
  intros Hin. specialize (Ha a Hin). lia.
Qed.

Lemma ssorted_seq k : forall a, ssorted (seq a k).
Proof.
  induction k as [|k IH]; intros a; cbn [seq ssorted]; [exact I|].
  split; [|apply IH]. intros x Hx. apply in_seq in Hx. lia.
Qed.

(* a valid sorted set has at most `bound` elements *)
Lemma sorted_length l bound : ssorted l -> (forall x, In x l -> x < bound) -> length l <= bound.
Proof.
  intros Hs Hv. rewrite <- (seq_length bound 0).
  apply NoDup_incl_length; [apply ssorted_NoDup; exact Hs|].
  intros x Hx. apply in_seq. specialize (Hv x Hx). lia.
Qed.

(* ---------- counting by filters ---------- *)

Lemma filter_length_le {A} (f g : A -> bool) l :
  (forall x, f x = true -> g x = true) -> length (filter f l) <= length (filter g l).
Proof.
  intros H. induction l as [|x r IH]; cbn [filter]; [lia|].
  destruct (f x) eqn:Ef.
  - rewrite (H x Ef). cbn. lia.
  - destruct (g x); cbn; lia.
Qed.

Lemma filter_length_lt {A} (f g : A -> bool) l a :
  (forall x, f x = true -> g x = true) -> In a l -> f a = false -> g a = true ->
  length (filter f l) < length (filter g l).
Proof.
  intros H Hin Hf Hg. induction l as [|x r IH]; [destruct Hin|].
  cbn [filter]. destruct Hin as [-> | Hin].
  - rewrite Hf, Hg. cbn. pose proof (filter_length_le f g r H). lia.
  - specialize (IH Hin). destruct (f x) eqn:Ef.
    + rewrite (H x Ef). cbn. lia.
    + destruct (g x); cbn; lia.
Qed.

Lemma filter_all {A} (f : A -> bool) l : (forall x, In x l -> f x = true) -> filter f l = l.
Proof.
  induction l as [|x r IH]; intros H; cbn [filter]; [reflexivity|].
  rewrite (H x (or_introl eq_refl)). f_equal. apply IH. intros y Hy. apply H. right. exact Hy.
Qed.

(* ---------- epsilon_closure terminates ---------- *)

Section Closure.
  Variable n : nfa.
  Hypothesis W : wf n.

  (* states not yet in the output *)
  Definition unmarked (out : nset) : nat :=
    length (filter (fun q => negb (set_mem q out)) (seq 0 (size n))).

  Definition maxdeg : nat := list_max (map (fun st => length (eps st)) (states n)).
  Definition D : nat := S maxdeg.

  Lemma deg_le q st : nth_error (states n) q = Some st -> length (eps st) <= maxdeg.
  Proof.
    intros H. unfold maxdeg.
    pose proof (proj1 (list_max_le (map (fun st => length (eps st)) (states n)) _) (le_n _)) as F.
    rewrite Forall_forall in F. apply F. apply in_map_iff. exists st. split; [reflexivity|].
    eapply nth_error_In; eauto.
  Qed.

  Lemma unmarked_nil : unmarked [] = size n.
  Proof.
    unfold unmarked. rewrite <- (seq_length (size n) 0) at 2. f_equal.
    apply filter_all. intros x _. reflexivity.
  Qed.

  Lemma unmarked_new q out : ~ In q out -> q < size n ->
    unmarked (set_insert q out) < unmarked out.
  Proof.
    intros Hq Hv. unfold unmarked. apply (filter_length_lt _ _ _ q).
    - intros x Hx. apply negb_true_iff in Hx. apply negb_true_iff.
      destruct (set_mem x out) eqn:E; [|reflexivity].
      apply set_mem_In in E.
      assert (set_mem x (set_insert q out) = true) by (apply set_mem_In, set_insert_In; auto).
      congruence.
    - apply in_seq. lia.
    - apply negb_false_iff. apply set_mem_In, set_insert_In. auto.
    - apply negb_true_iff. destruct (set_mem q out) eqn:E; [|reflexivity].
      apply set_mem_In in E. contradiction.
  Qed.

  Definition topin (out : nset) (queue : list nat) : bool :=
    match queue with
    | q :: _ => set_mem q out
    | [] => false
    end.

  Definition mu (out : nset) (queue : list nat) : nat :=
    length queue + (if topin out queue then D else 0) + 2 * D * unmarked out.

  Lemma fold_push_eq out l : forall rest,
    fold_left (fun qu e => if set_mem e out then qu else e :: qu) l rest =
    rev (filter (fun e => negb (set_mem e out)) l) ++ rest.
  Proof.
    induction l as [|e r IH]; intros rest; cbn [fold_left filter]; [reflexivity|].
    rewrite IH. destruct (set_mem e out); cbn [negb]; [reflexivity|].
    cbn [rev]. rewrite <- app_assoc. reflexivity.
  Qed.

  Lemma closure_total : forall fuel out queue,
    ssorted out -> (forall z, In z out -> z < size n) -> (forall q, In q queue -> q < size n) ->
    mu out queue <= fuel ->
    exists S, closure_loop fuel n out queue = Ok S /\ ssorted S /\ (forall z, In z S -> z < size n).
  Proof.
    induction fuel as [|f IH]; intros out queue Hs Hvo Hvq Hmu.
    - destruct queue as [|q rest].
      + exists out. auto.
      + unfold mu in Hmu. cbn [length] in Hmu. lia.
    - destruct queue as [|q rest]; [exists out; auto|].
      cbn [closure_loop].
      assert (Hq : q < size n) by (apply Hvq; left; reflexivity).
      destruct (nth_error (states n) q) as [st|] eqn:Hn.
      2:{ apply nth_error_None in Hn. unfold size in Hq. lia. }
      rewrite fold_push_eq.
      set (pushed := rev (filter (fun e => negb (set_mem e out)) (eps st))).
      assert (Hplen : length pushed <= maxdeg).
      { unfold pushed. rewrite rev_length.
        pose proof (filter_length_le (fun e => negb (set_mem e out)) (fun _ => true) (eps st) (fun _ _ => eq_refl)) as L.
        rewrite (filter_all (fun _ => true)) in L by auto.
        pose proof (deg_le q st Hn). lia. }
      assert (Hpout : forall x, In x pushed -> ~ In x out /\ x < size n).
      { intros x Hx. unfold pushed in Hx. apply in_rev, filter_In in Hx. destruct Hx as [Hx1 Hx2].
        split.
        - apply negb_true_iff in Hx2. rewrite <- set_mem_In. congruence.
        - destruct W as [_ [_ W3]]. apply (W3 q None x). apply (estep_nth n q st x Hn). exact Hx1. }
      apply IH.
      + apply set_insert_sorted. exact Hs.
      + intros z Hz. apply set_insert_In in Hz. destruct Hz as [-> | Hz]; auto.
      + intros x Hx. apply in_app_or in Hx. destruct Hx as [Hx | Hx].
        * apply Hpout. exact Hx.
        * apply Hvq. right. exact Hx.
      + unfold mu in *. cbn [length topin] in Hmu. rewrite app_length.
        destruct (set_mem q out) eqn:Em.
        * (* a duplicate: the output does not change *)
          apply set_mem_In in Em. rewrite (set_insert_old q out Hs Em).
          destruct pushed as [|p ps] eqn:Ep.
          -- cbn [app length]. destruct (topin out rest); unfold D in *; lia.
          -- assert (Htop : topin out ((p :: ps) ++ rest) = false).
             { cbn [app topin]. destruct (Hpout p (or_introl eq_refl)) as [Hp _].
               destruct (set_mem p out) eqn:E; [|reflexivity]. apply set_mem_In in E. contradiction. }
             rewrite Htop. unfold D in *. cbn [length] in *. lia.
        * assert (Hnot : ~ In q out) by (rewrite <- set_mem_In; congruence).
          pose proof (unmarked_new q out Hnot Hq) as Hu.
          destruct (topin (set_insert q out) (pushed ++ rest)); unfold D in *; nia.
  Qed.

  (* a fuel that is enough for every call made by compile *)
  Definition closure_fuel : nat := size n + D + 2 * D * size n.

  Lemma epsilon_closure_total seeds :
    (forall q, In q seeds -> q < size n) -> length seeds <= size n ->
    exists S, epsilon_closure closure_fuel n seeds = Ok S /\ ssorted S /\
              (forall z, In z S -> z < size n).
  Proof.
    intros Hv Hl. unfold epsilon_closure. apply closure_total.
    - exact I.
    - intros z [].
    - intros q Hq. apply Hv. apply in_rev. exact Hq.
    - unfold mu, closure_fuel. rewrite rev_length, unmarked_nil.
      destruct (topin [] (rev seeds)) eqn:E.
      + unfold topin in E. destruct (rev seeds); discriminate.
      + lia.
  Qed.
End Closure.

(* ---------- the work list terminates ---------- *)

(* all increasing sublists of an increasing list: the finite universe of subsets *)
Fixpoint sublists (l : list nat) : list (list nat) :=
  match l with
  | [] => [[]]
  | a :: r => map (cons a) (sublists r) ++ sublists r
  end.

Lemma sublists_In : forall l, ssorted l -> forall s, ssorted s -> incl s l -> In s (sublists l).
Proof.
  induction l as [|a r IH]; intros Hl s Hs Hincl; cbn [sublists].
  - destruct s as [|x s']; [left; reflexivity|]. exfalso. apply (Hincl x). left. reflexivity.
  - cbn [ssorted] in Hl. destruct Hl as [Ha Hr]. apply in_or_app.
    destruct s as [|x s'].
    + right. apply IH; [exact Hr|exact I|intros y []].
    + cbn [ssorted] in Hs. destruct Hs as [Hx Hs'].
      destruct (Nat.eq_dec x a) as [-> | Hne].
      * left. apply in_map. apply IH; [exact Hr|exact Hs'|].
        intros y Hy. destruct (Hincl y (or_intror Hy)) as [<- | Hin]; [|exact Hin].
        specialize (Hx a Hy). lia.
      * right. apply IH; [exact Hr|split; assumption|].
        assert (Hxr : In x r) by (destruct (Hincl x (or_introl eq_refl)) as [E | Hin]; [congruence|exact Hin]).
        intros y [<- | Hy]; [exact Hxr|].
        destruct (Hincl y (or_intror Hy)) as [<- | Hin]; [|exact Hin].
        specialize (Hx a Hy). specialize (Ha x Hxr). lia.
Qed.

Lemma nset_eqb_refl s : nset_eqb s s = true.
Proof. induction s as [|x r IH]; cbn; [reflexivity|]. rewrite Nat.eqb_refl. exact IH. Qed.

Section Main.
  Variable n : nfa.
  Hypothesis W : wf n.

  Definition universe : list nset := sublists (seq 0 (size n)).

  Definition good (qs : nset) : Prop := ssorted qs /\ forall z, In z qs -> z < size n.

  Lemma good_universe qs : good qs -> In qs universe.
  Proof.
    intros [Hs Hv]. apply sublists_In; [apply ssorted_seq|exact Hs|].
    intros x Hx. apply in_seq. specialize (Hv x Hx). lia.
  Qed.

  Definition key_mem (s : nset) (ds : dstates) : bool := existsb (fun p => nset_eqb s (fst p)) ds.

  Definition undiscovered (ds : dstates) : nat :=
    length (filter (fun s => negb (key_mem s ds)) universe).

  Lemma set_get_None s ds : set_get s ds = None -> key_mem s ds = false.
  Proof.
    induction ds as [|[k v] r IH]; cbn [set_get key_mem existsb fst]; [reflexivity|].
    destruct (nset_eqb s k); [discriminate|]. intros H. cbn. apply IH. exact H.
  Qed.

  Lemma und_new s id ds : good s -> set_get s ds = None ->
    undiscovered ((s, id) :: ds) < undiscovered ds.
  Proof.
    intros Hg Hn. unfold undiscovered. apply (filter_length_lt _ _ _ s).
    - intros x Hx. apply negb_true_iff in Hx. apply negb_true_iff.
      cbn [key_mem existsb fst] in Hx. apply orb_false_iff in Hx. apply Hx.
    - apply good_universe. exact Hg.
    - cbn [key_mem existsb fst]. rewrite nset_eqb_refl. reflexivity.
    - rewrite (set_get_None s ds Hn). reflexivity.
  Qed.

  Lemma states_of_total qs : good qs ->
    exists sts, states_of n qs = Ok sts /\ length sts = length qs /\
                forall st, In st sts -> exists q, q < size n /\ nth_error (states n) q = Some st.
  Proof.
    intros [_ Hv]. induction qs as [|q r IH]; cbn [states_of].
    - exists []. repeat split. intros st [].
    - assert (Hq : q < size n) by (apply Hv; left; reflexivity).
      destruct (nth_error (states n) q) as [st|] eqn:Hn.
      2:{ apply nth_error_None in Hn. unfold size in Hq. lia. }
      destruct IH as [l [E [Hl Hst]]]; [intros z Hz; apply Hv; right; exact Hz|].
      rewrite E. cbn [bind]. exists (st :: l). split; [reflexivity|]. split; [cbn; lia|].
      intros st' [<- | Hin]; [exists q; auto|apply Hst; exact Hin].
  Qed.

  Lemma targets_length sts c : length (targets_of sts c) <= length sts.
  Proof.
    unfold targets_of. induction sts as [|st r IH]; cbn [flat_map length]; [lia|].
    rewrite app_length. destruct (edge_get c (edges st)); cbn [length]; lia.
  Qed.

  Lemma targets_valid sts c :
    (forall st, In st sts -> exists q, q < size n /\ nth_error (states n) q = Some st) ->
    forall q1, In q1 (targets_of sts c) -> q1 < size n.
  Proof.
    intros Hst q1 Hin. apply targets_of_In in Hin. destruct Hin as [st [Hs Hg]].
    destruct (Hst st Hs) as [q [_ Hn]]. apply edge_get_In in Hg.
    destruct W as [_ [_ W3]]. apply (W3 q (Some c) q1). apply (sstep_nth n q st c q1 Hn). exact Hg.
  Qed.

  Let cf := closure_fuel n.

  Lemma sym_loop_total sts :
    length sts <= size n ->
    (forall st, In st sts -> exists q, q < size n /\ nth_error (states n) q = Some st) ->
    forall symbols ds qu es,
    exists ds' qu' es',
      sym_loop cf n sts symbols ds qu es = Ok (ds', qu', es') /\
      (forall id s, In (id, s) qu' -> In (id, s) qu \/ good s) /\
      length qu' + undiscovered ds' <= length qu + undiscovered ds.
  Proof.
    intros Hlen Hst. induction symbols as [|c r IH]; intros ds qu es; cbn [sym_loop].
    - exists ds, qu, es. repeat split; auto.
    - destruct (epsilon_closure_total n W (targets_of sts c)) as [new [E [Hs Hv]]].
      + apply targets_valid. exact Hst.
      + pose proof (targets_length sts c). lia.
      + fold cf in E. rewrite E. cbn [bind].
        destruct (set_get new ds) as [id0|] eqn:Eg.
        * apply IH.
        * destruct (IH ((new, length ds) :: ds) ((length ds, new) :: qu) (es ++ [(c, length ds)]))
            as [ds' [qu' [es' [E' [H1 H2]]]]].
          exists ds', qu', es'. split; [exact E'|]. split.
          -- intros id s Hin. destruct (H1 id s Hin) as [[Heq | Hq] | Hg]; auto.
             inversion Heq; subst. right. split; assumption.
          -- pose proof (und_new new (length ds) ds (conj Hs Hv) Eg). cbn [length] in H2. lia.
  Qed.

  Lemma main_loop_total : forall fuel ds tb qu,
    (forall id s, In (id, s) qu -> good s) ->
    length qu + undiscovered ds <= fuel ->
    exists ds' tb', main_loop fuel cf n ds tb qu = Ok (ds', tb').
  Proof.
    induction fuel as [|f IH]; intros ds tb qu Hg Hm.
    - destruct qu as [|[id qs] rest]; [exists ds, tb; reflexivity|cbn [length] in Hm; lia].
    - destruct qu as [|[id qs] rest]; [exists ds, tb; reflexivity|].
      cbn [main_loop].
      assert (Gq : good qs) by (apply (Hg id qs); left; reflexivity).
      destruct (states_of_total qs Gq) as [sts [Es [Hl Hst]]]. rewrite Es. cbn [bind].
      assert (Hlen : length sts <= size n).
      { rewrite Hl. destruct Gq as [G1 G2]. apply sorted_length; assumption. }
      destruct (sym_loop_total sts Hlen Hst (symbols_of sts) ds rest []) as [ds' [qu' [es' [E [H1 H2]]]]].
      rewrite E. cbn [bind]. apply IH.
      + intros id1 s Hin. destruct (H1 id1 s Hin) as [Hq | G]; [|exact G].
        apply (Hg id1 s). right. exact Hq.
      + cbn [length] in Hm. lia.
  Qed.
End Main.

(* ---------- infos and table ---------- *)

Lemma info_loop_total n tb : forall l infos,
  (forall qs id, In (qs, id) l -> id < length infos /\ exists es, id_get id tb = Some es) ->
  exists infos', info_loop n tb l infos = Ok infos'.
Proof.
  induction l as [|[qs id] r IH]; intros infos H; cbn [info_loop]; [exists infos; reflexivity|].
  destruct (H qs id (or_introl eq_refl)) as [Hlt [es Hg]].
  apply Nat.ltb_lt in Hlt. rewrite Hlt, Hg. apply IH.
  intros qs1 id1 Hin. rewrite update_length. apply (H qs1 id1). right. exact Hin.
Qed.

Lemma table_rows_total tb : forall idx,
  (forall i, In i idx -> exists es, id_get i tb = Some es) ->
  exists rows, table_rows tb idx = Ok rows.
Proof.
  induction idx as [|i r IH]; intros H; cbn [table_rows]; [exists []; reflexivity|].
  destruct (H i (or_introl eq_refl)) as [es Hg]. rewrite Hg.
  destruct IH as [rest E]; [intros j Hj; apply H; right; exact Hj|].
  rewrite E. cbn [bind]. eexists. reflexivity.
Qed.

(* ---------- compile returns ---------- *)

Theorem compile_total n : wf n -> keys_ok n ->
  exists fuel cf d, compile fuel cf n = Ok d.
Proof.
  intros W K. pose proof W as [W1 [W2 W3]].
  set (cf := closure_fuel n). set (fuel := S (length (universe n))).
  exists fuel, cf.
  destruct (epsilon_closure_total n W [start n]) as [s0 [E0 [Hs0 Hv0]]].
  { intros q [<- | []]. exact W1. }
  { cbn [length]. lia. }
  fold cf in E0.
  destruct (main_loop_total n W fuel [(s0, 0)] [] [(0, s0)]) as [ds [tb E1]].
  { intros id s [H | []]. inversion H; subst. split; assumption. }
  { unfold fuel, undiscovered. cbn [length].
    pose proof (filter_length_le (fun s => negb (key_mem s [(s0, 0)])) (fun _ => true) (universe n)
                                 (fun _ _ => eq_refl)) as L.
    rewrite (filter_all (fun _ => true)) in L by auto. lia. }
  fold cf in E1.
  pose proof E1 as E1'. apply (main_loop_spec cf n K) in E1'.
  2:{ constructor.
      - reflexivity.
      - intros id qs [H | []]. inversion H; subst. left. reflexivity.
      - intros qs id [H | []]. inversion H; subst. left. eexists. left. reflexivity.
      - intros id es H. discriminate.
      - reflexivity. }
  destruct E1' as [I _].
  pose proof (inv_count _ _ _ _ I) as Hc. cbn [length] in Hc. rewrite Nat.add_0_r in Hc.
  assert (Hrow : forall qs id, In (qs, id) ds -> exists es, id_get id tb = Some es).
  { intros qs id Hin. destruct (inv_cover _ _ _ _ I _ _ Hin) as [[qs' []] | H]. exact H. }
  destruct (info_loop_total n tb ds (repeat default_info (length ds))) as [infos E2].
  { intros qs id Hin. split; [|apply (Hrow qs id Hin)].
    rewrite repeat_length. apply (dense_lt ds qs id (inv_dense _ _ _ _ I) Hin). }
  destruct (table_rows_total tb (seq 0 (length tb))) as [rows E3].
  { intros i Hi. apply in_seq in Hi. rewrite Hc in Hi.
    assert (Hin : In i (map snd ds)) by (rewrite (inv_dense _ _ _ _ I); apply rev_seq_In; lia).
    apply in_map_iff in Hin. destruct Hin as [[qs id] [Heq Hin]]. cbn in Heq. subst id.
    apply (Hrow qs i Hin). }
  exists (mkdfa 0 rows infos 256).
  unfold compile, compile_aux. rewrite E0. cbn [bind]. rewrite E1. cbn [bind].
  rewrite E2. cbn [bind]. rewrite E3. reflexivity.
Qed.
