(* Model of NFA::compile (power-set construction), NFA::epsilon_closure and of
   DFA::{start, transition, transition_many, info, matches} of src/automata.rs.

   Both loops of the code are stack driven (`Vec::pop`); the lists `queue`
   below have the top of the stack at the head.  `dfa_states`
   (BTreeMap<Rc<BTreeSet<NFAStateId>>, DFAState>) and `dfa_table`
   (BTreeMap<DFAState, BTreeMap<Symbol, DFAState>>) are association lists: the
   code uses `get`, `len`, `insert` of a fresh key and one final iteration
   whose effect does not depend on the order.  Loops carry fuel; running out
   of it is `OutOfFuel`, an index that the code would panic on is `Panic`. *)
From Coq Require Import List NArith Bool Arith.
From SNT Require Import Base.Outcome Automata.Regex Automata.NFA.
Import ListNotations.

Definition nset := list nat.   (* BTreeSet<NFAStateId> : increasing, duplicate free *)

Definition set_mem (a : nat) (l : nset) : bool := existsb (Nat.eqb a) l.

Fixpoint nset_eqb (a b : nset) : bool :=
  match a, b with
  | [], [] => true
  | x :: a', y :: b' => Nat.eqb x y && nset_eqb a' b'
  | _, _ => false
  end.

(* BTreeSet<u8 / tag>::insert *)
Fixpoint nins (a : N) (l : list N) : list N :=
  match l with
  | [] => [a]
  | b :: r => if N.ltb a b then a :: l
              else if N.eqb a b then l
              else b :: nins a r
  end.

(* ---------- epsilon_closure ---------- *)

Fixpoint closure_loop (fuel : nat) (n : nfa) (output : nset) (queue : list nat)
  : outcome nset :=
  match queue with
  | [] => Ok output
  | q :: rest =>
      match fuel with
      | O => OutOfFuel
      | S f =>
          match nth_error (states n) q with
          | None => Panic 1                       (* self.states[&state_id] *)
          | Some st =>
              let queue' :=
                fold_left (fun qu e => if set_mem e output then qu else e :: qu)
                          (eps st) rest in
              closure_loop f n (set_insert q output) queue'
          end
      end
  end.

(* queue = states.into_iter().collect(); pop takes the last one first *)
Definition epsilon_closure (cf : nat) (n : nfa) (seeds : list nat) : outcome nset :=
  closure_loop cf n [] (rev seeds).

(* ---------- compile ---------- *)

Fixpoint states_of (n : nfa) (qs : nset) : outcome (list nstate) :=
  match qs with
  | [] => Ok []
  | q :: r =>
      match nth_error (states n) q with
      | None => Panic 2                           (* self.states[nfa_state_id] *)
      | Some st => let* l := states_of n r in Ok (st :: l)
      end
  end.

(* BTreeMap<Symbol, _>::get on an edge list *)
Fixpoint edge_get {A} (c : N) (l : list (N * A)) : option A :=
  match l with
  | [] => None
  | (k, v) :: r => if N.eqb c k then Some v else edge_get c r
  end.

Fixpoint set_get (qs : nset) (l : list (nset * nat)) : option nat :=
  match l with
  | [] => None
  | (k, v) :: r => if nset_eqb qs k then Some v else set_get qs r
  end.

Fixpoint id_get {A} (i : nat) (l : list (nat * A)) : option A :=
  match l with
  | [] => None
  | (k, v) :: r => if Nat.eqb i k then Some v else id_get i r
  end.

Definition symbols_of (sts : list nstate) : list N :=
  fold_left (fun acc st => fold_left (fun acc e => nins (fst e) acc) (edges st) acc) sts [].

Definition targets_of (sts : list nstate) (c : N) : list nat :=
  flat_map (fun st => match edge_get c (edges st) with Some q => [q] | None => [] end) sts.

Definition dstates := list (nset * nat).
Definition dtab := list (nat * list (N * nat)).
Definition dqueue := list (nat * nset).

(* for symbol in symbols { ... } *)
Fixpoint sym_loop (cf : nat) (n : nfa) (sts : list nstate) (symbols : list N)
         (ds : dstates) (qu : dqueue) (dfa_edges : list (N * nat))
  : outcome (dstates * dqueue * list (N * nat)) :=
  match symbols with
  | [] => Ok (ds, qu, dfa_edges)
  | c :: r =>
      let* new := epsilon_closure cf n (targets_of sts c) in
      match set_get new ds with
      | Some id => sym_loop cf n sts r ds qu (dfa_edges ++ [(c, id)])
      | None =>
          let id := length ds in
          sym_loop cf n sts r ((new, id) :: ds) ((id, new) :: qu) (dfa_edges ++ [(c, id)])
      end
  end.

(* while let Some((dfa_state_id, dfa_state)) = dfa_queue.pop() { ... } *)
Fixpoint main_loop (fuel cf : nat) (n : nfa) (ds : dstates) (tb : dtab) (qu : dqueue)
  : outcome (dstates * dtab) :=
  match qu with
  | [] => Ok (ds, tb)
  | (id, qs) :: rest =>
      match fuel with
      | O => OutOfFuel
      | S f =>
          let* sts := states_of n qs in
          let* r := sym_loop cf n sts (symbols_of sts) ds rest [] in
          let '(ds', qu', es) := r in
          main_loop f cf n ds' ((id, es) :: tb) qu'
      end
  end.

Record dinfo := mkinfo { accepting : bool; terminal : bool; dtags : list N }.

Definition tags_of (n : nfa) (qs : nset) : list N :=
  fold_left (fun acc q => match nth_error (states n) q with
                          | Some st => match tag st with Some t => nins t acc | None => acc end
                          | None => acc
                          end) qs [].

Definition is_nil {A} (l : list A) : bool := match l with [] => true | _ => false end.

(* for (dfa_state, dfa_state_id) in dfa_states { let info = &mut infos[id]; ... } *)
Fixpoint info_loop (n : nfa) (tb : dtab) (l : dstates) (infos : list dinfo)
  : outcome (list dinfo) :=
  match l with
  | [] => Ok infos
  | (qs, id) :: r =>
      if id <? length infos then
        match id_get id tb with
        | None => Panic 4                          (* dfa_table[&dfa_state_id] *)
        | Some es =>
            let info := mkinfo (set_mem (stop n) qs) (is_nil es) (tags_of n qs) in
            info_loop n tb r (update infos id (fun _ => info))
        end
      else Panic 3                                 (* infos[dfa_state_id.0] *)
  end.

(* dense table: rows in key order, `assert_eq!(index, state.0)` *)
Fixpoint table_rows (tb : dtab) (idx : list nat) : outcome (list (option nat)) :=
  match idx with
  | [] => Ok []
  | i :: r =>
      match id_get i tb with
      | None => Panic 5
      | Some es =>
          let* rest := table_rows tb r in
          Ok (map (fun c => edge_get c es) all_bytes ++ rest)
      end
  end.

Record dfa := mkdfa {
  dstart : nat;
  dtable : list (option nat);       (* states: Box<[Option<DFAState>]> *)
  dinfos : list dinfo;
  lang_size : nat }.

Definition default_info : dinfo := mkinfo false false [].

(* everything compile computes; `compile` forgets the subsets *)
Definition compile_aux (fuel cf : nat) (n : nfa) : outcome (dstates * dtab * dfa) :=
  let* s0 := epsilon_closure cf n [start n] in
  let* r := main_loop fuel cf n [(s0, 0)] [] [(0, s0)] in
  let '(ds, tb) := r in
  let* infos := info_loop n tb ds (repeat default_info (length ds)) in
  let* rows := table_rows tb (seq 0 (length tb)) in
  Ok (ds, tb, mkdfa 0 rows infos 256).

Definition compile (fuel cf : nat) (n : nfa) : outcome dfa :=
  let* r := compile_aux fuel cf n in Ok (snd r).

(* ---------- DFA ---------- *)

Definition dfa_size (d : dfa) : nat := length (dtable d) / lang_size d.

(* self.states[self.lang_size * state.0 + symbol as usize] *)
(* the symbol is a u8: values from 256 up do not exist in the code and are a
   model-level error here rather than a read in the next row *)
Definition transition (d : dfa) (q : nat) (c : N) : outcome (option nat) :=
  if N.ltb c 256 then
    match nth_error (dtable d) (lang_size d * q + N.to_nat c) with
    | Some r => Ok r
    | None => Panic 6
    end
  else Panic 8.

(* try_fold *)
Fixpoint transition_many (d : dfa) (q : nat) (s : list N) : outcome (option nat) :=
  match s with
  | [] => Ok (Some q)
  | c :: r =>
      let* t := transition d q c in
      match t with
      | Some q' => transition_many d q' r
      | None => Ok None
      end
  end.

Definition info (d : dfa) (q : nat) : outcome dinfo :=
  match nth_error (dinfos d) q with
  | Some i => Ok i
  | None => Panic 7
  end.

Definition dfa_matches (d : dfa) (s : list N) : outcome bool :=
  let* r := transition_many d (dstart d) s in
  match r with
  | Some q => let* i := info d q in Ok (accepting i)
  | None => Ok false
  end.

(* default fuel used by the correspondence check and the examples: the number
   of subsets is what it is; 4096 main-loop iterations and closures of up to
   100000 pops are far above anything generated *)
Definition compile_default (n : nfa) : outcome dfa := compile 4096 (Nat.mul 400 400) n.
