(* Semantics used to state the correctness of the subset construction, and the
   correctness of epsilon_closure (the stack loop computes exactly the set of
   states reachable through epsilon edges). *)
From Coq Require Import List NArith Bool Arith Lia.
From SNT Require Import Base.Outcome Automata.Regex Automata.NFA Automata.Compile
  Automata.PathLemmas Automata.BuildLeaves.
Import ListNotations.

Definition estep (n : nfa) (x y : nat) : Prop := nstep n x None y.
Definition ereach (n : nfa) (x z : nat) : Prop := path (nstep n) x [] z.
Definition eclosure (n : nfa) (X : list nat) (z : nat) : Prop := exists x, In x X /\ ereach n x z.
Definition move (n : nfa) (S : list nat) (c : N) (q1 : nat) : Prop :=
  exists q, In q S /\ nstep n q (Some c) q1.
Definition step_set (n : nfa) (S : list nat) (c : N) (z : nat) : Prop :=
  exists q1, move n S c q1 /\ ereach n q1 z.
(* the NFA states reachable from the start state by the string s *)
Definition RS (n : nfa) (s : list N) (z : nat) : Prop := path (nstep n) (start n) s z.

(* every state's edge list has distinct symbols (it is a BTreeMap) *)
Definition keys_ok (n : nfa) : Prop :=
  Forall (fun st => NoDup (map fst (edges st))) (states n).

(* ---------- paths ---------- *)

Lemma path_split (R : rel) x s1 s2 z :
  path R x (s1 ++ s2) z -> exists m, path R x s1 m /\ path R m s2 z.
Proof.
  intros P. remember (s1 ++ s2) as s eqn:E. revert s1 E.
  induction P as [q|q q1 s q' H1 P IH|q c q1 s q' H1 P IH]; intros s1 E.
  - symmetry in E. apply app_eq_nil in E. destruct E as [-> ->].
    exists q. split; apply path_refl.
  - destruct (IH s1 E) as [m [P1 P2]]. exists m. split; [eapply path_eps; eauto|exact P2].
  - destruct s1 as [|c' s1']; cbn in E.
    + exists q. split; [apply path_refl|]. rewrite <- E. eapply path_sym; eauto.
    + inversion E; subst c'. destruct (IH s1' H2) as [m [P1 P2]].
      exists m. split; [eapply path_sym; eauto|exact P2].
Qed.

Lemma path_cons_inv (R : rel) x c s z :
  path R x (c :: s) z -> exists q q1, path R x [] q /\ R q (Some c) q1 /\ path R q1 s z.
Proof.
  intros P. remember (c :: s) as cs eqn:E. revert E.
  induction P as [q|q q1 s0 q' H1 P IH|q c0 q1 s0 q' H1 P IH]; intros E.
  - discriminate.
  - destruct (IH E) as [a [b [P1 [H2 P2]]]]. exists a, b. repeat split; auto.
    eapply path_eps; eauto.
  - inversion E; subst. exists q, q1. split; [apply path_refl|]. split; [exact H1|exact P].
Qed.

Lemma RS_nil n z : RS n [] z <-> ereach n (start n) z.
Proof. reflexivity. Qed.

Lemma RS_snoc n s c z :
  RS n (s ++ [c]) z <-> exists q q1, RS n s q /\ nstep n q (Some c) q1 /\ ereach n q1 z.
Proof.
  unfold RS, ereach. split.
  - intros P. apply path_split in P. destruct P as [m [P1 P2]].
    apply path_cons_inv in P2. destruct P2 as [q [q1 [P2 [H P3]]]].
    exists q, q1. split; [|split; [exact H|exact P3]].
    rewrite <- (app_nil_r s). eapply path_app; [exact P1|exact P2].
  - intros [q [q1 [P1 [H P2]]]]. eapply path_app; [exact P1|].
    eapply path_sym; eauto.
Qed.

Lemma ereach_closed n (S : nat -> Prop) x z :
  (forall a b, S a -> estep n a b -> S b) -> S x -> ereach n x z -> S z.
Proof.
  intros Hc Hx P. unfold ereach in P. remember [] as s eqn:E. revert E Hx.
  induction P as [q|q q1 s q' H1 P IH|q c q1 s q' H1 P IH]; intros E Hx.
  - exact Hx.
  - apply IH; [exact E|]. eapply Hc; eauto.
  - discriminate.
Qed.

(* ---------- small data lemmas ---------- *)

Lemma set_mem_In a l : set_mem a l = true <-> In a l.
Proof.
  unfold set_mem. rewrite existsb_exists. split.
  - intros [x [Hin H]]. apply Nat.eqb_eq in H. subst. exact Hin.
  - intros H. exists a. split; [exact H|apply Nat.eqb_refl].
Qed.

Lemma nset_eqb_eq a b : nset_eqb a b = true -> a = b.
Proof.
  revert b; induction a as [|x a IH]; intros [|y b] H; cbn in H; try discriminate; auto.
  apply andb_prop in H. destruct H as [H1 H2]. apply Nat.eqb_eq in H1. subst.
  f_equal. apply IH. exact H2.
Qed.

Lemma nins_In a l x : In x (nins a l) <-> x = a \/ In x l.
Proof.
  induction l as [|b r IH]; cbn [nins].
  - cbn. intuition.
  - destruct (N.ltb a b) eqn:E1.
    + cbn. intuition.
    + destruct (N.eqb a b) eqn:E2.
      * apply N.eqb_eq in E2. subst. cbn. intuition.
      * cbn. rewrite IH. intuition.
Qed.

Lemma estep_nth n x st y :
  nth_error (states n) x = Some st -> (estep n x y <-> In y (eps st)).
Proof.
  intros Hn. unfold estep, nstep, gstep. rewrite Nat.sub_0_r. split.
  - intros [_ [st' [Hn' H]]]. congruence.
  - intros H. split; [lia|]. exists st. auto.
Qed.

Lemma sstep_nth n x st c y :
  nth_error (states n) x = Some st -> (nstep n x (Some c) y <-> In (c, y) (edges st)).
Proof.
  intros Hn. unfold nstep, gstep. rewrite Nat.sub_0_r. split.
  - intros [_ [st' [Hn' H]]]. congruence.
  - intros H. split; [lia|]. exists st. auto.
Qed.

(* ---------- epsilon_closure ---------- *)

Lemma fold_push_In out l : forall rest x,
  In x (fold_left (fun qu e => if set_mem e out then qu else e :: qu) l rest) <->
  In x rest \/ (In x l /\ ~ In x out).
Proof.
  induction l as [|e r IH]; intros rest x; cbn [fold_left].
  - cbn. tauto.
  - rewrite IH. destruct (set_mem e out) eqn:E.
    + apply set_mem_In in E. cbn [In]. split.
      * intros [H | [H1 H2]]; auto.
      * intros [H | [[-> | H1] H2]]; auto. contradiction.
    + assert (~ In e out) by (rewrite <- set_mem_In; congruence). cbn [In]. split.
      * intros [[-> | H0] | [H1 H2]]; auto.
      * intros [H0 | [[-> | H1] H2]]; auto.
Qed.

Lemma closure_loop_spec n : forall fuel out queue S,
  closure_loop fuel n out queue = Ok S ->
  (forall x, In x out -> forall y, estep n x y -> In y out \/ In y queue) ->
  (forall z, In z out -> In z S) /\
  (forall z, In z queue -> In z S) /\
  (forall x y, In x S -> estep n x y -> In y S) /\
  (forall z, In z S -> In z out \/ exists x, In x queue /\ ereach n x z).
Proof.
  induction fuel as [|f IH]; intros out queue S E Inv.
  - destruct queue as [|q rest]; cbn in E; [|discriminate].
    inversion E; subst S. repeat split; auto.
    + intros z [].
    + intros x y Hx Hs. destruct (Inv x Hx y Hs) as [H | []]. exact H.
  - destruct queue as [|q rest]; cbn [closure_loop] in E.
    + inversion E; subst S. repeat split; auto.
      * intros z [].
      * intros x y Hx Hs. destruct (Inv x Hx y Hs) as [H | []]. exact H.
    + destruct (nth_error (states n) q) as [st|] eqn:Hn; [|discriminate].
      apply IH in E.
      * destruct E as [E1 [E2 [E3 E4]]].
        assert (Hq : In q S) by (apply E1, set_insert_In; auto).
        repeat split.
        -- intros z Hz. apply E1, set_insert_In. auto.
        -- intros z [-> | Hz]; [exact Hq|]. apply E2, fold_push_In. auto.
        -- exact E3.
        -- intros z Hz. destruct (E4 z Hz) as [H | [x [Hx Px]]].
           ++ apply set_insert_In in H. destruct H as [-> | H]; [|left; exact H].
              right. exists q. split; [left; reflexivity|apply path_refl].
           ++ apply fold_push_In in Hx. destruct Hx as [Hx | [Hx _]].
              ** right. exists x. split; [right; exact Hx|exact Px].
              ** right. exists q. split; [left; reflexivity|].
                 eapply path_eps; [|exact Px]. apply (estep_nth n q st x Hn). exact Hx.
      * intros x Hx y Hs. apply set_insert_In in Hx. destruct Hx as [-> | Hx].
        -- apply (estep_nth n q st y Hn) in Hs.
           destruct (set_mem y out) eqn:Em.
           ++ left. apply set_insert_In. right. apply set_mem_In. exact Em.
           ++ right. apply fold_push_In. right. split; [exact Hs|].
              rewrite <- set_mem_In. congruence.
        -- destruct (Inv x Hx y Hs) as [H | [-> | H]].
           ++ left. apply set_insert_In. auto.
           ++ left. apply set_insert_In. auto.
           ++ right. apply fold_push_In. auto.
Qed.

Lemma epsilon_closure_spec cf n seeds S :
  epsilon_closure cf n seeds = Ok S -> forall z, In z S <-> eclosure n seeds z.
Proof.
  intros E. unfold epsilon_closure in E. apply closure_loop_spec in E; [|intros x []].
  destruct E as [_ [E2 [E3 E4]]]. intros z. split.
  - intros Hz. destruct (E4 z Hz) as [[] | [x [Hx Px]]].
    exists x. split; [apply in_rev; exact Hx|exact Px].
  - intros [x [Hx Px]]. apply (ereach_closed n (fun a => In a S) x z); auto.
    apply E2. apply in_rev in Hx. exact Hx.
Qed.
