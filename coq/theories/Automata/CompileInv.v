(* Invariant of the subset construction (NFA::compile): the loop over symbols
   and the main work-list loop. *)
From Coq Require Import List NArith Bool Arith Lia.
From SNT Require Import Base.Outcome Automata.Regex Automata.NFA Automata.Compile
  Automata.PathLemmas Automata.BuildLeaves Automata.CompileSpec.
Import ListNotations.

(* ids are allocated densely: the k-th discovered subset has id k *)
Fixpoint rev_seq (k : nat) : list nat :=
  match k with
  | O => []
  | S k' => k' :: rev_seq k'
  end.

Lemma rev_seq_In k x : In x (rev_seq k) <-> x < k.
Proof. induction k as [|k IH]; cbn; [lia|]. rewrite IH. lia. Qed.

Lemma rev_seq_NoDup k : NoDup (rev_seq k).
Proof.
  induction k as [|k IH]; cbn; constructor; auto. rewrite rev_seq_In. lia.
Qed.

Definition dense (ds : dstates) : Prop := map snd ds = rev_seq (length ds).

Lemma dense_lt ds qs id : dense ds -> In (qs, id) ds -> id < length ds.
Proof.
  intros D H. apply rev_seq_In. rewrite <- D. apply in_map_iff. exists (qs, id). auto.
Qed.

Lemma dense_inj ds qs1 qs2 id : dense ds -> In (qs1, id) ds -> In (qs2, id) ds -> qs1 = qs2.
Proof.
  intros D. pose proof (rev_seq_NoDup (length ds)) as ND. rewrite <- D in ND. clear D.
  induction ds as [|[a b] r IH]; intros H1 H2; [destruct H1|].
  cbn in ND. inversion ND as [|? ? Hnot ND']; subst.
  destruct H1 as [H1 | H1], H2 as [H2 | H2].
  - congruence.
  - inversion H1; subst. exfalso. apply Hnot. apply in_map_iff. exists (qs2, id). auto.
  - inversion H2; subst. exfalso. apply Hnot. apply in_map_iff. exists (qs1, id). auto.
  - apply IH; auto.
Qed.

(* ---------- lookups ---------- *)

Lemma set_get_In qs l id : set_get qs l = Some id -> In (qs, id) l.
Proof.
  induction l as [|[k v] r IH]; cbn; [discriminate|].
  destruct (nset_eqb qs k) eqn:E.
  - intros H. inversion H; subst. apply nset_eqb_eq in E. subst. left. reflexivity.
  - intros H. right. apply IH. exact H.
Qed.

Lemma edge_get_In {A} c (l : list (N * A)) v : edge_get c l = Some v -> In (c, v) l.
Proof.
  induction l as [|[k w] r IH]; cbn; [discriminate|].
  destruct (N.eqb c k) eqn:E.
  - intros H. inversion H; subst. apply N.eqb_eq in E. subst. left. reflexivity.
  - intros H. right. apply IH. exact H.
Qed.

Lemma edge_get_None {A} c (l : list (N * A)) : edge_get c l = None -> forall v, ~ In (c, v) l.
Proof.
  induction l as [|[k w] r IH]; cbn; [intros _ v []|].
  destruct (N.eqb c k) eqn:E; [discriminate|].
  intros H v [H1 | H1].
  - inversion H1; subst. rewrite N.eqb_refl in E. discriminate.
  - apply (IH H v H1).
Qed.

(* with distinct keys, membership and lookup agree *)
Lemma edge_get_NoDup {A} c (l : list (N * A)) v :
  NoDup (map fst l) -> In (c, v) l -> edge_get c l = Some v.
Proof.
  induction l as [|[k w] r IH]; cbn; intros ND H; [destruct H|].
  inversion ND as [|? ? Hnot ND']; subst.
  destruct H as [H | H].
  - inversion H; subst. rewrite N.eqb_refl. reflexivity.
  - destruct (N.eqb c k) eqn:E.
    + apply N.eqb_eq in E. subst. exfalso. apply Hnot. apply in_map_iff. exists (k, v). auto.
    + apply IH; auto.
Qed.

(* ---------- the states of a subset ---------- *)

Lemma states_of_spec n qs sts :
  states_of n qs = Ok sts ->
  forall st, In st sts <-> exists q, In q qs /\ nth_error (states n) q = Some st.
Proof.
  revert sts; induction qs as [|q r IH]; intros sts E; cbn [states_of] in E.
  - inversion E; subst. intros st. split; [intros []|intros [q [[] _]]].
  - destruct (nth_error (states n) q) as [st0|] eqn:Hn; [|discriminate].
    destruct (states_of n r) as [l| | |] eqn:Er; cbn in E; try discriminate.
    inversion E; subst sts. intros st. cbn [In]. rewrite (IH l eq_refl). split.
    + intros [<- | [q' [Hin H]]]; [exists q; auto|exists q'; auto].
    + intros [q' [[<- | Hin] H]]; [left; congruence|right; exists q'; auto].
Qed.

Lemma symbols_of_In sts c :
  In c (symbols_of sts) <-> exists st q', In st sts /\ In (c, q') (edges st).
Proof.
  unfold symbols_of.
  assert (Inner : forall (es : list (N * nat)) acc, In c (fold_left (fun acc e => nins (fst e) acc) es acc) <->
                                 In c acc \/ exists q', In (c, q') es).
  { induction es as [|[k v] r IH]; intros acc; cbn [fold_left].
    - split; [auto|intros [H | [q' []]]; exact H].
    - rewrite IH, nins_In. cbn [fst In]. split.
      + intros [[-> | H] | [q' H]]; [right; exists v; auto|auto|right; exists q'; auto].
      + intros [H | [q' [H | H]]]; [auto|inversion H; subst; auto|right; exists q'; auto]. }
  assert (Outer : forall l acc,
            In c (fold_left (fun acc st => fold_left (fun acc e => nins (fst e) acc) (edges st) acc) l acc) <->
            In c acc \/ exists st q', In st l /\ In (c, q') (edges st)).
  { induction l as [|st r IH]; intros acc; cbn [fold_left].
    - split; [auto|intros [H | [st [q' [[] _]]]]; exact H].
    - rewrite IH, Inner. cbn [In]. split.
      + intros [[H | [q' H]] | [st' [q' [H1 H2]]]].
        * auto.
        * right. exists st, q'. auto.
        * right. exists st', q'. auto.
      + intros [H | [st' [q' [[<- | H1] H2]]]].
        * auto.
        * left. right. exists q'. exact H2.
        * right. exists st', q'. auto. }
  rewrite Outer. cbn [In]. tauto.
Qed.

Lemma targets_of_In sts c q1 :
  In q1 (targets_of sts c) <-> exists st, In st sts /\ edge_get c (edges st) = Some q1.
Proof.
  unfold targets_of. rewrite in_flat_map. split.
  - intros [st [Hin H]]. exists st. split; [exact Hin|].
    destruct (edge_get c (edges st)) as [q|]; [|destruct H].
    destruct H as [-> | []]. reflexivity.
  - intros [st [Hin H]]. exists st. split; [exact Hin|]. rewrite H. left. reflexivity.
Qed.

(* the subset's states seen through the NFA's step relation *)
Lemma targets_move n qs sts c q1 :
  keys_ok n -> states_of n qs = Ok sts ->
  (In q1 (targets_of sts c) <-> move n qs c q1).
Proof.
  intros K E. rewrite targets_of_In. unfold move. split.
  - intros [st [Hin H]]. apply (states_of_spec n qs sts E) in Hin.
    destruct Hin as [q [Hq Hn]]. exists q. split; [exact Hq|].
    apply (sstep_nth n q st c q1 Hn). apply edge_get_In. exact H.
  - intros [q [Hq H]].
    destruct (nth_error (states n) q) as [st|] eqn:Hn.
    + exists st. split; [apply (states_of_spec n qs sts E); exists q; auto|].
      apply edge_get_NoDup.
      * unfold keys_ok in K. rewrite Forall_forall in K. apply K. eapply nth_error_In; eauto.
      * apply (sstep_nth n q st c q1 Hn). exact H.
    + apply nstep_src in H. apply nth_error_None in Hn. unfold size in H. lia.
Qed.

Lemma symbols_move n qs sts c :
  states_of n qs = Ok sts ->
  (In c (symbols_of sts) <-> exists q1, move n qs c q1).
Proof.
  intros E. rewrite symbols_of_In. unfold move. split.
  - intros [st [q' [Hin H]]]. apply (states_of_spec n qs sts E) in Hin.
    destruct Hin as [q [Hq Hn]]. exists q', q. split; [exact Hq|].
    apply (sstep_nth n q st c q' Hn). exact H.
  - intros [q1 [q [Hq H]]].
    destruct (nth_error (states n) q) as [st|] eqn:Hn.
    + exists st, q1. split; [apply (states_of_spec n qs sts E); exists q; auto|].
      apply (sstep_nth n q st c q1 Hn). exact H.
    + apply nstep_src in H. apply nth_error_None in Hn. unfold size in H. lia.
Qed.

(* ---------- the loop over symbols ---------- *)

Definition swap (p : nset * nat) : nat * nset := (snd p, fst p).

Lemma sym_loop_spec cf n sts : forall symbols ds qu es ds' qu' es',
  sym_loop cf n sts symbols ds qu es = Ok (ds', qu', es') ->
  dense ds ->
  exists new,
    ds' = new ++ ds /\ qu' = map swap new ++ qu /\ dense ds' /\
    (forall c id, In (c, id) es' ->
       In (c, id) es \/
       (In c symbols /\ exists qs', In (qs', id) ds' /\
                                    forall z, In z qs' <-> eclosure n (targets_of sts c) z)) /\
    (forall c, In c symbols -> exists id, In (c, id) es') /\
    (forall c id, In (c, id) es -> In (c, id) es').
Proof.
  induction symbols as [|c r IH]; intros ds qu es ds' qu' es' E D; cbn [sym_loop] in E.
  - inversion E; subst. exists []. repeat split; auto. intros c [].
  - destruct (epsilon_closure cf n (targets_of sts c)) as [new_set| | |] eqn:Ec; cbn [bind] in E;
      try discriminate.
    pose proof (epsilon_closure_spec cf n _ _ Ec) as Hnew.
    destruct (set_get new_set ds) as [id0|] eqn:Eg.
    + apply set_get_In in Eg.
      destruct (IH _ _ _ _ _ _ E D) as [new [-> [-> [D' [H1 [H2 H3]]]]]].
      exists new. repeat split; auto.
      * intros c' id Hin. destruct (H1 c' id Hin) as [Ha | [Hc Hx]].
        -- apply in_app_or in Ha. destruct Ha as [Ha | [Ha | []]]; [left; exact Ha|].
           inversion Ha; subst. right. split; [left; reflexivity|].
           exists new_set. split; [apply in_or_app; right; exact Eg|exact Hnew].
        -- right. split; [right; exact Hc|exact Hx].
      * intros c' [<- | Hc].
        -- exists id0. apply H3. apply in_or_app. right. left. reflexivity.
        -- apply H2. exact Hc.
      * intros c' id Hin. apply H3. apply in_or_app. left. exact Hin.
    + assert (D1 : dense ((new_set, length ds) :: ds)).
      { unfold dense in *. cbn [map snd length rev_seq]. rewrite D. reflexivity. }
      destruct (IH _ _ _ _ _ _ E D1) as [new [-> [-> [D' [H1 [H2 H3]]]]]].
      exists (new ++ [(new_set, length ds)]). rewrite <- !app_assoc. cbn [app].
      split; [reflexivity|]. split.
      { rewrite map_app. cbn [map swap fst snd]. rewrite <- app_assoc. reflexivity. }
      split; [exact D'|]. repeat split.
      * intros c' id Hin. destruct (H1 c' id Hin) as [Ha | [Hc Hx]].
        -- apply in_app_or in Ha. destruct Ha as [Ha | [Ha | []]]; [left; exact Ha|].
           inversion Ha; subst. right. split; [left; reflexivity|].
           exists new_set. split; [apply in_or_app; right; left; reflexivity|exact Hnew].
        -- right. split; [right; exact Hc|exact Hx].
      * intros c' [<- | Hc].
        -- exists (length ds). apply H3. apply in_or_app. right. left. reflexivity.
        -- apply H2. exact Hc.
      * intros c' id Hin. apply H3. apply in_or_app. left. exact Hin.
Qed.

(* ---------- the work-list loop ---------- *)

(* the row of subset qs: a transition on c leads to the subset of the states
   reachable by c then epsilons, which is not empty; no transition only if no
   state of qs has an edge on c *)
Definition row_ok (n : nfa) (ds : dstates) (qs : nset) (es : list (N * nat)) : Prop :=
  forall c, match edge_get c es with
            | Some id' => exists qs', In (qs', id') ds /\
                                      (forall z, In z qs' <-> step_set n qs c z) /\
                                      (exists z, In z qs')
            | None => forall q1, ~ move n qs c q1
            end.

Record inv (n : nfa) (ds : dstates) (tb : dtab) (qu : dqueue) : Prop := {
  inv_dense : dense ds;
  inv_qu : forall id qs, In (id, qs) qu -> In (qs, id) ds;
  inv_cover : forall qs id, In (qs, id) ds ->
                (exists qs', In (id, qs') qu) \/ (exists es, id_get id tb = Some es);
  inv_rows : forall id es, id_get id tb = Some es -> exists qs, In (qs, id) ds /\ row_ok n ds qs es;
  inv_count : length tb + length qu = length ds
}.

Lemma row_ok_mono n ds new qs es : row_ok n ds qs es -> row_ok n (new ++ ds) qs es.
Proof.
  intros H c. specialize (H c). destruct (edge_get c es) as [id'|]; [|exact H].
  destruct H as [qs' [H1 H2]]. exists qs'. split; [apply in_or_app; right; exact H1|exact H2].
Qed.

Lemma main_loop_spec cf n : keys_ok n -> forall fuel ds tb qu ds' tb',
  main_loop fuel cf n ds tb qu = Ok (ds', tb') ->
  inv n ds tb qu ->
  inv n ds' tb' [] /\ exists new, ds' = new ++ ds.
Proof.
  intros K. induction fuel as [|f IH]; intros ds tb qu ds' tb' E I.
  - destruct qu as [|[id qs] rest]; cbn in E; [|discriminate].
    inversion E; subst. split; [exact I|exists []; reflexivity].
  - destruct qu as [|[id qs] rest]; cbn [main_loop] in E.
    + inversion E; subst. split; [exact I|exists []; reflexivity].
    + destruct (states_of n qs) as [sts| | |] eqn:Es; cbn [bind] in E; try discriminate.
      destruct (sym_loop cf n sts (symbols_of sts) ds rest []) as [[[ds1 qu1] es1]| | |] eqn:El;
        cbn [bind] in E; try discriminate.
      destruct I as [I1 I2 I3 I4 I5].
      destruct (sym_loop_spec _ _ _ _ _ _ _ _ _ _ El I1) as [new [-> [-> [D1 [H1 [H2 _]]]]]].
      assert (Hqs : In (qs, id) ds) by (apply I2; left; reflexivity).
      apply IH in E.
      * destruct E as [E1 [new2 ->]]. split; [exact E1|].
        exists (new2 ++ new). rewrite app_assoc. reflexivity.
      * constructor.
        -- exact D1.
        -- intros id1 qs1 Hin. apply in_app_or in Hin. destruct Hin as [Hin | Hin].
           ++ apply in_map_iff in Hin. destruct Hin as [[a b] [Heq Hin]]. cbn in Heq.
              inversion Heq; subst. apply in_or_app. left. exact Hin.
           ++ apply in_or_app. right. apply I2. right. exact Hin.
        -- intros qs1 id1 Hin. apply in_app_or in Hin. destruct Hin as [Hin | Hin].
           ++ left. exists qs1. apply in_or_app. left.
              apply in_map_iff. exists (qs1, id1). auto.
           ++ cbn [id_get]. destruct (Nat.eqb id1 id) eqn:Eid.
              ** right. exists es1. reflexivity.
              ** destruct (I3 _ _ Hin) as [[qs' [Hq | Hq]] | Hrow].
                 --- inversion Hq; subst. rewrite Nat.eqb_refl in Eid. discriminate.
                 --- left. exists qs'. apply in_or_app. right. exact Hq.
                 --- right. exact Hrow.
        -- intros id1 es Hget. cbn [id_get] in Hget. destruct (Nat.eqb id1 id) eqn:Eid.
           ++ apply Nat.eqb_eq in Eid. subst id1. inversion Hget; subst es. clear Hget.
              exists qs. split; [apply in_or_app; right; exact Hqs|].
              intros c. destruct (edge_get c es1) as [id'|] eqn:Ee.
              ** apply edge_get_In in Ee. destruct (H1 c id' Ee) as [[] | [Hc [qs' [Hin Hset]]]].
                 exists qs'. split; [exact Hin|]. split.
                 --- intros z. rewrite Hset. unfold eclosure, step_set. split.
                     +++ intros [x [Hx Px]]. exists x. split; [|exact Px].
                         apply (targets_move n qs sts c x K Es). exact Hx.
                     +++ intros [x [Hx Px]]. exists x. split; [|exact Px].
                         apply (targets_move n qs sts c x K Es). exact Hx.
                 --- apply (symbols_move n qs sts c Es) in Hc. destruct Hc as [q1 Hm].
                     exists q1. apply Hset. exists q1. split; [|apply path_refl].
                     apply (targets_move n qs sts c q1 K Es). exact Hm.
              ** intros q1 Hm.
                 assert (Hc : In c (symbols_of sts)) by (apply (symbols_move n qs sts c Es); exists q1; exact Hm).
                 destruct (H2 c Hc) as [id' Hin]. eapply edge_get_None in Ee. apply Ee. exact Hin.
           ++ destruct (I4 _ _ Hget) as [qs1 [Hin Hrow]]. exists qs1.
              split; [apply in_or_app; right; exact Hin|apply row_ok_mono; exact Hrow].
        -- cbn [length] in *. rewrite !app_length, map_length. lia.
Qed.
