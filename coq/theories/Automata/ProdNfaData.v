(* Production NFAs as data (what `verif::dump_nfa` prints, parsed by
   `snt_harness tool c15prod`): state ids in N, edges as byte runs
   (lo, hi, target), tags numbered like the DFA dump: MatcherTag::Matcher(i) ->
   2*i, the k-th literal item -> 2*k+1.  `to_nfa` is the NFA of Automata/NFA.v. *)
From Coq Require Import List NArith Bool Arith.
From SNT Require Import Automata.Regex Automata.NFA.
Import ListNotations.
Local Open Scope N_scope.

Record nstate_data := mk_sd {
  sd_runs : list (N * N * N);
  sd_eps : list N;
  sd_tag : option (bool * N) }.

Record nfa_data := mk_nd { nd_stop : N; nd_states : list nstate_data }.

(* lo, lo+1, .., hi *)
Definition run_bytes (lo hi : N) : list N :=
  map (fun k => lo + N.of_nat k) (seq 0 (N.to_nat (hi + 1 - lo))).

Definition expand_runs (runs : list (N * N * N)) : list (N * nat) :=
  flat_map (fun r => let '(lo, hi, q) := r in
                     let t := N.to_nat q in   (* one unary number per run, shared by its bytes *)
                     map (fun c => (c, t)) (run_bytes lo hi)) runs.

Definition tag_code (t : bool * N) : N := if fst t then 2 * snd t + 1 else 2 * snd t.

Definition to_state (s : nstate_data) : nstate :=
  mkst (expand_runs (sd_runs s)) (map N.to_nat (sd_eps s)) (option_map tag_code (sd_tag s)).

(* the start state is id 0 (every constructor of the public API) *)
Definition to_nfa (d : nfa_data) : nfa :=
  mknfa 0 (N.to_nat (nd_stop d)) (map to_state (nd_states d)).
