(* Shape certificates for explicit DFAs (Automata/DfaData.v), checked by reflection.

   A *monitor* is a small deterministic machine over bytes (states = numbers
   below 63) run alongside the automaton.  A certificate V maps every DFA
   state q to a bit mask of the monitor states that may accompany q.  `closed`
   checks that V contains the start pair and is closed under every edge of
   the table; then for EVERY string w:   run w = Some q  ->  mrun w is in V(q).
   `accept_ok` checks a predicate `good q m` on all monitor states m that
   accompany an accepting state q; together they give, for all strings,
        run w = Some q -> accepting q -> good q (mrun w).
   The certificate itself is computed by an untrusted search (`search`) under
   vm_compute; only the checkers are verified. *)
From Coq Require Import List NArith PArith FMapPositive Bool Lia.
From SNT Require Import Automata.DfaData Automata.Tokenizer.
Import ListNotations.
Local Open Scope N_scope.

Definition cert := PositiveMap.t N.

Definition cmask (V : cert) (q : N) : N :=
  match PositiveMap.find (N.succ_pos q) V with Some m => m | None => 0 end.
Definition has (V : cert) (q m : N) : bool := N.testbit (cmask V q) m.
Definition cadd (V : cert) (q m : N) : cert :=
  PositiveMap.add (N.succ_pos q) (N.setbit (cmask V q) m) V.

Definition mon_bound : nat := 63.
Definition nrange (n : nat) : list N := map N.of_nat (seq 0 n).
Definition bits (mask : N) : list N := filter (N.testbit mask) (nrange mon_bound).

(* the bytes lo .. hi *)
Definition brange (lo hi : N) : list N :=
  map (fun i => lo + N.of_nat i) (seq 0 (N.to_nat (hi + 1 - lo))).

Section Cert.
  Variable d : dfa.
  Variable mstep : N -> N -> N.
  Variable m0 : N.

  Definition mrun (w : list N) : N := fold_left mstep w m0.

  Definition row_of (k : positive) : row :=
    match PositiveMap.find k (d_rows d) with Some r => r | None => [] end.

  Definition closed (V : cert) : bool :=
    has V (d_start d) m0
    && forallb
         (fun km : positive * N =>
            forallb
              (fun m =>
                 forallb
                   (fun e : N * N * N =>
                      let '(lo, hi, t) := e in
                      forallb (fun b => has V t (mstep m b)) (brange lo hi))
                   (row_of (fst km)))
              (bits (snd km)))
         (PositiveMap.elements V).

  (* `good q m` for every accepting state q and every monitor state m that may accompany it *)
  Definition accept_ok (V : cert) (good : N -> N -> bool) : bool :=
    forallb
      (fun km : positive * N =>
         let q := Pos.pred_N (fst km) in
         negb (d_accepting d q) || forallb (good q) (bits (snd km)))
      (PositiveMap.elements V).

  (* `good q m` for every state q (accepting or not) and every monitor state m that may accompany it *)
  Definition states_ok (V : cert) (good : N -> N -> bool) : bool :=
    forallb
      (fun km : positive * N => forallb (good (Pos.pred_N (fst km))) (bits (snd km)))
      (PositiveMap.elements V).

  (* untrusted search for the least certificate *)
  Fixpoint search (fuel : nat) (work : list (N * N)) (V : cert) : cert :=
    match fuel with
    | O => V
    | S f =>
        match work with
        | [] => V
        | (q, m) :: rest =>
            let succs :=
              flat_map (fun e : N * N * N =>
                          let '(lo, hi, t) := e in map (fun b => (t, mstep m b)) (brange lo hi))
                       (row_of (N.succ_pos q)) in
            let '(V', new) :=
              fold_left (fun (acc : cert * list (N * N)) (p : N * N) =>
                           let '(V1, l) := acc in
                           if has V1 (fst p) (snd p) then acc else (cadd V1 (fst p) (snd p), p :: l))
                        succs (V, []) in
            search f (new ++ rest) V'
        end
    end.

  Definition find_cert (fuel : nat) : cert :=
    search fuel [(d_start d, m0)] (cadd (PositiveMap.empty N) (d_start d) m0).
End Cert.
