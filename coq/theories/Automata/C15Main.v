(* The end-to-end statements: expression -> build -> compile -> DFA. *)
From Coq Require Import List NArith Bool Arith Lia.
From SNT Require Import Base.Outcome Automata.Regex Automata.NFA Automata.Build Automata.Compile
  Automata.PathLemmas Automata.BuildLeaves Automata.BuildProofs Automata.CompileSpec
  Automata.CompileProofs Automata.BuildKeys Automata.BuildTags Automata.CompileTotal
  Automata.TagSpec Automata.TagLaw.
Import ListNotations.

Theorem main_matches (e : regex) (fuel cf : nat) (d : dfa) :
  compile fuel cf (build e) = Ok d ->
  forall s, bytes s -> exists b, dfa_matches d s = Ok b /\ (b = true <-> matches e s).
Proof.
  intros E s Hb.
  destruct (compile_matches fuel cf (build e) d (build_keys e) E s Hb) as [b [H1 H2]].
  exists b. split; [exact H1|]. rewrite H2. apply build_accepts.
Qed.

(* nothing reachable by s: no extension of s is accepted *)
Lemma dead_no_ext n s w : (forall z, ~ RS n s z) -> ~ accepts n (s ++ w).
Proof.
  intros H P. unfold accepts in P. apply path_split in P. destruct P as [m [P1 _]].
  apply (H m). exact P1.
Qed.

Theorem main_terminal_dead (e : regex) (fuel cf : nat) (d : dfa) :
  compile fuel cf (build e) = Ok d ->
  forall s, bytes s ->
    exists r, transition_many d (dstart d) s = Ok r /\
      match r with
      | None => forall w, ~ matches e (s ++ w)
      | Some k => exists i, info d k = Ok i /\
                    (accepting i = true <-> matches e s) /\
                    (terminal i = true -> forall c w, ~ matches e (s ++ c :: w))
      end.
Proof.
  intros E s Hb.
  destruct (compile_correct fuel cf (build e) d (build_keys e) E s Hb) as [r [Hr Hm]].
  exists r. split; [exact Hr|]. destruct r as [k|].
  - destruct Hm as [i [Hi [_ [Hacc [_ Hterm]]]]]. exists i. split; [exact Hi|]. split.
    + rewrite Hacc. apply build_accepts.
    + intros Ht c w Hmatch. destruct (Hterm Ht) as [_ Hno].
      apply build_accepts in Hmatch. apply (Hno c w (stop (build e))). exact Hmatch.
  - intros w Hmatch. apply build_accepts in Hmatch. apply (dead_no_ext _ _ _ Hm Hmatch).
Qed.

(* tags reported after a string = tags of the alternatives matching it *)
Theorem main_tags (e : regex) (fuel cf : nat) (d : dfa) :
  tagwf e = true -> compile fuel cf (build e) = Ok d ->
  forall s k, bytes s -> transition_many d (dstart d) s = Ok (Some k) ->
    exists i, info d k = Ok i /\ forall t, In t (dtags i) <-> tag_spec e s t.
Proof.
  intros Hwf E s k Hb Hr.
  destruct (compile_correct fuel cf (build e) d (build_keys e) E s Hb) as [r [Hr' Hm]].
  rewrite Hr in Hr'. inversion Hr'; subst r.
  destruct Hm as [i [Hi [_ [_ [Htags _]]]]]. exists i. split; [exact Hi|].
  intros t. rewrite Htags. apply (tags_correct e Hwf s t).
Qed.

(* compile returns for every built NFA (termination and panic freedom of the model) *)
Theorem main_total (e : regex) : exists fuel cf d, compile fuel cf (build e) = Ok d.
Proof. apply compile_total; [apply build_wf|apply build_keys]. Qed.

(* unconditional form of the property *)
Theorem main_unconditional (e : regex) :
  exists fuel cf d, compile fuel cf (build e) = Ok d /\
    forall s, bytes s -> exists b, dfa_matches d s = Ok b /\ (b = true <-> matches e s).
Proof.
  destruct (main_total e) as [fuel [cf [d E]]]. exists fuel, cf, d. split; [exact E|].
  apply (main_matches e fuel cf d E).
Qed.

(* general law (every expression, tags anywhere): the tags reported after a
   string are the tags of the NFA states of `build e` reachable by it *)
Theorem main_tags_reachable (e : regex) (fuel cf : nat) (d : dfa) :
  compile fuel cf (build e) = Ok d ->
  forall s k, bytes s -> transition_many d (dstart d) s = Ok (Some k) ->
    exists i, info d k = Ok i /\
      forall t, In t (dtags i) <-> exists q, RS (build e) s q /\ has_tag (build e) q t.
Proof.
  intros E s k Hb Hr.
  destruct (compile_correct fuel cf (build e) d (build_keys e) E s Hb) as [r [Hr' Hm]].
  rewrite Hr in Hr'. inversion Hr'; subst r.
  destruct Hm as [i [Hi [_ [_ [Htags _]]]]]. exists i. split; [exact Hi|exact Htags].
Qed.

(* the general expression-level tag law: every expression, tags in any position *)
Theorem main_tags_general (e : regex) (fuel cf : nat) (d : dfa) :
  compile fuel cf (build e) = Ok d ->
  forall s k, bytes s -> transition_many d (dstart d) s = Ok (Some k) ->
    exists i, info d k = Ok i /\ forall t, In t (dtags i) <-> tag_law_spec e s t.
Proof.
  intros E s k Hb Hr.
  destruct (main_tags_reachable e fuel cf d E s k Hb Hr) as [i [Hi Ht]].
  exists i. split; [exact Hi|]. intros t. rewrite Ht. apply (tag_law e s t).
Qed.

(* on the tagged-choice shape the general specification is the "tags of the matching
   alternatives" reading (both characterise the tags reachable in build e) *)
Lemma tex_tagalts (e : regex) : tagwf e = true ->
  forall s t, tag_law_spec e s t <-> tag_spec e s t.
Proof.
  intros Hwf s t. rewrite <- (tag_law e s t). apply (tags_correct e Hwf s t).
Qed.
