(* Expression-level specification of the tags reported after a string, for tags in
   ARBITRARY positions of an expression.

   A tag sits on the stop state of the automaton it was put on.  Which operators
   keep the stop state of an operand decides where tags survive or are
   overwritten:  `some` (Plus) and the LAST operand of `sequence` share their
   stop state with the result; `choice`, `optional`, `many` allocate a fresh,
   untagged stop state; `tag_stop_state` overwrites the tag of the stop state.

     stoptag e    the tag on the stop state of build e, if any
     RN e s t     tag t sits on a state other than the stop state that is
                  reachable by s
     R e s t      tag t is reported after s:  RN e s t, or t = stoptag e and e
                  matches s

   tex e is the executable form: a list of (tag, expression) such that t is
   reported after s iff some (t, r) in tex e has r matching s
   (TagSpecProofs.tex_correct).  For the tagged-choice shape, tex = tagalts. *)
From Coq Require Import List NArith Bool.
From SNT Require Import Automata.Regex.
Import ListNotations.

Fixpoint stoptag (e : regex) : option N :=
  match e with
  | Seq es =>
      (fix last (es : list regex) : option N :=
         match es with
         | [] => None
         | e :: r => match r with [] => stoptag e | _ :: _ => last r end
         end) es
  | Plus e => stoptag e
  | Tag t _ => Some t
  | _ => None
  end.

Fixpoint stoptag_last (es : list regex) : option N :=
  match es with
  | [] => None
  | e :: r => match r with [] => stoptag e | _ :: _ => stoptag_last r end
  end.

Fixpoint RN (e : regex) (s : list N) (t : N) {struct e} : Prop :=
  match e with
  | Seq es =>
      (fix go (es : list regex) (s : list N) {struct es} : Prop :=
         match es with
         | [] => False
         | e :: r =>
             match r with
             | [] => RN e s t
             | _ :: _ =>
                 (RN e s t \/ (stoptag e = Some t /\ matches e s)) \/
                 exists s1 s2, s = s1 ++ s2 /\ matches e s1 /\ go r s2
             end
         end) es s
  | Choice es =>
      (fix go (es : list regex) {struct es} : Prop :=
         match es with
         | [] => False
         | e :: r => (RN e s t \/ (stoptag e = Some t /\ matches e s)) \/ go r
         end) es
  | Plus e => exists s1 s2, s = s1 ++ s2 /\ star (matches e) s1 /\ RN e s2 t
  | Opt e => RN e s t \/ (stoptag e = Some t /\ matches e s)
  | Many e => exists s1 s2, s = s1 ++ s2 /\ star (matches e) s1 /\
                            (RN e s2 t \/ (stoptag e = Some t /\ matches e s2))
  | Tag _ e => RN e s t
  | _ => False
  end.

Definition R (e : regex) (s : list N) (t : N) : Prop :=
  RN e s t \/ (stoptag e = Some t /\ matches e s).

(* the nested recursions, named *)
Fixpoint RN_seq (es : list regex) (s : list N) (t : N) : Prop :=
  match es with
  | [] => False
  | e :: r =>
      match r with
      | [] => RN e s t
      | _ :: _ => R e s t \/ exists s1 s2, s = s1 ++ s2 /\ matches e s1 /\ RN_seq r s2 t
      end
  end.

Fixpoint R_any (es : list regex) (s : list N) (t : N) : Prop :=
  match es with
  | [] => False
  | e :: r => R e s t \/ R_any r s t
  end.

(* ---------- executable form ---------- *)

Definition stop_part (e : regex) : list (N * regex) :=
  match stoptag e with Some t => [(t, e)] | None => [] end.

Definition prefix_with (p : regex) (l : list (N * regex)) : list (N * regex) :=
  map (fun a => (fst a, Seq [p; snd a])) l.

Fixpoint texN (e : regex) : list (N * regex) :=
  match e with
  | Seq es =>
      (fix go (es : list regex) : list (N * regex) :=
         match es with
         | [] => []
         | e :: r =>
             match r with
             | [] => texN e
             | _ :: _ => (texN e ++ stop_part e) ++ prefix_with e (go r)
             end
         end) es
  | Choice es => flat_map (fun e => texN e ++ stop_part e) es
  | Plus e => prefix_with (Many e) (texN e)
  | Opt e => texN e ++ stop_part e
  | Many e => prefix_with (Many e) (texN e ++ stop_part e)
  | Tag _ e => texN e
  | _ => []
  end.

Definition tex (e : regex) : list (N * regex) := texN e ++ stop_part e.

Fixpoint texN_seq (es : list regex) : list (N * regex) :=
  match es with
  | [] => []
  | e :: r =>
      match r with
      | [] => texN e
      | _ :: _ => tex e ++ prefix_with e (texN_seq r)
      end
  end.

(* tag t is reported after s, as computed from the expression *)
Definition tag_law_spec (e : regex) (s : list N) (t : N) : Prop :=
  exists r, In (t, r) (tex e) /\ matches r s.
