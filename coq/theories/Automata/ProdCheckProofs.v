(* Soundness of the certificate checker Automata/ProdCheck.v:
   check nd dd subsets fuel = true  implies that the dumped DFA, run on any byte
   string, is dead exactly when no state of the dumped NFA is reachable by the
   string and otherwise sits in a state whose accepting flag, tags and terminal
   flag are those of the set of reachable NFA states (the statement of
   C15_compile, for the real instances). *)
From Coq Require Import List NArith PArith FMapPositive Bool Arith Lia.
From SNT Require Import Automata.Regex Automata.NFA Automata.PathLemmas Automata.BuildLeaves
  Automata.CompileSpec.
From SNT Require Automata.CompileProofs.
From SNT Require Import Automata.DfaData Automata.IndexLemmas Automata.ProdNfaData Automata.ProdCheck.
Import ListNotations.
Local Open Scope N_scope.

Lemma memN_In a l : memN a l = true <-> In a l.
Proof.
  unfold memN. rewrite existsb_exists. split.
  - intros [x [Hin H]]. apply N.eqb_eq in H. subst. exact Hin.
  - intros H. exists a. split; [exact H|apply N.eqb_refl].
Qed.

Definition natset (qs : list N) : list nat := map N.to_nat qs.

Lemma natset_In q qs : In (N.to_nat q) (natset qs) <-> In q qs.
Proof.
  unfold natset. rewrite in_map_iff. split.
  - intros [x [H Hin]]. apply N2Nat.inj in H. subst. exact Hin.
  - intros H. exists q. auto.
Qed.

Lemma natset_In' z qs : In z (natset qs) <-> In (N.of_nat z) qs.
Proof. rewrite <- natset_In, Nat2N.id. reflexivity. Qed.

Lemma subset_of_In T qs : subset_of T qs = true -> forall x, In x T -> In x qs.
Proof.
  unfold subset_of. rewrite forallb_forall. intros H x Hx. apply memN_In. apply H. exact Hx.
Qed.

(* ---------- the NFA seen through the data ---------- *)

Section Sound.
  Variable nd : nfa_data.
  Variable dd : dfa_data.
  Variable subsets : list (list N).
  Variable fcf : nat.

  Let n : nfa := to_nfa nd.
  Let idx := sd_index nd.
  Let D : dfa := DfaData.compile dd.

  Lemma lookup_nth q : lookup idx q = nth_error (nd_states nd) (N.to_nat q).
  Proof. unfold lookup, idx, sd_index. apply index0_find. Qed.

  Lemma state_nth q :
    nth_error (states n) (N.to_nat q) = option_map to_state (lookup idx q).
  Proof. rewrite lookup_nth. unfold n, to_nfa. cbn [states]. apply nth_error_map. Qed.

  Lemma step_has_state x l y : nstep n x l y -> exists st, nth_error (states n) x = Some st.
  Proof.
    intros H. destruct (nth_error (states n) x) as [st|] eqn:E; [exists st; reflexivity|].
    apply nstep_src in H. apply nth_error_None in E. unfold size in H. lia.
  Qed.

  Lemma estep_data q y :
    estep n (N.to_nat q) y <-> exists sd e, lookup idx q = Some sd /\ In e (sd_eps sd) /\ y = N.to_nat e.
  Proof.
    split.
    - intros H. destruct (step_has_state (N.to_nat q) None y H) as [st Hst].
      pose proof Hst as Hst'. rewrite state_nth in Hst'.
      destruct (lookup idx q) as [sd|] eqn:El; cbn in Hst'; [|discriminate].
      inversion Hst'; subst st. apply (estep_nth n _ _ y Hst) in H. cbn [to_state eps] in H.
      apply in_map_iff in H. destruct H as [e [<- Hin]]. exists sd, e. auto.
    - intros [sd [e [El [Hin ->]]]].
      assert (Hst : nth_error (states n) (N.to_nat q) = Some (to_state sd)) by (rewrite state_nth, El; reflexivity).
      apply (estep_nth n _ _ _ Hst). cbn [to_state eps]. apply in_map. exact Hin.
  Qed.

  Lemma run_bytes_In lo hi c : In c (run_bytes lo hi) <-> lo <= c <= hi.
  Proof.
    unfold run_bytes. rewrite in_map_iff. split.
    - intros [k [<- Hk]]. apply in_seq in Hk. lia.
    - intros H. exists (N.to_nat (c - lo)). split; [lia|]. apply in_seq. lia.
  Qed.

  Lemma expand_runs_In runs c y :
    In (c, y) (expand_runs runs) <-> exists t, In t (run_targets runs c) /\ y = N.to_nat t.
  Proof.
    unfold expand_runs, run_targets. rewrite in_flat_map. split.
    - intros [[[lo hi] t] [Hr Hin]]. apply in_map_iff in Hin. destruct Hin as [c0 [Heq Hc]].
      inversion Heq; subst c0 y. apply run_bytes_In in Hc.
      exists t. split; [|reflexivity]. apply in_map_iff. exists (lo, hi, t). split; [reflexivity|].
      apply filter_In. split; [exact Hr|]. cbn [fst snd].
      apply andb_true_iff. split; apply N.leb_le; lia.
    - intros [t [Hin ->]]. apply in_map_iff in Hin. destruct Hin as [[[lo hi] t0] [Heq Hf]].
      cbn [snd] in Heq. subst t0. apply filter_In in Hf. destruct Hf as [Hr Hb]. cbn [fst snd] in Hb.
      apply andb_true_iff in Hb. destruct Hb as [H1 H2]. apply N.leb_le in H1. apply N.leb_le in H2.
      exists (lo, hi, t). split; [exact Hr|]. apply in_map_iff. exists c. split; [reflexivity|].
      apply run_bytes_In. lia.
  Qed.

  Lemma sstep_data q c y :
    nstep n (N.to_nat q) (Some c) y <->
    exists sd t, lookup idx q = Some sd /\ In t (run_targets (sd_runs sd) c) /\ y = N.to_nat t.
  Proof.
    split.
    - intros H. destruct (step_has_state _ _ _ H) as [st Hst].
      pose proof Hst as Hst'. rewrite state_nth in Hst'.
      destruct (lookup idx q) as [sd|] eqn:El; cbn in Hst'; [|discriminate].
      inversion Hst'; subst st. apply (sstep_nth n _ _ c y Hst) in H. cbn [to_state edges] in H.
      apply expand_runs_In in H. destruct H as [t [Hin ->]]. exists sd, t. auto.
    - intros [sd [t [El [Hin ->]]]].
      assert (Hst : nth_error (states n) (N.to_nat q) = Some (to_state sd)) by (rewrite state_nth, El; reflexivity).
      apply (sstep_nth n _ _ _ _ Hst). cbn [to_state edges]. apply expand_runs_In. exists t. auto.
  Qed.

  Lemma has_tag_data q t :
    has_tag n (N.to_nat q) t <-> exists sd tg, lookup idx q = Some sd /\ sd_tag sd = Some tg /\ t = tag_code tg.
  Proof.
    unfold has_tag. rewrite state_nth. split.
    - intros [st [Hst Ht]]. destruct (lookup idx q) as [sd|]; cbn in Hst; [|discriminate].
      inversion Hst; subst st. cbn [to_state NFA.tag] in Ht.
      destruct (sd_tag sd) as [tg|] eqn:Et; cbn in Ht; [|discriminate]. inversion Ht.
      exists sd, tg. split; [reflexivity|]. split; [exact Et|first [reflexivity | symmetry; assumption]].
    - intros [sd [tg [-> [Htg ->]]]]. cbn. exists (to_state sd). split; [reflexivity|].
      cbn [to_state NFA.tag]. rewrite Htg. reflexivity.
  Qed.

  (* ---------- the pieces of the check ---------- *)

  Lemma targets_move qs c y :
    In y (natset (targets idx qs c)) <-> move n (natset qs) c y.
  Proof.
    unfold move. rewrite natset_In'. unfold targets. rewrite in_flat_map. split.
    - intros [q [Hq Hin]]. destruct (lookup idx q) as [sd|] eqn:El; [|destruct Hin].
      exists (N.to_nat q). split; [apply natset_In; exact Hq|].
      apply sstep_data. exists sd, (N.of_nat y). rewrite Nat2N.id. auto.
    - intros [x [Hx H]]. apply natset_In' in Hx.
      rewrite <- (Nat2N.id x) in H. apply sstep_data in H. destruct H as [sd [t [El [Hin ->]]]].
      exists (N.of_nat x). split; [exact Hx|]. rewrite El, N2Nat.id. exact Hin.
  Qed.

  Lemma closed_sound qs : closed idx qs = true ->
    forall x y, In x (natset qs) -> estep n x y -> In y (natset qs).
  Proof.
    unfold closed. rewrite forallb_forall. intros H x y Hx Hs.
    apply natset_In' in Hx. specialize (H _ Hx).
    rewrite <- (Nat2N.id x) in Hs. apply estep_data in Hs. destruct Hs as [sd [e [El [Hin ->]]]].
    rewrite El in H. rewrite forallb_forall in H. apply natset_In. apply memN_In. apply H. exact Hin.
  Qed.

  Lemma fc_sound (T : list N) : forall fuel out queue,
    (forall z, PositiveMap.find (N.succ_pos z) out <> None -> eclosure n (natset T) (N.to_nat z)) ->
    (forall z, In z queue -> eclosure n (natset T) (N.to_nat z)) ->
    forall z, PositiveMap.find (N.succ_pos z) (fc idx fuel out queue) <> None ->
              eclosure n (natset T) (N.to_nat z).
  Proof.
    induction fuel as [|f IH]; intros out queue Ho Hq; cbn [fc]; [exact Ho|].
    destruct queue as [|q r]; [exact Ho|].
    destruct (PositiveMap.find (N.succ_pos q) out) eqn:Ef.
    - apply IH; [exact Ho|]. intros z Hz. apply Hq. right. exact Hz.
    - apply IH.
      + intros z Hz. destruct (N.eq_dec z q) as [-> | Hne].
        * apply Hq. left. reflexivity.
        * apply Ho. rewrite PositiveMap.gso in Hz; [exact Hz|].
          intros H. apply succ_pos_inj in H. contradiction.
      + intros z Hz.
        assert (Hr : In z r -> eclosure n (natset T) (N.to_nat z)) by (intros Hin; apply Hq; right; exact Hin).
        destruct (lookup idx q) as [sd|] eqn:El; [|apply Hr; exact Hz].
        apply in_app_or in Hz. destruct Hz as [Hz | Hz]; [|apply Hr; exact Hz].
        destruct (Hq q (or_introl eq_refl)) as [x [Hx P]]. exists x. split; [exact Hx|].
        unfold ereach in *. rewrite <- (app_nil_r []). eapply path_app; [exact P|].
        apply path_one_eps. apply estep_data. exists sd, z. auto.
  Qed.

  Lemma closure_eq T qs' :
    subset_of T qs' = true -> closed idx qs' = true ->
    covered qs' (fc idx fcf (PositiveMap.empty unit) T) = true ->
    forall z, In z (natset qs') <-> eclosure n (natset T) z.
  Proof.
    intros Hsub Hcl Hcov z. split.
    - intros Hz. apply natset_In' in Hz. rewrite <- (Nat2N.id z).
      apply (fc_sound T fcf (PositiveMap.empty unit) T).
      + intros z0 H. rewrite PositiveMap.gempty in H. congruence.
      + intros z0 Hz0. exists (N.to_nat z0). split; [apply natset_In; exact Hz0|apply path_refl].
      + unfold covered in Hcov. rewrite forallb_forall in Hcov. specialize (Hcov _ Hz).
        destruct (PositiveMap.find (N.succ_pos (N.of_nat z)) (fc idx fcf (PositiveMap.empty unit) T));
          [discriminate|discriminate].
    - intros [x [Hx P]].
      apply (ereach_closed n (fun a => In a (natset qs')) x z); [|  |exact P].
      + intros a b Ha Hs. apply (closed_sound qs' Hcl a b Ha Hs).
      + apply natset_In' in Hx. apply natset_In'. apply (subset_of_In T qs' Hsub). exact Hx.
  Qed.

  Lemma step_set_closure qs c z :
    step_set n (natset qs) c z <-> eclosure n (natset (targets idx qs c)) z.
  Proof.
    unfold step_set, eclosure. split.
    - intros [q1 [Hm P]]. exists q1. split; [apply targets_move; exact Hm|exact P].
    - intros [x [Hx P]]. exists x. split; [apply targets_move; exact Hx|exact P].
  Qed.

  (* ---------- what `check` establishes ---------- *)

  Hypothesis Hcheck : check nd dd subsets fcf = true.

  Lemma check_parts :
    length (dd_rows dd) = length (dd_infos dd) /\
    length (dd_rows dd) = length subsets /\
    check_start dd subsets fcf idx = true /\
    forall k, (k < length (dd_rows dd))%nat -> check_state nd dd subsets fcf idx k = true.
  Proof.
    unfold check, check_with in Hcheck. fold idx in Hcheck.
    apply andb_true_iff in Hcheck. destruct Hcheck as [H123 H4].
    apply andb_true_iff in H123. destruct H123 as [H12 H3].
    apply andb_true_iff in H12. destruct H12 as [H1 H2].
    apply Nat.eqb_eq in H1. apply Nat.eqb_eq in H2.
    repeat split; auto.
    intros k Hk. rewrite forallb_forall in H4. apply H4. apply in_seq. lia.
  Qed.

  Lemma state_facts k qs : sub subsets k = Some qs ->
    exists r i, nth_error (dd_rows dd) (N.to_nat k) = Some r /\
                nth_error (dd_infos dd) (N.to_nat k) = Some i /\
                state_ok nd subsets fcf idx qs r i = true.
  Proof.
    intros Hs. unfold sub in Hs. destruct check_parts as [L1 [L2 [_ H]]].
    assert (Hk : (N.to_nat k < length (dd_rows dd))%nat).
    { rewrite L2. apply nth_error_Some. congruence. }
    specialize (H _ Hk). unfold check_state in H. rewrite Hs in H.
    destruct (nth_error (dd_rows dd) (N.to_nat k)) as [r|]; [|discriminate].
    destruct (nth_error (dd_infos dd) (N.to_nat k)) as [i|]; [|discriminate].
    exists r, i. auto.
  Qed.

  Lemma sub_closed k qs : sub subsets k = Some qs -> closed idx qs = true.
  Proof.
    intros Hs. destruct (state_facts k qs Hs) as [r [i [_ [_ H]]]].
    unfold state_ok in H. apply andb_true_iff in H. destruct H as [H _].
    apply andb_true_iff in H. apply H.
  Qed.

  Lemma delta_nth k c :
    d_delta D k c = match nth_error (dd_rows dd) (N.to_nat k) with
                    | Some r => row_find r c
                    | None => None
                    end.
  Proof. unfold d_delta, D, DfaData.compile. cbn [d_rows]. rewrite index0_find. reflexivity. Qed.

  Lemma info_nth k :
    d_info D k = match nth_error (dd_infos dd) (N.to_nat k) with
                 | Some i => i
                 | None => (false, false, [])
                 end.
  Proof. unfold d_info, D, DfaData.compile. cbn [d_infos]. rewrite index0_find. reflexivity. Qed.

  (* one transition *)
  Lemma delta_facts k qs c : sub subsets k = Some qs -> c < 256 ->
    match d_delta D k c with
    | Some k' => exists qs', sub subsets k' = Some qs' /\
                             (forall z, In z (natset qs') <-> step_set n (natset qs) c z) /\
                             (exists z, In z (natset qs'))
    | None => forall q1, ~ move n (natset qs) c q1
    end.
  Proof.
    intros Hs Hc. destruct (state_facts k qs Hs) as [r [i [Hr [_ H]]]].
    rewrite delta_nth, Hr. unfold state_ok in H. apply andb_true_iff in H. destruct H as [_ Hb].
    rewrite forallb_forall in Hb. specialize (Hb c (proj2 (all_bytes_In c) Hc)).
    unfold byte_ok in Hb. destruct (row_find r c) as [k'|].
    - apply andb_true_iff in Hb. destruct Hb as [Hne Hb].
      destruct (sub subsets k') as [qs'|] eqn:Hs'; [|discriminate].
      apply andb_true_iff in Hb. destruct Hb as [Hsub Hcov].
      exists qs'. split; [reflexivity|].
      pose proof (closure_eq _ _ Hsub (sub_closed k' qs' Hs') Hcov) as Heq.
      split.
      + intros z. rewrite Heq. symmetry. apply step_set_closure.
      + destruct (targets idx qs c) as [|t T'] eqn:ET; [discriminate|].
        exists (N.to_nat t). apply natset_In. apply (subset_of_In _ _ Hsub). left. reflexivity.
    - intros q1 Hm. apply targets_move in Hm.
      destruct (targets idx qs c); [destruct Hm|discriminate].
  Qed.

  Definition bytes (s : list N) : Prop := forall c, In c s -> c < 256.

  Lemma run_sound : forall s k qs s0,
    sub subsets k = Some qs -> (forall z, In z (natset qs) <-> RS n s0 z) -> (exists z, In z (natset qs)) ->
    bytes s ->
    match d_run D k s with
    | None => forall z, ~ RS n (s0 ++ s) z
    | Some k' => exists qs', sub subsets k' = Some qs' /\
                             (forall z, In z (natset qs') <-> RS n (s0 ++ s) z) /\
                             (exists z, In z (natset qs'))
    end.
  Proof.
    induction s as [|c s IH]; intros k qs s0 Hs Hqs Hne Hb; cbn [d_run].
    - exists qs. rewrite app_nil_r. auto.
    - pose proof (delta_facts k qs c Hs (Hb c (or_introl eq_refl))) as Hd.
      destruct (d_delta D k c) as [k'|].
      + destruct Hd as [qs' [Hs' [Hstep Hne']]].
        specialize (IH k' qs' (s0 ++ [c]) Hs'
                       (CompileProofs.step_set_RS n (natset qs) s0 c (natset qs') Hqs Hstep) Hne'
                       (fun c' H => Hb c' (or_intror H))).
        rewrite <- app_assoc in IH. exact IH.
      + intros z. apply (CompileProofs.no_move_dead n (natset qs) s0 c s z Hqs Hd).
  Qed.

  Lemma tag_code_inj a b : tag_code a = tag_code b -> a = b.
  Proof.
    destruct a as [[|] x], b as [[|] y]; unfold tag_code; cbn [fst snd]; intros H;
      try (f_equal; lia); exfalso; lia.
  Qed.

  Lemma tags_in_sound qs t :
    In t (tags_in idx qs) <-> exists q, In q (natset qs) /\ has_tag n q t.
  Proof.
    unfold tags_in. rewrite in_flat_map. split.
    - intros [q [Hq Hin]]. destruct (lookup idx q) as [sd|] eqn:El; [|destruct Hin].
      destruct (sd_tag sd) as [tg|] eqn:Et; [|destruct Hin]. destruct Hin as [<- | []].
      exists (N.to_nat q). split; [apply natset_In; exact Hq|]. apply has_tag_data. exists sd, tg. auto.
    - intros [x [Hx Ht]]. apply natset_In' in Hx. rewrite <- (Nat2N.id x) in Ht.
      apply has_tag_data in Ht. destruct Ht as [sd [tg [El [Et ->]]]].
      exists (N.of_nat x). split; [exact Hx|]. rewrite El, Et. left. reflexivity.
  Qed.

  Theorem check_sound : forall s, bytes s ->
    match d_run D (d_start D) s with
    | None => forall z, ~ RS n s z
    | Some k =>
        (exists z, RS n s z) /\
        (d_accepting D k = true <-> RS n s (stop n)) /\
        (forall t, In t (d_tags D k) <-> exists q, RS n s q /\ has_tag n q (tag_code t)) /\
        (d_terminal D k = true ->
           (forall c, c < 256 -> d_delta D k c = None) /\
           (forall c w z, c < 256 -> ~ RS n (s ++ c :: w) z))
    end.
  Proof.
    intros s Hb. destruct check_parts as [_ [_ [Hstart _]]].
    unfold check_start in Hstart.
    destruct (sub subsets (dd_start dd)) as [qs0|] eqn:Hs0; [|discriminate].
    apply andb_true_iff in Hstart. destruct Hstart as [Hmem Hcov].
    assert (H0 : forall z, In z (natset qs0) <-> RS n [] z).
    { intros z. rewrite (closure_eq [0] qs0); [| |apply (sub_closed _ _ Hs0)|exact Hcov].
      - unfold eclosure, RS, ereach. cbn [natset map N.to_nat start n to_nfa]. split.
        + intros [x [[<- | []] P]]. exact P.
        + intros P. exists O. split; [left; reflexivity|exact P].
      - unfold subset_of. cbn [forallb]. rewrite Hmem. reflexivity. }
    assert (Hne0 : exists z, In z (natset qs0)).
    { exists O. apply (natset_In 0). apply memN_In. exact Hmem. }
    pose proof (run_sound s (dd_start dd) qs0 [] Hs0 H0 Hne0 Hb) as Hrun. cbn [app] in Hrun.
    change (d_start D) with (dd_start dd).
    destruct (d_run D (dd_start dd) s) as [k|]; [|exact Hrun].
    destruct Hrun as [qs [Hs [Hqs Hne]]].
    destruct (state_facts k qs Hs) as [r [i [Hr [Hi Hok]]]].
    unfold state_ok in Hok. apply andb_true_iff in Hok. destruct Hok as [Hok Hbytes].
    apply andb_true_iff in Hok. destruct Hok as [_ Hinfo].
    unfold info_ok in Hinfo.
    apply andb_true_iff in Hinfo. destruct Hinfo as [Hinfo Hterm].
    apply andb_true_iff in Hinfo. destruct Hinfo as [Hinfo Ht2].
    apply andb_true_iff in Hinfo. destruct Hinfo as [Hacc Ht1].
    split; [destruct Hne as [z Hz]; exists z; apply Hqs; exact Hz|].
    split; [|split].
    - unfold d_accepting. rewrite info_nth, Hi. apply Bool.eqb_prop in Hacc. rewrite Hacc.
      rewrite memN_In, <- Hqs. unfold n, to_nfa. cbn [stop]. symmetry. apply natset_In.
    - intros t. unfold d_tags. rewrite info_nth, Hi. split.
      + intros Hin. assert (Hc : In (tag_code t) (tags_in idx qs)).
        { apply (subset_of_In _ _ Ht1). apply in_map. exact Hin. }
        apply tags_in_sound in Hc. destruct Hc as [q [Hq Ht]]. exists q. split; [apply Hqs; exact Hq|exact Ht].
      + intros [q [Hq Ht]]. assert (Hc : In (tag_code t) (tags_in idx qs)).
        { apply tags_in_sound. exists q. split; [apply Hqs; exact Hq|exact Ht]. }
        apply (subset_of_In _ _ Ht2) in Hc. apply in_map_iff in Hc. destruct Hc as [t' [Heq Hin]].
        apply tag_code_inj in Heq. subst t'. exact Hin.
    - unfold d_terminal. rewrite info_nth, Hi. intros Hterm'. rewrite Hterm' in Hterm. cbn [negb orb] in Hterm.
      destruct r as [|e r']; [|discriminate].
      assert (Hnone : forall c, d_delta D k c = None) by (intros c; rewrite delta_nth, Hr; reflexivity).
      split; [intros c _; apply Hnone|].
      intros c w z Hc. pose proof (delta_facts k qs c Hs Hc) as Hd. rewrite Hnone in Hd.
      apply (CompileProofs.no_move_dead n (natset qs) s c w z Hqs Hd).
  Qed.
End Sound.
