(* sequence: operands merged from id 0, stop_i --eps--> start_{i+1} added in
   place.  A path from the first start to the last stop crosses every bridge
   exactly once and in order, whatever loops the operands contain. *)
From Coq Require Import List NArith Bool Arith Lia.
From SNT Require Import Automata.Regex Automata.NFA Automata.PathLemmas Automata.BuildLeaves
  Automata.BuildOps.
Import ListNotations.

Fixpoint seq_lang (nfas : list nfa) (s : list N) : Prop :=
  match nfas with
  | [] => s = []
  | n :: r => exists s1 s2, s = s1 ++ s2 /\ accepts n s1 /\ seq_lang r s2
  end.

Definition seq_states (nfas : list nfa) (o : nat) : list nstate :=
  bridge o (snd (merge_states nfas o)) (fst (merge_states nfas o)).

Definition seq_stop (nfas : list nfa) (o : nat) : nat :=
  snd (last (snd (merge_states nfas o)) (0, 0)).

Lemma bridge_app es : forall o a ss,
  (forall f t, In (f, t) es -> o + length a <= t) ->
  bridge o es (a ++ ss) = a ++ bridge (o + length a) es ss.
Proof.
  induction es as [|[x from] es' IH]; intros o a ss Hge; [reflexivity|].
  destruct es' as [|[to t2] r]; [reflexivity|].
  change (bridge o ((x, from) :: (to, t2) :: r) (a ++ ss))
    with (bridge o ((to, t2) :: r) (update (a ++ ss) (from - o) (add_eps to))).
  change (bridge (o + length a) ((x, from) :: (to, t2) :: r) ss)
    with (bridge (o + length a) ((to, t2) :: r) (update ss (from - (o + length a)) (add_eps to))).
  assert (Hf : o + length a <= from) by (apply (Hge x from); left; reflexivity).
  rewrite update_app_r by lia.
  replace (from - o - length a) with (from - (o + length a)) by lia.
  apply IH. intros f t H. apply (Hge f t). right. exact H.
Qed.

Lemma seq_states_one n o : seq_states [n] o = map (shift_state o) (states n) ++ [].
Proof. reflexivity. Qed.

Lemma seq_stop_one n o : seq_stop [n] o = o + stop n.
Proof. reflexivity. Qed.

Lemma seq_stop_cons n1 n2 r o : seq_stop (n1 :: n2 :: r) o = seq_stop (n2 :: r) (o + size n1).
Proof.
  unfold seq_stop, size. cbn [merge_states].
  destruct (merge_states r (o + length (states n1) + length (states n2))) as [ss es].
  cbn [snd]. reflexivity.
Qed.

Lemma seq_states_cons n1 n2 r o : stop n1 < size n1 ->
  seq_states (n1 :: n2 :: r) o =
  update (map (shift_state o) (states n1)) (stop n1) (add_eps (o + size n1 + start n2))
  ++ seq_states (n2 :: r) (o + size n1).
Proof.
  intros Hs. unfold seq_states, size in *.
  pose proof (merge_ends (n2 :: r) (o + length (states n1))) as Hends.
  assert (Hge : forall f t, In (f, t) (snd (merge_states (n2 :: r) (o + length (states n1)))) ->
                            o + length (states n1) <= t).
  { intros f t H. rewrite merge_ends in H. apply in_map_iff in H.
    destruct H as [[oi ni] [Heq Hin]]. cbn [fst snd] in Heq. inversion Heq; subst.
    apply comps_range in Hin. lia. }
  cbn [merge_states] in *.
  destruct (merge_states r (o + length (states n1) + length (states n2))) as [ss es].
  cbn [fst snd] in *.
  change (bridge o ((o + start n1, o + stop n1)
                      :: (o + length (states n1) + start n2, o + length (states n1) + stop n2) :: es)
                 (map (shift_state o) (states n1) ++ map (shift_state (o + length (states n1))) (states n2) ++ ss))
    with (bridge o ((o + length (states n1) + start n2, o + length (states n1) + stop n2) :: es)
                 (update (map (shift_state o) (states n1) ++ map (shift_state (o + length (states n1))) (states n2) ++ ss)
                         (o + stop n1 - o) (add_eps (o + length (states n1) + start n2)))).
  replace (o + stop n1 - o) with (stop n1) by lia.
  rewrite update_app_l by (rewrite map_length; exact Hs).
  rewrite bridge_app.
  - rewrite update_length, map_length. reflexivity.
  - rewrite update_length, map_length. exact Hge.
Qed.

(* the first operand with its bridge *)
Lemma head_step o n b q l q' : stop n < size n ->
  (gstep o (update (map (shift_state o) (states n)) (stop n) (add_eps b)) q l q' <->
   shiftrel o (nstep n) q l q' \/ (q = o + stop n /\ l = None /\ q' = b)).
Proof.
  intros Hs. replace (stop n) with (o + stop n - o) at 1 by lia.
  rewrite gstep_add_eps by lia. rewrite gstep_shift, map_length. unfold size in Hs.
  split; (intros [H | H]; [left; exact H|right]); intuition lia.
Qed.

Lemma seq_main nfas : forall o, nfas <> [] -> Forall wf nfas ->
  length (seq_states nfas o) = total nfas /\
  (forall q l q', gstep o (seq_states nfas o) q l q' -> o <= q' < o + total nfas) /\
  o <= seq_stop nfas o < o + total nfas /\
  forall s, path (gstep o (seq_states nfas o)) (o + start (hd empty nfas)) s (seq_stop nfas o)
            <-> seq_lang nfas s.
Proof.
  induction nfas as [|n1 r IH]; intros o Hne W; [congruence|].
  inversion W as [|? ? W1 Wr]; subst. pose proof W1 as [W11 [W12 W13]].
  destruct r as [|n2 r'].
  - (* a single operand *)
    rewrite seq_states_one, seq_stop_one, app_nil_r. cbn [total hd seq_lang].
    rewrite map_length. fold (size n1).
    assert (Hst : forall q l q', gstep o (map (shift_state o) (states n1)) q l q' <->
                                 shiftrel o (nstep n1) q l q') by (intros; apply gstep_shift).
    split; [lia|]. split; [|split; [lia|]].
    + intros q l q' H. apply Hst in H. apply (shift_region o n1) in H; [lia|exact W1].
    + intros s. split.
      * intros P. exists s, []. rewrite app_nil_r. repeat split.
        apply (path_mono _ (shiftrel o (nstep n1))) in P; [|intros q l q' H; apply Hst; exact H].
        apply path_shift_elim in P; [|lia]. destruct P as [_ P].
        replace (o + start n1 - o) with (start n1) in P by lia.
        replace (o + stop n1 - o) with (stop n1) in P by lia. exact P.
      * intros [s1 [s2 [-> [P ->]]]]. rewrite app_nil_r.
        apply (path_shift_intro o) in P.
        eapply path_mono; [|exact P]. intros q l q' H; apply Hst; exact H.
  - (* first operand, bridge, the rest *)
    assert (Hne2 : n2 :: r' <> []) by discriminate.
    destruct (IH (o + size n1) Hne2 Wr) as [IH1 [IH2 [IH3 IH4]]]. clear IH.
    rewrite seq_states_cons by exact W12. rewrite seq_stop_cons.
    set (A := update (map (shift_state o) (states n1)) (stop n1) (add_eps (o + size n1 + start n2))).
    set (B := seq_states (n2 :: r') (o + size n1)) in *.
    assert (HA : length A = size n1) by (unfold A; rewrite update_length, map_length; reflexivity).
    change (total (n1 :: n2 :: r')) with (size n1 + total (n2 :: r')). cbn [hd].
    assert (Hst : forall q l q', gstep o (A ++ B) q l q' <->
              (shiftrel o (nstep n1) q l q' \/ (q = o + stop n1 /\ l = None /\ q' = o + size n1 + start n2))
              \/ gstep (o + size n1) B q l q').
    { intros q l q'. rewrite gstep_app, HA. unfold A. rewrite head_step by exact W12. tauto. }
    inversion Wr as [|? ? W2 _]; subst. pose proof W2 as [W21 _].
    split; [rewrite app_length, HA, IH1; reflexivity|]. split; [|split; [lia|]].
    + intros q l q' H. apply Hst in H. destruct H as [[H | [_ [_ ->]]] | H].
      * apply (shift_region o n1) in H; [lia|exact W1].
      * cbn [total]. lia.
      * apply IH2 in H. lia.
    + intros s. cbn [seq_lang]. split.
      * intros P.
        destruct (path_exit (gstep o (A ++ B)) (shiftrel o (nstep n1))
                    (fun q => o <= q < o + size n1)
                    (fun x y => x = o + stop n1 /\ y = o + size n1 + start n2))
          with (q := o + start n1) (s := s) (t := seq_stop (n2 :: r') (o + size n1))
          as [[_ Hbad] | [s1 [s2 [x [y [-> [Pin [Hx [[-> ->] [_ Pout]]]]]]]]]]; auto.
        -- intros q l q' Hq H. apply Hst in H. destruct H as [[H | [-> [-> ->]]] | H].
           ++ left. split; [exact H|]. apply (shift_region o n1) in H; [lia|exact W1].
           ++ right. repeat split; auto. lia.
           ++ apply gstep_bound in H. lia.
        -- lia.
        -- lia.
        -- exists s1, s2. split; [reflexivity|]. split.
           ++ apply path_shift_elim in Pin; [|lia]. destruct Pin as [_ Pin].
              replace (o + start n1 - o) with (start n1) in Pin by lia.
              replace (o + stop n1 - o) with (stop n1) in Pin by lia. exact Pin.
           ++ apply IH4. cbn [hd].
              eapply (path_closed _ (gstep (o + size n1) B) (fun q => o + size n1 <= q)); [|exact Pout|lia].
              intros q l q' Hq H. apply Hst in H. destruct H as [[H | [-> _]] | H].
              ** apply (shift_region o n1) in H; [lia|exact W1].
              ** lia.
              ** split; [exact H|]. apply IH2 in H. lia.
      * intros [s1 [s2 [-> [P1 P2]]]].
        eapply path_app.
        -- apply (path_shift_intro o) in P1. eapply path_mono; [|exact P1].
           intros q l q' H. apply Hst. left. left. exact H.
        -- eapply path_eps.
           ++ apply Hst. left. right. auto.
           ++ apply IH4 in P2. cbn [hd] in P2. eapply path_mono; [|exact P2].
              intros q l q' H. apply Hst. right. exact H.
Qed.

(* ---------- the public function ---------- *)

Lemma sequence_unfold n r :
  sequence (n :: r) = mknfa (start n) (seq_stop (n :: r) 0) (seq_states (n :: r) 0).
Proof.
  unfold sequence, seq_stop, seq_states. cbn [merge_states].
  destruct (merge_states r (0 + length (states n))) as [ss es]. cbn [fst snd]. reflexivity.
Qed.

Lemma sequence_wf nfas : Forall wf nfas -> wf (sequence nfas).
Proof.
  intros W. destruct nfas as [|n r]; [apply empty_wf|].
  rewrite sequence_unfold.
  destruct (seq_main (n :: r) 0 ltac:(discriminate) W) as [H1 [H2 [H3 _]]].
  unfold wf, size. cbn [start stop states]. rewrite H1.
  inversion W as [|? ? [W1 _] _]; subst. cbn [total] in *. unfold size in *.
  split; [lia|]. split; [lia|].
  intros q l q' H. apply H2 in H. lia.
Qed.

Lemma sequence_lang nfas s : Forall wf nfas -> (accepts (sequence nfas) s <-> seq_lang nfas s).
Proof.
  intros W. destruct nfas as [|n r].
  - apply empty_lang.
  - rewrite sequence_unfold. unfold accepts, nstep. cbn [start stop states].
    destruct (seq_main (n :: r) 0 ltac:(discriminate) W) as [_ [_ [_ H4]]].
    apply (H4 s).
Qed.

Lemma sequence_start nfas : Forall (fun n => start n = 0) nfas -> start (sequence nfas) = 0.
Proof.
  intros H. destruct nfas as [|n r]; [reflexivity|].
  rewrite sequence_unfold. cbn [start]. inversion H; auto.
Qed.
