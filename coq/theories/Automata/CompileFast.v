(* An efficient rendering of Automata/Compile.v for vm_compute: the same
   algorithm, loop for loop and fuel for fuel, with NFA state ids in binary (N)
   instead of unary (nat), subsets as increasing lists of N and the NFA states in
   a positive map.  CompileFastProofs.compile_fast_eq : compile_fast = compile.
   DFA state ids (a few hundred at most) stay in nat. *)
From Coq Require Import List NArith PArith FMapPositive Bool Arith.
From SNT Require Import Base.Outcome Automata.Regex Automata.NFA Automata.Compile.
From SNT Require Automata.DfaData.
Import ListNotations.

Record fstate := mkfs { fedges : list (N * N); feps : list N; ftag : option N }.

Definition fstate_of (st : nstate) : fstate :=
  mkfs (map (fun e => (fst e, N.of_nat (snd e))) (edges st)) (map N.of_nat (eps st)) (tag st).

Definition findex (n : nfa) : PositiveMap.t fstate :=
  DfaData.index_from 0%N (map fstate_of (states n)) (PositiveMap.empty fstate).

Definition flook (idx : PositiveMap.t fstate) (q : N) : option fstate :=
  PositiveMap.find (N.succ_pos q) idx.

Fixpoint fset_insert (a : N) (l : list N) : list N :=
  match l with
  | [] => [a]
  | b :: r => if N.ltb a b then a :: l
              else if N.eqb a b then l
              else b :: fset_insert a r
  end.

Definition fset_mem (a : N) (l : list N) : bool := existsb (N.eqb a) l.

Fixpoint fset_eqb (a b : list N) : bool :=
  match a, b with
  | [], [] => true
  | x :: a', y :: b' => N.eqb x y && fset_eqb a' b'
  | _, _ => false
  end.

Section Fast.
  Variable idx : PositiveMap.t fstate.

  Fixpoint fclosure_loop (fuel : nat) (output : list N) (queue : list N) : outcome (list N) :=
    match queue with
    | [] => Ok output
    | q :: rest =>
        match fuel with
        | O => OutOfFuel
        | S f =>
            match flook idx q with
            | None => Panic 1
            | Some st =>
                let queue' :=
                  fold_left (fun qu e => if fset_mem e output then qu else e :: qu)
                            (feps st) rest in
                fclosure_loop f (fset_insert q output) queue'
            end
        end
    end.

  Definition fepsilon_closure (cf : nat) (seeds : list N) : outcome (list N) :=
    fclosure_loop cf [] (rev seeds).

  Fixpoint fstates_of (qs : list N) : outcome (list fstate) :=
    match qs with
    | [] => Ok []
    | q :: r =>
        match flook idx q with
        | None => Panic 2
        | Some st => let* l := fstates_of r in Ok (st :: l)
        end
    end.

  Definition fsymbols_of (sts : list fstate) : list N :=
    fold_left (fun acc st => fold_left (fun acc e => nins (fst e) acc) (fedges st) acc) sts [].

  Definition ftargets_of (sts : list fstate) (c : N) : list N :=
    flat_map (fun st => match edge_get c (fedges st) with Some q => [q] | None => [] end) sts.

  Fixpoint fset_get (qs : list N) (l : list (list N * nat)) : option nat :=
    match l with
    | [] => None
    | (k, v) :: r => if fset_eqb qs k then Some v else fset_get qs r
    end.

  Definition fdstates := list (list N * nat).
  Definition fdqueue := list (nat * list N).

  Fixpoint fsym_loop (cf : nat) (sts : list fstate) (symbols : list N)
           (ds : fdstates) (qu : fdqueue) (dfa_edges : list (N * nat))
    : outcome (fdstates * fdqueue * list (N * nat)) :=
    match symbols with
    | [] => Ok (ds, qu, dfa_edges)
    | c :: r =>
        let* new := fepsilon_closure cf (ftargets_of sts c) in
        match fset_get new ds with
        | Some id => fsym_loop cf sts r ds qu (dfa_edges ++ [(c, id)])
        | None =>
            let id := length ds in
            fsym_loop cf sts r ((new, id) :: ds) ((id, new) :: qu) (dfa_edges ++ [(c, id)])
        end
    end.

  Fixpoint fmain_loop (fuel cf : nat) (ds : fdstates) (tb : dtab) (qu : fdqueue)
    : outcome (fdstates * dtab) :=
    match qu with
    | [] => Ok (ds, tb)
    | (id, qs) :: rest =>
        match fuel with
        | O => OutOfFuel
        | S f =>
            let* sts := fstates_of qs in
            let* r := fsym_loop cf sts (fsymbols_of sts) ds rest [] in
            let '(ds', qu', es) := r in
            fmain_loop f cf ds' ((id, es) :: tb) qu'
        end
    end.

  Definition ftags_of (qs : list N) : list N :=
    fold_left (fun acc q => match flook idx q with
                            | Some st => match ftag st with Some t => nins t acc | None => acc end
                            | None => acc
                            end) qs [].

  Fixpoint finfo_loop (stop : N) (tb : dtab) (l : fdstates) (infos : list dinfo)
    : outcome (list dinfo) :=
    match l with
    | [] => Ok infos
    | (qs, id) :: r =>
        if id <? length infos then
          match id_get id tb with
          | None => Panic 4
          | Some es =>
              let info := mkinfo (fset_mem stop qs) (is_nil es) (ftags_of qs) in
              finfo_loop stop tb r (update infos id (fun _ => info))
          end
        else Panic 3
    end.
End Fast.

Definition compile_fast (fuel cf : nat) (n : nfa) : outcome dfa :=
  let idx := findex n in
  let* s0 := fepsilon_closure idx cf [N.of_nat (start n)] in
  let* r := fmain_loop idx fuel cf [(s0, 0)] [] [(0, s0)] in
  let '(ds, tb) := r in
  let* infos := finfo_loop idx (N.of_nat (stop n)) tb ds (repeat default_info (length ds)) in
  let* rows := table_rows tb (seq 0 (length tb)) in
  Ok (mkdfa 0 rows infos 256).

Definition compile_fast_default (n : nfa) : outcome dfa := compile_fast 4096 (Nat.mul 400 400) n.
