(* The general tag law: for EVERY expression (tags in arbitrary positions) the tags
   of the states of `build e` reachable by a string s are exactly R e s
   (Automata/TagSpec.v).  Per combinator: which tagged states are reachable from
   the start state by s, and what tag the stop state carries. *)
From Coq Require Import List NArith Bool Arith Lia.
From SNT Require Import Automata.Regex Automata.RegexInd Automata.RegexProofs Automata.NFA
  Automata.Build Automata.PathLemmas Automata.BuildLeaves Automata.BuildOps Automata.BuildFrames
  Automata.BuildSeq Automata.BuildProofs Automata.BuildTags Automata.TagSpec Automata.TagSpecProofs.
Import ListNotations.

(* tag t on a reachable state other than the stop state *)
Definition taggedN (n : nfa) (s : list N) (t : N) : Prop :=
  exists q, q <> stop n /\ path (nstep n) (start n) s q /\ has_tag n q t.

(* tag t on the stop state *)
Definition stag (n : nfa) (t : N) : Prop := has_tag n (stop n) t.

Lemma tagged_split n s t : tagged n s t <-> taggedN n s t \/ (stag n t /\ accepts n s).
Proof.
  unfold tagged, taggedN, stag, accepts. split.
  - intros [q [P H]]. destruct (Nat.eq_dec q (stop n)) as [-> | Hne]; [right; auto|left; exists q; auto].
  - intros [[q [_ [P H]]] | [H P]]; [exists q; auto|exists (stop n); auto].
Qed.

(* ---------- a loop edge: reaching any state ---------- *)

Section LoopReach.
  Variable R : rel.
  Variables a b : nat.
  Let R' : rel := fun q l q' => R q l q' \/ (q = a /\ l = None /\ q' = b).
  Let L : list N -> Prop := fun t => path R b t a.

  Lemma loop_reach_elim x s p : path R' x s p ->
    path R x s p \/
    exists s0 s1 s2, s = s0 ++ s1 ++ s2 /\ path R x s0 a /\ star L s1 /\ path R b s2 p.
  Proof.
    intros P. induction P as [q|q q1 s q' H1 P IH|q c q1 s q' H1 P IH].
    - left. apply path_refl.
    - destruct H1 as [H1 | [-> [_ ->]]].
      + destruct IH as [IH | [s0 [s1 [s2 [-> [P0 [Hs P2]]]]]]].
        * left. eapply path_eps; eauto.
        * right. exists s0, s1, s2. repeat split; auto. eapply path_eps; eauto.
      + right. destruct IH as [IH | [s0 [s1 [s2 [-> [P0 [Hs P2]]]]]]].
        * exists [], [], s. repeat split; [apply path_refl|apply star_nil|exact IH].
        * exists [], (s0 ++ s1), s2. rewrite <- app_assoc. repeat split; [apply path_refl| |exact P2].
          apply star_app; assumption.
    - destruct H1 as [H1 | [_ [H1 _]]]; [|discriminate].
      destruct IH as [IH | [s0 [s1 [s2 [-> [P0 [Hs P2]]]]]]].
      + left. eapply path_sym; eauto.
      + right. exists (c :: s0), s1, s2. repeat split; auto. eapply path_sym; eauto.
  Qed.

  Lemma loop_back s : star L s -> path R' b s b.
  Proof.
    induction 1 as [|s1 s2 H1 _ IH]; [apply path_refl|].
    eapply path_app; [|exact IH]. rewrite <- (app_nil_r s1).
    eapply path_app; [eapply path_mono; [|exact H1]; intros; left; assumption|].
    apply path_one_eps. right. auto.
  Qed.

  Lemma loop_reach s p :
    path R' b s p <-> exists s1 s2, s = s1 ++ s2 /\ star L s1 /\ path R b s2 p.
  Proof.
    split.
    - intros P. destruct (loop_reach_elim _ _ _ P) as [P0 | [s0 [s1 [s2 [-> [P0 [Hs P2]]]]]]].
      + exists [], s. repeat split; [apply star_nil|exact P0].
      + exists (s0 ++ s1), s2. rewrite <- app_assoc. repeat split; [|exact P2]. apply star_app; assumption.
    - intros [s1 [s2 [-> [Hs P]]]]. eapply path_app; [apply loop_back; exact Hs|].
      eapply path_mono; [|exact P]. intros; left; assumption.
  Qed.
End LoopReach.

Lemma rel_loop_reach n s p :
  path (rel_loop n) (start n) s p <->
  exists s1 s2, s = s1 ++ s2 /\ star (accepts n) s1 /\ path (nstep n) (start n) s2 p.
Proof. unfold rel_loop, accepts. apply (loop_reach (nstep n) (stop n) (start n)). Qed.

(* ---------- per combinator ---------- *)

Lemma notag_taggedN n s t : notag n -> ~ taggedN n s t.
Proof. intros H [q [_ [_ Ht]]]. apply (notag_has_tag n q t H Ht). Qed.

Lemma notag_stag n t : notag n -> ~ stag n t.
Proof. intros H Ht. apply (notag_has_tag n _ t H Ht). Qed.

(* tag_stop_state *)
Lemma tag_has_tag_other t n q t' : q <> stop n ->
  (has_tag (tag_stop_state t n) q t' <-> has_tag n q t').
Proof.
  intros Hne. unfold has_tag, tag_stop_state. cbn [states]. rewrite nth_error_update.
  destruct (Nat.eqb (stop n) q) eqn:E; [apply Nat.eqb_eq in E; congruence|reflexivity].
Qed.

Lemma tag_stag t n t' : stop n < size n -> (stag (tag_stop_state t n) t' <-> t' = t).
Proof.
  intros Hs. unfold stag, has_tag, tag_stop_state. cbn [states stop]. rewrite nth_error_update, Nat.eqb_refl.
  destruct (nth_error (states n) (stop n)) as [st|] eqn:E.
  - cbn. split.
    + intros [st' [H1 H2]]. inversion H1; subst st'. cbn in H2. congruence.
    + intros ->. exists (set_tag t st). auto.
  - apply nth_error_None in E. unfold size in Hs. lia.
Qed.

Lemma tag_taggedN t n s t' : taggedN (tag_stop_state t n) s t' <-> taggedN n s t'.
Proof.
  unfold taggedN. cbn [start stop tag_stop_state]. split.
  - intros [q [Hne [P H]]]. exists q. split; [exact Hne|]. split.
    + eapply path_mono; [|exact P]. intros a l b Hs. apply (tag_step t n). exact Hs.
    + apply (tag_has_tag_other t n q t' Hne). exact H.
  - intros [q [Hne [P H]]]. exists q. split; [exact Hne|]. split.
    + eapply path_mono; [|exact P]. intros a l b Hs. apply (tag_step t n). exact Hs.
    + apply (tag_has_tag_other t n q t' Hne). exact H.
Qed.

(* some *)
Lemma some_has_tag n q t : has_tag (some n) q t <-> has_tag n q t.
Proof. rewrite !has_tag_tagv, tagv_some. reflexivity. Qed.

Lemma some_taggedN n s t : wf n ->
  (taggedN (some n) s t <->
   exists s1 s2, s = s1 ++ s2 /\ star (accepts n) s1 /\ taggedN n s2 t).
Proof.
  intros [_ [W2 _]]. unfold taggedN. cbn [start stop some].
  assert (Hp : forall p, path (nstep (some n)) (start n) s p <-> path (rel_loop n) (start n) s p).
  { intros p. split; apply path_mono; intros a l b H; apply (some_step n W2); exact H. }
  split.
  - intros [q [Hne [P H]]]. apply Hp, rel_loop_reach in P. destruct P as [s1 [s2 [-> [Hs P]]]].
    exists s1, s2. split; [reflexivity|]. split; [exact Hs|]. exists q. split; [exact Hne|].
    split; [exact P|apply some_has_tag; exact H].
  - intros [s1 [s2 [-> [Hs [q [Hne [P H]]]]]]]. exists q. split; [exact Hne|]. split.
    + apply Hp, rel_loop_reach. exists s1, s2. auto.
    + apply some_has_tag. exact H.
Qed.

(* optional / many: one operand at offset 2 in a frame *)
Lemma framed_one_tags n (m : nfa) back s t :
  wf n -> start m = 0 -> stop m = 1 -> tagv m = None :: None :: tagv n ->
  (forall q l q', nstep m q l q' <-> frame_rel [(2, n)] true back q l q') ->
  (taggedN m s t <->
   exists p, path (rel_back back n) (start n) s p /\ has_tag n p t) /\ ~ stag m t.
Proof.
  intros W Hs Ht Htv Hstep. split.
  - unfold taggedN. rewrite Hs, Ht.
    assert (Hp : forall q, path (nstep m) 0 s q <-> path (frame_rel [(2, n)] true back) 0 s q).
    { intros q. split; apply path_mono; intros a l b H; apply Hstep; exact H. }
    split.
    + intros [q [_ [P H]]]. apply has_tag_tagv in H. rewrite Htv in H.
      destruct q as [|[|p]]; cbn [nth_error] in H; try discriminate.
      apply has_tag_tagv in H. exists p. split; [|exact H].
      apply Hp in P. change (S (S p)) with (2 + p) in P.
      apply (frame_reach [(2, n)] true back 2 n p s (good_one n W) (or_introl eq_refl) (has_tag_lt _ _ _ H)) in P.
      exact P.
    + intros [p [P H]]. exists (2 + p). split; [lia|]. split.
      * apply Hp. apply (frame_reach [(2, n)] true back 2 n p s (good_one n W) (or_introl eq_refl) (has_tag_lt _ _ _ H)).
        exact P.
      * apply has_tag_tagv. rewrite Htv. cbn [plus nth_error]. apply has_tag_tagv. exact H.
  - unfold stag. rewrite Ht. intros H. apply has_tag_tagv in H. rewrite Htv in H. discriminate.
Qed.

Lemma optional_tags n s t : wf n ->
  (taggedN (optional n) s t <-> tagged n s t) /\ ~ stag (optional n) t.
Proof.
  intros W. destruct (framed_one_tags n (optional n) false s t W eq_refl eq_refl (tagv_optional n) (optional_step n W)) as [H1 H2].
  split; [|exact H2]. rewrite H1. reflexivity.
Qed.

Lemma many_tags n s t : wf n ->
  (taggedN (many n) s t <-> exists s1 s2, s = s1 ++ s2 /\ star (accepts n) s1 /\ tagged n s2 t)
  /\ ~ stag (many n) t.
Proof.
  intros W. destruct (framed_one_tags n (many n) true s t W eq_refl eq_refl (tagv_many n) (many_step n W)) as [H1 H2].
  split; [|exact H2]. rewrite H1. cbn [rel_back]. split.
  - intros [p [P H]]. apply rel_loop_reach in P. destruct P as [s1 [s2 [-> [Hs P]]]].
    exists s1, s2. repeat split; auto. exists p. auto.
  - intros [s1 [s2 [-> [Hs [p [P H]]]]]]. exists p. split; [|exact H].
    apply rel_loop_reach. exists s1, s2. auto.
Qed.

(* choice *)
Lemma choice_stag nfas t : ~ stag (choice nfas) t.
Proof.
  unfold stag. destruct (choice_start_stop nfas) as [_ ->]. intros H. apply has_tag_tagv in H.
  destruct nfas as [|n r].
  - unfold tagv, choice in H. cbn in H. discriminate.
  - rewrite tagv_choice in H. discriminate.
Qed.

Lemma choice_taggedN nfas s t : Forall wf nfas ->
  (taggedN (choice nfas) s t <-> exists n, In n nfas /\ tagged n s t).
Proof.
  intros W. rewrite <- (choice_tagged nfas s t W), tagged_split. split; [auto|].
  intros [H | [H _]]; [exact H|]. exfalso. apply (choice_stag nfas t H).
Qed.

(* ---------- sequence ---------- *)

Fixpoint seq_tagN (nfas : list nfa) (s : list N) (t : N) : Prop :=
  match nfas with
  | [] => False
  | n :: r =>
      match r with
      | [] => taggedN n s t
      | _ :: _ => tagged n s t \/ exists s1 s2, s = s1 ++ s2 /\ accepts n s1 /\ seq_tagN r s2 t
      end
  end.

Definition tag_at (o : nat) (nfas : list nfa) (q : nat) (t : N) : Prop :=
  o <= q /\ nth_error (flat_map tagv nfas) (q - o) = Some (Some t).

Lemma seq_step_cons n1 n2 r o q l q' : wf n1 ->
  (gstep o (seq_states (n1 :: n2 :: r) o) q l q' <->
   (shiftrel o (nstep n1) q l q' \/ (q = o + stop n1 /\ l = None /\ q' = o + size n1 + start n2))
   \/ gstep (o + size n1) (seq_states (n2 :: r) (o + size n1)) q l q').
Proof.
  intros [_ [W2 _]]. rewrite seq_states_cons by exact W2. rewrite gstep_app.
  rewrite update_length, map_length. fold (size n1). rewrite head_step by exact W2. tauto.
Qed.

Lemma seq_tags nfas : forall o, nfas <> [] -> Forall wf nfas -> forall s t,
  (exists q, q <> seq_stop nfas o /\
             path (gstep o (seq_states nfas o)) (o + start (hd empty nfas)) s q /\
             tag_at o nfas q t)
  <-> seq_tagN nfas s t.
Proof.
  induction nfas as [|n1 r IH]; intros o Hne W s t; [congruence|].
  inversion W as [|? ? W1 Wr]; subst. pose proof W1 as [W11 [W12 W13]].
  destruct r as [|n2 r'].
  - (* one operand *)
    rewrite seq_states_one, seq_stop_one, app_nil_r. cbn [hd seq_tagN]. unfold tag_at.
    cbn [flat_map]. rewrite app_nil_r.
    assert (Hst : forall a l b, gstep o (map (shift_state o) (states n1)) a l b <->
                                shiftrel o (nstep n1) a l b) by (intros; apply gstep_shift).
    unfold taggedN. split.
    + intros [q [Hq [P [Hge Ht]]]].
      apply (path_mono _ (shiftrel o (nstep n1))) in P; [|intros a l b H; apply Hst; exact H].
      apply path_shift_elim in P; [|lia]. destruct P as [_ P].
      replace (o + start n1 - o) with (start n1) in P by lia.
      exists (q - o). split; [lia|]. split; [exact P|apply has_tag_tagv; exact Ht].
    + intros [p [Hp [P Ht]]]. exists (o + p). split; [lia|]. split.
      * apply (path_shift_intro o) in P. eapply path_mono; [|exact P]. intros a l b H; apply Hst; exact H.
      * split; [lia|]. replace (o + p - o) with p by lia. apply has_tag_tagv. exact Ht.
  - (* first operand, bridge, the rest *)
    assert (Hne2 : n2 :: r' <> []) by discriminate.
    specialize (IH (o + size n1) Hne2 Wr).
    destruct (seq_main (n2 :: r') (o + size n1) Hne2 Wr) as [_ [Bclosed [Bstop _]]].
    rewrite seq_stop_cons.
    set (G := seq_states (n1 :: n2 :: r') o).
    set (B := seq_states (n2 :: r') (o + size n1)) in *.
    assert (Hst : forall a l b, gstep o G a l b <->
              (shiftrel o (nstep n1) a l b \/ (a = o + stop n1 /\ l = None /\ b = o + size n1 + start n2))
              \/ gstep (o + size n1) B a l b) by (intros; apply seq_step_cons; exact W1).
    inversion Wr as [|? ? W2 _]; subst.
    change (seq_tagN (n1 :: n2 :: r') s t)
      with (tagged n1 s t \/ exists s1 s2, s = s1 ++ s2 /\ accepts n1 s1 /\ seq_tagN (n2 :: r') s2 t).
    cbn [hd].
    assert (Htag1 : forall p, p < size n1 -> (tag_at o (n1 :: n2 :: r') (o + p) t <-> has_tag n1 p t)).
    { intros p Hp. unfold tag_at. change (flat_map tagv (n1 :: n2 :: r')) with (tagv n1 ++ flat_map tagv (n2 :: r')).
      replace (o + p - o) with p by lia. rewrite nth_error_app1 by (rewrite tagv_length; exact Hp).
      rewrite has_tag_tagv. split; [tauto|]. intros H. split; [lia|exact H]. }
    assert (Htag2 : forall q, o + size n1 <= q ->
                      (tag_at o (n1 :: n2 :: r') q t <-> tag_at (o + size n1) (n2 :: r') q t)).
    { intros q Hq. unfold tag_at. change (flat_map tagv (n1 :: n2 :: r')) with (tagv n1 ++ flat_map tagv (n2 :: r')).
      rewrite nth_error_app2 by (rewrite tagv_length; lia). rewrite tagv_length.
      replace (q - o - size n1) with (q - (o + size n1)) by lia. split; intros [_ H]; (split; [lia|exact H]). }
    split.
    + intros [q [Hq [P Ht]]].
      destruct (path_exit (gstep o G) (shiftrel o (nstep n1))
                  (fun x => o <= x < o + size n1)
                  (fun x y => x = o + stop n1 /\ y = o + size n1 + start n2))
        with (q := o + start n1) (s := s) (t := q)
        as [[Pin Hreg] | [s1 [s2 [x [y [-> [Pin [Hx [[-> ->] [_ Pout]]]]]]]]]]; auto.
      * intros a l b Ha H. apply Hst in H. destruct H as [[H | [-> [-> ->]]] | H].
        -- left. split; [exact H|]. apply (shift_region o n1) in H; [lia|exact W1].
        -- right. repeat split; auto. lia.
        -- apply gstep_bound in H. lia.
      * lia.
      * left. apply path_shift_elim in Pin; [|lia]. destruct Pin as [_ Pin].
        replace (o + start n1 - o) with (start n1) in Pin by lia.
        exists (q - o). split; [exact Pin|].
        apply (Htag1 (q - o)); [lia|]. replace (o + (q - o)) with q by lia. exact Ht.
      * right. exists s1, s2. split; [reflexivity|]. split.
        -- apply path_shift_elim in Pin; [|lia]. destruct Pin as [_ Pin].
           replace (o + start n1 - o) with (start n1) in Pin by lia.
           replace (o + stop n1 - o) with (stop n1) in Pin by lia. exact Pin.
        -- apply IH. cbn [hd].
           destruct (path_closed (gstep o G) (gstep (o + size n1) B) (fun x => o + size n1 <= x))
             with (q := o + size n1 + start n2) (s := s2) (q' := q) as [PB HqB]; auto.
           ++ intros a l b Ha H. apply Hst in H. destruct H as [[H | [-> _]] | H].
              ** apply (shift_region o n1) in H; [lia|exact W1].
              ** lia.
              ** split; [exact H|]. apply Bclosed in H. lia.
           ++ lia.
           ++ exists q. split; [exact Hq|]. split; [exact PB|]. apply Htag2; [exact HqB|exact Ht].
    + intros [[p [P Ht]] | [s1 [s2 [-> [P1 H2]]]]].
      * pose proof (has_tag_lt _ _ _ Ht) as Hp. exists (o + p). split; [lia|]. split.
        -- apply (path_shift_intro o) in P. eapply path_mono; [|exact P].
           intros a l b H. apply Hst. left. left. exact H.
        -- apply Htag1; assumption.
      * apply IH in H2. cbn [hd] in H2. destruct H2 as [q [Hq [P2 Ht]]].
        assert (HqB : o + size n1 <= q) by (destruct Ht; lia).
        exists q. split; [exact Hq|]. split.
        -- eapply path_app.
           ++ apply (path_shift_intro o) in P1. eapply path_mono; [|exact P1].
              intros a l b H. apply Hst. left. left. exact H.
           ++ eapply path_eps; [apply Hst; left; right; auto|].
              eapply path_mono; [|exact P2]. intros a l b H. apply Hst. right. exact H.
        -- apply Htag2; assumption.
Qed.

Fixpoint last_nfa (nfas : list nfa) : nfa :=
  match nfas with
  | [] => empty
  | n :: r => match r with [] => n | _ :: _ => last_nfa r end
  end.

Lemma seq_stag nfas : forall o, nfas <> [] -> Forall wf nfas -> forall t,
  tag_at o nfas (seq_stop nfas o) t <-> stag (last_nfa nfas) t.
Proof.
  induction nfas as [|n1 r IH]; intros o Hne W t; [congruence|].
  inversion W as [|? ? W1 Wr]; subst. pose proof W1 as [_ [W12 _]].
  destruct r as [|n2 r'].
  - rewrite seq_stop_one. unfold tag_at, stag. cbn [flat_map last_nfa]. rewrite app_nil_r.
    replace (o + stop n1 - o) with (stop n1) by lia. rewrite has_tag_tagv. split; [tauto|].
    intros H. split; [lia|exact H].
  - assert (Hne2 : n2 :: r' <> []) by discriminate.
    destruct (seq_main (n2 :: r') (o + size n1) Hne2 Wr) as [_ [_ [Bstop _]]].
    rewrite seq_stop_cons. change (last_nfa (n1 :: n2 :: r')) with (last_nfa (n2 :: r')).
    rewrite <- (IH (o + size n1) Hne2 Wr t). unfold tag_at.
    change (flat_map tagv (n1 :: n2 :: r')) with (tagv n1 ++ flat_map tagv (n2 :: r')).
    rewrite nth_error_app2 by (rewrite tagv_length; lia). rewrite tagv_length.
    replace (seq_stop (n2 :: r') (o + size n1) - o - size n1)
      with (seq_stop (n2 :: r') (o + size n1) - (o + size n1)) by lia.
    split; intros [_ H]; (split; [lia|exact H]).
Qed.

Lemma sequence_tags n r s t : Forall wf (n :: r) ->
  (taggedN (sequence (n :: r)) s t <-> seq_tagN (n :: r) s t) /\
  (stag (sequence (n :: r)) t <-> stag (last_nfa (n :: r)) t).
Proof.
  intros W. assert (Hne : n :: r <> []) by discriminate.
  assert (Htag : forall q, has_tag (sequence (n :: r)) q t <-> tag_at 0 (n :: r) q t).
  { intros q. rewrite has_tag_tagv, tagv_sequence. unfold tag_at. rewrite Nat.sub_0_r. split; [intros H; split; [lia|exact H]|tauto]. }
  split.
  - rewrite <- (seq_tags (n :: r) 0 Hne W s t). unfold taggedN. rewrite sequence_unfold.
    cbn [start stop hd]. unfold nstep. cbn [states]. split.
    + intros [q [Hq [P H]]]. exists q. split; [exact Hq|]. split; [exact P|].
      apply Htag. rewrite sequence_unfold. exact H.
    + intros [q [Hq [P H]]]. exists q. split; [exact Hq|]. split; [exact P|].
      rewrite <- sequence_unfold. apply Htag. exact H.
  - rewrite <- (seq_stag (n :: r) 0 Hne W t). unfold stag. rewrite Htag.
    rewrite sequence_unfold. cbn [stop]. reflexivity.
Qed.

(* ---------- the law ---------- *)

Definition tag_ok (e : regex) : Prop :=
  (forall s t, taggedN (build e) s t <-> RN e s t) /\
  (forall t, stag (build e) t <-> stoptag e = Some t).

Lemma tag_ok_R e : tag_ok e -> forall s t, tagged (build e) s t <-> R e s t.
Proof.
  intros [H1 H2] s t. rewrite tagged_split, H1, H2. unfold R. rewrite build_accepts. reflexivity.
Qed.

Lemma plain_tag_ok e : untagged e = true -> (forall s t, ~ RN e s t) -> stoptag e = None -> tag_ok e.
Proof.
  intros Hu Hrn Hst. pose proof (untagged_notag e Hu) as Hno. split.
  - intros s t. split; [intros H; exfalso; apply (notag_taggedN _ s t Hno H)|intros H; exfalso; apply (Hrn s t H)].
  - intros t. rewrite Hst. split; [intros H; exfalso; apply (notag_stag _ t Hno H)|discriminate].
Qed.

Lemma seq_tagN_RN es : Forall tag_ok es -> forall s t,
  seq_tagN (map build es) s t <-> RN_seq es s t.
Proof.
  induction 1 as [|e r He Hr IH]; intros s t; [reflexivity|].
  destruct r as [|e2 r'].
  - cbn [map seq_tagN RN_seq]. apply He.
  - change (seq_tagN (map build (e :: e2 :: r')) s t)
      with (tagged (build e) s t \/ exists s1 s2, s = s1 ++ s2 /\ accepts (build e) s1 /\ seq_tagN (map build (e2 :: r')) s2 t).
    change (RN_seq (e :: e2 :: r') s t)
      with (R e s t \/ exists s1 s2, s = s1 ++ s2 /\ matches e s1 /\ RN_seq (e2 :: r') s2 t).
    rewrite (tag_ok_R e He). split.
    + intros [H | [s1 [s2 [E [H1 H2]]]]]; [left; exact H|]. right. exists s1, s2.
      split; [exact E|]. split; [apply build_accepts; exact H1|apply IH; exact H2].
    + intros [H | [s1 [s2 [E [H1 H2]]]]]; [left; exact H|]. right. exists s1, s2.
      split; [exact E|]. split; [apply build_accepts; exact H1|apply IH; exact H2].
Qed.

Lemma last_stag es : es <> [] -> Forall tag_ok es -> forall t,
  stag (last_nfa (map build es)) t <-> stoptag_last es = Some t.
Proof.
  intros Hne H. induction H as [|e r He Hr IH]; intros t; [congruence|].
  destruct r as [|e2 r']; [apply He|].
  change (last_nfa (map build (e :: e2 :: r'))) with (last_nfa (map build (e2 :: r'))).
  change (stoptag_last (e :: e2 :: r')) with (stoptag_last (e2 :: r')).
  apply IH. discriminate.
Qed.

Theorem tag_law_all : forall e, tag_ok e.
Proof.
  apply (regex_rect' tag_ok).
  - intros set. apply plain_tag_ok; auto.
  - intros bs. apply plain_tag_ok; auto.
  - apply plain_tag_ok; auto.
  - apply plain_tag_ok; auto.
  - (* Seq *)
    intros es IH. cbn [build].
    assert (W : Forall wf (map build es)).
    { apply Forall_forall. intros n Hin. apply in_map_iff in Hin. destruct Hin as [e [<- _]]. apply build_wf. }
    destruct es as [|e r].
    + split.
      * intros s t. split; [intros H; exfalso; revert H; apply notag_taggedN|intros []].
        intros x. unfold tagv, sequence. cbn. intros [<- | []]; reflexivity.
      * intros t. split; [intros H; exfalso; revert H; apply notag_stag|discriminate].
        intros x. unfold tagv, sequence. cbn. intros [<- | []]; reflexivity.
    + cbn [map] in *. split.
      * intros s t. destruct (sequence_tags (build e) (map build r) s t W) as [H1 _].
        rewrite H1, RN_Seq. apply (seq_tagN_RN (e :: r) IH).
      * intros t. destruct (sequence_tags (build e) (map build r) [] t W) as [_ H2].
        rewrite H2, stoptag_Seq. apply (last_stag (e :: r)); [discriminate|exact IH].
  - (* Choice *)
    intros es IH. cbn [build].
    assert (W : Forall wf (map build es)).
    { apply Forall_forall. intros n Hin. apply in_map_iff in Hin. destruct Hin as [e [<- _]]. apply build_wf. }
    split.
    + intros s t. rewrite (choice_taggedN _ s t W), RN_Choice, R_any_In.
      rewrite Forall_forall in IH. split.
      * intros [n [Hin H]]. apply in_map_iff in Hin. destruct Hin as [e [<- Hin]].
        exists e. split; [exact Hin|]. apply (tag_ok_R e (IH e Hin)). exact H.
      * intros [e [Hin H]]. exists (build e). split; [apply in_map; exact Hin|].
        apply (tag_ok_R e (IH e Hin)). exact H.
    + intros t. split; [intros H; exfalso; apply (choice_stag _ t H)|discriminate].
  - (* Plus *)
    intros e [H1 H2]. cbn [build]. split.
    + intros s t. rewrite (some_taggedN _ s t (build_wf e)). cbn [RN]. split.
      * intros [s1 [s2 [E [Hs H]]]]. exists s1, s2. split; [exact E|]. split.
        -- apply (star_ext _ _ (build_accepts e)). exact Hs.
        -- apply H1. exact H.
      * intros [s1 [s2 [E [Hs H]]]]. exists s1, s2. split; [exact E|]. split.
        -- apply (star_ext _ _ (build_accepts e)). exact Hs.
        -- apply H1. exact H.
    + intros t. cbn [stoptag]. rewrite <- H2. unfold stag. cbn [stop some]. apply some_has_tag.
  - (* Opt *)
    intros e He. cbn [build]. split.
    + intros s t. destruct (optional_tags (build e) s t (build_wf e)) as [H _].
      rewrite H. cbn [RN]. apply (tag_ok_R e He).
    + intros t. destruct (optional_tags (build e) [] t (build_wf e)) as [_ H].
      split; [intros Hs; exfalso; apply (H Hs)|discriminate].
  - (* Many *)
    intros e He. cbn [build]. split.
    + intros s t. destruct (many_tags (build e) s t (build_wf e)) as [H _].
      rewrite H. cbn [RN]. split.
      * intros [s1 [s2 [E [Hs Ht]]]]. exists s1, s2. split; [exact E|]. split.
        -- apply (star_ext _ _ (build_accepts e)). exact Hs.
        -- apply (tag_ok_R e He) in Ht. exact Ht.
      * intros [s1 [s2 [E [Hs Ht]]]]. exists s1, s2. split; [exact E|]. split.
        -- apply (star_ext _ _ (build_accepts e)). exact Hs.
        -- apply (tag_ok_R e He). exact Ht.
    + intros t. destruct (many_tags (build e) [] t (build_wf e)) as [_ H].
      split; [intros Hs; exfalso; apply (H Hs)|discriminate].
  - (* Tag *)
    intros t0 e [H1 H2]. cbn [build]. split.
    + intros s t. change (build (Tag t0 e)) with (tag_stop_state t0 (build e)).
      rewrite tag_taggedN. cbn [RN]. apply H1.
    + intros t. change (build (Tag t0 e)) with (tag_stop_state t0 (build e)).
      pose proof (build_wf e) as [_ [W2 _]]. rewrite (tag_stag t0 _ t W2). cbn [stoptag].
      split; [intros ->; reflexivity|intros H; inversion H; reflexivity].
Qed.

(* tags of the states reachable by s = the expression-level specification *)
Theorem tag_law (e : regex) (s : list N) (t : N) :
  tagged (build e) s t <-> tag_law_spec e s t.
Proof. rewrite tex_correct. apply (tag_ok_R e (tag_law_all e)). Qed.
