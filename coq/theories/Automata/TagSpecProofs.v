(* The executable tag specification tex agrees with the relational one (R, RN). *)
From Coq Require Import List NArith Bool Lia.
From SNT Require Import Automata.Regex Automata.RegexInd Automata.RegexProofs Automata.TagSpec.
Import ListNotations.

Lemma stoptag_Seq es : stoptag (Seq es) = stoptag_last es.
Proof.
  induction es as [|e r IH]; [reflexivity|].
  destruct r as [|e2 r']; [reflexivity|].
  change (stoptag_last (e :: e2 :: r')) with (stoptag_last (e2 :: r')). rewrite <- IH. reflexivity.
Qed.

Lemma RN_Seq es : forall s t, RN (Seq es) s t <-> RN_seq es s t.
Proof.
  induction es as [|e r IH]; intros s t; [reflexivity|].
  destruct r as [|e2 r']; [reflexivity|].
  change (RN (Seq (e :: e2 :: r')) s t)
    with ((RN e s t \/ (stoptag e = Some t /\ matches e s)) \/
          exists s1 s2, s = s1 ++ s2 /\ matches e s1 /\ RN (Seq (e2 :: r')) s2 t).
  change (RN_seq (e :: e2 :: r') s t)
    with (R e s t \/ exists s1 s2, s = s1 ++ s2 /\ matches e s1 /\ RN_seq (e2 :: r') s2 t).
  unfold R. split.
  - intros [H | [s1 [s2 [E [H1 H2]]]]]; [left; exact H|]. right. exists s1, s2.
    split; [exact E|]. split; [exact H1|]. apply IH. exact H2.
  - intros [H | [s1 [s2 [E [H1 H2]]]]]; [left; exact H|]. right. exists s1, s2.
    split; [exact E|]. split; [exact H1|]. apply IH. exact H2.
Qed.

Lemma RN_Choice es s t : RN (Choice es) s t <-> R_any es s t.
Proof.
  induction es as [|e r IH]; [reflexivity|].
  change (RN (Choice (e :: r)) s t)
    with ((RN e s t \/ (stoptag e = Some t /\ matches e s)) \/ RN (Choice r) s t).
  cbn [R_any]. unfold R at 1. rewrite IH. reflexivity.
Qed.

Lemma R_any_In es s t : R_any es s t <-> exists e, In e es /\ R e s t.
Proof.
  induction es as [|e r IH]; cbn [R_any In].
  - split; [intros []|intros [e [[] _]]].
  - rewrite IH. split.
    + intros [H | [e' [Hin H]]]; [exists e; auto|exists e'; auto].
    + intros [e' [[-> | Hin] H]]; [left; exact H|right; exists e'; auto].
Qed.

(* ---------- tex ---------- *)

Definition sat (l : list (N * regex)) (s : list N) (t : N) : Prop :=
  exists r, In (t, r) l /\ matches r s.

Lemma sat_app a b s t : sat (a ++ b) s t <-> sat a s t \/ sat b s t.
Proof.
  unfold sat. split.
  - intros [r [Hin H]]. apply in_app_or in Hin. destruct Hin; [left|right]; exists r; auto.
  - intros [[r [Hin H]] | [r [Hin H]]]; exists r; (split; [apply in_or_app; auto|exact H]).
Qed.

Lemma sat_nil s t : ~ sat [] s t.
Proof. intros [r [[] _]]. Qed.

Lemma sat_stop e s t : sat (stop_part e) s t <-> stoptag e = Some t /\ matches e s.
Proof.
  unfold sat, stop_part. destruct (stoptag e) as [t0|]; split.
  - intros [r [[Heq | []] H]]. inversion Heq; subst. auto.
  - intros [Heq H]. inversion Heq; subst. exists e. split; [left; reflexivity|exact H].
  - intros [r [[] _]].
  - intros [Heq _]. discriminate.
Qed.

Lemma sat_prefix p l s t :
  sat (prefix_with p l) s t <-> exists s1 s2, s = s1 ++ s2 /\ matches p s1 /\ sat l s2 t.
Proof.
  unfold sat, prefix_with. split.
  - intros [r [Hin H]]. apply in_map_iff in Hin. destruct Hin as [[t0 r0] [Heq Hin]].
    cbn [fst snd] in Heq. inversion Heq; subst t0 r. apply matches_Seq in H. cbn [matches_seq] in H.
    destruct H as [s1 [s2 [-> [H1 [a [b [-> [Ha ->]]]]]]]]. rewrite app_nil_r.
    exists s1, a. split; [reflexivity|]. split; [exact H1|]. exists r0. auto.
  - intros [s1 [s2 [-> [H1 [r [Hin H]]]]]]. exists (Seq [p; r]). split.
    + apply in_map_iff. exists (t, r). auto.
    + apply matches_Seq. cbn [matches_seq]. exists s1, s2. split; [reflexivity|]. split; [exact H1|].
      exists s2, []. rewrite app_nil_r. auto.
Qed.

Lemma texN_Seq es : texN (Seq es) = texN_seq es.
Proof.
  induction es as [|e r IH]; [reflexivity|].
  destruct r as [|e2 r']; [reflexivity|].
  change (texN_seq (e :: e2 :: r')) with (tex e ++ prefix_with e (texN_seq (e2 :: r'))). rewrite <- IH. reflexivity.
Qed.

Theorem texN_correct : forall e s t, sat (texN e) s t <-> RN e s t.
Proof.
  apply (regex_rect' (fun e => forall s t, sat (texN e) s t <-> RN e s t)).
  - intros set s t. split; [apply sat_nil|intros []].
  - intros bs s t. split; [apply sat_nil|intros []].
  - intros s t. split; [apply sat_nil|intros []].
  - intros s t. split; [apply sat_nil|intros []].
  - intros es IH s t. rewrite texN_Seq, RN_Seq. revert s.
    induction IH as [|e r He Hr IHr]; intros s; [split; [apply sat_nil|intros []]|].
    destruct r as [|e2 r']; [apply He|].
    change (texN_seq (e :: e2 :: r')) with (tex e ++ prefix_with e (texN_seq (e2 :: r'))).
    change (RN_seq (e :: e2 :: r') s t)
      with (R e s t \/ exists s1 s2, s = s1 ++ s2 /\ matches e s1 /\ RN_seq (e2 :: r') s2 t).
    unfold tex, R. rewrite !sat_app, sat_stop, sat_prefix, He.
    split.
    + intros [H | [s1 [s2 [E [H1 H2]]]]]; [left; exact H|]. right. exists s1, s2.
      split; [exact E|]. split; [exact H1|]. apply IHr. exact H2.
    + intros [H | [s1 [s2 [E [H1 H2]]]]]; [left; exact H|]. right. exists s1, s2.
      split; [exact E|]. split; [exact H1|]. apply IHr. exact H2.
  - intros es IH s t. rewrite RN_Choice. cbn [texN].
    induction IH as [|e r He _ IHr]; [split; [apply sat_nil|intros []]|].
    cbn [flat_map R_any]. unfold R at 1. rewrite !sat_app, sat_stop, He, IHr. reflexivity.
  - intros e IH s t. cbn [texN RN]. rewrite sat_prefix. cbn [matches].
    split; intros [s1 [s2 [E [H1 H2]]]]; exists s1, s2; (split; [exact E|]; split; [exact H1|]; apply IH; exact H2).
  - intros e IH s t. cbn [texN RN]. rewrite sat_app, sat_stop, IH. reflexivity.
  - intros e IH s t. cbn [texN RN]. rewrite sat_prefix. cbn [matches].
    split; intros [s1 [s2 [E [H1 H2]]]]; exists s1, s2; (split; [exact E|]; split; [exact H1|]).
    + apply sat_app in H2. rewrite sat_stop, IH in H2. exact H2.
    + apply sat_app. rewrite sat_stop, IH. exact H2.
  - intros t0 e IH s t. cbn [texN RN]. apply IH.
Qed.

Theorem tex_correct e s t : tag_law_spec e s t <-> R e s t.
Proof.
  unfold tag_law_spec, tex, R. fold (sat (texN e ++ stop_part e) s t).
  rewrite sat_app, sat_stop, texN_correct. reflexivity.
Qed.
