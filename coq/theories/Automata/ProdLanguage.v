(* C03 at the level of the LANGUAGES of the production patterns.

   C15 (Automata/ProdInstances.v) proves, for each production automaton, that the DFA dumped
   from the running code is the subset construction of the NFA the code built from the patterns
   right before `compile()` (Gen/ProdNFA.v).  Combined with the generic tokeniser theorems this
   file states the tokenisation in terms of the NFA only:
     accepted (recognised)   the NFA reaches its stop state on the bytes
     live                    the NFA reaches some state on the bytes
     tags                    the tags of the NFA states reached (which matcher / literal event)
   so that "leftmost-longest with respect to the recognised sequences" no longer bottoms out at
   "whatever the dumped DFA accepts". *)
From Coq Require Import List NArith Arith Bool Lia.
From SNT Require Import Base.Outcome Automata.NFA Automata.CompileSpec Automata.DfaData Automata.DfaDataProofs
  Automata.ProdNfaData Automata.ProdCheck Automata.ProdCheckProofs Automata.ProdInstances
  Automata.Tokenizer Automata.TokenizerRun Automata.TokenizerMunch.
Import ListNotations.
Local Open Scope N_scope.

Section Lang.
  Variable nd : nfa_data.
  Variable dd : dfa_data.
  Hypothesis Hsub : subset_construction nd dd.
  Hypothesis Hterm : terminal_ok (DfaData.compile dd) = true.

  Context {Item : Type}.
  Variable decode_item : N -> list N -> option Item.

  Let n := to_nfa nd.
  Let D := DfaData.compile dd.

  Notation run := (run N (d_start D) (d_delta D)).
  Notation acc_at := (acc_at N (d_start D) (d_delta D) (d_accepting D)).
  Notation dead_at := (dead_at N (d_start D) (d_delta D)).
  Notation munch1 := (munch1 N Item (d_start D) (d_delta D) (d_accepting D) (d_terminal D) decode_item).
  Notation Munch := (Munch N Item (d_start D) (d_delta D) (d_accepting D) (d_terminal D) decode_item).
  Notation mk_tok := (mk_tok N Item decode_item).

  (* the three notions, on the NFA *)
  Definition n_accepts (w : list N) : Prop := RS n w (stop n).
  Definition n_live (w : list N) : Prop := exists z, RS n w z.
  Definition n_tag (w : list N) (t : tag) : Prop := exists z, RS n w z /\ has_tag n z (tag_code t).

  Lemma fold_none (w : list N) : fold_left (step N (d_delta D)) w None = None.
  Proof. induction w as [|b w IH]; [reflexivity|exact IH]. Qed.

  Lemma d_run_run : forall w q, d_run D q w = run_from N (d_delta D) q w.
  Proof.
    induction w as [|c r IH]; intros q; [reflexivity|].
    cbn [d_run]. unfold run_from. cbn [fold_left step].
    destruct (d_delta D q c) as [q'|]; [apply IH|]. symmetry. apply fold_none.
  Qed.

  Lemma bytes_firstn s k : bytes s -> bytes (firstn k s).
  Proof. intros H c Hc. apply H. rewrite <- (firstn_skipn k s). apply in_or_app. left. exact Hc. Qed.

  Lemma bytes_skipn s k : bytes s -> bytes (skipn k s).
  Proof. intros H c Hc. apply H. rewrite <- (firstn_skipn k s). apply in_or_app. right. exact Hc. Qed.

  (* what the table says about a string = what the NFA says *)
  Lemma run_facts w : bytes w ->
    match run w with
    | None => ~ n_live w
    | Some q =>
        n_live w /\ (d_accepting D q = true <-> n_accepts w) /\
        (forall t, In t (d_tags D q) <-> n_tag w t)
    end.
  Proof.
    intros Hb. pose proof (Hsub w Hb) as H. fold n D in H. rewrite d_run_run in H.
    unfold Tokenizer.run. destruct (run_from N (d_delta D) (d_start D) w) as [q|].
    - destruct H as (Hl & Ha & Ht & _). split; [exact Hl|]. split; [exact Ha|exact Ht].
    - intros [z Hz]. exact (H z Hz).
  Qed.

  Lemma acc_at_nfa s k : bytes s -> (acc_at s k = true <-> n_accepts (firstn k s)).
  Proof.
    intros Hb. pose proof (run_facts (firstn k s) (bytes_firstn s k Hb)) as H.
    unfold Tokenizer.acc_at. destruct (run (firstn k s)) as [q|].
    - apply H.
    - split; [discriminate|]. intros Ha. exfalso. apply H. exists (stop n). exact Ha.
  Qed.

  Lemma dead_at_nfa s k : bytes s -> (dead_at s k = true <-> ~ n_live (firstn k s)).
  Proof.
    intros Hb. pose proof (run_facts (firstn k s) (bytes_firstn s k Hb)) as H.
    unfold Tokenizer.dead_at. destruct (run (firstn k s)) as [q|].
    - split; [discriminate|]. intros Hn. exfalso. apply Hn. apply H.
    - split; [intros _; exact H|reflexivity].
  Qed.

  Lemma dead_at_false_nfa s k : bytes s -> dead_at s k = false -> n_live (firstn k s).
  Proof.
    intros Hb. pose proof (run_facts (firstn k s) (bytes_firstn s k Hb)) as H.
    unfold Tokenizer.dead_at. destruct (run (firstn k s)) as [q|]; [intros _; apply H|discriminate].
  Qed.

  (* the first token of a stream, in terms of the NFA *)
  Definition LangTok (s : list N) (t : tok Item) (k : nat) : Prop :=
    (n_accepts (firstn k s) ->
       (* the LONGEST recognised prefix of the whole remaining stream ... *)
       (forall j, (k < j <= length s)%nat -> ~ n_accepts (firstn j s)) /\
       (* ... decoded by the first tag, in the order of the code's tag set, among the tags of the
          NFA states the bytes reach *)
       exists q, run (firstn k s) = Some q /\ (forall tg, In tg (d_tags D q) <-> n_tag (firstn k s) tg) /\
                 t = mk_tok q (firstn k s)) /\
    (~ n_accepts (firstn k s) ->
       (* nothing recognised starts here: the longest live prefix (or one byte) surfaces raw *)
       (forall j, (1 <= j <= length s)%nat -> ~ n_accepts (firstn j s)) /\
       t = TRaw (firstn k s) /\
       ((n_live (firstn k s) /\ ~ n_live (firstn (S k) s)) \/ (k = 1%nat /\ ~ n_live (firstn 1 s)))).

  Theorem munch1_language s t k : bytes s -> munch1 s = Some (t, k) -> LangTok s t k.
  Proof.
    intros Hb Hm. pose proof (terminal_ok_sound D Hterm) as Hts.
    split.
    - intros Ha. apply (acc_at_nfa s k Hb) in Ha. split.
      + intros j Hj Hn. apply (acc_at_nfa s j Hb) in Hn.
        rewrite (munch1_is_longest N Item (d_start D) (d_delta D) (d_accepting D) (d_terminal D) decode_item Hts s t k Hm Ha j Hj) in Hn.
        discriminate.
      + destruct (munch1_accepted N Item (d_start D) (d_delta D) (d_accepting D) (d_terminal D) decode_item s t k Hm Ha)
          as (q & Hq & _ & Ht).
        exists q. split; [exact Hq|]. split.
        * pose proof (run_facts (firstn k s) (bytes_firstn s k Hb)) as H. rewrite Hq in H. apply H.
        * unfold Tokenizer.mk_tok. destruct (decode_item q (firstn k s)); exact Ht.
    - intros Hna. assert (Ha : acc_at s k = false).
      { destruct (acc_at s k) eqn:E; [|reflexivity]. exfalso. apply Hna. apply (acc_at_nfa s k Hb). exact E. }
      split.
      + intros j Hj Hn. apply (acc_at_nfa s j Hb) in Hn.
        rewrite (munch1_raw_no_match N Item (d_start D) (d_delta D) (d_accepting D) (d_terminal D) decode_item s t k Hm Ha j Hj) in Hn.
        discriminate.
      + destruct (munch1_raw_span N Item (d_start D) (d_delta D) (d_accepting D) (d_terminal D) decode_item s t k Hm Ha)
          as [Ht [[H1 H2]|[H1 H2]]]; (split; [exact Ht|]).
        * left. split; [apply (dead_at_false_nfa s k Hb H1)|apply (dead_at_nfa s (S k) Hb); exact H2].
        * right. split; [exact H1|apply (dead_at_nfa s 1 Hb); exact H2].
  Qed.

  Theorem pending_language s : bytes s -> munch1 s = None ->
    forall k, (1 <= k <= length s)%nat -> n_live (firstn k s).
  Proof.
    intros Hb Hm k Hk.
    apply (munch1_none N Item (d_start D) (d_delta D) (d_accepting D) (d_terminal D) decode_item) in Hm.
    rewrite (first_stop_none N (d_start D) (d_delta D) (d_accepting D) (d_terminal D)) in Hm.
    specialize (Hm k Hk). unfold stop_at in Hm. apply orb_false_elim in Hm. destruct Hm as [Hd _].
    apply (dead_at_false_nfa s k Hb Hd).
  Qed.

  (* the whole tokenisation *)
  Inductive LMunch : list N -> list (tok Item) -> list N -> Prop :=
  | LM_pending s : (forall k, (1 <= k <= length s)%nat -> n_live (firstn k s)) -> LMunch s [] s
  | LM_tok s t k ts p :
      (1 <= k <= length s)%nat -> span t = firstn k s -> LangTok s t k ->
      LMunch (skipn k s) ts p -> LMunch s (t :: ts) p.

  Theorem Munch_language s ts p : bytes s -> Munch s ts p -> LMunch s ts p.
  Proof.
    intros Hb HM. induction HM as [s Hn|s t k ts p Hm _ IH].
    - apply LM_pending. apply (pending_language s Hb Hn).
    - destruct (munch1_bounds N Item (d_start D) (d_delta D) (d_accepting D) (d_terminal D) decode_item _ _ _ Hm) as [Hk Hs].
      apply LM_tok with (k := k); [exact Hk|exact Hs|apply (munch1_language s t k Hb Hm)|].
      apply IH. apply bytes_skipn. exact Hb.
  Qed.
End Lang.
