(* build e accepts exactly the strings the expression matches (every
   expression, every string), is well formed and starts at state 0. *)
From Coq Require Import List NArith Bool Arith Lia.
From SNT Require Import Automata.Regex Automata.RegexInd Automata.RegexProofs Automata.NFA Automata.Build Automata.PathLemmas
  Automata.BuildLeaves Automata.BuildOps Automata.BuildFrames Automata.BuildSeq.
Import ListNotations.

Lemma star_ext (L1 L2 : list N -> Prop) :
  (forall s, L1 s <-> L2 s) -> forall s, star L1 s <-> star L2 s.
Proof.
  intros H s. split; induction 1; try apply star_nil; apply star_app; auto; apply H; auto.
Qed.

Lemma plus_ext (L1 L2 : list N -> Prop) :
  (forall s, L1 s <-> L2 s) -> forall s, plus L1 s <-> plus L2 s.
Proof.
  intros H s. unfold plus. split; intros [s1 [s2 [-> [H1 H2]]]]; exists s1, s2;
    (repeat split; [apply H; exact H1|apply (star_ext _ _ H); exact H2]).
Qed.

Definition build_ok (e : regex) : Prop :=
  wf (build e) /\ start (build e) = 0 /\ forall s, accepts (build e) s <-> matches e s.

Lemma Forall_build_wf es : Forall build_ok es -> Forall wf (map build es).
Proof.
  intros H. apply Forall_forall. intros n Hin. apply in_map_iff in Hin.
  destruct Hin as [e [<- Hin]]. rewrite Forall_forall in H. apply (H e Hin).
Qed.

Lemma seq_lang_matches es : Forall build_ok es ->
  forall s, seq_lang (map build es) s <-> matches_seq es s.
Proof.
  induction 1 as [|e r [_ [_ He]] _ IH]; intros s; cbn [map seq_lang matches_seq]; [tauto|].
  split; intros [s1 [s2 [-> [H1 H2]]]]; exists s1, s2; (repeat split; [apply He; exact H1|apply IH; exact H2]).
Qed.

Theorem build_correct : forall e, build_ok e.
Proof.
  apply regex_rect'; unfold build_ok; cbn [build].
  - intros set. split; [apply predicate_wf|]. split; [reflexivity|]. intros s. apply predicate_lang.
  - intros bs. split; [apply from_str_wf|]. split; [reflexivity|]. intros s. apply from_str_lang.
  - split; [apply empty_wf|]. split; [reflexivity|]. intros s. apply empty_lang.
  - split; [apply nothing_wf|]. split; [reflexivity|]. intros s.
    split; [intros H; apply nothing_lang in H; contradiction|intros []].
  - intros es IH. pose proof (Forall_build_wf es IH) as W.
    split; [apply sequence_wf; exact W|]. split.
    + apply sequence_start. apply Forall_forall. intros n Hin. apply in_map_iff in Hin.
      destruct Hin as [e [<- Hin]]. rewrite Forall_forall in IH. apply (IH e Hin).
    + intros s. rewrite (sequence_lang _ s W), matches_Seq. apply seq_lang_matches. exact IH.
  - intros es IH. pose proof (Forall_build_wf es IH) as W.
    split; [apply choice_wf; exact W|]. split; [apply choice_start_stop|].
    intros s. rewrite (choice_lang _ s W), matches_Choice, matches_any_In.
    rewrite Forall_forall in IH. split.
    + intros [n [Hin H]]. apply in_map_iff in Hin. destruct Hin as [e [<- Hin]].
      exists e. split; [exact Hin|]. apply (IH e Hin). exact H.
    + intros [e [Hin H]]. exists (build e). split; [apply in_map; exact Hin|].
      apply (IH e Hin). exact H.
  - intros e [W [Hs He]]. split; [apply some_wf; exact W|]. split; [exact Hs|].
    intros s. destruct W as [_ [W2 _]]. rewrite (some_lang _ s W2). cbn [matches].
    apply plus_ext. exact He.
  - intros e [W [Hs He]]. split; [apply optional_wf; exact W|]. split; [reflexivity|].
    intros s. rewrite (optional_lang _ s W). cbn [matches]. rewrite He. tauto.
  - intros e [W [Hs He]]. split; [apply many_wf; exact W|]. split; [reflexivity|].
    intros s. rewrite (many_lang _ s W). cbn [matches]. apply star_ext. exact He.
  - intros t e [W [Hs He]]. split; [apply tag_wf; exact W|]. split; [exact Hs|].
    intros s. rewrite tag_lang. cbn [matches]. apply He.
Qed.

Corollary build_accepts e s : accepts (build e) s <-> matches e s.
Proof. apply build_correct. Qed.

Corollary build_wf e : wf (build e).
Proof. apply build_correct. Qed.

Corollary build_start e : start (build e) = 0.
Proof. apply build_correct. Qed.
