(* build : regex -> nfa, the NFA the public API constructs for an expression.
   `build_v0` is the same with `optional` as it was before the fix (in place). *)
From Coq Require Import List NArith Bool Arith.
From SNT Require Import Automata.Regex Automata.NFA.
Import ListNotations.

Fixpoint build (e : regex) : nfa :=
  match e with
  | Pred set => predicate set
  | Lit bs => from_str bs
  | Empty => empty
  | Nothing => nothing
  | Seq es => sequence (map build es)
  | Choice es => choice (map build es)
  | Plus e => some (build e)
  | Opt e => optional (build e)
  | Many e => many (build e)
  | Tag t e => tag_stop_state t (build e)
  end.

Fixpoint build_v0 (e : regex) : nfa :=
  match e with
  | Pred set => predicate set
  | Lit bs => from_str bs
  | Empty => empty
  | Nothing => nothing
  | Seq es => sequence (map build_v0 es)
  | Choice es => choice (map build_v0 es)
  | Plus e => some (build_v0 e)
  | Opt e => optional_inplace (build_v0 e)
  | Many e => many (build_v0 e)
  | Tag t e => tag_stop_state t (build_v0 e)
  end.
