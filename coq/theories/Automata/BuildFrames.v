(* choice, optional (fixed code) and many: their graphs are framed relations
   (BuildOps.frame_rel); well-formedness and accepted languages. *)
From Coq Require Import List NArith Bool Arith Lia.
From SNT Require Import Automata.Regex Automata.NFA Automata.PathLemmas Automata.BuildLeaves
  Automata.BuildOps.
Import ListNotations.

(* ---------- choice ---------- *)

Lemma choice_loop_spec ends : forall st0 ss st0' ss',
  choice_loop ends st0 ss = (st0', ss') ->
  (forall f t, In (f, t) ends -> 2 <= t) ->
  edges st0' = edges st0 /\
  (forall x, In x (eps st0') <-> In x (eps st0) \/ exists t, In (x, t) ends) /\
  length ss' = length ss /\
  (forall q l q', gstep 2 ss' q l q' <->
      gstep 2 ss q l q' \/
      (l = None /\ q' = 1 /\ q < 2 + length ss /\ exists f, In (f, q) ends)).
Proof.
  induction ends as [|[f t] r IH]; intros st0 ss st0' ss' E Hge; cbn [choice_loop] in E.
  - inversion E; subst st0' ss'. split; [reflexivity|]. split; [|split; [reflexivity|]].
    + intros x. split; [intros Hx; left; exact Hx|intros [Hx | [t []]]; exact Hx].
    + intros q l q'. split; [intros Hx; left; exact Hx|].
      intros [Hx | [_ [_ [_ [f []]]]]]. exact Hx.
  - apply IH in E; [|intros f' t' H; apply (Hge f' t'); right; exact H].
    destruct E as [E1 [E2 [E3 E4]]].
    assert (Ht : 2 <= t) by (apply (Hge f t); left; reflexivity).
    split; [rewrite E1; reflexivity|]. split; [|split].
    + intros x. rewrite E2. cbn [add_eps eps]. rewrite set_insert_In. split.
      * intros [[-> | H] | [t' H]].
        -- right. exists t. left. reflexivity.
        -- left. exact H.
        -- right. exists t'. right. exact H.
      * intros [H | [t' [H | H]]].
        -- left. right. exact H.
        -- inversion H; subst. left. left. reflexivity.
        -- right. exists t'. exact H.
    + rewrite E3. apply update_length.
    + intros q l q'. rewrite E4. rewrite update_length. rewrite gstep_add_eps by exact Ht. split.
      * intros [[H | [-> [-> [-> Hlt]]]] | [-> [-> [Hlt [f' H]]]]].
        -- left. exact H.
        -- right. repeat split; auto. exists f. left. reflexivity.
        -- right. repeat split; auto. exists f'. right. exact H.
      * intros [H | [-> [-> [Hlt [f' [H | H]]]]]].
        -- left. left. exact H.
        -- inversion H; subst. left. right. auto.
        -- right. repeat split; auto. exists f'. exact H.
Qed.

Lemma ends_In nfas o f t :
  In (f, t) (snd (merge_states nfas o)) <->
  exists oi ni, In (oi, ni) (comps nfas o) /\ f = oi + start ni /\ t = oi + stop ni.
Proof.
  rewrite merge_ends, in_map_iff. split.
  - intros [[oi ni] [Heq Hin]]. cbn [fst snd] in Heq. inversion Heq; subst.
    exists oi, ni. auto.
  - intros [oi [ni [Hin [-> ->]]]]. exists (oi, ni). auto.
Qed.

Lemma choice_unfold nfas : nfas <> [] ->
  exists st0 ss',
    choice nfas = mknfa 0 1 (st0 :: new_state :: ss') /\
    choice_loop (snd (merge_states nfas 2)) new_state (fst (merge_states nfas 2)) = (st0, ss').
Proof.
  intros Hne. unfold choice.
  destruct (merge_states nfas 2) as [ss ends] eqn:E. cbn [fst snd].
  destruct ends as [|e r].
  - exfalso. assert (H : snd (merge_states nfas 2) = []) by (rewrite E; reflexivity).
    rewrite merge_ends in H. destruct nfas; [congruence|discriminate].
  - destruct (choice_loop (e :: r) new_state ss) as [st0 ss'] eqn:E2.
    exists st0, ss'. auto.
Qed.

Lemma choice_step nfas : nfas <> [] -> Forall wf nfas ->
  forall q l q', nstep (choice nfas) q l q' <-> frame_rel (comps nfas 2) false false q l q'.
Proof.
  intros Hne W q l q'.
  destruct (choice_unfold nfas Hne) as [st0 [ss' [-> E]]].
  apply choice_loop_spec in E.
  2:{ intros f t H. apply ends_In in H. destruct H as [oi [ni [Hin [_ ->]]]].
      apply comps_range in Hin. lia. }
  destruct E as [E1 [E2 [E3 E4]]]. rewrite merge_length in E4.
  unfold nstep. cbn [states]. rewrite gstep_cons, gstep_new_state, E4, merge_step.
  cbn [new_state edges eps] in E1, E2. unfold frame_rel. split.
  - intros [[-> H] | [H | [-> [-> [Hlt [f H]]]]]].
    + left. split; [reflexivity|]. destruct l as [c|].
      * rewrite E1 in H. destruct H.
      * split; [reflexivity|]. apply E2 in H. destruct H as [[] | [t H]].
        apply ends_In in H. destruct H as [oi [ni [Hin [-> _]]]]. left. exists oi, ni. auto.
    + right. right. exact H.
    + right. left. split; [reflexivity|]. apply ends_In in H.
      destruct H as [oi [ni [Hin [_ ->]]]]. exists oi, ni. auto.
  - intros [[-> [-> [[oi [ni [Hin ->]]] | [Hb _]]]] | [[-> [oi [ni [Hin [-> [-> | [Hb _]]]]]]] | H]];
      try discriminate.
    + left. split; [reflexivity|]. apply E2. right. exists (oi + stop ni).
      apply ends_In. exists oi, ni. auto.
    + right. right. repeat split; auto.
      * pose proof (comps_range _ _ _ _ Hin) as Hr.
        apply comps_In in Hin. rewrite Forall_forall in W. destruct (W _ Hin) as [_ [W2 _]]. lia.
      * exists (oi + start ni). apply ends_In. exists oi, ni. auto.
    + right. left. exact H.
Qed.

Lemma choice_size nfas : nfas <> [] -> size (choice nfas) = 2 + total nfas.
Proof.
  intros Hne. destruct (choice_unfold nfas Hne) as [st0 [ss' [-> E]]].
  unfold size. cbn [states length].
  destruct (choice_loop_spec _ _ _ _ _ E) as [_ [_ [E3 _]]].
  - intros f t H. apply ends_In in H. destruct H as [oi [ni [Hin [_ ->]]]].
    apply comps_range in Hin. lia.
  - rewrite E3, merge_length. reflexivity.
Qed.

Lemma choice_start_stop nfas : start (choice nfas) = 0 /\ stop (choice nfas) = 1.
Proof.
  destruct nfas as [|n r]; [split; reflexivity|].
  destruct (choice_unfold (n :: r)) as [st0 [ss' [-> _]]]; [discriminate|]. split; reflexivity.
Qed.

Lemma choice_wf nfas : Forall wf nfas -> wf (choice nfas).
Proof.
  intros W. destruct nfas as [|n r]; [apply nothing_wf|].
  assert (Hne : n :: r <> []) by discriminate.
  destruct (choice_start_stop (n :: r)) as [Hs Ht].
  unfold wf. rewrite Hs, Ht, (choice_size _ Hne). repeat split; try lia.
  intros q l q' H. apply (choice_step _ Hne W) in H.
  apply frame_target in H; auto.
Qed.

Lemma choice_lang nfas s : Forall wf nfas ->
  (accepts (choice nfas) s <-> exists n, In n nfas /\ accepts n s).
Proof.
  intros W. destruct nfas as [|n0 r].
  - split; [intros H; apply nothing_lang in H; contradiction|intros [n [[] _]]].
  - assert (Hne : n0 :: r <> []) by discriminate.
    destruct (choice_start_stop (n0 :: r)) as [Hs Ht].
    unfold accepts at 1. rewrite Hs, Ht.
    transitivity (path (frame_rel (comps (n0 :: r) 2) false false) 0 s 1).
    { split; apply path_mono; intros q l q' H; apply (choice_step _ Hne W); exact H. }
    rewrite frame_lang by (apply good_comps_merge; [lia|exact W]).
    cbn [rel_back]. split.
    + intros [[Hb _] | [oi [ni [Hin P]]]]; [discriminate|].
      exists ni. split; [eapply comps_In; eauto|exact P].
    + intros [n [Hin P]]. right. destruct (In_comps _ 2 _ Hin) as [oi Hc].
      exists oi, n. auto.
Qed.

(* ---------- optional (fixed) and many ---------- *)

Lemma merge_one n o : merge_states [n] o = (map (shift_state o) (states n) ++ [], [(o + start n, o + stop n)]).
Proof. reflexivity. Qed.

Lemma st0_eps n x :
  In x (eps (add_eps 1 (add_eps (2 + start n) new_state))) <-> x = 1 \/ x = 2 + start n.
Proof. cbn [add_eps eps new_state]. rewrite !set_insert_In. cbn [In]. tauto. Qed.

Lemma one_comp_step n q l q' :
  gstep 2 (map (shift_state 2) (states n) ++ []) q l q' <->
  exists oi ni, In (oi, ni) [(2, n)] /\ shiftrel oi (nstep ni) q l q'.
Proof.
  rewrite app_nil_r, gstep_shift. split.
  - intros H. exists 2, n. split; [left; reflexivity|exact H].
  - intros [oi [ni [[Heq | []] H]]]. inversion Heq; subst. exact H.
Qed.

Lemma optional_step n : wf n ->
  forall q l q', nstep (optional n) q l q' <-> frame_rel [(2, n)] true false q l q'.
Proof.
  intros [_ [W2 _]] q l q'. unfold nstep, optional. rewrite merge_one. cbn [hd states].
  rewrite gstep_cons, gstep_new_state.
  rewrite gstep_add_eps by lia. rewrite one_comp_step.
  rewrite app_nil_r, map_length. unfold frame_rel. split.
  - intros [[-> H] | [H | [-> [-> [-> Hlt]]]]].
    + left. split; [reflexivity|]. destruct l as [c|]; [destruct H|].
      split; [reflexivity|]. apply st0_eps in H. destruct H as [-> | ->].
      * right. auto.
      * left. exists 2, n. split; [left; reflexivity|reflexivity].
    + right. right. exact H.
    + right. left. split; [reflexivity|]. exists 2, n. split; [left; reflexivity|]. auto.
  - intros [[-> [-> [[oi [ni [[Heq | []] ->]]] | [_ ->]]]]
           | [[-> [oi [ni [[Heq | []] [-> [-> | [Hb _]]]]]]] | H]]; try discriminate.
    + inversion Heq; subst. left. split; [reflexivity|]. apply st0_eps. auto.
    + left. split; [reflexivity|]. apply st0_eps. auto.
    + inversion Heq; subst. right. right. repeat split; auto. unfold size in W2. lia.
    + right. left. exact H.
Qed.

Lemma many_step n : wf n ->
  forall q l q', nstep (many n) q l q' <-> frame_rel [(2, n)] true true q l q'.
Proof.
  intros [_ [W2 _]] q l q'. unfold nstep, many. rewrite merge_one. cbn [hd states].
  rewrite gstep_cons, gstep_new_state.
  rewrite gstep_add_eps2 by lia. rewrite one_comp_step.
  rewrite app_nil_r, map_length. unfold frame_rel. split.
  - intros [[-> H] | [H | [-> [-> [Hq' Hlt]]]]].
    + left. split; [reflexivity|]. destruct l as [c|]; [destruct H|].
      split; [reflexivity|]. apply st0_eps in H. destruct H as [-> | ->].
      * right. auto.
      * left. exists 2, n. split; [left; reflexivity|reflexivity].
    + right. right. exact H.
    + right. left. split; [reflexivity|]. exists 2, n. split; [left; reflexivity|].
      split; [reflexivity|]. destruct Hq' as [-> | ->]; auto.
  - intros [[-> [-> [[oi [ni [[Heq | []] ->]]] | [_ ->]]]]
           | [[-> [oi [ni [[Heq | []] [-> Hq']]]]] | H]].
    + inversion Heq; subst. left. split; [reflexivity|]. apply st0_eps. auto.
    + left. split; [reflexivity|]. apply st0_eps. auto.
    + inversion Heq; subst. right. right. repeat split; auto.
      * destruct Hq' as [-> | [_ ->]]; auto.
      * unfold size in W2. lia.
    + right. left. exact H.
Qed.

Lemma good_one n : wf n -> good_comps [(2, n)].
Proof.
  intros W. change [(2, n)] with (comps [n] 2). apply good_comps_merge; [lia|].
  constructor; [exact W|constructor].
Qed.

Lemma framed_one_wf n (m : nfa) bypass back :
  wf n -> start m = 0 -> stop m = 1 -> size m = 2 + size n ->
  (forall q l q', nstep m q l q' -> frame_rel [(2, n)] bypass back q l q') -> wf m.
Proof.
  intros W Hs Ht Hz Hstep. unfold wf. rewrite Hs, Ht, Hz. repeat split; try lia.
  intros q l q' H. apply Hstep in H.
  change [(2, n)] with (comps [n] 2) in H. apply frame_target in H.
  - cbn [total] in H. lia.
  - constructor; [exact W|constructor].
  - discriminate.
Qed.

Lemma optional_size n : size (optional n) = 2 + size n.
Proof.
  unfold size, optional. rewrite merge_one. cbn [hd states length].
  rewrite update_length, app_nil_r, map_length. reflexivity.
Qed.

Lemma many_size n : size (many n) = 2 + size n.
Proof.
  unfold size, many. rewrite merge_one. cbn [hd states length].
  rewrite update_length, app_nil_r, map_length. reflexivity.
Qed.

Lemma optional_wf n : wf n -> wf (optional n).
Proof.
  intros W. apply (framed_one_wf n _ true false W); try reflexivity.
  - apply optional_size.
  - intros q l q' H. apply (optional_step n W). exact H.
Qed.

Lemma many_wf n : wf n -> wf (many n).
Proof.
  intros W. apply (framed_one_wf n _ true true W); try reflexivity.
  - apply many_size.
  - intros q l q' H. apply (many_step n W). exact H.
Qed.

Lemma optional_lang n s : wf n -> (accepts (optional n) s <-> s = [] \/ accepts n s).
Proof.
  intros W. unfold accepts at 1. change (start (optional n)) with 0. change (stop (optional n)) with 1.
  transitivity (path (frame_rel [(2, n)] true false) 0 s 1).
  { split; apply path_mono; intros q l q' H; apply (optional_step n W); exact H. }
  rewrite frame_lang by (apply good_one; exact W). cbn [rel_back]. split.
  - intros [[_ ->] | [oi [ni [[Heq | []] P]]]]; [left; reflexivity|].
    inversion Heq; subst. right. exact P.
  - intros [-> | P]; [left; auto|]. right. exists 2, n. split; [left; reflexivity|exact P].
Qed.

Lemma many_lang n s : wf n -> (accepts (many n) s <-> star (accepts n) s).
Proof.
  intros W. unfold accepts at 1. change (start (many n)) with 0. change (stop (many n)) with 1.
  transitivity (path (frame_rel [(2, n)] true true) 0 s 1).
  { split; apply path_mono; intros q l q' H; apply (many_step n W); exact H. }
  rewrite frame_lang by (apply good_one; exact W). cbn [rel_back]. split.
  - intros [[_ ->] | [oi [ni [[Heq | []] P]]]]; [apply star_nil|].
    inversion Heq; subst. apply rel_loop_lang in P.
    destruct P as [s1 [s2 [-> [H1 H2]]]]. apply star_app; assumption.
  - intros H. destruct H as [|s1 s2 H1 H2]; [left; auto|].
    right. exists 2, n. split; [left; reflexivity|]. apply rel_loop_lang.
    exists s1, s2. auto.
Qed.
