(* The incremental tokeniser computes the leftmost-longest tokenisation `munch`
   (Automata/Tokenizer.v): refinement proof via the stream view of TokenizerRun.v. *)
From Coq Require Import List NArith Arith Bool Lia.
From SNT Require Import Base.Outcome Automata.Tokenizer Automata.TokenizerRun.
Import ListNotations.

Section Munch.
  Variables Q Item : Type.
  Variable q0 : Q.
  Variable delta : Q -> N -> option Q.
  Variables accepting terminal : Q -> bool.
  Variable decode_item : Q -> list N -> option Item.

  Notation tok := (tok Item).
  Notation st := (st Q Item).
  Notation step := (step Q delta).
  Notation run := (run Q q0 delta).
  Notation dead_at := (dead_at Q q0 delta).
  Notation acc_at := (acc_at Q q0 delta accepting).
  Notation term_at := (term_at Q q0 delta accepting terminal).
  Notation stop_at := (stop_at Q q0 delta accepting terminal).
  Notation first_stop := (first_stop Q q0 delta accepting terminal).
  Notation longest_acc := (longest_acc Q q0 delta accepting).
  Notation tok_at := (tok_at Q Item q0 delta decode_item).
  Notation mk_tok := (mk_tok Q Item decode_item).
  Notation munch1 := (munch1 Q Item q0 delta accepting terminal decode_item).
  Notation munch_aux := (munch_aux Q Item q0 delta accepting terminal decode_item).
  Notation munch := (munch Q Item q0 delta accepting terminal decode_item).
  Notation Munch := (Munch Q Item q0 delta accepting terminal decode_item).
  Notation best := (best Q Item q0 delta accepting decode_item).
  Notation cstep := (cstep Q Item q0 delta accepting terminal decode_item).
  Notation Run := (Run Q Item q0 delta accepting terminal decode_item).
  Notation decode_into := (decode_into Q Item q0 delta accepting terminal decode_item).
  Notation feed := (feed Q Item q0 delta accepting terminal decode_item).

  (* ---------------------------------------------------------------- *)
  (* lists *)

  Lemma firstn_app_le {A} k (x y : list A) : (k <= length x)%nat -> firstn k (x ++ y) = firstn k x.
  Proof.
    intros H. rewrite firstn_app. replace (k - length x)%nat with 0%nat by lia.
    cbn. apply app_nil_r.
  Qed.

  Lemma skipn_app_le {A} k (x y : list A) : (k <= length x)%nat -> skipn k (x ++ y) = skipn k x ++ y.
  Proof.
    intros H. rewrite skipn_app. replace (k - length x)%nat with 0%nat by lia. reflexivity.
  Qed.

  Lemma firstn_S_nth {A} (s : list A) n b : nth_error s n = Some b -> firstn (S n) s = firstn n s ++ [b].
  Proof.
    revert s. induction n as [|n IH]; intros [|a s] Hb; try discriminate.
    - cbn in Hb. inversion Hb; reflexivity.
    - cbn in Hb. rewrite (firstn_cons (S n)), (firstn_cons n), (IH _ Hb). reflexivity.
  Qed.

  Lemma find_seq_spec (f : nat -> bool) n : forall a m,
    find f (seq a n) = Some m ->
    (a <= m < a + n)%nat /\ f m = true /\ forall k, (a <= k < m)%nat -> f k = false.
  Proof.
    induction n as [|n IH]; intros a m H; [discriminate|].
    cbn [seq find] in H. destruct (f a) eqn:Fa.
    - inversion H; subst. split; [lia|]. split; [exact Fa|]. intros k Hk; lia.
    - destruct (IH _ _ H) as (Hr & Hm & Hl). split; [lia|]. split; [exact Hm|].
      intros k Hk. destruct (Nat.eq_dec k a) as [->|]; [exact Fa|]. apply Hl. lia.
  Qed.

  Lemma find_seq_first (f : nat -> bool) n : forall a m,
    (a <= m < a + n)%nat -> (forall k, (a <= k < m)%nat -> f k = false) -> f m = true ->
    find f (seq a n) = Some m.
  Proof.
    induction n as [|n IH]; intros a m Hr Hl Hm; [lia|].
    cbn [seq find]. destruct (Nat.eq_dec m a) as [->|Hne].
    - rewrite Hm. reflexivity.
    - rewrite (Hl a) by lia. apply IH; [lia| |exact Hm]. intros k Hk. apply Hl. lia.
  Qed.

  Lemma find_seq_none (f : nat -> bool) n : forall a,
    (forall k, (a <= k < a + n)%nat -> f k = false) -> find f (seq a n) = None.
  Proof.
    induction n as [|n IH]; intros a H; [reflexivity|].
    cbn [seq find]. rewrite (H a) by lia. apply IH. intros k Hk. apply H. lia.
  Qed.

  Lemma find_seq_none_inv (f : nat -> bool) n : forall a,
    find f (seq a n) = None -> forall k, (a <= k < a + n)%nat -> f k = false.
  Proof.
    induction n as [|n IH]; intros a H k Hk; [lia|].
    cbn [seq find] in H. destruct (f a) eqn:Fa; [discriminate|].
    destruct (Nat.eq_dec k a) as [->|]; [exact Fa|]. apply (IH _ H). lia.
  Qed.

  (* ---------------------------------------------------------------- *)
  (* runs of the automaton over prefixes *)

  Lemma run_snoc w b : run (w ++ [b]) = step (run w) b.
  Proof. unfold Tokenizer.run, run_from. rewrite fold_left_app. reflexivity. Qed.

  Lemma run_from_none w : fold_left step w None = None.
  Proof. induction w as [|b w IH]; [reflexivity|exact IH]. Qed.

  Lemma run_app_none x y : run x = None -> run (x ++ y) = None.
  Proof.
    unfold Tokenizer.run, run_from. rewrite fold_left_app. intros ->. apply run_from_none.
  Qed.

  Lemma dead_at_prefix x y k : (k <= length x)%nat -> dead_at (x ++ y) k = dead_at x k.
  Proof. intros H. unfold Tokenizer.dead_at. rewrite firstn_app_le by exact H. reflexivity. Qed.
  Lemma acc_at_prefix x y k : (k <= length x)%nat -> acc_at (x ++ y) k = acc_at x k.
  Proof. intros H. unfold Tokenizer.acc_at. rewrite firstn_app_le by exact H. reflexivity. Qed.
  Lemma term_at_prefix x y k : (k <= length x)%nat -> term_at (x ++ y) k = term_at x k.
  Proof. intros H. unfold Tokenizer.term_at. rewrite firstn_app_le by exact H. reflexivity. Qed.
  Lemma stop_at_prefix x y k : (k <= length x)%nat -> stop_at (x ++ y) k = stop_at x k.
  Proof.
    intros H. unfold Tokenizer.stop_at. rewrite dead_at_prefix, term_at_prefix by exact H. reflexivity.
  Qed.
  Lemma tok_at_prefix x y k : (k <= length x)%nat -> tok_at (x ++ y) k = tok_at x k.
  Proof. intros H. unfold Tokenizer.tok_at. rewrite firstn_app_le by exact H. reflexivity. Qed.

  (* once dead, always dead *)
  Lemma dead_at_mono s k j : (k <= j)%nat -> dead_at s k = true -> dead_at s j = true.
  Proof.
    intros Hkj. unfold Tokenizer.dead_at.
    destruct (run (firstn k s)) eqn:E; [discriminate|]. intros _.
    assert (firstn j s = firstn k s ++ skipn k (firstn j s)) as ->.
    { rewrite <- (firstn_skipn k (firstn j s)) at 1. rewrite firstn_firstn.
      replace (Nat.min k j) with k by lia. reflexivity. }
    rewrite run_app_none by exact E. reflexivity.
  Qed.

  (* ---------------------------------------------------------------- *)
  (* first_stop / longest_acc: what they mean *)

  Lemma first_stop_some s n :
    first_stop s = Some n <->
    (1 <= n <= length s)%nat /\ stop_at s n = true /\ forall k, (1 <= k < n)%nat -> stop_at s k = false.
  Proof.
    unfold Tokenizer.first_stop. split.
    - intros H. destruct (find_seq_spec _ _ _ _ H) as (Hr & Hm & Hl). split; [lia|]. split; assumption.
    - intros (Hr & Hm & Hl). apply find_seq_first; [lia|exact Hl|exact Hm].
  Qed.

  Lemma first_stop_none s :
    first_stop s = None <-> forall k, (1 <= k <= length s)%nat -> stop_at s k = false.
  Proof.
    unfold Tokenizer.first_stop. split.
    - intros H k Hk. apply (find_seq_none_inv _ _ _ H). lia.
    - intros H. apply find_seq_none. intros k Hk. apply H. lia.
  Qed.

  Lemma longest_acc_0 s : longest_acc s 0 = None.
  Proof. reflexivity. Qed.

  Lemma longest_acc_S s m :
    longest_acc s (S m) = if acc_at s (S m) then Some (S m) else longest_acc s m.
  Proof.
    unfold Tokenizer.longest_acc. rewrite seq_S, rev_unit. reflexivity.
  Qed.

  Lemma longest_acc_some s m : forall k,
    longest_acc s m = Some k <->
    (1 <= k <= m)%nat /\ acc_at s k = true /\ forall j, (k < j <= m)%nat -> acc_at s j = false.
  Proof.
    induction m as [|m IH]; intros k.
    - rewrite longest_acc_0. split; [discriminate|]. intros (H & _); lia.
    - rewrite longest_acc_S. destruct (acc_at s (S m)) eqn:E.
      + split.
        * intros H; inversion H; subst. split; [lia|]. split; [exact E|]. intros j Hj; lia.
        * intros (Hr & Hk & Hl). destruct (Nat.eq_dec k (S m)) as [->|Hne]; [reflexivity|].
          rewrite (Hl (S m)) in E by lia. discriminate.
      + rewrite IH. split.
        * intros (Hr & Hk & Hl). split; [lia|]. split; [exact Hk|].
          intros j Hj. destruct (Nat.eq_dec j (S m)) as [->|]; [exact E|]. apply Hl. lia.
        * intros (Hr & Hk & Hl). destruct (Nat.eq_dec k (S m)) as [->|Hne].
          -- rewrite Hk in E. discriminate.
          -- split; [lia|]. split; [exact Hk|]. intros j Hj. apply Hl. lia.
  Qed.

  Lemma longest_acc_none s m :
    longest_acc s m = None <-> forall j, (1 <= j <= m)%nat -> acc_at s j = false.
  Proof.
    induction m as [|m IH].
    - rewrite longest_acc_0. split; [intros _ j Hj; lia|reflexivity].
    - rewrite longest_acc_S. destruct (acc_at s (S m)) eqn:E.
      + split; [discriminate|]. intros H. rewrite (H (S m)) in E by lia. discriminate.
      + rewrite IH. split.
        * intros H j Hj. destruct (Nat.eq_dec j (S m)) as [->|]; [exact E|]. apply H. lia.
        * intros H j Hj. apply H. lia.
  Qed.

  Lemma longest_acc_prefix x y m : (m <= length x)%nat -> longest_acc (x ++ y) m = longest_acc x m.
  Proof.
    induction m as [|m IH]; intros H; [reflexivity|].
    rewrite !longest_acc_S, acc_at_prefix by exact H. rewrite IH by lia. reflexivity.
  Qed.

  Lemma span_mk_tok q buf : span (mk_tok q buf) = buf.
  Proof. unfold Tokenizer.mk_tok. destruct (decode_item q buf); reflexivity. Qed.

  Lemma span_tok_at s k : span (tok_at s k) = firstn k s.
  Proof. unfold Tokenizer.tok_at. destruct (run (firstn k s)); [apply span_mk_tok|reflexivity]. Qed.

  (* ---------------------------------------------------------------- *)
  (* munch1 *)

  Lemma munch1_none s : munch1 s = None <-> first_stop s = None.
  Proof.
    unfold Tokenizer.munch1. destruct (first_stop s) as [n|]; [|split; reflexivity].
    destruct (longest_acc s (if dead_at s n then n - 1 else n)); split; discriminate.
  Qed.

  Lemma munch1_bounds s t k :
    munch1 s = Some (t, k) -> (1 <= k <= length s)%nat /\ span t = firstn k s.
  Proof.
    unfold Tokenizer.munch1. destruct (first_stop s) as [n|] eqn:Hn; [|discriminate].
    apply first_stop_some in Hn. destruct Hn as (Hr & _ & _).
    destruct (longest_acc s (if dead_at s n then n - 1 else n)) as [k'|] eqn:Hk.
    - intros H; inversion H; subst. apply longest_acc_some in Hk. destruct Hk as (Hk & _ & _).
      split; [destruct (dead_at s n); lia|apply span_tok_at].
    - intros [= <- <-]. split; [|reflexivity].
      change (1 <= Nat.max 1 (n - 1) <= length s)%nat. pose proof (Nat.max_spec 1 (n - 1)). lia.
  Qed.

  (* a token is either the event of the accepting state its bytes lead to, or raw *)
  Lemma munch1_tok s t k :
    munch1 s = Some (t, k) ->
    (exists q, run (firstn k s) = Some q /\ accepting q = true /\ t = mk_tok q (firstn k s))
    \/ t = TRaw (firstn k s).
  Proof.
    unfold Tokenizer.munch1. destruct (first_stop s) as [n|]; [|discriminate].
    destruct (longest_acc s (if dead_at s n then n - 1 else n)) as [k'|] eqn:Hk.
    - intros H; inversion H; subst. apply longest_acc_some in Hk. destruct Hk as (_ & Ha & _).
      unfold Tokenizer.acc_at in Ha. unfold Tokenizer.tok_at.
      destruct (run (firstn k s)) as [q|]; [|discriminate]. left. exists q. repeat split. exact Ha.
    - intros [= <- <-]. right. reflexivity.
  Qed.

  (* what a raw token is, without reference to the code: when no prefix is accepted, the raw
     token is the longest live prefix of the remaining stream (the byte after it kills every
     recognised sequence), or the first byte alone when not even that byte starts a sequence *)
  Lemma munch1_raw_span s t k :
    munch1 s = Some (t, k) -> acc_at s k = false ->
    t = TRaw (firstn k s) /\
    ((dead_at s k = false /\ dead_at s (S k) = true) \/ (k = 1%nat /\ dead_at s 1 = true)).
  Proof.
    unfold Tokenizer.munch1. destruct (first_stop s) as [n|] eqn:Hn; [|discriminate].
    apply first_stop_some in Hn. destruct Hn as (Hr & Hs & Hl).
    destruct (longest_acc s (if dead_at s n then n - 1 else n)) as [k'|] eqn:Hk.
    - intros H; inversion H; subst. apply longest_acc_some in Hk. destruct Hk as (_ & Ha & _).
      intros E. rewrite E in Ha. discriminate.
    - destruct (dead_at s n) eqn:Hd.
      + intros H _.
        assert (k = Nat.max 1 (n - 1) /\ t = TRaw (firstn (Nat.max 1 (n - 1)) s)) as [-> ->] by (split; congruence).
        split; [reflexivity|].
        destruct (Nat.eq_dec n 1) as [->|Hne].
        * right. split; [reflexivity|exact Hd].
        * left. replace (Nat.max 1 (n - 1)) with (n - 1)%nat by lia.
          replace (S (n - 1)) with n by lia. split; [|exact Hd].
          specialize (Hl (n - 1)%nat ltac:(lia)). unfold Tokenizer.stop_at in Hl.
          apply orb_false_elim in Hl. apply Hl.
      + unfold Tokenizer.stop_at in Hs. rewrite Hd in Hs. cbn [orb] in Hs.
        rewrite longest_acc_none in Hk. specialize (Hk n ltac:(lia)).
        unfold Tokenizer.term_at in Hs. unfold Tokenizer.acc_at in Hk.
        destruct (run (firstn n s)); [|discriminate]. apply andb_prop in Hs. destruct Hs as [Hs _].
        rewrite Hs in Hk. discriminate.
  Qed.

  (* "recognised" = accepted by the automaton: an accepted longest prefix is emitted as the item its
     payload decoder makes of it, or — when the decoder rejects the bytes — as a raw token of the
     SAME span; a shorter complete sequence is not reconsidered *)
  Lemma munch1_accepted s t k :
    munch1 s = Some (t, k) -> acc_at s k = true ->
    exists q, run (firstn k s) = Some q /\ accepting q = true /\
      match decode_item q (firstn k s) with
      | Some i => t = TItem i (firstn k s)
      | None => t = TRaw (firstn k s)
      end.
  Proof.
    intros H Ha.
    destruct (Bool.bool_dec (acc_at s k) false) as [E|_]; [rewrite E in Ha; discriminate|].
    revert H. unfold Tokenizer.munch1. destruct (first_stop s) as [n|] eqn:Hn; [|discriminate].
    apply first_stop_some in Hn. destruct Hn as (Hr & Hs & Hl).
    destruct (longest_acc s (if dead_at s n then n - 1 else n)) as [k'|] eqn:Hk.
    - intros H; inversion H; subst. unfold Tokenizer.acc_at in Ha. unfold Tokenizer.tok_at.
      destruct (run (firstn k s)) as [q|]; [|discriminate]. exists q. split; [reflexivity|]. split; [exact Ha|].
      unfold Tokenizer.mk_tok. destruct (decode_item q (firstn k s)); reflexivity.
    - intros H. assert (k = Nat.max 1 (n - 1)) as -> by congruence. clear H.
      exfalso. rewrite longest_acc_none in Hk.
      destruct (dead_at s n) eqn:Hd.
      + destruct (Nat.eq_dec n 1) as [->|Hne].
        * cbn [Nat.max Nat.sub] in Ha. unfold Tokenizer.dead_at in Hd. unfold Tokenizer.acc_at in Ha.
          destruct (run (firstn 1 s)); discriminate.
        * replace (Nat.max 1 (n - 1)) with (n - 1)%nat in Ha by lia.
          rewrite (Hk (n - 1)%nat ltac:(lia)) in Ha. discriminate.
      + unfold Tokenizer.stop_at in Hs. rewrite Hd in Hs. cbn [orb] in Hs.
        specialize (Hk n ltac:(lia)). unfold Tokenizer.term_at in Hs. unfold Tokenizer.acc_at in Hk.
        destruct (run (firstn n s)); [|discriminate]. apply andb_prop in Hs. destruct Hs as [Hs _].
        rewrite Hs in Hk. discriminate.
  Qed.

  (* the first token only depends on the stream up to the first stop *)
  Lemma munch1_prefix y w r : munch1 y = Some r -> munch1 (y ++ w) = Some r.
  Proof.
    unfold Tokenizer.munch1. destruct (first_stop y) as [n|] eqn:Hn; [|discriminate].
    apply first_stop_some in Hn. destruct Hn as (Hr & Hs & Hl).
    assert (Hn' : first_stop (y ++ w) = Some n).
    { apply first_stop_some. rewrite app_length. split; [lia|].
      split; [rewrite stop_at_prefix by lia; exact Hs|].
      intros k Hk. rewrite stop_at_prefix by lia. apply Hl. exact Hk. }
    rewrite Hn'. rewrite dead_at_prefix by lia.
    set (m := if dead_at y n then (n - 1)%nat else n).
    assert (Hm : (m <= length y)%nat) by (subst m; destruct (dead_at y n); lia).
    rewrite longest_acc_prefix by exact Hm.
    destruct (longest_acc y m) as [k|] eqn:Hk.
    - apply longest_acc_some in Hk. rewrite tok_at_prefix by lia. intros H; exact H.
    - rewrite firstn_app_le by lia. intros H; exact H.
  Qed.

  (* ---------------------------------------------------------------- *)
  (* the invariant tying a decoder state to the bytes it has consumed *)

  Definition Inv (s : st) : Prop :=
    run (sbuf s) = Some (sq s) /\
    (forall k, (1 <= k <= length (sbuf s))%nat -> stop_at (sbuf s) k = false) /\
    scand s = best (sbuf s).

  Lemma Inv_init : Inv (init q0).
  Proof.
    split; [reflexivity|]. split; [cbn; intros k Hk; lia|reflexivity].
  Qed.

  Lemma Inv_set_res s r : Inv (set_res s r) <-> Inv s.
  Proof. split; intros H; exact H. Qed.

  Lemma Inv_pending s : Inv s -> munch1 (sbuf s) = None.
  Proof. intros (_ & H & _). apply munch1_none, first_stop_none. exact H. Qed.

  (* values at the full length of  x ++ [b] *)
  Lemma at_full_run (x : list N) (b : N) : firstn (S (length x)) (x ++ [b]) = x ++ [b].
  Proof. apply firstn_all2. rewrite app_length. cbn. lia. Qed.

  Lemma stop_snoc_false x b (q q' : Q) :
    run x = Some q -> delta q b = Some q' -> accepting q' && terminal q' = false ->
    (forall k, (1 <= k <= length x)%nat -> stop_at x k = false) ->
    forall k, (1 <= k <= length (x ++ [b]))%nat -> stop_at (x ++ [b]) k = false.
  Proof.
    intros Hx Hd Hat Hl k Hk. rewrite app_length in Hk. cbn [length] in Hk.
    destruct (Nat.eq_dec k (S (length x))) as [->|Hne].
    - unfold Tokenizer.stop_at, Tokenizer.dead_at, Tokenizer.term_at.
      rewrite at_full_run, run_snoc, Hx. cbn [Tokenizer.step]. rewrite Hd. exact Hat.
    - rewrite stop_at_prefix by lia. apply Hl. lia.
  Qed.

  Lemma best_snoc x b (q q' : Q) :
    run x = Some q -> delta q b = Some q' ->
    best (x ++ [b]) =
    if accepting q' then Some (mk_tok q' (x ++ [b]), length (x ++ [b])) else best x.
  Proof.
    intros Hx Hd. unfold Tokenizer.best. rewrite app_length. cbn [length].
    rewrite Nat.add_1_r, longest_acc_S.
    unfold Tokenizer.acc_at at 1. rewrite at_full_run, run_snoc, Hx. cbn [Tokenizer.step]. rewrite Hd.
    destruct (accepting q').
    - unfold Tokenizer.tok_at. rewrite at_full_run, run_snoc, Hx. cbn [Tokenizer.step]. rewrite Hd.
      reflexivity.
    - rewrite longest_acc_prefix by lia.
      destruct (longest_acc x (length x)) as [k|] eqn:Hk; [|reflexivity].
      apply longest_acc_some in Hk. rewrite tok_at_prefix by lia. reflexivity.
  Qed.

  Lemma first_stop_snoc x b :
    (forall k, (1 <= k <= length x)%nat -> stop_at x k = false) ->
    stop_at (x ++ [b]) (S (length x)) = true ->
    first_stop (x ++ [b]) = Some (S (length x)).
  Proof.
    intros Hl Hs. apply first_stop_some. rewrite app_length. cbn [length].
    split; [lia|]. split; [exact Hs|]. intros k Hk. rewrite stop_at_prefix by lia. apply Hl. lia.
  Qed.

  (* one byte: either the invariant is extended, or the emitted item is the first token of
     the stream and exactly the bytes after it are pushed back *)
  Lemma cstep_inv s b c o p :
    cstep s b = (c, o, p) -> Inv s ->
    Inv c /\
    match o with
    | None => sbuf c = sbuf s ++ [b]
    | Some t => sbuf c = [] /\
                exists k, munch1 (sbuf s ++ [b]) = Some (t, k) /\ skipn k (sbuf s ++ [b]) = p
    end.
  Proof.
    intros Hc (Hrun & Hstop & Hcand).
    unfold TokenizerRun.cstep, Tokenizer.decode_byte, take_candidate in Hc.
    cbn [sq sbuf sres scand set_res] in Hc.
    set (x := sbuf s) in *. set (y := x ++ [b]) in *.
    assert (Hy : length y = S (length x)) by (subst y; rewrite app_length; cbn; lia).
    destruct (delta (sq s) b) as [q'|] eqn:Hd.
    - destruct (accepting q') eqn:Ha; [destruct (terminal q') eqn:Ht|];
        cbn [sq sbuf sres scand set_res] in Hc; inversion Hc; subst c o p; clear Hc.
      + (* accepting and terminal: the item is complete *)
        split; [apply Inv_init|]. split; [reflexivity|]. exists (length y).
        assert (Hs : stop_at y (S (length x)) = true).
        { unfold Tokenizer.stop_at, Tokenizer.term_at, Tokenizer.dead_at. subst y.
          rewrite at_full_run, run_snoc, Hrun. cbn [Tokenizer.step]. rewrite Hd, Ha, Ht. reflexivity. }
        split; [|rewrite app_nil_r; reflexivity].
        unfold Tokenizer.munch1. subst y. rewrite (first_stop_snoc _ _ Hstop Hs).
        unfold Tokenizer.dead_at at 1. rewrite at_full_run, run_snoc, Hrun. cbn [Tokenizer.step]. rewrite Hd.
        rewrite longest_acc_S. unfold Tokenizer.acc_at at 1.
        rewrite at_full_run, run_snoc, Hrun. cbn [Tokenizer.step]. rewrite Hd, Ha.
        unfold Tokenizer.tok_at. rewrite at_full_run, run_snoc, Hrun. cbn [Tokenizer.step]. rewrite Hd.
        rewrite Hy. reflexivity.
      + (* accepting, a longer match is still possible *)
        split; [|reflexivity]. split; [|split]; unfold set_res; cbn [sq sbuf sres scand].
        * subst y. rewrite run_snoc, Hrun. exact Hd.
        * subst y. apply (stop_snoc_false _ _ _ _ Hrun Hd); [rewrite Ha, Ht; reflexivity|exact Hstop].
        * subst y. rewrite (best_snoc _ _ _ _ Hrun Hd), Ha. reflexivity.
      + split; [|reflexivity]. split; [|split]; unfold set_res; cbn [sq sbuf sres scand].
        * subst y. rewrite run_snoc, Hrun. exact Hd.
        * subst y. apply (stop_snoc_false _ _ _ _ Hrun Hd); [rewrite Ha; reflexivity|exact Hstop].
        * subst y. rewrite (best_snoc _ _ _ _ Hrun Hd), Ha. exact Hcand.
    - (* no transition *)
      assert (Hs : stop_at y (S (length x)) = true).
      { unfold Tokenizer.stop_at, Tokenizer.dead_at. subst y.
        rewrite at_full_run, run_snoc, Hrun. cbn [Tokenizer.step]. rewrite Hd. reflexivity. }
      assert (Hdead : dead_at y (S (length x)) = true).
      { unfold Tokenizer.dead_at. subst y.
        rewrite at_full_run, run_snoc, Hrun. cbn [Tokenizer.step]. rewrite Hd. reflexivity. }
      assert (Hm1 : munch1 y =
                    match longest_acc x (length x) with
                    | Some k => Some (tok_at x k, k)
                    | None => Some (TRaw (firstn (Nat.max 1 (length x)) y), Nat.max 1 (length x))
                    end).
      { unfold Tokenizer.munch1. subst y. rewrite (first_stop_snoc _ _ Hstop Hs), Hdead.
        replace (S (length x) - 1)%nat with (length x) by lia.
        rewrite longest_acc_prefix by lia.
        destruct (longest_acc x (length x)) as [k|] eqn:Hk; [|reflexivity].
        apply longest_acc_some in Hk. rewrite tok_at_prefix by lia. reflexivity. }
      unfold Tokenizer.best in Hcand. fold x in Hcand.
      destruct (longest_acc x (length x)) as [k|] eqn:Hk.
      + rewrite Hcand in Hc. cbn [sq sbuf sres scand set_res] in Hc. inversion Hc; subst c o p; clear Hc.
        split; [apply Inv_init|]. split; [reflexivity|]. exists k.
        split; [exact Hm1|rewrite app_nil_r; reflexivity].
      + rewrite Hcand in Hc. fold y in Hc. rewrite Hy in Hc.
        destruct (1 <? S (length x))%nat eqn:E; cbn [sq sbuf sres scand set_res] in Hc;
          inversion Hc; subst c o p; clear Hc; (split; [apply Inv_init|]); (split; [reflexivity|]).
        * apply Nat.ltb_lt in E. exists (length x). rewrite Hm1.
          replace (Nat.max 1 (length x)) with (length x) by lia.
          subst y. rewrite firstn_app_le, firstn_all by lia.
          split; [reflexivity|]. rewrite skipn_app_le, skipn_all by lia. reflexivity.
        * apply Nat.ltb_ge in E. exists 1%nat. rewrite Hm1.
          destruct x as [|? ?]; [|cbn [length] in E; lia]. subst y. cbn. split; reflexivity.
  Qed.

  (* the invariant along the loops of the code *)
  Lemma decode_byte_Inv (s s' : st) b o :
    Tokenizer.decode_byte Q Item q0 delta accepting terminal decode_item s b = (s', o) -> Inv s -> Inv s'.
  Proof.
    intros H HI. rewrite <- (set_res_eta Q Item s) in H.
    rewrite (decode_byte_param Q Item q0 delta accepting terminal decode_item) in H.
    destruct (cstep s b) as [[c o1] p] eqn:Hc. inversion H; subst.
    apply Inv_set_res. apply (cstep_inv _ _ _ _ _ Hc HI).
  Qed.

  Lemma drain_Inv fuel : forall (s s' : st) o,
    Tokenizer.drain Q Item q0 delta accepting terminal decode_item fuel s = Ok (s', o) -> Inv s -> Inv s'.
  Proof.
    induction fuel as [|f IH]; intros s s' o H HI; [discriminate|].
    cbn [Tokenizer.drain] in H. destruct (sres s) as [|b r].
    - inversion H; subst. exact HI.
    - destruct (Tokenizer.decode_byte Q Item q0 delta accepting terminal decode_item (set_res s r) b) as [s1 o1] eqn:Hb.
      pose proof (decode_byte_Inv _ _ _ _ Hb (proj2 (Inv_set_res s r) HI)) as H1.
      destruct o1; [inversion H; subst; exact H1|apply (IH _ _ _ H H1)].
  Qed.

  Lemma scan_Inv input : forall (s s' : st) o rest,
    Tokenizer.scan_input Q Item q0 delta accepting terminal decode_item s input = (s', o, rest) -> Inv s -> Inv s'.
  Proof.
    induction input as [|b r IH]; intros s s' o rest H HI.
    - cbn in H. inversion H; subst. exact HI.
    - cbn [Tokenizer.scan_input] in H.
      destruct (Tokenizer.decode_byte Q Item q0 delta accepting terminal decode_item s b) as [s1 o1] eqn:Hb.
      pose proof (decode_byte_Inv _ _ _ _ Hb HI) as H1.
      destruct o1; [inversion H; subst; exact H1|apply (IH _ _ _ _ H H1)].
  Qed.

  Lemma decode_Inv (s s' : st) input o rest :
    Tokenizer.decode Q Item q0 delta accepting terminal decode_item s input = Ok (s', o, rest) -> Inv s -> Inv s'.
  Proof.
    unfold Tokenizer.decode.
    destruct (Tokenizer.drain Q Item q0 delta accepting terminal decode_item (S (length (sres s))) s)
      as [[s1 o1]| | |] eqn:Hd; cbn [bind]; try discriminate.
    intros H HI. pose proof (drain_Inv _ _ _ _ Hd HI) as H1.
    destruct o1; [inversion H; subst; exact H1|].
    inversion H as [Hs]. apply (scan_Inv _ _ _ _ _ Hs H1).
  Qed.

  (* ---------------------------------------------------------------- *)
  (* the stream view computes Munch *)

  Theorem Run_Munch s w ts sf :
    Run s w ts sf -> Inv s -> Munch (sbuf s ++ w) ts (sbuf sf) /\ Inv sf.
  Proof.
    induction 1 as [s|s b w c o p ts sf Hc _ IH]; intros HI.
    - rewrite app_nil_r. split; [|exact HI]. apply Munch_pending. apply Inv_pending. exact HI.
    - destruct (cstep_inv _ _ _ _ _ Hc HI) as [HIc Ho]. destruct (IH HIc) as [HM HIf].
      split; [|exact HIf]. destruct o as [t|].
      + destruct Ho as (Hb & k & Hm1 & Hsk). rewrite Hb in HM. cbn [app] in HM.
        cbn [otl app]. replace (sbuf s ++ b :: w) with ((sbuf s ++ [b]) ++ w)
          by (rewrite <- app_assoc; reflexivity).
        apply Munch_tok with (k := k).
        * apply munch1_prefix. exact Hm1.
        * destruct (munch1_bounds _ _ _ Hm1) as [Hk _].
          rewrite skipn_app_le by lia. rewrite Hsk. exact HM.
      + pose proof (cstep_none_nopush _ _ _ _ _ _ _ _ _ _ _ Hc) as ->.
        rewrite Ho in HM. cbn [app] in HM. rewrite <- app_assoc in HM. exact HM.
  Qed.

  (* ---------------------------------------------------------------- *)
  (* Munch is the function munch *)

  Lemma Munch_munch_aux s ts p : Munch s ts p ->
    forall f, (length s <= f)%nat -> munch_aux f s = (ts, p).
  Proof.
    induction 1 as [s Hn|s t k ts p Hm _ IH]; intros f Hf.
    - destruct f; cbn [Tokenizer.munch_aux]; [reflexivity|]. rewrite Hn. reflexivity.
    - destruct (munch1_bounds _ _ _ Hm) as [Hk _].
      destruct f as [|f]; [lia|]. cbn [Tokenizer.munch_aux]. rewrite Hm.
      rewrite IH by (rewrite skipn_length; lia). reflexivity.
  Qed.

  Lemma Munch_munch s ts p : Munch s ts p -> munch s = (ts, p).
  Proof. intros H. apply (Munch_munch_aux _ _ _ H). lia. Qed.

  Lemma Munch_total : forall n s, (length s <= n)%nat -> exists ts p, Munch s ts p.
  Proof.
    induction n as [|n IH]; intros s Hs.
    - exists [], s. apply Munch_pending. destruct s; [reflexivity|cbn in Hs; lia].
    - destruct (munch1 s) as [[t k]|] eqn:Hm.
      + destruct (munch1_bounds _ _ _ Hm) as [Hk _].
        destruct (IH (skipn k s)) as (ts & p & HM); [rewrite skipn_length; lia|].
        exists (t :: ts), p. eapply Munch_tok; eassumption.
      + exists [], s. apply Munch_pending. exact Hm.
  Qed.

  Theorem munch_Munch s : Munch s (fst (munch s)) (snd (munch s)).
  Proof.
    destruct (Munch_total (length s) s (le_n _)) as (ts & p & HM).
    rewrite (Munch_munch _ _ _ HM). exact HM.
  Qed.

  (* the defining equation of munch, without fuel *)
  Theorem munch_unfold s :
    munch s =
    match munch1 s with
    | None => ([], s)
    | Some (t, k) => let '(ts, p) := munch (skipn k s) in (t :: ts, p)
    end.
  Proof.
    pose proof (munch_Munch s) as HM. destruct (munch s) as [ts p]. cbn [fst snd] in HM.
    inversion HM as [s' Hn|s' t k ts' p' Hm HM']; subst.
    - rewrite Hn. reflexivity.
    - rewrite Hm. rewrite (Munch_munch _ _ _ HM'). reflexivity.
  Qed.

  Lemma Munch_concat s ts p : Munch s ts p -> concat (map span ts) ++ p = s.
  Proof.
    induction 1 as [s Hn|s t k ts p Hm _ IH]; [reflexivity|].
    cbn [map concat]. destruct (munch1_bounds _ _ _ Hm) as [_ ->].
    rewrite <- app_assoc, IH. apply firstn_skipn.
  Qed.

  (* no byte is lost, duplicated or reordered *)
  Theorem munch_concat s : concat (map span (fst (munch s))) ++ snd (munch s) = s.
  Proof. apply Munch_concat. apply munch_Munch. Qed.

  Lemma Munch_items s ts p : Munch s ts p ->
    Forall (fun t => (exists q, run (span t) = Some q /\ accepting q = true /\ t = mk_tok q (span t))
                     \/ t = TRaw (span t)) ts.
  Proof.
    induction 1 as [s Hn|s t k ts p Hm _ IH]; constructor; [|exact IH].
    destruct (munch1_bounds _ _ _ Hm) as [_ Hs]. rewrite Hs. apply (munch1_tok _ _ _ Hm).
  Qed.

  (* every token consumes at least one byte *)
  Lemma Munch_spans_nonempty s ts p : Munch s ts p -> Forall (fun t => span t <> []) ts.
  Proof.
    induction 1 as [s Hn|s t k ts p Hm _ IH]; constructor; [|exact IH].
    destruct (munch1_bounds _ _ _ Hm) as [Hk ->]. intros E.
    apply (f_equal (@length N)) in E. rewrite firstn_length in E. cbn in E. lia.
  Qed.

  (* ---------------------------------------------------------------- *)
  (* leftmost-LONGEST: with an automaton whose `terminal` states really have no successor,
     the first token is the longest recognised prefix of the whole remaining stream *)

  Hypothesis terminal_sound : forall q b, terminal q = true -> delta q b = None.

  Lemma term_then_dead s n j : term_at s n = true -> (n < j <= length s)%nat -> dead_at s j = true.
  Proof.
    intros Ht Hj. apply (dead_at_mono s (S n)); [lia|].
    unfold Tokenizer.term_at in Ht. unfold Tokenizer.dead_at.
    destruct (run (firstn n s)) as [q|] eqn:E; [|discriminate].
    apply andb_prop in Ht. destruct Ht as [_ Ht].
    assert (Hn : (n < length s)%nat) by lia.
    destruct (nth_error s n) as [b|] eqn:Hb; [|apply nth_error_None in Hb; lia].
    rewrite (firstn_S_nth _ _ _ Hb).
    rewrite run_snoc, E. cbn [Tokenizer.step]. rewrite (terminal_sound _ b Ht). reflexivity.
  Qed.

  Theorem munch1_is_longest s t k :
    munch1 s = Some (t, k) -> acc_at s k = true ->
    forall j, (k < j <= length s)%nat -> acc_at s j = false.
  Proof.
    unfold Tokenizer.munch1. destruct (first_stop s) as [n|] eqn:Hn; [|discriminate].
    apply first_stop_some in Hn. destruct Hn as (Hr & Hs & Hl).
    assert (Hdead_acc : forall j, dead_at s j = true -> acc_at s j = false).
    { intros j. unfold Tokenizer.dead_at, Tokenizer.acc_at. destruct (run (firstn j s)); [discriminate|reflexivity]. }
    destruct (dead_at s n) eqn:Hd.
    - destruct (longest_acc s (n - 1)) as [k'|] eqn:Hk.
      + intros H; inversion H; subst. intros _ j Hj. apply longest_acc_some in Hk.
        destruct Hk as (Hkr & _ & Hmax). destruct (le_lt_dec j (n - 1)) as [Hle|Hgt].
        * apply Hmax. lia.
        * apply Hdead_acc. apply (dead_at_mono s n); [lia|exact Hd].
      + intros H; inversion H; subst. intros Hacc j Hj.
        rewrite longest_acc_none in Hk. destruct (le_lt_dec j (n - 1)) as [Hle|Hgt].
        * apply Hk. lia.
        * apply Hdead_acc. apply (dead_at_mono s n); [lia|exact Hd].
    - unfold Tokenizer.stop_at in Hs. rewrite Hd in Hs. cbn [orb] in Hs.
      assert (Ha : acc_at s n = true).
      { unfold Tokenizer.term_at in Hs. unfold Tokenizer.acc_at. destruct (run (firstn n s)); [|discriminate].
        apply andb_prop in Hs. apply Hs. }
      destruct (longest_acc s n) as [k'|] eqn:Hk.
      + intros H; inversion H; subst. intros _ j Hj. apply longest_acc_some in Hk.
        destruct Hk as (Hkr & _ & Hmax). destruct (le_lt_dec j n) as [Hle|Hgt].
        * apply Hmax. lia.
        * apply Hdead_acc. apply (term_then_dead s n); [exact Hs|lia].
      + rewrite longest_acc_none in Hk. rewrite (Hk n) in Ha by lia. discriminate.
  Qed.

  (* a raw token means that no prefix of the remaining stream is a recognised sequence *)
  Theorem munch1_raw_no_match s t k :
    munch1 s = Some (t, k) -> acc_at s k = false ->
    forall j, (1 <= j <= length s)%nat -> acc_at s j = false.
  Proof.
    unfold Tokenizer.munch1. destruct (first_stop s) as [n|] eqn:Hn; [|discriminate].
    apply first_stop_some in Hn. destruct Hn as (Hr & Hs & Hl).
    assert (Hdead_acc : forall j, dead_at s j = true -> acc_at s j = false).
    { intros j. unfold Tokenizer.dead_at, Tokenizer.acc_at. destruct (run (firstn j s)); [discriminate|reflexivity]. }
    destruct (dead_at s n) eqn:Hd.
    - destruct (longest_acc s (n - 1)) as [k'|] eqn:Hk.
      + intros H; inversion H; subst. apply longest_acc_some in Hk. destruct Hk as (_ & Hk & _).
        intros E. rewrite E in Hk. discriminate.
      + intros _ _ j Hj. rewrite longest_acc_none in Hk. destruct (le_lt_dec j (n - 1)) as [Hle|Hgt].
        * apply Hk. lia.
        * apply Hdead_acc. apply (dead_at_mono s n); [lia|exact Hd].
    - unfold Tokenizer.stop_at in Hs. rewrite Hd in Hs. cbn [orb] in Hs.
      assert (Ha : acc_at s n = true).
      { unfold Tokenizer.term_at in Hs. unfold Tokenizer.acc_at. destruct (run (firstn n s)); [|discriminate].
        apply andb_prop in Hs. apply Hs. }
      destruct (longest_acc s n) as [k'|] eqn:Hk.
      + intros H; inversion H; subst. apply longest_acc_some in Hk. destruct Hk as (_ & Hk & _).
        intros E. rewrite E in Hk. discriminate.
      + rewrite longest_acc_none in Hk. rewrite (Hk n) in Ha by lia. discriminate.
  Qed.

End Munch.
