(* compile_fast = compile: the efficient rendering (binary NFA state ids,
   positive-map state lookup) computes exactly what the reference model of
   NFA::compile computes, for every NFA and every fuel, including the Panic and
   OutOfFuel outcomes.  Data refinement: a list of nat ids corresponds to the
   list of their N.of_nat images. *)
From Coq Require Import List NArith PArith FMapPositive Bool Arith Lia.
From SNT Require Import Base.Outcome Automata.Regex Automata.NFA Automata.Compile Automata.CompileFast.
From SNT Require Automata.DfaData Automata.IndexLemmas.
Import ListNotations.

Definition up (l : list nat) : list N := map N.of_nat l.

Lemma of_nat_ltb a b : N.ltb (N.of_nat a) (N.of_nat b) = Nat.ltb a b.
Proof.
  destruct (Nat.ltb a b) eqn:E.
  - apply Nat.ltb_lt in E. apply N.ltb_lt. lia.
  - apply Nat.ltb_ge in E. apply N.ltb_ge. lia.
Qed.

Lemma of_nat_eqb a b : N.eqb (N.of_nat a) (N.of_nat b) = Nat.eqb a b.
Proof.
  destruct (Nat.eqb a b) eqn:E.
  - apply Nat.eqb_eq in E. subst. apply N.eqb_refl.
  - apply Nat.eqb_neq in E. apply N.eqb_neq. lia.
Qed.

Lemma up_insert a l : fset_insert (N.of_nat a) (up l) = up (set_insert a l).
Proof.
  induction l as [|b r IH]; [reflexivity|].
  cbn [up map fset_insert set_insert]. rewrite of_nat_ltb, of_nat_eqb.
  destruct (a <? b)%nat; [reflexivity|]. destruct (a =? b)%nat; [reflexivity|].
  cbn [map]. f_equal. exact IH.
Qed.

Lemma up_mem a l : fset_mem (N.of_nat a) (up l) = set_mem a l.
Proof.
  unfold fset_mem, set_mem, up. induction l as [|b r IH]; [reflexivity|].
  cbn [map existsb]. rewrite of_nat_eqb, IH. reflexivity.
Qed.

Lemma up_eqb a b : fset_eqb (up a) (up b) = nset_eqb a b.
Proof.
  revert b; induction a as [|x a IH]; intros [|y b]; cbn [up map fset_eqb nset_eqb]; try reflexivity.
  rewrite of_nat_eqb. f_equal. apply IH.
Qed.

Lemma bind_omap {A B C} (f : A -> B) (x : outcome A) (g : B -> outcome C) :
  bind (omap f x) g = bind x (fun a => g (f a)).
Proof. destruct x; reflexivity. Qed.

Section Refine.
  Variable n : nfa.
  Let idx := findex n.

  Lemma flook_nth q : flook idx (N.of_nat q) = option_map fstate_of (nth_error (states n) q).
  Proof.
    unfold flook, idx, findex. rewrite IndexLemmas.index0_find, Nat2N.id. apply nth_error_map.
  Qed.

  Lemma up_push out l : forall rest,
    fold_left (fun qu e => if fset_mem e (up out) then qu else e :: qu) (up l) (up rest) =
    up (fold_left (fun qu e => if set_mem e out then qu else e :: qu) l rest).
  Proof.
    induction l as [|e r IH]; intros rest; [reflexivity|].
    cbn [up map fold_left]. rewrite up_mem.
    destruct (set_mem e out); [apply IH|]. apply (IH (e :: rest)).
  Qed.

  Lemma closure_refines : forall fuel out queue,
    fclosure_loop idx fuel (up out) (up queue) = omap up (closure_loop fuel n out queue).
  Proof.
    induction fuel as [|f IH]; intros out queue.
    - destruct queue; reflexivity.
    - destruct queue as [|q rest]; [reflexivity|].
      cbn [up map fclosure_loop closure_loop]. rewrite flook_nth.
      destruct (nth_error (states n) q) as [st|]; [|reflexivity].
      cbn [option_map fstate_of feps]. rewrite up_insert.
      change (map N.of_nat (eps st)) with (up (eps st)).
      change (map N.of_nat rest) with (up rest). rewrite up_push. apply IH.
  Qed.

  Lemma eclosure_refines cf seeds :
    fepsilon_closure idx cf (up seeds) = omap up (epsilon_closure cf n seeds).
  Proof.
    unfold fepsilon_closure, epsilon_closure, up. rewrite <- map_rev. apply (closure_refines cf [] (rev seeds)).
  Qed.

  Lemma states_refines qs :
    fstates_of idx (up qs) = omap (map fstate_of) (states_of n qs).
  Proof.
    induction qs as [|q r IH]; [reflexivity|].
    cbn [up map fstates_of states_of]. rewrite flook_nth.
    destruct (nth_error (states n) q) as [st|]; [|reflexivity].
    cbn [option_map]. change (map N.of_nat r) with (up r). rewrite IH.
    destruct (states_of n r); reflexivity.
  Qed.

  Lemma symbols_refines sts : fsymbols_of (map fstate_of sts) = symbols_of sts.
  Proof.
    unfold fsymbols_of, symbols_of. generalize (@nil N).
    induction sts as [|st r IH]; intros acc; [reflexivity|].
    cbn [map fold_left]. rewrite <- IH. f_equal.
    cbn [fstate_of fedges]. generalize acc. clear.
    induction (edges st) as [|e es IHe]; intros acc; [reflexivity|].
    cbn [map fold_left fst]. apply IHe.
  Qed.

  Lemma edge_get_up c (es : list (N * nat)) :
    edge_get c (map (fun e => (fst e, N.of_nat (snd e))) es) = option_map N.of_nat (edge_get c es).
  Proof.
    induction es as [|[k v] r IH]; [reflexivity|].
    cbn [map edge_get fst snd]. destruct (N.eqb c k); [reflexivity|exact IH].
  Qed.

  Lemma targets_refines sts c : ftargets_of (map fstate_of sts) c = up (targets_of sts c).
  Proof.
    unfold ftargets_of, targets_of, up. induction sts as [|st r IH]; [reflexivity|].
    cbn [map flat_map]. rewrite map_app, <- IH. f_equal.
    cbn [fstate_of fedges]. rewrite edge_get_up. destruct (edge_get c (edges st)); reflexivity.
  Qed.

  Definition upds (ds : dstates) : fdstates := map (fun p => (up (fst p), snd p)) ds.
  Definition upqu (qu : dqueue) : fdqueue := map (fun p => (fst p, up (snd p))) qu.

  Lemma get_refines qs ds : fset_get (up qs) (upds ds) = set_get qs ds.
  Proof.
    induction ds as [|[k v] r IH]; [reflexivity|].
    cbn [upds map fset_get set_get fst snd]. rewrite up_eqb.
    destruct (nset_eqb qs k); [reflexivity|exact IH].
  Qed.

  Lemma upds_length ds : length (upds ds) = length ds.
  Proof. apply map_length. Qed.

  Definition lift3 (r : dstates * dqueue * list (N * nat)) : fdstates * fdqueue * list (N * nat) :=
    (upds (fst (fst r)), upqu (snd (fst r)), snd r).

  Lemma sym_refines cf sts : forall symbols ds qu es,
    fsym_loop idx cf (map fstate_of sts) symbols (upds ds) (upqu qu) es =
    omap lift3 (sym_loop cf n sts symbols ds qu es).
  Proof.
    induction symbols as [|c r IH]; intros ds qu es; [reflexivity|].
    cbn [fsym_loop sym_loop]. rewrite targets_refines, eclosure_refines, bind_omap.
    destruct (epsilon_closure cf n (targets_of sts c)) as [new| | |]; cbn [bind]; try reflexivity.
    rewrite get_refines, upds_length.
    destruct (set_get new ds) as [id|]; [apply IH|].
    apply (IH ((new, length ds) :: ds) ((length ds, new) :: qu)).
  Qed.

  Definition lift2 (r : dstates * dtab) : fdstates * dtab := (upds (fst r), snd r).

  Lemma main_refines cf : forall fuel ds tb qu,
    fmain_loop idx fuel cf (upds ds) tb (upqu qu) = omap lift2 (main_loop fuel cf n ds tb qu).
  Proof.
    induction fuel as [|f IH]; intros ds tb qu.
    - destruct qu as [|[id qs] rest]; reflexivity.
    - destruct qu as [|[id qs] rest]; [reflexivity|].
      cbn [upqu map fmain_loop main_loop fst snd]. rewrite states_refines, bind_omap.
      destruct (states_of n qs) as [sts| | |]; cbn [bind]; try reflexivity.
      rewrite symbols_refines. change (map (fun p => (fst p, up (snd p))) rest) with (upqu rest).
      rewrite sym_refines, bind_omap.
      destruct (sym_loop cf n sts (symbols_of sts) ds rest []) as [[[ds1 qu1] es1]| | |]; cbn [bind]; try reflexivity.
      cbn [lift3 fst snd]. apply IH.
  Qed.

  Lemma tags_refines qs : ftags_of idx (up qs) = tags_of n qs.
  Proof.
    unfold ftags_of, tags_of. generalize (@nil N).
    induction qs as [|q r IH]; intros acc; [reflexivity|].
    cbn [up map fold_left]. rewrite flook_nth.
    destruct (nth_error (states n) q) as [st|]; cbn [option_map fstate_of ftag]; apply IH.
  Qed.

  Lemma info_refines tb : forall l infos,
    finfo_loop idx (N.of_nat (stop n)) tb (upds l) infos = info_loop n tb l infos.
  Proof.
    induction l as [|[qs id] r IH]; intros infos; [reflexivity|].
    cbn [upds map finfo_loop info_loop fst snd].
    destruct (id <? length infos)%nat; [|reflexivity].
    destruct (id_get id tb) as [es|]; [|reflexivity].
    rewrite up_mem, tags_refines. apply IH.
  Qed.
End Refine.

Theorem compile_fast_eq (fuel cf : nat) (n : nfa) : compile_fast fuel cf n = compile fuel cf n.
Proof.
  unfold compile_fast, compile, compile_aux.
  change [N.of_nat (start n)] with (up [start n]). rewrite eclosure_refines, bind_omap.
  destruct (epsilon_closure cf n [start n]) as [s0| | |]; cbn [bind]; try reflexivity.
  change [(up s0, 0)] with (upds [(s0, 0)]). change [(0, up s0)] with (upqu [(0, s0)]).
  rewrite main_refines, bind_omap.
  destruct (main_loop fuel cf n [(s0, 0)] [] [(0, s0)]) as [[ds tb]| | |]; cbn [bind]; try reflexivity.
  cbn [lift2 fst snd]. rewrite upds_length, info_refines.
  destruct (info_loop n tb ds (repeat default_info (length ds))) as [infos| | |]; cbn [bind]; try reflexivity.
  destruct (table_rows tb (seq 0 (length tb))) as [rows| | |]; reflexivity.
Qed.

Corollary compile_fast_default_eq n : compile_fast_default n = compile_default n.
Proof. apply compile_fast_eq. Qed.
