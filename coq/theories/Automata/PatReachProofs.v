From Coq Require Import List NArith Bool Lia Arith.
From SNT Require Import Automata.DfaData Automata.PatReach.
Import ListNotations.
Local Open Scope N_scope.

Section Proofs.
  Variable d : dfa.
  Notation run_from := (run_from d).
  Notation reach := (reach d).
  Notation move_all := (move_all d).
  Notation move_bytes := (move_bytes d).
  Notation run_lit := (run_lit d).
  Notation lands := (lands d).

  Lemma mem_add q x X : mem q (add x X) = (q =? x) || mem q X.
  Proof.
    unfold add. destruct (mem x X) eqn:E; [|reflexivity].
    destruct (q =? x) eqn:Eq; [|reflexivity]. apply N.eqb_eq in Eq. subst. rewrite E. reflexivity.
  Qed.

  Lemma mem_union q A B : mem q (union A B) = mem q A || mem q B.
  Proof.
    unfold union. revert B. induction A as [|a A IH]; intros B; cbn [fold_left].
    - reflexivity.
    - rewrite IH, mem_add. cbn [mem existsb]. fold (mem q A).
      destruct (q =? a), (mem q A), (mem q B); reflexivity.
  Qed.

  Lemma subset_sound A B q : subset A B = true -> mem q A = true -> mem q B = true.
  Proof.
    unfold subset. intros H Hq. rewrite forallb_forall in H.
    unfold mem in Hq. rewrite existsb_exists in Hq. destruct Hq as (x & Hx & E).
    apply N.eqb_eq in E. subst. apply H, Hx.
  Qed.

  Lemma stepo_none w : fold_left (stepo d) w None = None.
  Proof. induction w; [reflexivity| exact IHw]. Qed.

  Lemma run_from_app q x y :
    run_from q (x ++ y) = match run_from q x with Some q1 => run_from q1 y | None => None end.
  Proof.
    unfold PatReach.run_from. rewrite fold_left_app.
    destruct (fold_left (stepo d) x (Some q)); [reflexivity| apply stepo_none].
  Qed.

  Lemma lands_app X1 X2 q x y :
    lands X1 q x -> (forall q1, mem q1 X1 = true -> lands X2 q1 y) -> lands X2 q (x ++ y).
  Proof.
    intros (q1 & Hr & Hm) H. destruct (H q1 Hm) as (q2 & Hr2 & Hm2).
    exists q2. rewrite run_from_app, Hr. split; assumption.
  Qed.

  Lemma move_all_sound : forall X b acc Y,
    move_all X b acc = Some Y ->
    (forall q, mem q X = true -> exists q', d_delta d q b = Some q' /\ mem q' Y = true)
    /\ (forall q, mem q acc = true -> mem q Y = true).
  Proof.
    induction X as [|x X IH]; intros b acc Y H; cbn [PatReach.move_all] in H.
    - inversion H; subst. split; [intros q Hq; discriminate| auto].
    - destruct (d_delta d x b) as [x'|] eqn:Ed; [|discriminate].
      destruct (IH b (add x' acc) Y H) as [H1 H2]. split.
      + intros q Hq. cbn [mem existsb] in Hq. apply orb_true_iff in Hq. destruct Hq as [Hq|Hq].
        * apply N.eqb_eq in Hq. subst. exists x'. split; [exact Ed|]. apply H2. rewrite mem_add, N.eqb_refl. reflexivity.
        * apply H1, Hq.
      + intros q Hq. apply H2. rewrite mem_add, Hq. apply orb_true_r.
  Qed.

  Lemma move_bytes_sound : forall bs X acc Y,
    move_bytes X bs acc = Some Y ->
    (forall b q, In b bs -> mem q X = true -> exists q', d_delta d q b = Some q' /\ mem q' Y = true)
    /\ (forall q, mem q acc = true -> mem q Y = true).
  Proof.
    induction bs as [|b bs IH]; intros X acc Y H; cbn [PatReach.move_bytes] in H.
    - inversion H; subst. split; [intros b q []| auto].
    - destruct (move_all X b acc) as [acc'|] eqn:Em; [|discriminate].
      destruct (move_all_sound X b acc acc' Em) as [M1 M2].
      destruct (IH X acc' Y H) as [H1 H2]. split.
      + intros b0 q [Hb|Hb] Hq.
        * subst. destruct (M1 q Hq) as (q' & Hd & Hm). exists q'. split; [exact Hd| apply H2, Hm].
        * apply (H1 b0 q Hb Hq).
      + intros q Hq. apply H2, M2, Hq.
  Qed.

  Lemma bytes_of_In lo n b : lo <= b -> b < lo + N.of_nat n -> In b (bytes_of lo n).
  Proof.
    revert lo. induction n as [|n IH]; intros lo H1 H2; [lia|]. cbn [bytes_of].
    destruct (N.eq_dec lo b) as [->|Hne]; [left; reflexivity|]. right. apply IH; lia.
  Qed.

  Lemma in_ranges_In rs b : in_ranges rs b = true -> In b (flat_map range_bytes rs).
  Proof.
    unfold in_ranges. rewrite existsb_exists. intros (r & Hr & Hb).
    apply in_flat_map. exists r. split; [exact Hr|]. unfold range_bytes.
    apply andb_true_iff in Hb. destruct Hb as [H1 H2]. apply N.leb_le in H1, H2.
    apply bytes_of_In; lia.
  Qed.

  Lemma run_lit_sound : forall w X Y,
    run_lit X w = Some Y -> forall q, mem q X = true -> lands Y q w.
  Proof.
    induction w as [|b w IH]; intros X Y H q Hq; cbn [PatReach.run_lit] in H.
    - inversion H; subst. exists q. split; [reflexivity| exact Hq].
    - destruct (move_all X b []) as [X1|] eqn:Em; [|discriminate].
      destruct (move_all_sound X b [] X1 Em) as [M1 _].
      destruct (M1 q Hq) as (q1 & Hd & Hm1).
      destruct (IH X1 Y H q1 Hm1) as (q2 & Hr & Hm2).
      exists q2. split; [|exact Hm2]. unfold PatReach.run_from in *. cbn [fold_left stepo]. rewrite Hd. exact Hr.
  Qed.

  Lemma saturate_inv body : forall fuel X T,
    saturate body fuel X = Some T ->
    (forall q, mem q X = true -> mem q T = true)
    /\ exists T1, body T = Some T1 /\ subset T1 T = true.
  Proof.
    induction fuel as [|f IH]; intros X T H; cbn [saturate] in H; [discriminate|].
    destruct (body X) as [X1|] eqn:Eb; [|discriminate].
    destruct (subset X1 X) eqn:Es.
    - inversion H; subst. split; [auto|]. exists X1. split; assumption.
    - destruct (IH _ _ H) as [H1 H2]. split; [|exact H2].
      intros q Hq. apply H1. rewrite mem_union, Hq. apply orb_true_r.
  Qed.

  Lemma star_closed a T T1 :
    sound_from d a T T1 -> subset T1 T = true ->
    forall w, matches (PStar a) w -> forall q, mem q T = true -> lands T q w.
  Proof.
    intros Hs Hsub w Hw. remember (PStar a) as p eqn:Ep.
    induction Hw as [| | | | | | | a0 | a0 x y Hx _ Hy IHy]; try discriminate; inversion Ep; subst; intros q Hq.
    - exists q. split; [reflexivity| exact Hq].
    - eapply lands_app.
      + apply (Hs q x Hq Hx).
      + intros q1 Hq1. apply IHy; [reflexivity|]. eapply subset_sound; eassumption.
  Qed.

  Theorem reach_sound : forall p X X', reach p X = Some X' -> sound_from d p X X'.
  Proof.
    induction p as [w|rs|a IHa b IHb|a IHa b IHb|a IHa|a IHa]; intros X X' H q w0 Hq Hm; cbn [PatReach.reach] in H.
    - inversion Hm; subst. eapply run_lit_sound; eassumption.
    - inversion Hm as [|rs0 b0 Hb| | | | | | |]; subst.
      destruct (move_bytes_sound _ _ _ _ H) as [M1 _].
      destruct (M1 b0 q (in_ranges_In rs b0 Hb) Hq) as (q' & Hd & Hm').
      exists q'. split; [|exact Hm']. unfold PatReach.run_from. cbn [fold_left stepo]. exact Hd.
    - destruct (reach a X) as [X1|] eqn:Ea; [|discriminate].
      inversion Hm; subst. eapply lands_app.
      + eapply IHa; eassumption.
      + intros q1 Hq1. eapply IHb; eassumption.
    - destruct (reach a X) as [A|] eqn:Ea; [|discriminate]. destruct (reach b X) as [B|] eqn:Eb; [|discriminate].
      inversion H; subst. inversion Hm as [| | |a0 b0 x0 Hx|a0 b0 x0 Hx| | | |]; subst.
      + pose proof (IHa _ _ Ea q w0 Hq Hx) as (q' & Hr & Hm'). exists q'. split; [exact Hr|].
        rewrite mem_union, Hm'. reflexivity.
      + pose proof (IHb _ _ Eb q w0 Hq Hx) as (q' & Hr & Hm'). exists q'. split; [exact Hr|].
        rewrite mem_union, Hm'. apply orb_true_r.
    - destruct (reach a X) as [A|] eqn:Ea; [|discriminate]. inversion H; subst.
      inversion Hm as [| | | | |a0|a0 x0 Hx| |]; subst.
      + exists q. split; [reflexivity|]. rewrite mem_union, Hq. apply orb_true_r.
      + pose proof (IHa _ _ Ea q w0 Hq Hx) as (q' & Hr & Hm'). exists q'. split; [exact Hr|].
        rewrite mem_union, Hm'. reflexivity.
    - destruct (saturate_inv _ _ _ _ H) as [Hsub (T1 & HT1 & HT1sub)].
      apply (star_closed a X' T1 (IHa _ _ HT1) HT1sub w0 Hm q). apply Hsub, Hq.
  Qed.

  (* the form used by the family lemmas: one check from the start state *)
  Definition family_check (p : pat) (good : N -> bool) : bool :=
    match reach p [d_start d] with
    | Some X' => forallb good X'
    | None => false
    end.

  Theorem family_check_sound p good w :
    family_check p good = true -> matches p w ->
    exists q, run_from (d_start d) w = Some q /\ good q = true.
  Proof.
    unfold family_check. destruct (reach p [d_start d]) as [X'|] eqn:E; [|discriminate].
    intros Hg Hm. destruct (reach_sound _ _ _ E (d_start d) w) as (q & Hr & Hq); [cbn; rewrite N.eqb_refl; reflexivity| exact Hm|].
    exists q. split; [exact Hr|]. rewrite forallb_forall in Hg. apply Hg.
    unfold mem in Hq. rewrite existsb_exists in Hq. destruct Hq as (x & Hx & Ex). apply N.eqb_eq in Ex. subst. exact Hx.
  Qed.
End Proofs.

(* pattern helpers *)
Lemma matches_plus_set rs l :
  l <> [] -> forallb (in_ranges rs) l = true -> matches (PPlus (PSet rs)) l.
Proof.
  destruct l as [|b l]; [contradiction|]. intros _ H. cbn [forallb] in H. apply andb_true_iff in H. destruct H as [Hb Hl].
  change (b :: l) with ([b] ++ l). apply MSeq; [apply MSet, Hb|].
  induction l as [|c l IH]; [apply MStarN|]. cbn [forallb] in Hl. apply andb_true_iff in Hl. destruct Hl as [Hc Hl].
  change (c :: l) with ([c] ++ l). apply MStarS; [apply MSet, Hc| apply IH, Hl].
Qed.

Lemma matches_star_set rs l : forallb (in_ranges rs) l = true -> matches (PStar (PSet rs)) l.
Proof.
  induction l as [|c l IH]; intros Hl; [apply MStarN|]. cbn [forallb] in Hl. apply andb_true_iff in Hl. destruct Hl as [Hc Hl].
  change (c :: l) with ([c] ++ l). apply MStarS; [apply MSet, Hc| apply IH, Hl].
Qed.
