(* Regular expressions mirroring the public NFA combinators of src/automata.rs,
   their textbook denotation, and a decidable matcher (Brzozowski derivatives).
   Model / specification file: definitions only; proofs are in RegexProofs.v.

     Pred set    NFA::predicate(|b| set.contains(b))      one byte of the set
     Lit bs      NFA::from(str)                           exactly the bytes bs
     Empty       NFA::empty()                             the empty string
     Nothing     NFA::nothing()                           no string
     Seq es      NFA::sequence(es)   (also `a + b`)       concatenation, n-ary
     Choice es   NFA::choice(es)     (also `a | b`)       alternation, n-ary
     Plus e      e.some()                                 one or more
     Opt e       e.optional()                             zero or one
     Many e      e.many()                                 zero or more
     Tag t e     e.tag_stop_state(t)                      same language, tag t   *)
From Coq Require Import List NArith Bool.
Import ListNotations.
Local Open Scope N_scope.

Inductive regex :=
| Pred (set : list N)
| Lit (bs : list N)
| Empty
| Nothing
| Seq (es : list regex)
| Choice (es : list regex)
| Plus (e : regex)
| Opt (e : regex)
| Many (e : regex)
| Tag (t : N) (e : regex).

(* ---------- denotation ---------- *)

Inductive star (L : list N -> Prop) : list N -> Prop :=
| star_nil : star L []
| star_app : forall s1 s2, L s1 -> star L s2 -> star L (s1 ++ s2).

Definition plus (L : list N -> Prop) (s : list N) : Prop :=
  exists s1 s2, s = s1 ++ s2 /\ L s1 /\ star L s2.

Definition mem (c : N) (set : list N) : bool := existsb (N.eqb c) set.

Fixpoint matches (e : regex) (s : list N) {struct e} : Prop :=
  match e with
  | Pred set => exists c, s = [c] /\ c < 256 /\ mem c set = true
  | Lit bs => s = bs
  | Empty => s = []
  | Nothing => False
  | Seq es =>
      (fix go (es : list regex) (s : list N) {struct es} : Prop :=
         match es with
         | [] => s = []
         | e :: r => exists s1 s2, s = s1 ++ s2 /\ matches e s1 /\ go r s2
         end) es s
  | Choice es =>
      (fix go (es : list regex) {struct es} : Prop :=
         match es with
         | [] => False
         | e :: r => matches e s \/ go r
         end) es
  | Plus e => plus (matches e) s
  | Opt e => s = [] \/ matches e s
  | Many e => star (matches e) s
  | Tag _ e => matches e s
  end.

(* the two nested recursions, named *)
Fixpoint matches_seq (es : list regex) (s : list N) : Prop :=
  match es with
  | [] => s = []
  | e :: r => exists s1 s2, s = s1 ++ s2 /\ matches e s1 /\ matches_seq r s2
  end.

Fixpoint matches_any (es : list regex) (s : list N) : Prop :=
  match es with
  | [] => False
  | e :: r => matches e s \/ matches_any r s
  end.

(* ---------- decidable matcher: Brzozowski derivatives ---------- *)

Fixpoint nullable (e : regex) : bool :=
  match e with
  | Pred _ => false
  | Lit bs => match bs with [] => true | _ => false end
  | Empty => true
  | Nothing => false
  | Seq es => forallb nullable es
  | Choice es => existsb nullable es
  | Plus e => nullable e
  | Opt _ => true
  | Many _ => true
  | Tag _ e => nullable e
  end.

Definition isnothing (e : regex) : bool :=
  match e with Nothing => true | _ => false end.

Fixpoint nl_eqb (a b : list N) : bool :=
  match a, b with
  | [], [] => true
  | x :: a', y :: b' => (x =? y) && nl_eqb a' b'
  | _, _ => false
  end.

(* syntactic equality *)
Fixpoint regex_eqb (a b : regex) {struct a} : bool :=
  match a, b with
  | Pred s1, Pred s2 => nl_eqb s1 s2
  | Lit s1, Lit s2 => nl_eqb s1 s2
  | Empty, Empty => true
  | Nothing, Nothing => true
  | Seq l1, Seq l2 =>
      (fix go (l1 l2 : list regex) {struct l1} : bool :=
         match l1, l2 with
         | [], [] => true
         | x :: r1, y :: r2 => regex_eqb x y && go r1 r2
         | _, _ => false
         end) l1 l2
  | Choice l1, Choice l2 =>
      (fix go (l1 l2 : list regex) {struct l1} : bool :=
         match l1, l2 with
         | [], [] => true
         | x :: r1, y :: r2 => regex_eqb x y && go r1 r2
         | _, _ => false
         end) l1 l2
  | Plus x, Plus y => regex_eqb x y
  | Opt x, Opt y => regex_eqb x y
  | Many x, Many y => regex_eqb x y
  | Tag t1 x, Tag t2 y => (t1 =? t2) && regex_eqb x y
  | _, _ => false
  end.

Fixpoint regexes_eqb (l1 l2 : list regex) : bool :=
  match l1, l2 with
  | [], [] => true
  | x :: r1, y :: r2 => regex_eqb x y && regexes_eqb r1 r2
  | _, _ => false
  end.

(* smart constructors (language preserving) keep the set of derivatives
   finite: alternatives are flattened one level, `Nothing` dropped and
   duplicates removed (Brzozowski's similarity) *)
Definition mk_seq (l : list regex) : regex :=
  match l with
  | [] => Empty
  | [x] => x
  | _ => Seq l
  end.

Definition sseq (d : regex) (r : list regex) : regex :=
  match d with
  | Nothing => Nothing
  | Seq l => mk_seq (l ++ r)
  | Empty => mk_seq r
  | Lit [] => mk_seq r
  | _ => mk_seq (d :: r)
  end.

Definition alts_of (e : regex) : list regex :=
  match e with
  | Choice l => l
  | Nothing => []
  | _ => [e]
  end.

Fixpoint dedup (l : list regex) : list regex :=
  match l with
  | [] => []
  | x :: r => x :: filter (fun y => negb (regex_eqb x y)) (dedup r)
  end.

Definition mk_choice (l : list regex) : regex :=
  match l with
  | [] => Nothing
  | [x] => x
  | _ => Choice l
  end.

Definition schoice (es : list regex) : regex :=
  mk_choice (dedup (flat_map alts_of es)).

Definition salt (a b : regex) : regex := schoice [a; b].

Fixpoint deriv (c : N) (e : regex) {struct e} : regex :=
  match e with
  | Pred set => if (c <? 256) && mem c set then Empty else Nothing
  | Lit bs => match bs with
              | [] => Nothing
              | b :: r => if c =? b then Lit r else Nothing
              end
  | Empty => Nothing
  | Nothing => Nothing
  | Seq es =>
      (fix go (es : list regex) {struct es} : regex :=
         match es with
         | [] => Nothing
         | e :: r => if nullable e then salt (sseq (deriv c e) r) (go r)
                     else sseq (deriv c e) r
         end) es
  | Choice es => schoice (map (deriv c) es)
  | Plus e => sseq (deriv c e) [Many e]
  | Opt e => deriv c e
  | Many e => sseq (deriv c e) [Many e]
  | Tag _ e => deriv c e
  end.

Fixpoint deriv_seq (c : N) (es : list regex) : regex :=
  match es with
  | [] => Nothing
  | e :: r => if nullable e then salt (sseq (deriv c e) r) (deriv_seq c r)
              else sseq (deriv c e) r
  end.

Fixpoint derivs (s : list N) (e : regex) : regex :=
  match s with
  | [] => e
  | c :: r => derivs r (deriv c e)
  end.

Definition matcher (e : regex) (s : list N) : bool := nullable (derivs s e).

(* the language is empty (no string at all matches) *)
Fixpoint isempty (e : regex) : bool :=
  match e with
  | Pred set => negb (existsb (fun c => c <? 256) set)
  | Lit _ => false
  | Empty => false
  | Nothing => true
  | Seq es => existsb isempty es
  | Choice es => forallb isempty es
  | Plus e => isempty e
  | Opt _ => false
  | Many _ => false
  | Tag _ e => isempty e
  end.

(* ---------- tags ---------- *)

Fixpoint untagged (e : regex) : bool :=
  match e with
  | Pred _ | Lit _ | Empty | Nothing => true
  | Seq es => forallb untagged es
  | Choice es => forallb untagged es
  | Plus e | Opt e | Many e => untagged e
  | Tag _ _ => false
  end.

(* "alternatives of a choice carry tags": tagged expressions are untagged
   expressions, a tag on an untagged expression, or a choice of such (nested
   choices allowed: the decoder puts a tagged key table beside tagged
   matchers). *)
Fixpoint tagwf (e : regex) : bool :=
  match e with
  | Tag _ e => untagged e
  | Choice es => forallb tagwf es
  | e => untagged e
  end.

Fixpoint tagalts (e : regex) : list (N * regex) :=
  match e with
  | Tag t e => [(t, e)]
  | Choice es => flat_map tagalts es
  | _ => []
  end.

(* specification of the reported tags: the tags of the alternatives that match *)
Definition tag_spec (e : regex) (s : list N) (t : N) : Prop :=
  exists a, In (t, a) (tagalts e) /\ matches a s.
