(* The composite combinators: some (in place), merge_states, and the "framed"
   constructions choice / optional / many (fresh start 0 and stop 1, operands
   renumbered from 2). *)
From Coq Require Import List NArith Bool Arith Lia.
From SNT Require Import Automata.Regex Automata.NFA Automata.PathLemmas Automata.BuildLeaves.
Import ListNotations.

(* ---------- a loop edge stop -> start ---------- *)

Definition rel_loop (n : nfa) : rel :=
  fun q l q' => nstep n q l q' \/ (q = stop n /\ l = None /\ q' = start n).

Lemma gstep_add_eps0 ss a b q l q' :
  gstep 0 (update ss a (add_eps b)) q l q' <->
  gstep 0 ss q l q' \/ (q = a /\ l = None /\ q' = b /\ a < length ss).
Proof.
  replace a with (a - 0) at 1 by lia. rewrite gstep_add_eps by lia. cbn. tauto.
Qed.

Lemma some_step n : stop n < size n ->
  forall q l q', nstep (some n) q l q' <-> rel_loop n q l q'.
Proof.
  intros Hs q l q'. unfold nstep, some, rel_loop. cbn [states].
  rewrite gstep_add_eps0. unfold size in Hs. unfold nstep. tauto.
Qed.

Lemma some_wf n : wf n -> wf (some n).
Proof.
  intros [H1 [H2 H3]]. unfold wf, size, some. cbn [start stop states].
  rewrite update_length. repeat split; auto.
  intros q l q' H. apply gstep_add_eps0 in H. destruct H as [H | [_ [_ [-> _]]]].
  - apply (H3 q l q'). exact H.
  - exact H1.
Qed.

Section Loop.
  Variable R : rel.
  Variables a b : nat.          (* loop edge a -> b *)
  Let R' : rel := fun q l q' => R q l q' \/ (q = a /\ l = None /\ q' = b).
  Let L : list N -> Prop := fun t => path R b t a.

  Lemma loop_elim q s t : path R' q s t -> t = a ->
    exists s0 s2, s = s0 ++ s2 /\ path R q s0 a /\ star L s2.
  Proof.
    intros P. induction P as [q|q q1 s q' H1 P IH|q c q1 s q' H1 P IH]; intros Ht.
    - subst. exists [], []. repeat split; [apply path_refl|apply star_nil].
    - destruct (IH Ht) as [s0 [s2 [-> [P0 Hst]]]].
      destruct H1 as [H1 | [-> [_ ->]]].
      + exists s0, s2. repeat split; auto. eapply path_eps; eauto.
      + exists [], (s0 ++ s2). repeat split; [apply path_refl|].
        apply star_app; assumption.
    - destruct (IH Ht) as [s0 [s2 [-> [P0 Hst]]]].
      destruct H1 as [H1 | [_ [H1 _]]]; [|discriminate].
      exists (c :: s0), s2. repeat split; auto. eapply path_sym; eauto.
  Qed.

  Lemma loop_star s : star L s -> path R' a s a.
  Proof.
    induction 1 as [|s1 s2 H1 _ IH].
    - apply path_refl.
    - eapply path_eps; [right; auto|].
      eapply path_app; [|exact IH].
      eapply path_mono; [|exact H1]. intros; left; assumption.
  Qed.

  Lemma loop_lang s : path R' b s a <-> plus L s.
  Proof.
    split.
    - intros P. destruct (loop_elim _ _ _ P eq_refl) as [s0 [s2 [-> [P0 Hst]]]].
      exists s0, s2. auto.
    - intros [s1 [s2 [-> [H1 H2]]]].
      eapply path_app; [|apply loop_star; exact H2].
      eapply path_mono; [|exact H1]. intros; left; assumption.
  Qed.
End Loop.

Lemma rel_loop_lang n s :
  path (rel_loop n) (start n) s (stop n) <-> plus (accepts n) s.
Proof. unfold rel_loop, accepts. apply (loop_lang (nstep n) (stop n) (start n)). Qed.

Lemma some_lang n s : stop n < size n -> accepts (some n) s <-> plus (accepts n) s.
Proof.
  intros Hs. rewrite <- rel_loop_lang. unfold accepts. cbn [start stop some].
  split; apply path_mono; intros q l q' H; apply (some_step n Hs); exact H.
Qed.

(* ---------- merge_states ---------- *)

Fixpoint comps (nfas : list nfa) (o : nat) : list (nat * nfa) :=
  match nfas with
  | [] => []
  | n :: r => (o, n) :: comps r (o + size n)
  end.

Fixpoint total (nfas : list nfa) : nat :=
  match nfas with
  | [] => 0
  | n :: r => size n + total r
  end.

Lemma merge_length nfas o : length (fst (merge_states nfas o)) = total nfas.
Proof.
  revert o; induction nfas as [|n r IH]; intros o; cbn [merge_states total]; [reflexivity|].
  specialize (IH (o + length (states n))).
  destruct (merge_states r (o + length (states n))) as [ss es]. cbn [fst] in *.
  rewrite app_length, map_length, IH. reflexivity.
Qed.

Lemma merge_ends nfas o :
  snd (merge_states nfas o) =
  map (fun c => (fst c + start (snd c), fst c + stop (snd c))) (comps nfas o).
Proof.
  revert o; induction nfas as [|n r IH]; intros o; cbn [merge_states comps map]; [reflexivity|].
  specialize (IH (o + length (states n))).
  destruct (merge_states r (o + length (states n))) as [ss es]. cbn [snd fst] in *.
  rewrite IH. reflexivity.
Qed.

Lemma merge_step nfas : forall o q l q',
  gstep o (fst (merge_states nfas o)) q l q' <->
  exists oi ni, In (oi, ni) (comps nfas o) /\ shiftrel oi (nstep ni) q l q'.
Proof.
  induction nfas as [|n r IH]; intros o q l q'; cbn [merge_states comps].
  - cbn [fst]. split; [intros H; apply gstep_nil in H; contradiction|].
    intros [oi [ni [[] _]]].
  - specialize (IH (o + length (states n)) q l q').
    destruct (merge_states r (o + length (states n))) as [ss es]. cbn [fst] in *.
    rewrite gstep_app, map_length, gstep_shift, IH. split.
    + intros [H | [oi [ni [Hin H]]]].
      * exists o, n. split; [left; reflexivity|exact H].
      * exists oi, ni. split; [right; exact Hin|exact H].
    + intros [oi [ni [[Heq | Hin] H]]].
      * inversion Heq; subst. left. exact H.
      * right. exists oi, ni. auto.
Qed.

Lemma comps_range nfas : forall o oi ni,
  In (oi, ni) (comps nfas o) -> o <= oi /\ oi + size ni <= o + total nfas.
Proof.
  induction nfas as [|n r IH]; intros o oi ni; cbn [comps total]; [intros []|].
  intros [Heq | Hin].
  - inversion Heq; subst. lia.
  - apply IH in Hin. lia.
Qed.

Lemma comps_disjoint nfas : forall o oi ni oj nj q,
  In (oi, ni) (comps nfas o) -> In (oj, nj) (comps nfas o) ->
  oi <= q < oi + size ni -> oj <= q < oj + size nj -> (oi, ni) = (oj, nj).
Proof.
  induction nfas as [|n r IH]; intros o oi ni oj nj q; cbn [comps]; [intros []|].
  intros [H1 | H1] [H2 | H2] Hi Hj.
  - congruence.
  - inversion H1; subst. apply comps_range in H2. lia.
  - inversion H2; subst. apply comps_range in H1. lia.
  - eapply IH; eauto.
Qed.

Lemma comps_In nfas : forall o oi ni, In (oi, ni) (comps nfas o) -> In ni nfas.
Proof.
  induction nfas as [|n r IH]; intros o oi ni; cbn [comps]; [intros []|].
  intros [Heq | Hin]; [inversion Heq; left; reflexivity|right; eapply IH; eauto].
Qed.

Lemma In_comps nfas : forall o ni, In ni nfas -> exists oi, In (oi, ni) (comps nfas o).
Proof.
  induction nfas as [|n r IH]; intros o ni; cbn [comps]; [intros []|].
  intros [-> | Hin].
  - exists o. left. reflexivity.
  - destruct (IH (o + size n) ni Hin) as [oi H]. exists oi. right. exact H.
Qed.

(* a renumbered step of a well-formed operand stays in the operand's region *)
Lemma shift_region oi ni q l q' :
  wf ni -> shiftrel oi (nstep ni) q l q' ->
  (oi <= q < oi + size ni) /\ (oi <= q' < oi + size ni).
Proof.
  intros [_ [_ H3]] [p [p' [-> [-> H]]]].
  pose proof (nstep_src _ _ _ _ H). pose proof (H3 _ _ _ H). lia.
Qed.

(* ---------- framed constructions ---------- *)

Definition rel_back (back : bool) (n : nfa) : rel := if back then rel_loop n else nstep n.

(* cs : operands with their offsets; bypass : edge 0 -> 1; back : edges stop_i -> start_i *)
Definition frame_rel (cs : list (nat * nfa)) (bypass back : bool) : rel :=
  fun q l q' =>
    (q = 0 /\ l = None /\
     ((exists oi ni, In (oi, ni) cs /\ q' = oi + start ni) \/ (bypass = true /\ q' = 1)))
    \/ (l = None /\ exists oi ni, In (oi, ni) cs /\ q = oi + stop ni /\
                                  (q' = 1 \/ (back = true /\ q' = oi + start ni)))
    \/ (exists oi ni, In (oi, ni) cs /\ shiftrel oi (nstep ni) q l q').

Definition good_comps (cs : list (nat * nfa)) : Prop :=
  (forall oi ni, In (oi, ni) cs -> 2 <= oi /\ wf ni) /\
  (forall oi ni oj nj q, In (oi, ni) cs -> In (oj, nj) cs ->
      oi <= q < oi + size ni -> oj <= q < oj + size nj -> (oi, ni) = (oj, nj)).

Lemma frame_src_ge2 cs bypass back q l q' :
  good_comps cs -> frame_rel cs bypass back q l q' -> q = 0 \/ 2 <= q.
Proof.
  intros [G1 _] [[-> _] | [[_ [oi [ni [Hin [-> _]]]]] | [oi [ni [Hin [p [p' [-> _]]]]]]]].
  - left; reflexivity.
  - apply G1 in Hin. lia.
  - apply G1 in Hin. lia.
Qed.

Lemma rel_back_region back oi ni q l q' :
  wf ni -> shiftrel oi (rel_back back ni) q l q' ->
  (oi <= q < oi + size ni) /\ (oi <= q' < oi + size ni).
Proof.
  intros W [p [p' [-> [-> H]]]]. destruct back; cbn in H.
  - destruct H as [H | [-> [_ ->]]].
    + apply (shift_region oi ni _ l _); [exact W|]. exists p, p'. auto.
    + destruct W as [W1 [W2 _]]. lia.
  - apply (shift_region oi ni _ l _); [exact W|]. exists p, p'. auto.
Qed.

Lemma frame_lang cs bypass back s :
  good_comps cs ->
  (path (frame_rel cs bypass back) 0 s 1 <->
   (bypass = true /\ s = []) \/
   exists oi ni, In (oi, ni) cs /\ path (rel_back back ni) (start ni) s (stop ni)).
Proof.
  intros G. pose proof G as [G1 G2]. set (R := frame_rel cs bypass back).
  assert (Stuck1 : forall l x, ~ R 1 l x).
  { intros l x H. apply (frame_src_ge2 _ _ _ _ _ _ G) in H. lia. }
  split.
  - intros P.
    (* from the first component on *)
    assert (Comp : forall oi ni, In (oi, ni) cs -> path R (oi + start ni) s 1 ->
                   path (rel_back back ni) (start ni) s (stop ni)).
    { intros oi ni Hin P1. destruct (G1 _ _ Hin) as [Hoi W].
      pose proof W as [W1 [W2 W3]].
      destruct (path_exit R (shiftrel oi (rel_back back ni))
                  (fun q => oi <= q < oi + size ni)
                  (fun x y => x = oi + stop ni /\ y = 1)) with (q := oi + start ni) (s := s) (t := 1)
        as [[_ Hbad] | [s1 [s2 [x [y [-> [Pin [Hx [[-> ->] [_ Pout]]]]]]]]]]; auto.
      - intros q l q' Hq H.
        destruct H as [[-> _] | [[-> [oj [nj [Hj [-> Hq']]]]] | [oj [nj [Hj Hsh]]]]].
        + lia.
        + destruct (G1 _ _ Hj) as [_ [_ [Wj2 _]]].
          assert (E : (oi, ni) = (oj, nj)) by (eapply (G2 oi ni oj nj (oj + stop nj)); eauto; lia).
          inversion E; subst oj nj.
          destruct Hq' as [-> | [Hb ->]].
          * right. repeat split; auto. lia.
          * left. split; [|lia]. exists (stop ni), (start ni). repeat split.
            unfold rel_back. rewrite Hb. right. auto.
        + destruct (G1 _ _ Hj) as [_ Wj].
          destruct (shift_region oj nj q l q' Wj Hsh) as [Hr1 Hr2].
          assert (E : (oi, ni) = (oj, nj)) by (eapply (G2 oi ni oj nj q); eauto).
          inversion E; subst oj nj. left. split; [|exact Hr2].
          destruct Hsh as [p [p' [-> [-> H]]]]. exists p, p'. repeat split.
          unfold rel_back. destruct back; [left|]; exact H.
      - lia.
      - lia.
      - apply path_stuck in Pout; [|exact Stuck1]. destruct Pout as [-> _].
        rewrite app_nil_r.
        apply path_shift_elim in Pin; [|lia]. destruct Pin as [_ Pin].
        replace (oi + start ni - oi) with (start ni) in Pin by lia.
        replace (oi + stop ni - oi) with (stop ni) in Pin by lia. exact Pin. }
    assert (First : forall l x, R 0 l x ->
              l = None /\ ((exists oi ni, In (oi, ni) cs /\ x = oi + start ni) \/ (bypass = true /\ x = 1))).
    { intros l x [[_ [-> H]] | [[_ [oi [ni [Hin [Hq _]]]]] | [oi [ni [Hin [p [p' [Hq _]]]]]]]].
      - auto.
      - apply G1 in Hin. lia.
      - apply G1 in Hin. lia. }
    inversion P as [|? ? ? ? H1 P1|? c ? ? ? H1 P1]; subst.
    + apply First in H1. destruct H1 as [_ [[oi [ni [Hin ->]]] | [Hb ->]]].
      * right. exists oi, ni. split; [exact Hin|]. apply (Comp oi ni Hin P1).
      * left. split; [exact Hb|]. apply path_stuck in P1; [tauto|exact Stuck1].
    + apply First in H1. destruct H1; discriminate.
  - intros [[Hb ->] | [oi [ni [Hin Pn]]]].
    + apply path_one_eps. left. auto.
    + destruct (G1 _ _ Hin) as [Hoi W]. pose proof W as [W1 [W2 W3]].
      eapply path_eps; [left; repeat split; left; exists oi, ni; auto|].
      rewrite <- (app_nil_r s).
      eapply path_app; [|apply path_one_eps; right; left; split; [reflexivity|];
                         exists oi, ni; repeat split; auto].
      apply (path_shift_intro oi) in Pn.
      eapply path_mono; [|exact Pn].
      intros q l q' [p [p' [-> [-> H]]]]. unfold rel_back in H. destruct back.
      * destruct H as [H | [-> [-> ->]]].
        -- right; right. exists oi, ni. split; [exact Hin|]. exists p, p'. auto.
        -- right; left. split; [reflexivity|]. exists oi, ni. repeat split; auto.
      * right; right. exists oi, ni. split; [exact Hin|]. exists p, p'. auto.
Qed.

Lemma good_comps_merge nfas o :
  2 <= o -> Forall wf nfas -> good_comps (comps nfas o).
Proof.
  intros Ho W. split.
  - intros oi ni Hin. split.
    + apply comps_range in Hin. lia.
    + apply comps_In in Hin. rewrite Forall_forall in W. auto.
  - intros oi ni oj nj q. apply comps_disjoint.
Qed.

(* every target of a framed relation is below the size 2 + total *)
Lemma frame_target nfas bypass back q l q' :
  Forall wf nfas -> nfas <> [] ->
  frame_rel (comps nfas 2) bypass back q l q' -> q' < 2 + total nfas.
Proof.
  intros W Hne H. rewrite Forall_forall in W.
  assert (Hreg : forall oi ni, In (oi, ni) (comps nfas 2) ->
                               oi + size ni <= 2 + total nfas /\ wf ni).
  { intros oi ni Hin. split; [apply comps_range in Hin; lia|].
    apply comps_In in Hin. auto. }
  destruct H as [[_ [_ [[oi [ni [Hin ->]]] | [_ ->]]]]
                | [[_ [oi [ni [Hin [_ [-> | [_ ->]]]]]]] | [oi [ni [Hin Hsh]]]]].
  - destruct (Hreg _ _ Hin) as [Hr [W1 _]]. lia.
  - lia.
  - lia.
  - destruct (Hreg _ _ Hin) as [Hr [W1 _]]. lia.
  - destruct (Hreg _ _ Hin) as [Hr Wn]. apply (shift_region oi ni) in Hsh; [lia|exact Wn].
Qed.
