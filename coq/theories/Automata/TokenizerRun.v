(* Operational facts about the tokeniser model (Automata/Tokenizer.v):
   the flattened byte-stream view `Run`, soundness and totality of the fuelled
   loops with a closed-form fuel bound, chunking independence. *)
From Coq Require Import List NArith Arith Bool Lia.
From SNT Require Import Base.Outcome Automata.Tokenizer.
Import ListNotations.

Section Run.
  Variables Q Item : Type.
  Variable q0 : Q.
  Variable delta : Q -> N -> option Q.
  Variables accepting terminal : Q -> bool.
  Variable decode_item : Q -> list N -> option Item.

  Notation tok := (tok Item).
  Notation st := (st Q Item).
  Notation decode_byte := (decode_byte Q Item q0 delta accepting terminal decode_item).
  Notation drain := (drain Q Item q0 delta accepting terminal decode_item).
  Notation scan_input := (scan_input Q Item q0 delta accepting terminal decode_item).
  Notation decode := (decode Q Item q0 delta accepting terminal decode_item).
  Notation decode_into := (decode_into Q Item q0 delta accepting terminal decode_item).
  Notation feed := (feed Q Item q0 delta accepting terminal decode_item).

  (* ---------------------------------------------------------------- *)
  (* records *)

  Lemma set_res_id (s : st) : sres s = [] -> set_res s [] = s.
  Proof. destruct s as [q b r c]; cbn; intros ->; reflexivity. Qed.

  Lemma set_res_set_res (s : st) r r' : set_res (set_res s r) r' = set_res s r'.
  Proof. reflexivity. Qed.

  Lemma sres_set_res (s : st) r : sres (set_res s r) = r.
  Proof. reflexivity. Qed.

  Lemma set_res_eta (s : st) : set_res s (sres s) = s.
  Proof. destruct s; reflexivity. Qed.

  (* ---------------------------------------------------------------- *)
  (* one byte on a state whose rescheduled stack is empty; the bytes it pushes back are returned *)

  Definition cstep (s : st) (b : N) : st * option tok * list N :=
    let '(s', o) := decode_byte (set_res s []) b in (set_res s' [], o, sres s').

  Definition otl (o : option tok) : list tok :=
    match o with Some t => [t] | None => [] end.

  (* decode_byte only ever pushes in front of `rescheduled` and never looks at it *)
  Lemma decode_byte_param (s : st) (r : list N) (b : N) :
    decode_byte (set_res s r) b =
    let '(c, o, p) := cstep s b in (set_res c (p ++ r), o).
  Proof.
    unfold cstep, Tokenizer.decode_byte, take_candidate. cbn [sq sbuf sres scand set_res].
    destruct (delta (sq s) b) as [q'|].
    - destruct (accepting q'); [destruct (terminal q')|]; cbn [sq sbuf sres scand set_res];
        rewrite ?app_nil_r; reflexivity.
    - destruct (scand s) as [[t n]|]; cbn [sq sbuf sres scand set_res].
      + rewrite app_nil_r. reflexivity.
      + destruct (1 <? length (sbuf s ++ [b]))%nat; cbn [sq sbuf sres scand set_res]; reflexivity.
  Qed.

  Lemma cstep_clean (s c : st) b o p : cstep s b = (c, o, p) -> sres c = [].
  Proof.
    unfold cstep. destruct (decode_byte (set_res s []) b) as [s' o'].
    intros H; inversion H; reflexivity.
  Qed.

  (* a byte that yields no item pushes nothing back *)
  Lemma cstep_none_nopush (s c : st) b p : cstep s b = (c, None, p) -> p = [].
  Proof.
    unfold cstep, Tokenizer.decode_byte, take_candidate. cbn [sq sbuf sres scand set_res].
    destruct (delta (sq s) b) as [q'|].
    - destruct (accepting q'); [destruct (terminal q')|]; cbn [sq sbuf sres scand set_res];
        intros H; inversion H; reflexivity.
    - destruct (scand s) as [[t n]|]; cbn [sq sbuf sres scand set_res].
      + intros H; inversion H.
      + destruct (1 <? length (sbuf s ++ [b]))%nat; intros H; inversion H.
  Qed.

  (* ---------------------------------------------------------------- *)
  (* the flattened view: one stream = rescheduled bytes followed by the input *)

  Inductive Run : st -> list N -> list tok -> st -> Prop :=
  | Run_nil s : Run s [] [] s
  | Run_step s b w c o p ts sf :
      cstep s b = (c, o, p) ->
      Run c (p ++ w) ts sf ->
      Run s (b :: w) (otl o ++ ts) sf.

  Lemma Run_app s a t1 s1 : Run s a t1 s1 ->
    forall b t2 s2, Run s1 b t2 s2 -> Run s (a ++ b) (t1 ++ t2) s2.
  Proof.
    induction 1 as [s|s b0 w c o p ts sf Hc _ IH]; intros b t2 s2 H2.
    - exact H2.
    - cbn [app]. rewrite <- app_assoc. eapply Run_step; [exact Hc|].
      rewrite app_assoc. apply IH. exact H2.
  Qed.

  Lemma Run_det s w t1 s1 : Run s w t1 s1 ->
    forall t2 s2, Run s w t2 s2 -> t1 = t2 /\ s1 = s2.
  Proof.
    induction 1 as [s|s b0 w c o p ts sf Hc _ IH]; intros t2 s2 H2.
    - inversion H2; subst. split; reflexivity.
    - inversion H2 as [|s' b' w' c' o' p' ts' sf' Hc' Hr']; subst.
      rewrite Hc in Hc'. inversion Hc'; subst.
      destruct (IH _ _ Hr') as [-> ->]. split; reflexivity.
  Qed.

  Lemma Run_clean s w ts sf : Run s w ts sf -> sres s = [] -> sres sf = [].
  Proof.
    induction 1 as [s|s b0 w c o p ts sf Hc _ IH]; intros Hs.
    - exact Hs.
    - apply IH. eapply cstep_clean; exact Hc.
  Qed.

  (* ---------------------------------------------------------------- *)
  (* the loops of `decode`, continuation style: if the rest of the stream runs to (ts, sf)
     then the whole stream runs to (item ++ ts, sf) *)

  Lemma scan_input_spec input : forall (s s' : st) o rest,
    sres s = [] ->
    scan_input s input = (s', o, rest) ->
    (o = None -> rest = [] /\ sres s' = []) /\
    forall ts sf, Run (set_res s' []) (sres s' ++ rest) ts sf -> Run s input (otl o ++ ts) sf.
  Proof.
    induction input as [|b r IH]; intros s s' o rest Hs H.
    - cbn in H. inversion H; subst. split; [intros _; split; [reflexivity|exact Hs]|].
      intros ts sf HR. rewrite Hs, set_res_id in HR by exact Hs. exact HR.
    - cbn [Tokenizer.scan_input] in H.
      pose proof (decode_byte_param s [] b) as HP. rewrite set_res_id in HP by exact Hs.
      destruct (cstep s b) as [[c o1] p] eqn:Hc. rewrite app_nil_r in HP.
      rewrite HP in H. destruct o1 as [t|].
      + inversion H; subst. split; [discriminate|].
        intros ts sf HR. cbn [sres set_res] in HR.
        eapply Run_step; [exact Hc|].
        rewrite set_res_set_res, set_res_id in HR by (eapply cstep_clean; exact Hc). exact HR.
      + pose proof (cstep_none_nopush _ _ _ _ Hc) as ->.
        pose proof (cstep_clean _ _ _ _ _ Hc) as Hcc.
        rewrite set_res_id in H by (cbn; exact Hcc).
        destruct (IH _ _ _ _ Hcc H) as [Hn HRun]. split; [exact Hn|].
        intros ts sf HR. change (otl o ++ ts) with (otl None ++ (otl o ++ ts)).
        eapply Run_step; [exact Hc|]. cbn [app]. apply HRun. exact HR.
  Qed.

  Lemma drain_spec fuel : forall (s : st),
    (length (sres s) < fuel)%nat ->
    exists s' o, drain fuel s = Ok (s', o) /\
      (o = None -> sres s' = []) /\
      forall input ts sf, Run (set_res s' []) (sres s' ++ input) ts sf ->
                          Run (set_res s []) (sres s ++ input) (otl o ++ ts) sf.
  Proof.
    induction fuel as [|f IH]; intros s Hf; [lia|].
    cbn [Tokenizer.drain]. destruct (sres s) as [|b r] eqn:Hr.
    - exists s, None. split; [reflexivity|]. split; [intros _; exact Hr|].
      intros input ts sf HR. rewrite Hr in HR. exact HR.
    - pose proof (decode_byte_param s r b) as HP.
      destruct (cstep s b) as [[c o1] p] eqn:Hc. rewrite HP.
      pose proof (cstep_clean _ _ _ _ _ Hc) as Hcc.
      assert (Hc' : cstep (set_res s []) b = (c, o1, p)) by exact Hc.
      destruct o1 as [t|].
      + exists (set_res c (p ++ r)), (Some t). split; [reflexivity|]. split; [discriminate|].
        intros input ts sf HR. rewrite sres_set_res, set_res_set_res in HR.
        cbn [app]. eapply Run_step; [exact Hc'|].
        rewrite set_res_id in HR by exact Hcc. rewrite <- app_assoc in HR. exact HR.
      + pose proof (cstep_none_nopush _ _ _ _ Hc) as ->. cbn [app].
        cbn in Hf.
        destruct (IH (set_res c r)) as (s' & o & Hd & Hn & HRun); [cbn; lia|].
        exists s', o. split; [exact Hd|]. split; [exact Hn|].
        intros input ts sf HR. specialize (HRun input ts sf HR).
        rewrite sres_set_res, set_res_set_res, set_res_id in HRun by exact Hcc.
        change (otl o ++ ts) with (otl None ++ (otl o ++ ts)).
        eapply Run_step; [exact Hc'|]. exact HRun.
  Qed.

  Lemma decode_spec (s : st) (input : list N) :
    exists s' o rest, decode s input = Ok (s', o, rest) /\
      (o = None -> rest = [] /\ sres s' = []) /\
      forall ts sf, Run (set_res s' []) (sres s' ++ rest) ts sf ->
                    Run (set_res s []) (sres s ++ input) (otl o ++ ts) sf.
  Proof.
    unfold Tokenizer.decode.
    destruct (drain_spec (S (length (sres s))) s) as (s1 & o1 & Hd & Hn & HRun); [lia|].
    rewrite Hd. cbn [bind]. destruct o1 as [t|].
    - exists s1, (Some t), input. split; [reflexivity|]. split; [discriminate|].
      intros ts sf HR. apply HRun. exact HR.
    - specialize (Hn eq_refl).
      destruct (scan_input s1 input) as [[s2 o2] rest] eqn:Hs.
      destruct (scan_input_spec _ _ _ _ _ Hn Hs) as [Hn2 HRun2].
      exists s2, o2, rest. split; [reflexivity|]. split; [exact Hn2|].
      intros ts sf HR. specialize (HRun2 ts sf HR).
      specialize (HRun input (otl o2 ++ ts) sf).
      rewrite Hn, set_res_id in HRun by exact Hn. cbn [otl app] in HRun. apply HRun. exact HRun2.
  Qed.

  (* soundness of decode_into w.r.t. the stream view *)
  Theorem decode_into_run fuel : forall (s : st) input ts s' rest,
    decode_into fuel s input = Ok (ts, s', rest) ->
    rest = [] /\ sres s' = [] /\ Run (set_res s []) (sres s ++ input) ts s'.
  Proof.
    induction fuel as [|f IH]; intros s input ts s' rest H; [discriminate|].
    cbn [Tokenizer.decode_into] in H.
    destruct (decode_spec s input) as (s1 & o & rest1 & Hd & Hn & HRun).
    rewrite Hd in H. cbn [bind] in H. destruct o as [t|].
    - destruct (decode_into f s1 rest1) as [[[ts2 s2] rest2]| | |] eqn:H2; cbn [bind] in H; try discriminate.
      inversion H; subst. destruct (IH _ _ _ _ _ H2) as (-> & Hs2 & HR2).
      split; [reflexivity|]. split; [exact Hs2|].
      change (t :: ts2) with (otl (Some t) ++ ts2). apply HRun. exact HR2.
    - inversion H; subst. destruct (Hn eq_refl) as [-> Hs1].
      split; [reflexivity|]. split; [exact Hs1|].
      specialize (HRun [] s'). cbn [otl app] in HRun. apply HRun.
      rewrite Hs1, set_res_id by exact Hs1. apply Run_nil.
  Qed.

  (* ---------------------------------------------------------------- *)
  (* termination: a measure that no byte increases and every item strictly decreases *)

  Definition meas (s : st) : nat :=
    length (sbuf s) + length (sres s) +
    match scand s with Some (_, O) => 1 | _ => 0 end.

  Lemma skipn_length_le {A} n (l : list A) : (length (skipn n l) <= length l)%nat.
  Proof. rewrite skipn_length. lia. Qed.

  Lemma decode_byte_meas (s s' : st) b o :
    decode_byte s b = (s', o) ->
    match o with
    | None => (meas s' <= meas s + 1)%nat
    | Some _ => (meas s' <= meas s)%nat
    end.
  Proof.
    unfold Tokenizer.decode_byte, take_candidate, meas. cbn [sq sbuf sres scand].
    destruct (delta (sq s) b) as [q'|].
    - destruct (accepting q'); [destruct (terminal q')|]; cbn [sq sbuf sres scand];
        intros H; inversion H; subst; clear H; cbn [sq sbuf sres scand length];
        repeat (rewrite app_length || rewrite skipn_length); cbn [length];
        rewrite ?Nat.add_1_r; destruct (scand s) as [[? [|?]]|]; lia.
    - destruct (scand s) as [[t n]|]; cbn [sq sbuf sres scand].
      + intros H; inversion H; subst; clear H. cbn [sq sbuf sres scand length].
        repeat (rewrite app_length || rewrite skipn_length). cbn [length]. destruct n; lia.
      + destruct (1 <? length (sbuf s ++ [b]))%nat eqn:E; intros H; inversion H; subst; clear H;
          cbn [sq sbuf sres scand length]; rewrite app_length in E; cbn [length] in E.
        * apply Nat.ltb_lt in E. lia.
        * lia.
  Qed.

  Lemma scan_input_meas input : forall (s s' : st) o rest,
    scan_input s input = (s', o, rest) ->
    match o with
    | None => (meas s' + length rest <= meas s + length input)%nat
    | Some _ => (meas s' + length rest < meas s + length input)%nat
    end.
  Proof.
    induction input as [|b r IH]; intros s s' o rest H.
    - cbn in H. inversion H; subst. cbn. lia.
    - cbn [Tokenizer.scan_input] in H. destruct (decode_byte s b) as [s1 o1] eqn:Hb.
      pose proof (decode_byte_meas _ _ _ _ Hb) as Hm. destruct o1 as [t|].
      + inversion H; subst. cbn [length]. lia.
      + specialize (IH _ _ _ _ H). cbn [length]. destruct o; lia.
  Qed.

  Lemma drain_meas fuel : forall (s s' : st) o,
    drain fuel s = Ok (s', o) ->
    match o with
    | None => (meas s' <= meas s)%nat
    | Some _ => (meas s' < meas s)%nat
    end.
  Proof.
    induction fuel as [|f IH]; intros s s' o H; [discriminate|].
    cbn [Tokenizer.drain] in H. destruct (sres s) as [|b r] eqn:Hr.
    - inversion H; subst. lia.
    - destruct (decode_byte (set_res s r) b) as [s1 o1] eqn:Hb.
      pose proof (decode_byte_meas _ _ _ _ Hb) as Hm.
      assert (Hs : (meas (set_res s r) + 1 = meas s)%nat).
      { unfold meas. cbn [sbuf sres scand set_res]. rewrite Hr. cbn [length]. lia. }
      destruct o1 as [t|].
      + inversion H; subst. lia.
      + specialize (IH _ _ _ H). destruct o; lia.
  Qed.

  Lemma decode_meas (s s' : st) input o rest :
    decode s input = Ok (s', o, rest) ->
    match o with
    | None => (meas s' + length rest <= meas s + length input)%nat
    | Some _ => (meas s' + length rest < meas s + length input)%nat
    end.
  Proof.
    unfold Tokenizer.decode.
    destruct (drain (S (length (sres s))) s) as [[s1 o1]| | |] eqn:Hd; cbn [bind]; try discriminate.
    pose proof (drain_meas _ _ _ _ Hd) as Hm. destruct o1 as [t|].
    - intros H; inversion H; subst. lia.
    - intros H; inversion H as [Hs]. pose proof (scan_input_meas _ _ _ _ _ Hs) as Hm2.
      destruct o; lia.
  Qed.

  (* totality with a closed-form fuel bound; the result is the stream view's *)
  Theorem decode_into_total fuel : forall (s : st) input,
    (meas s + length input < fuel)%nat ->
    exists ts s', decode_into fuel s input = Ok (ts, s', []) /\
                  (meas s' <= meas s + length input)%nat.
  Proof.
    induction fuel as [|f IH]; intros s input Hf; [lia|].
    cbn [Tokenizer.decode_into].
    destruct (decode_spec s input) as (s1 & o & rest1 & Hd & Hn & _).
    rewrite Hd. cbn [bind]. pose proof (decode_meas _ _ _ _ _ Hd) as Hm.
    destruct o as [t|].
    - destruct (IH s1 rest1) as (ts2 & s2 & H2 & Hm2); [lia|].
      rewrite H2. cbn [bind]. exists (t :: ts2), s2. split; [reflexivity|lia].
    - destruct (Hn eq_refl) as [-> _]. exists [], s1. split; [reflexivity|]. cbn [length] in Hm. lia.
  Qed.

  Lemma meas_le_fuel_for (s : st) n : (meas s + n < fuel_for s n)%nat.
  Proof.
    unfold meas, fuel_for. destruct (scand s) as [[t [|k]]|]; lia.
  Qed.

  (* the fuel bound announced in the model: never OutOfFuel *)
  Theorem fuel_enough (s : st) input fuel :
    (fuel_for s (length input) <= fuel)%nat ->
    exists ts s', decode_into fuel s input = Ok (ts, s', []) /\ sres s' = [] /\
                  Run (set_res s []) (sres s ++ input) ts s'.
  Proof.
    intros Hf. pose proof (meas_le_fuel_for s (length input)) as Hm.
    destruct (decode_into_total fuel s input) as (ts & s' & H & _); [lia|].
    exists ts, s'. split; [exact H|].
    destruct (decode_into_run _ _ _ _ _ _ H) as (_ & Hs & HR). split; assumption.
  Qed.

  (* more fuel never changes an answer *)
  Theorem fuel_irrelevant (s : st) input f1 f2 r1 r2 :
    decode_into f1 s input = Ok r1 -> decode_into f2 s input = Ok r2 -> r1 = r2.
  Proof.
    destruct r1 as [[t1 s1] x1], r2 as [[t2 s2] x2]. intros H1 H2.
    destruct (decode_into_run _ _ _ _ _ _ H1) as (-> & _ & R1).
    destruct (decode_into_run _ _ _ _ _ _ H2) as (-> & _ & R2).
    destruct (Run_det _ _ _ _ R1 _ _ R2) as [-> ->]. reflexivity.
  Qed.

  (* ---------------------------------------------------------------- *)
  (* chunking independence *)

  (* any partition into reads = a single read of the concatenation: same items, same final state *)
  Theorem chunking_meas chunks : forall (s : st) fuel,
    sres s = [] ->
    (meas s + length (concat chunks) < fuel)%nat ->
    exists ts s',
      feed fuel s chunks = Ok (ts, s') /\
      decode_into fuel s (concat chunks) = Ok (ts, s', []) /\
      sres s' = [] /\ (meas s' <= meas s + length (concat chunks))%nat.
  Proof.
    induction chunks as [|c cs IH]; intros s fuel Hs Hf.
    - cbn [concat Tokenizer.feed]. cbn [concat length] in Hf.
      destruct (decode_into_total fuel s []) as (ts & s' & H & Hm); [cbn [length]; lia|].
      destruct (decode_into_run _ _ _ _ _ _ H) as (_ & Hs' & HR).
      rewrite Hs in HR. cbn [app] in HR. rewrite set_res_id in HR by exact Hs.
      inversion HR; subst. exists [], s'.
      split; [reflexivity|]. split; [exact H|]. split; [exact Hs'|exact Hm].
    - cbn [concat Tokenizer.feed]. cbn [concat] in Hf. rewrite app_length in Hf.
      destruct (decode_into_total fuel s c) as (t1 & s1 & H1 & Hm1); [lia|].
      destruct (decode_into_run _ _ _ _ _ _ H1) as (_ & Hs1 & HR1).
      rewrite H1. cbn [bind].
      destruct (IH s1 fuel Hs1) as (t2 & s2 & HF & HD & Hs2 & Hm2); [lia|].
      rewrite HF. cbn [bind]. exists (t1 ++ t2), s2.
      destruct (decode_into_run _ _ _ _ _ _ HD) as (_ & _ & HR2).
      rewrite Hs1 in HR2. cbn [app] in HR2. rewrite set_res_id in HR2 by exact Hs1.
      pose proof (Run_app _ _ _ _ HR1 _ _ _ HR2) as HR.
      destruct (decode_into_total fuel s (c ++ concat cs)) as (t & s' & H & Hm); [rewrite app_length; lia|].
      destruct (decode_into_run _ _ _ _ _ _ H) as (_ & _ & HR').
      rewrite <- app_assoc in HR.
      destruct (Run_det _ _ _ _ HR _ _ HR') as [<- <-].
      split; [reflexivity|]. split; [exact H|]. split; [exact Hs2|]. rewrite app_length. lia.
  Qed.

  Theorem chunking chunks (s : st) fuel :
    sres s = [] ->
    (fuel_for s (length (concat chunks)) <= fuel)%nat ->
    exists ts s',
      feed fuel s chunks = Ok (ts, s') /\
      decode_into fuel s (concat chunks) = Ok (ts, s', []).
  Proof.
    intros Hs Hf. pose proof (meas_le_fuel_for s (length (concat chunks))) as Hm.
    destruct (chunking_meas chunks s fuel Hs) as (ts & s' & HF & HD & _); [lia|].
    exists ts, s'. split; assumption.
  Qed.

End Run.
