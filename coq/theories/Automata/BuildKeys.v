(* Every state of a built NFA has at most one edge per symbol (the edge lists
   are the BTreeMaps of the code): needed because compile looks edges up with
   `get`. *)
From Coq Require Import List NArith Bool Arith Lia FinFun.
From SNT Require Import Base.Outcome Automata.Regex Automata.RegexInd Automata.NFA Automata.Build Automata.Compile
  Automata.PathLemmas Automata.BuildLeaves Automata.BuildFrames Automata.CompileSpec Automata.BuildProofs.
Import ListNotations.

Definition key_ok (st : nstate) : Prop := NoDup (map fst (edges st)).

Lemma Forall_update {A} (P : A -> Prop) l i f :
  Forall P l -> (forall x, P x -> P (f x)) -> Forall P (update l i f).
Proof.
  intros H Hf. revert i. induction H as [|x r Hx Hr IH]; intros [|i]; cbn; constructor; auto.
Qed.

Lemma key_ok_new : key_ok new_state.
Proof. constructor. Qed.

Lemma key_ok_add_eps q st : key_ok st -> key_ok (add_eps q st).
Proof. auto. Qed.

Lemma key_ok_set_tag t st : key_ok st -> key_ok (set_tag t st).
Proof. auto. Qed.

Lemma key_ok_shift o st : key_ok st -> key_ok (shift_state o st).
Proof.
  unfold key_ok, shift_state. cbn [edges]. rewrite map_map. cbn [fst]. auto.
Qed.

Lemma all_bytes_NoDup : NoDup all_bytes.
Proof.
  unfold all_bytes. apply Injective_map_NoDup; [|apply seq_NoDup].
  intros a b H. apply Nat2N.inj. exact H.
Qed.

Transparent pred_edges.
Lemma pred_edges_keys set : NoDup (map fst (pred_edges set)).
Proof.
  unfold pred_edges. rewrite map_map. cbn [fst]. rewrite map_id.
  apply NoDup_filter. apply all_bytes_NoDup.
Qed.
Opaque pred_edges.

Lemma lit_states_keys bs : forall i, Forall key_ok (lit_states i bs).
Proof.
  induction bs as [|b r IH]; intros i; cbn [lit_states]; constructor.
  - apply key_ok_new.
  - constructor.
  - unfold key_ok. cbn. constructor; [intros []|constructor].
  - apply IH.
Qed.

Lemma merge_keys nfas : forall o, Forall keys_ok nfas -> Forall key_ok (fst (merge_states nfas o)).
Proof.
  induction nfas as [|n r IH]; intros o H; cbn [merge_states]; [constructor|].
  inversion H as [|? ? H1 H2]; subst. specialize (IH (o + length (states n)) H2).
  destruct (merge_states r (o + length (states n))) as [ss es]. cbn [fst] in *.
  apply Forall_app. split; [|exact IH].
  apply Forall_forall. intros st Hin. apply in_map_iff in Hin. destruct Hin as [st0 [<- Hin]].
  apply key_ok_shift. unfold keys_ok in H1. rewrite Forall_forall in H1. apply H1. exact Hin.
Qed.

Lemma bridge_keys ends : forall o ss, Forall key_ok ss -> Forall key_ok (bridge o ends ss).
Proof.
  induction ends as [|[x from] r IH]; intros o ss H; [exact H|].
  destruct r as [|[to t2] r']; [exact H|].
  change (bridge o ((x, from) :: (to, t2) :: r') ss)
    with (bridge o ((to, t2) :: r') (update ss (from - o) (add_eps to))).
  apply IH. apply Forall_update; [exact H|]. intros st. apply key_ok_add_eps.
Qed.

Lemma choice_loop_keys ends : forall st0 ss st0' ss',
  choice_loop ends st0 ss = (st0', ss') -> key_ok st0 -> Forall key_ok ss ->
  key_ok st0' /\ Forall key_ok ss'.
Proof.
  induction ends as [|[f t] r IH]; intros st0 ss st0' ss' E H0 H; cbn [choice_loop] in E.
  - inversion E; subst. auto.
  - apply IH in E; auto. apply Forall_update; [exact H|]. intros st. apply key_ok_add_eps.
Qed.

Lemma sequence_keys nfas : Forall keys_ok nfas -> keys_ok (sequence nfas).
Proof.
  intros H. unfold sequence. pose proof (merge_keys nfas 0 H) as M.
  destruct (merge_states nfas 0) as [ss ends]. cbn [fst] in M.
  destruct ends as [|[s0 t0] r].
  - unfold keys_ok. cbn. constructor; [apply key_ok_new|constructor].
  - unfold keys_ok. cbn [states]. apply bridge_keys. exact M.
Qed.

Lemma choice_keys nfas : Forall keys_ok nfas -> keys_ok (choice nfas).
Proof.
  intros H. unfold choice. pose proof (merge_keys nfas 2 H) as M.
  destruct (merge_states nfas 2) as [ss ends]. cbn [fst] in M.
  destruct ends as [|e r].
  - unfold keys_ok. cbn. repeat constructor.
  - destruct (choice_loop (e :: r) new_state ss) as [st0 ss'] eqn:E.
    apply choice_loop_keys in E; [|apply key_ok_new|exact M]. destruct E as [E1 E2].
    unfold keys_ok. cbn [states]. constructor; [exact E1|]. constructor; [apply key_ok_new|exact E2].
Qed.

Lemma framed_keys n (f : nstate -> nstate) i st0 :
  keys_ok n -> key_ok st0 -> (forall st, key_ok st -> key_ok (f st)) ->
  Forall key_ok (st0 :: new_state :: update (map (shift_state 2) (states n) ++ []) i f).
Proof.
  intros H H0 Hf. constructor; [exact H0|]. constructor; [apply key_ok_new|].
  apply Forall_update; [|exact Hf]. rewrite app_nil_r.
  apply Forall_forall. intros st Hin. apply in_map_iff in Hin. destruct Hin as [st1 [<- Hin]].
  apply key_ok_shift. unfold keys_ok in H. rewrite Forall_forall in H. apply H. exact Hin.
Qed.

Theorem build_keys : forall e, keys_ok (build e).
Proof.
  apply regex_rect'; cbn [build].
  - intros set. unfold keys_ok, predicate. cbn [states]. constructor.
    + unfold key_ok. cbn [edges]. apply pred_edges_keys.
    + constructor; [apply key_ok_new|constructor].
  - intros bs. unfold keys_ok, from_str. cbn [states]. apply lit_states_keys.
  - unfold keys_ok. cbn. constructor; [apply key_ok_new|constructor].
  - unfold keys_ok. cbn. repeat constructor.
  - intros es IH. apply sequence_keys. apply Forall_forall. intros n Hin.
    apply in_map_iff in Hin. destruct Hin as [e [<- Hin]]. rewrite Forall_forall in IH. auto.
  - intros es IH. apply choice_keys. apply Forall_forall. intros n Hin.
    apply in_map_iff in Hin. destruct Hin as [e [<- Hin]]. rewrite Forall_forall in IH. auto.
  - intros e IH. unfold keys_ok, some. cbn [states]. apply Forall_update; [exact IH|].
    intros st. apply key_ok_add_eps.
  - intros e IH. unfold keys_ok, optional. rewrite merge_one. cbn [hd states].
    apply framed_keys; [exact IH|apply key_ok_add_eps, key_ok_add_eps, key_ok_new|].
    intros st Hst; apply key_ok_add_eps; exact Hst.
  - intros e IH. unfold keys_ok, many. rewrite merge_one. cbn [hd states].
    apply framed_keys; [exact IH|apply key_ok_add_eps, key_ok_add_eps, key_ok_new|].
    intros st Hst; apply key_ok_add_eps, key_ok_add_eps; exact Hst.
  - intros t e IH. unfold keys_ok, tag_stop_state. cbn [states]. apply Forall_update; [exact IH|].
    intros st. apply key_ok_set_tag.
Qed.
