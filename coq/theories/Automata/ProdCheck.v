(* Certificate checker: a dumped DFA (Automata/DfaData.v) is the subset
   construction of a dumped NFA (Automata/ProdNfaData.v).  The certificate is the
   subset of NFA states of every DFA state (computed outside, not trusted).
   Checked per DFA state k with subset qs, for every byte c:
     - targets(qs, c) is empty iff the DFA has no transition on c;
     - otherwise the transition leads to k' whose subset qs' contains the
       targets, is closed under epsilon edges, and is covered by a computed
       epsilon closure of the targets (only soundness of that computation is
       needed: everything it returns is reachable);
     - accepting = stop in qs, tags = tags of the states of qs, terminal -> no row;
     - the subset of the start state is the closure of NFA state 0.
   ProdCheckProofs.v: check = true implies the statement of C15_compile for the
   dumped pair.  Everything runs in N / PositiveMap (cheap under vm_compute). *)
From Coq Require Import List NArith PArith FMapPositive Bool Arith.
From SNT Require Import Automata.Regex Automata.NFA Automata.DfaData Automata.ProdNfaData.
Import ListNotations.
Local Open Scope N_scope.

Definition memN (a : N) (l : list N) : bool := existsb (N.eqb a) l.

Section Check.
  Variable nd : nfa_data.
  Variable dd : dfa_data.
  Variable subsets : list (list N).
  Variable fc_fuel : nat.     (* fuel of the closure computation; too little only makes the check fail *)

  (* the states by id, built once by `check` (vm_compute is call by value: a
     definition depending on nd would be re-evaluated at every use) *)
  Variable idx : PositiveMap.t nstate_data.

  Definition lookup (q : N) : option nstate_data := PositiveMap.find (N.succ_pos q) idx.

  Definition run_targets (runs : list (N * N * N)) (c : N) : list N :=
    map (fun r => snd r)
        (filter (fun r => (fst (fst r) <=? c) && (c <=? snd (fst r))) runs).

  Definition targets (qs : list N) (c : N) : list N :=
    flat_map (fun q => match lookup q with
                       | Some sd => run_targets (sd_runs sd) c
                       | None => []
                       end) qs.

  Definition closed (qs : list N) : bool :=
    forallb (fun q => match lookup q with
                      | Some sd => forallb (fun e => memN e qs) (sd_eps sd)
                      | None => true
                      end) qs.

  (* some epsilon closure of the seeds; fuel exhaustion returns what was found *)
  Fixpoint fc (fuel : nat) (out : PositiveMap.t unit) (queue : list N) : PositiveMap.t unit :=
    match fuel with
    | O => out
    | S f =>
        match queue with
        | [] => out
        | q :: r =>
            match PositiveMap.find (N.succ_pos q) out with
            | Some _ => fc f out r
            | None =>
                fc f (PositiveMap.add (N.succ_pos q) tt out)
                   (match lookup q with Some sd => sd_eps sd ++ r | None => r end)
            end
        end
    end.

  Definition covered (qs : list N) (out : PositiveMap.t unit) : bool :=
    forallb (fun z => match PositiveMap.find (N.succ_pos z) out with Some _ => true | None => false end) qs.

  Definition subset_of (T qs : list N) : bool := forallb (fun x => memN x qs) T.

  Definition sub (k : N) : option (list N) := nth_error subsets (N.to_nat k).

  Definition byte_ok (qs : list N) (r : row) (c : N) : bool :=
    let T := targets qs c in
    match row_find r c with
    | None => match T with [] => true | _ => false end
    | Some k' =>
        match T with [] => false | _ => true end
        && match sub k' with
           | Some qs' => subset_of T qs' && covered qs' (fc fc_fuel (PositiveMap.empty unit) T)
           | None => false
           end
    end.

  Definition tags_in (qs : list N) : list N :=
    flat_map (fun q => match lookup q with
                       | Some sd => match sd_tag sd with Some t => [tag_code t] | None => [] end
                       | None => []
                       end) qs.

  Definition info_ok (qs : list N) (r : row) (i : info) : bool :=
    Bool.eqb (fst (fst i)) (memN (nd_stop nd) qs)
    && subset_of (map tag_code (snd i)) (tags_in qs)
    && subset_of (tags_in qs) (map tag_code (snd i))
    && (negb (snd (fst i)) || match r with [] => true | _ => false end).

  Definition state_ok (qs : list N) (r : row) (i : info) : bool :=
    closed qs && info_ok qs r i && forallb (byte_ok qs r) all_bytes.

  Definition check_state (k : nat) : bool :=
    match nth_error (dd_rows dd) k, nth_error (dd_infos dd) k, nth_error subsets k with
    | Some r, Some i, Some qs => state_ok qs r i
    | _, _, _ => false
    end.

  Definition check_start : bool :=
    match sub (dd_start dd) with
    | Some qs0 => memN 0 qs0 && covered qs0 (fc fc_fuel (PositiveMap.empty unit) [0])
    | None => false
    end.

  Definition check_with : bool :=
    Nat.eqb (length (dd_rows dd)) (length (dd_infos dd))
    && Nat.eqb (length (dd_rows dd)) (length subsets)
    && check_start
    && forallb check_state (seq 0 (length (dd_rows dd))).
End Check.

Definition sd_index (nd : nfa_data) : PositiveMap.t nstate_data :=
  index_from 0 (nd_states nd) (PositiveMap.empty nstate_data).

Definition check (nd : nfa_data) (dd : dfa_data) (subsets : list (list N)) (fc_fuel : nat) : bool :=
  check_with nd dd subsets fc_fuel (sd_index nd).

(* running a dumped DFA *)
Fixpoint d_run (D : dfa) (q : N) (s : list N) : option N :=
  match s with
  | [] => Some q
  | c :: r => match d_delta D q c with
              | Some q' => d_run D q' r
              | None => None
              end
  end.
