(* Well-formedness and the accepted language of the leaf automata: predicate,
   empty, nothing, From<&str>; tag_stop_state leaves the graph unchanged. *)
From Coq Require Import List NArith Bool Arith Lia.
From SNT Require Import Automata.Regex Automata.NFA Automata.PathLemmas.
Import ListNotations.

Definition size (n : nfa) : nat := length (states n).

(* start and stop exist, every edge leads to an existing state *)
Definition wf (n : nfa) : Prop :=
  start n < size n /\ stop n < size n /\
  forall q l q', nstep n q l q' -> q' < size n.

Lemma nstep_src n q l q' : nstep n q l q' -> q < size n.
Proof. intros H. apply gstep_bound in H. unfold size. lia. Qed.

Lemma all_bytes_In c : In c all_bytes <-> (c < 256)%N.
Proof.
  unfold all_bytes. rewrite in_map_iff. split.
  - intros [n [<- H]]. apply in_seq in H. lia.
  - intros H. exists (N.to_nat c). split; [apply N2Nat.id|]. apply in_seq. lia.
Qed.

(* ---------- predicate ---------- *)

Transparent pred_edges.
Lemma pred_edges_In set c q' :
  In (c, q') (pred_edges set) <-> q' = 1 /\ (c < 256)%N /\ mem c set = true.
Proof.
  unfold pred_edges. rewrite in_map_iff. split.
  - intros [c0 [Heq Hin]]. inversion Heq; subst.
    apply filter_In in Hin. destruct Hin as [Hb Hm]. apply all_bytes_In in Hb. auto.
  - intros [-> [Hc Hm]]. exists c. split; [reflexivity|]. apply filter_In. split; [|exact Hm].
    apply all_bytes_In. exact Hc.
Qed.

Opaque pred_edges.

Lemma predicate_step set q l q' :
  nstep (predicate set) q l q' <->
  q = 0 /\ q' = 1 /\ exists c, l = Some c /\ (c < 256)%N /\ mem c set = true.
Proof.
  unfold nstep, predicate. cbn [states].
  rewrite gstep_cons, gstep_new_state. split.
  - intros [[-> H] | H]; [|apply gstep_nil in H; contradiction].
    destruct l as [c|]; cbn [edges eps] in H; [|contradiction].
    apply pred_edges_In in H. destruct H as [-> [Hc Hm]].
    repeat split; auto. exists c. auto.
  - intros [-> [-> [c [-> [Hc Hm]]]]]. left. split; [reflexivity|]. cbn [edges].
    apply pred_edges_In. auto.
Qed.

Lemma predicate_wf set : wf (predicate set).
Proof.
  unfold wf, size. cbn. repeat split; try lia.
  intros q l q' H. apply predicate_step in H. lia.
Qed.

Lemma predicate_lang set s : accepts (predicate set) s <-> matches (Pred set) s.
Proof.
  unfold accepts. cbn [start stop predicate matches]. split.
  - intros P. inversion P as [|? ? ? ? H1 P1|? c ? ? ? H1 P1]; subst.
    + apply predicate_step in H1. destruct H1 as [_ [_ [c [Hc _]]]]. discriminate.
    + apply predicate_step in H1. destruct H1 as [_ [-> [c0 [Heq [Hc Hm]]]]].
      inversion Heq; subst c0.
      apply path_stuck in P1.
      * destruct P1 as [-> _]. exists c. auto.
      * intros l x Hx. apply predicate_step in Hx. lia.
  - intros [c [-> [Hc Hm]]]. eapply path_sym; [|apply path_refl].
    apply predicate_step. repeat split; auto. exists c. auto.
Qed.

(* ---------- empty, nothing ---------- *)

Lemma empty_step q l q' : ~ nstep empty q l q'.
Proof.
  unfold nstep, empty. cbn [states]. rewrite gstep_new_state. apply gstep_nil.
Qed.

Lemma empty_wf : wf empty.
Proof.
  unfold wf, size. cbn. repeat split; try lia.
  intros q l q' H. apply empty_step in H. contradiction.
Qed.

Lemma empty_lang s : accepts empty s <-> s = [].
Proof.
  unfold accepts. cbn [start stop empty]. split.
  - intros P. apply path_stuck in P; [tauto|]. intros l x. apply empty_step.
  - intros ->. apply path_refl.
Qed.

Lemma nothing_step q l q' : ~ nstep nothing q l q'.
Proof.
  unfold nstep, nothing. cbn [states]. rewrite !gstep_new_state. apply gstep_nil.
Qed.

Lemma nothing_wf : wf nothing.
Proof.
  unfold wf, size. cbn. repeat split; try lia.
  intros q l q' H. apply nothing_step in H. contradiction.
Qed.

Lemma nothing_lang s : ~ accepts nothing s.
Proof.
  unfold accepts. cbn [start stop nothing]. intros P.
  apply path_stuck in P; [destruct P; discriminate|]. intros l x. apply nothing_step.
Qed.

(* ---------- From<&str> ---------- *)

Lemma lit_states_length i bs : length (lit_states i bs) = S (length bs).
Proof. revert i; induction bs as [|b r IH]; intros i; cbn; auto. Qed.

Lemma lit_step i bs q l q' :
  gstep i (lit_states i bs) q l q' -> q' = S q /\ i <= q < i + length bs.
Proof.
  revert i; induction bs as [|b r IH]; intros i; cbn [lit_states].
  - rewrite gstep_new_state. intros H. apply gstep_nil in H. contradiction.
  - rewrite gstep_cons. intros [[-> H] | H].
    + destruct l as [c|]; cbn [edges eps] in H; [|contradiction].
      destruct H as [H|[]]. inversion H; subst. cbn. lia.
    + apply IH in H. cbn. lia.
Qed.

Lemma lit_path bs : forall i s,
  path (gstep i (lit_states i bs)) i s (i + length bs) <-> s = bs.
Proof.
  induction bs as [|b r IH]; intros i s; cbn [lit_states length].
  - rewrite Nat.add_0_r. split.
    + intros P. apply path_stuck in P; [tauto|].
      intros l x H. apply gstep_new_state, gstep_nil in H. exact H.
    + intros ->. apply path_refl.
  - split.
    + intros P.
      assert (Hfirst : forall l x, gstep i (mkst [(b, S i)] [] None :: lit_states (S i) r) i l x ->
                                   l = Some b /\ x = S i).
      { intros l x H. apply gstep_cons in H. destruct H as [[_ H] | H].
        - destruct l; cbn in H; [|contradiction]. destruct H as [H|[]]. inversion H; auto.
        - apply gstep_bound in H. lia. }
      assert (Htail : path (gstep i (mkst [(b, S i)] [] None :: lit_states (S i) r)) (S i)
                           (tl s) (S i + length r) -> tl s = r).
      { intros P1. apply IH with (i := S i).
        eapply (path_closed _ (gstep (S i) (lit_states (S i) r)) (fun q => S i <= q)); [|exact P1|lia].
        intros q l q' Hq H. apply gstep_cons in H. destruct H as [[-> _] | H]; [lia|].
        split; [exact H|]. apply lit_step in H. lia. }
      inversion P as [|? ? ? ? H1 P1|? c ? ? ? H1 P1]; subst.
      * lia.
      * apply Hfirst in H1. destruct H1; discriminate.
      * apply Hfirst in H1. destruct H1 as [Heq ->]. inversion Heq; subst c.
        f_equal. apply Htail. cbn [tl]. replace (S i + length r) with (i + S (length r)) by lia. exact P1.
    + intros ->. eapply path_sym.
      * apply gstep_cons. left. split; [reflexivity|]. cbn. auto.
      * replace (i + S (length r)) with (S i + length r) by lia.
        eapply path_mono; [|apply (IH (S i) r); reflexivity].
        intros q l q' H. apply gstep_cons. right. exact H.
Qed.

Lemma from_str_wf bs : wf (from_str bs).
Proof.
  unfold wf, size, from_str. cbn [start stop states]. rewrite lit_states_length.
  repeat split; try lia.
  intros q l q' H. apply lit_step in H. lia.
Qed.

Lemma from_str_lang bs s : accepts (from_str bs) s <-> s = bs.
Proof. unfold accepts, nstep, from_str. cbn [start stop states]. apply (lit_path bs 0 s). Qed.

(* ---------- tag_stop_state ---------- *)

Lemma tag_step t n q l q' : nstep (tag_stop_state t n) q l q' <-> nstep n q l q'.
Proof. unfold nstep, tag_stop_state. cbn [states]. apply gstep_set_tag. Qed.

Lemma tag_wf t n : wf n -> wf (tag_stop_state t n).
Proof.
  unfold wf, size, tag_stop_state. cbn [start stop states]. rewrite update_length.
  intros [H1 [H2 H3]]. repeat split; auto.
  intros q l q' H. apply (H3 q l q'). apply (tag_step t n). exact H.
Qed.

Lemma tag_lang t n s : accepts (tag_stop_state t n) s <-> accepts n s.
Proof.
  unfold accepts. cbn [start stop tag_stop_state].
  split; apply path_mono; intros q l q' H; apply (tag_step t n); exact H.
Qed.
