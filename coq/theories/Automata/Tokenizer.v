(* The incremental tokeniser of src/decoder.rs (MatcherDecoder), generic in the
   automaton, and its specification: leftmost-longest tokenisation ("munch").

   Code modelled (src/decoder.rs):
     MatcherDecoder { automata_state, buffer, rescheduled, item_candidate }   :191-206
     Decoder::decode  (drain `rescheduled`, then the input, stop at an item)  :212-234
     decode_byte                                                              :250-290
     take_candidate                                                           :293-300
     Decoder::decode_into (loop `while let Some(item) = self.decode(..)`)     :27-38

   Conventions.
   * The automaton is a Section variable: states `Q`, start `q0`, partial
     transition function `delta`, flags `accepting`, `terminal` (in the code:
     DFAStateInfo::is_accepting / is_terminal), and `decode_item q buf` = what
     the first tag of state `q` makes of the consumed bytes (`Some` = an item:
     MatcherTag::Item(ev) or matchers[i].decode(buf) = Some ..; `None` = the
     matcher rejected the bytes, the code then yields Err(buffer.clone())).
     No fact about the automaton is assumed anywhere: `terminal` need not mean
     "no outgoing edge", `delta` need not be finite.
   * `rescheduled` is a stack in the code (Vec, next byte to re-parse LAST);
     `sres` is the same sequence listed next-byte-FIRST, i.e. the reverse of the
     Rust vector.  `rescheduled.extend(buffer.drain(size..).rev())` therefore
     reads `skipn size buf ++ sres`, and `rescheduled.push(b)` reads `b :: sres`.
   * Tokens carry the bytes they were made from (`span`).  For items this is
     ghost information (the code returns only the item); it is what lets the
     theorems say "no byte lost, duplicated or reordered".
   * The reader handed to `decode` is modelled as the list of bytes it still
     holds: `fill_buf` exposes all of them (Cursor / &[u8], as at every call
     site of the crate).  A reader exposing less per `fill_buf` is a finer
     partition of the stream into reads. *)
From Coq Require Import List NArith Arith Bool.
From SNT Require Import Base.Outcome.
Import ListNotations.

Section Tok.
  Variables Q Item : Type.
  Variable q0 : Q.
  Variable delta : Q -> N -> option Q.
  Variables accepting terminal : Q -> bool.
  Variable decode_item : Q -> list N -> option Item.

  Inductive tok : Type :=
  | TItem (i : Item) (span : list N)
  | TRaw (span : list N).

  Definition span (t : tok) : list N :=
    match t with TItem _ s => s | TRaw s => s end.

  (* the event computed in an accepting state, decoder.rs:264-269 *)
  Definition mk_tok (q : Q) (buf : list N) : tok :=
    match decode_item q buf with
    | Some i => TItem i buf
    | None => TRaw buf
    end.

  Record st : Type := mkst {
    sq : Q;                        (* automata_state *)
    sbuf : list N;                 (* buffer: bytes consumed since the automaton was reset *)
    sres : list N;                 (* rescheduled, next byte first *)
    scand : option (tok * nat)     (* item_candidate: (event, buffer length when it was found) *)
  }.

  Definition init : st := mkst q0 [] [] None.

  (* decoder.rs:293-300 *)
  Definition take_candidate (s : st) : option (tok * st) :=
    match scand s with
    | None => None
    | Some (t, n) => Some (t, mkst q0 [] (skipn n (sbuf s) ++ sres s) None)
    end.

  (* decoder.rs:250-290 *)
  Definition decode_byte (s : st) (b : N) : st * option tok :=
    let buf' := sbuf s ++ [b] in
    match delta (sq s) b with
    | Some q' =>
        if accepting q' then
          let s1 := mkst q' buf' (sres s) (Some (mk_tok q' buf', length buf')) in
          if terminal q' then
            match take_candidate s1 with
            | Some (t, s2) => (s2, Some t)
            | None => (s1, None)
            end
          else (s1, None)
        else (mkst q' buf' (sres s) (scand s), None)
    | None =>
        let s1 := mkst (sq s) buf' (sres s) (scand s) in
        match take_candidate s1 with
        | Some (t, s2) => (s2, Some t)
        | None =>
            if (1 <? length buf')%nat
            then (mkst q0 [] (b :: sres s) None, Some (TRaw (sbuf s)))
            else (mkst q0 [] (sres s) None, Some (TRaw buf'))
        end
    end.

  Definition set_res (s : st) (r : list N) : st := mkst (sq s) (sbuf s) r (scand s).

  (* decoder.rs:214-219: `while let Some(byte) = self.rescheduled.pop()` *)
  Fixpoint drain (fuel : nat) (s : st) : outcome (st * option tok) :=
    match fuel with
    | O => OutOfFuel
    | S fuel' =>
        match sres s with
        | [] => Ok (s, None)
        | b :: r =>
            let '(s', o) := decode_byte (set_res s r) b in
            match o with
            | Some t => Ok (s', Some t)
            | None => drain fuel' s'
            end
        end
    end.

  (* decoder.rs:222-231: the `for` loop over the reader's bytes; returns what the reader still holds *)
  Fixpoint scan_input (s : st) (input : list N) : st * option tok * list N :=
    match input with
    | [] => (s, None, [])
    | b :: r =>
        let '(s', o) := decode_byte s b in
        match o with
        | Some t => (s', Some t, r)
        | None => scan_input s' r
        end
    end.

  (* Decoder::decode, one call.  The inner loop's fuel is explicit; `drain_spec`
     (TokenizerRun.v) shows it is never exhausted. *)
  Definition decode (s : st) (input : list N) : outcome (st * option tok * list N) :=
    let* (s1, o) := drain (S (length (sres s))) s in
    match o with
    | Some t => Ok (s1, Some t, input)
    | None => Ok (scan_input s1 input)
    end.

  (* Decoder::decode_into: `while let Some(item) = self.decode(&mut buf)? { out.push(item) }` *)
  Fixpoint decode_into (fuel : nat) (s : st) (input : list N) : outcome (list tok * st * list N) :=
    match fuel with
    | O => OutOfFuel
    | S fuel' =>
        let* (s1, o, rest) := decode s input in
        match o with
        | None => Ok ([], s1, rest)
        | Some t =>
            let* (ts, s2, rest2) := decode_into fuel' s1 rest in
            Ok (t :: ts, s2, rest2)
        end
    end.

  (* one decode_into per read *)
  Fixpoint feed (fuel : nat) (s : st) (chunks : list (list N)) : outcome (list tok * st) :=
    match chunks with
    | [] => Ok ([], s)
    | c :: cs =>
        let* (t1, s1, _) := decode_into fuel s c in
        let* (t2, s2) := feed fuel s1 cs in
        Ok (t1 ++ t2, s2)
    end.

  (* enough fuel for any call on state s with `n` more input bytes (see fuel_enough) *)
  Definition fuel_for (s : st) (n : nat) : nat := length (sbuf s) + length (sres s) + n + 3.

  (* ------------------------------------------------------------------ *)
  (* Specification: leftmost-longest tokenisation of a whole stream.     *)

  Definition step (oq : option Q) (b : N) : option Q :=
    match oq with Some q => delta q b | None => None end.
  Definition run_from (q : Q) (w : list N) : option Q := fold_left step w (Some q).
  Definition run (w : list N) : option Q := run_from q0 w.

  (* properties of the prefix of length k of stream s *)
  Definition dead_at (s : list N) (k : nat) : bool :=
    match run (firstn k s) with None => true | Some _ => false end.
  Definition acc_at (s : list N) (k : nat) : bool :=
    match run (firstn k s) with Some q => accepting q | None => false end.
  Definition term_at (s : list N) (k : nat) : bool :=
    match run (firstn k s) with Some q => accepting q && terminal q | None => false end.
  (* no recognised sequence extends the prefix of length k - 1 by byte k, or the prefix is complete *)
  Definition stop_at (s : list N) (k : nat) : bool := dead_at s k || term_at s k.

  (* least k in 1..|s| with stop_at s k *)
  Definition first_stop (s : list N) : option nat :=
    find (stop_at s) (seq 1 (length s)).
  (* greatest k in 1..m with acc_at s k *)
  Definition longest_acc (s : list N) (m : nat) : option nat :=
    find (acc_at s) (rev (seq 1 m)).

  Definition tok_at (s : list N) (k : nat) : tok :=
    match run (firstn k s) with
    | Some q => mk_tok q (firstn k s)
    | None => TRaw (firstn k s)
    end.

  (* the first token of stream s and its length, or None when s is still undecided (pending) *)
  Definition munch1 (s : list N) : option (tok * nat) :=
    match first_stop s with
    | None => None
    | Some n =>
        let m := if dead_at s n then n - 1 else n in
        match longest_acc s m with
        | Some k => Some (tok_at s k, k)
        | None => let k := Nat.max 1 (n - 1) in Some (TRaw (firstn k s), k)
        end
    end.

  (* tokens and pending remainder; `fuel` bounds the number of tokens (length s suffices) *)
  Fixpoint munch_aux (fuel : nat) (s : list N) : list tok * list N :=
    match fuel with
    | O => ([], s)
    | S fuel' =>
        match munch1 s with
        | None => ([], s)
        | Some (t, k) =>
            let '(ts, p) := munch_aux fuel' (skipn k s) in (t :: ts, p)
        end
    end.
  Definition munch (s : list N) : list tok * list N := munch_aux (length s) s.

  (* the same as a relation, without fuel *)
  Inductive Munch : list N -> list tok -> list N -> Prop :=
  | Munch_pending s : munch1 s = None -> Munch s [] s
  | Munch_tok s t k ts p :
      munch1 s = Some (t, k) -> Munch (skipn k s) ts p -> Munch s (t :: ts) p.

  (* what a state must look like after consuming `sbuf` from a reset automaton *)
  Definition best (w : list N) : option (tok * nat) :=
    match longest_acc w (length w) with
    | Some k => Some (tok_at w k, k)
    | None => None
    end.
End Tok.

Arguments TItem {Item} i span.
Arguments TRaw {Item} span.
Arguments span {Item} t.
Arguments mkst {Q Item} sq sbuf sres scand.
Arguments sq {Q Item} s.
Arguments sbuf {Q Item} s.
Arguments sres {Q Item} s.
Arguments scand {Q Item} s.
Arguments set_res {Q Item} s r.
Arguments init {Q Item} q0.
Arguments fuel_for {Q Item} s n.
