(* The statements of C03 about the generic tokeniser, assembled from
   TokenizerRun.v (stream view, fuel, chunking) and TokenizerMunch.v
   (refinement to the leftmost-longest specification). *)
From Coq Require Import List NArith Arith Bool Lia.
From SNT Require Import Base.Outcome Automata.Tokenizer Automata.TokenizerRun Automata.TokenizerMunch.
Import ListNotations.

Section Thm.
  Variables Q Item : Type.
  Variable q0 : Q.
  Variable delta : Q -> N -> option Q.
  Variables accepting terminal : Q -> bool.
  Variable decode_item : Q -> list N -> option Item.

  Notation st := (st Q Item).
  Notation run := (run Q q0 delta).
  Notation munch := (munch Q Item q0 delta accepting terminal decode_item).
  Notation Munch := (Munch Q Item q0 delta accepting terminal decode_item).
  Notation best := (best Q Item q0 delta accepting decode_item).
  Notation decode_into := (decode_into Q Item q0 delta accepting terminal decode_item).
  Notation feed := (feed Q Item q0 delta accepting terminal decode_item).
  Notation Inv := (Inv Q Item q0 delta accepting terminal decode_item).

  (* a state between two reads that is consistent with the bytes it holds *)
  Definition quiescent (s : st) : Prop := sres s = [] /\ Inv s.

  Lemma quiescent_init : quiescent (init q0).
  Proof. split; [reflexivity|apply Inv_init]. Qed.

  (* decode_into = munch, from any consistent state *)
  Theorem decode_into_munch (s : st) input fuel :
    Inv s -> (fuel_for s (length input) <= fuel)%nat ->
    exists s',
      decode_into fuel s input = Ok (fst (munch (sbuf s ++ sres s ++ input)), s', []) /\
      sbuf s' = snd (munch (sbuf s ++ sres s ++ input)) /\
      quiescent s'.
  Proof.
    intros HI Hf.
    destruct (fuel_enough Q Item q0 delta accepting terminal decode_item s input fuel Hf)
      as (ts & s' & HD & Hs' & HR).
    destruct (Run_Munch Q Item q0 delta accepting terminal decode_item _ _ _ _ HR HI) as [HM HI'].
    cbn [sbuf set_res] in HM.
    rewrite (Munch_munch Q Item q0 delta accepting terminal decode_item _ _ _ HM). cbn [fst snd].
    exists s'. split; [exact HD|]. split; [reflexivity|]. split; assumption.
  Qed.

  (* the headline: any partition into reads yields the leftmost-longest tokenisation of the
     concatenation, and leaves the decoder in the state determined by the pending bytes *)
  Theorem feed_munch chunks fuel :
    (length (concat chunks) + 3 <= fuel)%nat ->
    exists s',
      feed fuel (init q0) chunks = Ok (fst (munch (concat chunks)), s') /\
      sbuf s' = snd (munch (concat chunks)) /\
      sres s' = [] /\ run (sbuf s') = Some (sq s') /\ scand s' = best (sbuf s').
  Proof.
    intros Hf.
    destruct (chunking Q Item q0 delta accepting terminal decode_item chunks (init q0) fuel eq_refl)
      as (ts & s' & HF & HD); [cbn; lia|].
    destruct (decode_into_munch (init q0) (concat chunks) fuel (Inv_init _ _ _ _ _ _ _)) as (s2 & HD2 & Hb & Hq);
      [cbn; lia|].
    cbn [sbuf sres init app] in HD2, Hb. rewrite HD in HD2. inversion HD2; subst.
    exists s2. split; [exact HF|]. split; [exact Hb|].
    destruct Hq as (Hr & Hrun & _ & Hc). repeat split; assumption.
  Qed.

  Theorem feed_munch_inv chunks fuel :
    (length (concat chunks) + 3 <= fuel)%nat ->
    exists s',
      feed fuel (init q0) chunks = Ok (fst (munch (concat chunks)), s') /\ quiescent s'.
  Proof.
    intros Hf.
    destruct (chunking Q Item q0 delta accepting terminal decode_item chunks (init q0) fuel eq_refl)
      as (ts & s' & HF & HD); [cbn; lia|].
    destruct (decode_into_munch (init q0) (concat chunks) fuel (Inv_init _ _ _ _ _ _ _)) as (s2 & HD2 & Hb & Hq);
      [cbn; lia|].
    cbn [sbuf sres init app] in HD2, Hb. rewrite HD in HD2. inversion HD2; subst.
    exists s2. split; [exact HF|exact Hq].
  Qed.

  (* the state after a run is a function of the pending bytes alone *)
  Theorem quiescent_determined (s1 s2 : st) :
    quiescent s1 -> quiescent s2 -> sbuf s1 = sbuf s2 -> s1 = s2.
  Proof.
    intros (R1 & H1 & _ & C1) (R2 & H2 & _ & C2) E.
    destruct s1 as [q1 b1 r1 c1], s2 as [q2 b2 r2 c2]. cbn [sq sbuf sres scand] in *. subst.
    rewrite H1 in H2. inversion H2. reflexivity.
  Qed.
End Thm.
