(* Correctness of NFA::compile and of DFA stepping: after any byte string the
   DFA is in the state whose subset is exactly the set of NFA states reachable
   by that string (dead exactly when the set is empty); accepting, tags and
   terminal are those of the subset. *)
From Coq Require Import List NArith Bool Arith Lia.
From SNT Require Import Base.Outcome Automata.Regex Automata.NFA Automata.Compile
  Automata.PathLemmas Automata.BuildLeaves Automata.CompileSpec Automata.CompileInv.
Import ListNotations.

(* ---------- the dense table ---------- *)

Lemma all_bytes_length : length all_bytes = 256.
Proof. unfold all_bytes. rewrite map_length, seq_length. reflexivity. Qed.

Lemma all_bytes_nth c : c < 256 -> nth_error all_bytes c = Some (N.of_nat c).
Proof.
  intros H. unfold all_bytes. rewrite nth_error_map.
  rewrite (nth_error_nth' (seq 0 256) 0) by (rewrite seq_length; exact H).
  rewrite seq_nth by exact H. reflexivity.
Qed.

Lemma Ok_inj {A} (a b : A) : Ok a = Ok b -> a = b.
Proof. intros H. injection H. auto. Qed.

Opaque all_bytes.

Lemma table_rows_spec tb : forall m a rows,
  table_rows tb (seq a m) = Ok rows ->
  length rows = 256 * m /\
  forall k c, k < m -> c < 256 ->
    exists es, id_get (a + k) tb = Some es /\
               nth_error rows (256 * k + c) = Some (edge_get (N.of_nat c) es).
Proof.
  induction m as [|m IH]; intros a rows E.
  - cbn in E. inversion E; subst. split; [reflexivity|]. intros k c Hk. lia.
  - change (seq a (S m)) with (a :: seq (S a) m) in E. cbn [table_rows] in E.
    destruct (id_get a tb) as [es|] eqn:Eg; [|discriminate].
    destruct (table_rows tb (seq (S a) m)) as [rest| | |] eqn:Er; cbn [bind] in E; try discriminate.
    apply Ok_inj in E. subst rows.
    destruct (IH (S a) rest Er) as [IH1 IH2].
    assert (Hrow : length (map (fun c => edge_get c es) all_bytes) = 256)
      by (rewrite map_length; apply all_bytes_length).
    split; [rewrite app_length, Hrow, IH1; lia|].
    intros k c Hk Hc. destruct k as [|k].
    + exists es. rewrite Nat.add_0_r. split; [exact Eg|].
      replace (256 * 0 + c) with c by lia.
      rewrite nth_error_app1 by (rewrite Hrow; exact Hc).
      rewrite nth_error_map, all_bytes_nth by exact Hc. reflexivity.
    + destruct (IH2 k c) as [es' [G1 G2]]; [lia|exact Hc|].
      exists es'. split; [replace (a + S k) with (S a + k) by lia; exact G1|].
      rewrite nth_error_app2 by (rewrite Hrow; lia).
      rewrite Hrow. replace (256 * S k + c - 256) with (256 * k + c) by lia. exact G2.
Qed.

(* ---------- infos ---------- *)

Lemma tags_of_In n qs t :
  In t (tags_of n qs) <-> exists q, In q qs /\ has_tag n q t.
Proof.
  unfold tags_of, has_tag.
  assert (G : forall l acc,
    In t (fold_left (fun acc q => match nth_error (states n) q with
                                  | Some st => match tag st with Some t => nins t acc | None => acc end
                                  | None => acc end) l acc) <->
    In t acc \/ exists q, In q l /\ exists st, nth_error (states n) q = Some st /\ tag st = Some t).
  { induction l as [|q r IH]; intros acc; cbn [fold_left].
    - split; [auto|intros [H | [q [[] _]]]; exact H].
    - rewrite IH. cbn [In]. split.
      + intros [H | [q' [Hin H]]].
        * destruct (nth_error (states n) q) as [st|] eqn:Hn; [|auto].
          destruct (tag st) as [t0|] eqn:Ht; [|auto].
          apply nins_In in H. destruct H as [-> | H]; [|auto].
          right. exists q. split; [auto|]. exists st. auto.
        * right. exists q'. auto.
      + intros [H | [q' [[<- | Hin] [st [Hn Ht]]]]].
        * left. destruct (nth_error (states n) q) as [st|]; [|exact H].
          destruct (tag st); [apply nins_In; auto|exact H].
        * left. rewrite Hn, Ht. apply nins_In. auto.
        * right. exists q'. split; [exact Hin|]. exists st. auto. }
  rewrite G. cbn [In]. tauto.
Qed.

Lemma info_loop_spec n tb : forall l infos infos',
  info_loop n tb l infos = Ok infos' -> NoDup (map snd l) ->
  length infos' = length infos /\
  (forall qs id, In (qs, id) l ->
     exists es, id_get id tb = Some es /\
       nth_error infos' id = Some (mkinfo (set_mem (stop n) qs) (is_nil es) (tags_of n qs))) /\
  (forall id, ~ In id (map snd l) -> nth_error infos' id = nth_error infos id).
Proof.
  induction l as [|[qs id] r IH]; intros infos infos' E ND; cbn [info_loop] in E.
  - inversion E; subst. repeat split; auto. intros qs id [].
  - destruct (id <? length infos) eqn:Elt; [|discriminate]. apply Nat.ltb_lt in Elt.
    destruct (id_get id tb) as [es|] eqn:Eg; [|discriminate].
    cbn [map snd] in ND. inversion ND as [|? ? Hnot ND']; subst.
    destruct (IH _ _ E ND') as [H1 [H2 H3]]. rewrite update_length in H1.
    split; [exact H1|]. split.
    + intros qs1 id1 [Heq | Hin].
      * inversion Heq; subst qs1 id1. exists es. split; [exact Eg|].
        rewrite (H3 id Hnot), nth_error_update, Nat.eqb_refl.
        destruct (nth_error infos id) as [x|] eqn:Hn; [reflexivity|].
        apply nth_error_None in Hn. lia.
      * apply (H2 qs1 id1 Hin).
    + intros id1 Hnot1. cbn [map snd In] in Hnot1.
      rewrite H3 by tauto. rewrite nth_error_update.
      destruct (Nat.eqb id id1) eqn:Eid; [|reflexivity].
      apply Nat.eqb_eq in Eid. tauto.
Qed.

(* ---------- running the DFA ---------- *)

Section Run.
  Variables (n : nfa) (ds : dstates) (tb : dtab) (d : dfa).
  Hypothesis I : inv n ds tb [].
  Hypothesis Hlang : lang_size d = 256.
  Hypothesis Hrows : forall k c, k < length ds -> c < 256 ->
    exists es, id_get k tb = Some es /\
               nth_error (dtable d) (256 * k + c) = Some (edge_get (N.of_nat c) es).

  Lemma row_of k qs : In (qs, k) ds ->
    exists es, id_get k tb = Some es /\ row_ok n ds qs es.
  Proof.
    intros Hin. destruct (inv_cover _ _ _ _ I _ _ Hin) as [[qs' []] | [es Hg]].
    exists es. split; [exact Hg|].
    destruct (inv_rows _ _ _ _ I _ _ Hg) as [qs1 [Hin1 Hrow]].
    rewrite (dense_inj ds qs qs1 k (inv_dense _ _ _ _ I) Hin Hin1). exact Hrow.
  Qed.

  Lemma trans_ok k qs c : In (qs, k) ds -> (c < 256)%N ->
    exists es, id_get k tb = Some es /\ row_ok n ds qs es /\ transition d k c = Ok (edge_get c es).
  Proof.
    intros Hin Hc. destruct (row_of k qs Hin) as [es [Hg Hrow]].
    exists es. split; [exact Hg|]. split; [exact Hrow|].
    destruct (Hrows k (N.to_nat c)) as [es' [Hg' Hn]].
    - eapply dense_lt; [apply (inv_dense _ _ _ _ I)|exact Hin].
    - lia.
    - unfold transition. rewrite (proj2 (N.ltb_lt c 256) Hc), Hlang, Hn, N2Nat.id. congruence.
  Qed.

  (* no move on c from the subset of s0: nothing is reachable by s0 c w *)
  Lemma no_move_dead qs s0 c w z :
    (forall x, In x qs <-> RS n s0 x) -> (forall q1, ~ move n qs c q1) -> ~ RS n (s0 ++ c :: w) z.
  Proof.
    intros Hqs Hno P. unfold RS in P. apply path_split in P. destruct P as [m [P1 P2]].
    apply path_cons_inv in P2. destruct P2 as [q [q1 [P2 [H _]]]].
    apply (Hno q1). exists q. split; [|exact H]. apply Hqs. unfold RS.
    rewrite <- (app_nil_r s0). eapply path_app; eauto.
  Qed.

  Lemma step_set_RS qs s0 c qs' :
    (forall x, In x qs <-> RS n s0 x) -> (forall z, In z qs' <-> step_set n qs c z) ->
    forall z, In z qs' <-> RS n (s0 ++ [c]) z.
  Proof.
    intros Hqs Hstep z. rewrite Hstep, RS_snoc. unfold step_set, move. split.
    - intros [q1 [[q [Hq H]] P]]. exists q, q1. split; [apply Hqs; exact Hq|auto].
    - intros [q [q1 [Hq [H P]]]]. exists q1. split; [|exact P]. exists q. split; [apply Hqs; exact Hq|exact H].
  Qed.

  Lemma run_ok : forall s k qs s0,
    In (qs, k) ds -> (forall z, In z qs <-> RS n s0 z) -> (exists z, In z qs) ->
    (forall c, In c s -> (c < 256)%N) ->
    exists r, transition_many d k s = Ok r /\
      match r with
      | None => forall z, ~ RS n (s0 ++ s) z
      | Some k' => exists qs', In (qs', k') ds /\ (forall z, In z qs' <-> RS n (s0 ++ s) z) /\
                               (exists z, In z qs')
      end.
  Proof.
    induction s as [|c s IH]; intros k qs s0 Hin Hqs Hne Hb.
    - exists (Some k). split; [reflexivity|]. exists qs. rewrite app_nil_r. auto.
    - destruct (trans_ok k qs c Hin) as [es [Hg [Hrow Ht]]]; [apply Hb; left; reflexivity|].
      cbn [transition_many]. rewrite Ht. cbn [bind]. specialize (Hrow c).
      destruct (edge_get c es) as [k'|].
      + destruct Hrow as [qs' [Hin' [Hstep Hne']]].
        destruct (IH k' qs' (s0 ++ [c]) Hin') as [r [Hr Hm]].
        * apply (step_set_RS qs s0 c qs' Hqs Hstep).
        * exact Hne'.
        * intros c' Hc'. apply Hb. right. exact Hc'.
        * exists r. split; [exact Hr|]. rewrite <- app_assoc in Hm. exact Hm.
      + exists None. split; [reflexivity|]. intros z. apply (no_move_dead qs s0 c s z Hqs Hrow).
  Qed.
End Run.

(* ---------- compile ---------- *)

Definition bytes (s : list N) : Prop := forall c, In c s -> (c < 256)%N.

(* what is known about the result of compile_aux *)
Lemma compile_aux_inv fuel cf n ds tb d :
  keys_ok n -> compile_aux fuel cf n = Ok (ds, tb, d) ->
  inv n ds tb [] /\ lang_size d = 256 /\ dstart d = 0 /\
  (exists s0, In (s0, 0) ds /\ forall z, In z s0 <-> RS n [] z) /\
  (forall k c, k < length ds -> c < 256 ->
     exists es, id_get k tb = Some es /\
                nth_error (dtable d) (256 * k + c) = Some (edge_get (N.of_nat c) es)) /\
  (forall qs k, In (qs, k) ds ->
     exists es, id_get k tb = Some es /\
       info d k = Ok (mkinfo (set_mem (stop n) qs) (is_nil es) (tags_of n qs))).
Proof.
  intros K E. unfold compile_aux in E.
  destruct (epsilon_closure cf n [start n]) as [s0| | |] eqn:E0; cbn [bind] in E; try discriminate.
  destruct (main_loop fuel cf n [(s0, 0)] [] [(0, s0)]) as [[ds1 tb1]| | |] eqn:E1; cbn [bind] in E;
    try discriminate.
  destruct (info_loop n tb1 ds1 (repeat default_info (length ds1))) as [infos| | |] eqn:E2;
    cbn [bind] in E; try discriminate.
  destruct (table_rows tb1 (seq 0 (length tb1))) as [rows| | |] eqn:E3; cbn [bind] in E;
    try discriminate.
  inversion E; subst ds1 tb1 d. clear E.
  apply (main_loop_spec cf n K) in E1.
  2:{ constructor.
      - reflexivity.
      - intros id qs [H | []]. inversion H; subst. left. reflexivity.
      - intros qs id [H | []]. inversion H; subst. left. eexists. left. reflexivity.
      - intros id es H. discriminate.
      - reflexivity. }
  destruct E1 as [I [new Hnew]].
  pose proof (inv_count _ _ _ _ I) as Hc. cbn [length] in Hc. rewrite Nat.add_0_r in Hc.
  split; [exact I|]. split; [reflexivity|]. split; [reflexivity|]. split; [|split].
  - exists s0. split; [rewrite Hnew; apply in_or_app; right; left; reflexivity|].
    intros z. rewrite (epsilon_closure_spec cf n _ _ E0 z). unfold eclosure, RS, ereach. split.
    + intros [x [[<- | []] P]]. exact P.
    + intros P. exists (start n). split; [left; reflexivity|exact P].
  - cbn [dtable]. rewrite Hc in E3. destruct (table_rows_spec tb _ _ _ E3) as [_ H].
    intros k c Hk Hcc. destruct (H k c Hk Hcc) as [es [G1 G2]]. exists es. auto.
  - intros qs k Hin. apply info_loop_spec in E2.
    + destruct E2 as [_ [H2 _]]. destruct (H2 qs k Hin) as [es [G1 G2]].
      exists es. split; [exact G1|]. unfold info. cbn [dinfos]. rewrite G2. reflexivity.
    + rewrite (inv_dense _ _ _ _ I). apply rev_seq_NoDup.
Qed.

Theorem compile_correct fuel cf n d :
  keys_ok n -> compile fuel cf n = Ok d ->
  forall s, bytes s ->
    exists r, transition_many d (dstart d) s = Ok r /\
      match r with
      | None => forall z, ~ RS n s z
      | Some k =>
          exists i, info d k = Ok i /\
            (exists z, RS n s z) /\
            (accepting i = true <-> RS n s (stop n)) /\
            (forall t, In t (dtags i) <-> exists q, RS n s q /\ has_tag n q t) /\
            (terminal i = true ->
               (forall c, (c < 256)%N -> transition d k c = Ok None) /\
               (forall c w z, ~ RS n (s ++ c :: w) z))
      end.
Proof.
  intros K E s Hb. unfold compile in E.
  destruct (compile_aux fuel cf n) as [[[ds tb] d']| | |] eqn:Ea; cbn [bind snd] in E; try discriminate.
  inversion E; subst d'. clear E.
  destruct (compile_aux_inv _ _ _ _ _ _ K Ea) as [I [Hl [Hs [[s0 [Hin0 Hs0]] [Hrows Hinfo]]]]].
  rewrite Hs.
  destruct (run_ok n ds tb d I Hl Hrows s 0 s0 [] Hin0 Hs0) as [r [Hr Hm]].
  - exists (start n). apply Hs0. apply path_refl.
  - exact Hb.
  - exists r. split; [exact Hr|]. cbn [app] in Hm. destruct r as [k|]; [|exact Hm].
    destruct Hm as [qs [Hin [Hqs Hne]]].
    destruct (Hinfo qs k Hin) as [es [Hg Hi]].
    eexists. split; [exact Hi|]. cbn [accepting terminal dtags].
    split; [destruct Hne as [z Hz]; exists z; apply Hqs; exact Hz|].
    split; [rewrite set_mem_In; apply Hqs|]. split.
    + intros t. rewrite tags_of_In. split.
      * intros [q [Hq Ht]]. exists q. split; [apply Hqs; exact Hq|exact Ht].
      * intros [q [Hq Ht]]. exists q. split; [apply Hqs; exact Hq|exact Ht].
    + intros Hterm. destruct es as [|e es']; [|discriminate].
      assert (Hnomove : forall c q1, ~ move n qs c q1).
      { intros c q1. destruct (row_of n ds tb I k qs Hin) as [es2 [Hg2 Hrow]].
        rewrite Hg in Hg2. inversion Hg2; subst es2. apply (Hrow c). }
      split.
      * intros c Hc. destruct (trans_ok n ds tb d I Hl Hrows k qs c Hin Hc) as [es2 [Hg2 [_ Ht]]].
        rewrite Hg in Hg2. inversion Hg2; subst es2. exact Ht.
      * intros c w z. apply (no_move_dead n qs s c w z Hqs). apply Hnomove.
Qed.

(* acceptance *)
Corollary compile_matches fuel cf n d :
  keys_ok n -> compile fuel cf n = Ok d ->
  forall s, bytes s -> exists b, dfa_matches d s = Ok b /\ (b = true <-> accepts n s).
Proof.
  intros K E s Hb. destruct (compile_correct fuel cf n d K E s Hb) as [r [Hr Hm]].
  unfold dfa_matches. rewrite Hr. cbn [bind]. destruct r as [k|].
  - destruct Hm as [i [Hi [_ [Hacc _]]]]. rewrite Hi. cbn [bind].
    exists (accepting i). split; [reflexivity|exact Hacc].
  - exists false. split; [reflexivity|]. split; [discriminate|].
    intros P. exfalso. apply (Hm (stop n)). exact P.
Qed.
