(* Explicit DFAs as data: what `verif::dump_dfa` / `verif::Tokenizer::dump`
   print (src/decoder.rs, feature verif-hooks), in a form that is cheap to
   evaluate under vm_compute.

   A state is its index (N).  The outgoing edges of a state are a list of
   byte intervals (lo, hi, target), lo <= hi, in increasing order (the
   translator merges runs of consecutive symbols with the same target).
   Per state: is_accepting, is_terminal and the tag list in the order of the
   code's BTreeSet<MatcherTag<T>> (MatcherTag::Item(_) < MatcherTag::Matcher(_)):
     (true,  k)  the k-th distinct literal item of the dump (MatcherTag::Item)
     (false, i)  MatcherTag::Matcher(i)
   The tokeniser uses the FIRST tag of an accepting state (decoder.rs:257-261). *)
From Coq Require Import List NArith PArith FMapPositive Bool.
Import ListNotations.
Local Open Scope N_scope.

Definition row := list (N * N * N).
Definition tag := (bool * N)%type.
Definition info := (bool * bool * list tag)%type.

Record dfa_data := mk_dfa_data {
  dd_start : N;
  dd_rows : list row;
  dd_infos : list info
}.

Fixpoint row_find (r : row) (b : N) : option N :=
  match r with
  | [] => None
  | (lo, hi, t) :: r' => if (lo <=? b) && (b <=? hi) then Some t else row_find r' b
  end.

Record dfa := mk_dfa {
  d_start : N;
  d_size : N;
  d_rows : PositiveMap.t row;
  d_infos : PositiveMap.t info
}.

Fixpoint index_from {A} (i : N) (l : list A) (m : PositiveMap.t A) : PositiveMap.t A :=
  match l with
  | [] => m
  | a :: l' => index_from (i + 1) l' (PositiveMap.add (N.succ_pos i) a m)
  end.

Definition compile (d : dfa_data) : dfa :=
  mk_dfa (dd_start d) (N.of_nat (length (dd_rows d)))
         (index_from 0 (dd_rows d) (PositiveMap.empty row))
         (index_from 0 (dd_infos d) (PositiveMap.empty info)).

Definition d_delta (d : dfa) (q b : N) : option N :=
  match PositiveMap.find (N.succ_pos q) (d_rows d) with
  | Some r => row_find r b
  | None => None
  end.

Definition d_info (d : dfa) (q : N) : info :=
  match PositiveMap.find (N.succ_pos q) (d_infos d) with
  | Some i => i
  | None => (false, false, [])
  end.

Definition d_accepting (d : dfa) (q : N) : bool := fst (fst (d_info d q)).
Definition d_terminal (d : dfa) (q : N) : bool := snd (fst (d_info d q)).
Definition d_tags (d : dfa) (q : N) : list tag := snd (d_info d q).
Definition d_tag (d : dfa) (q : N) : option tag :=
  match d_tags d q with [] => None | t :: _ => Some t end.

(* sanity of a dump, used by the correspondence files: every target is a state, intervals are
   ordered, bytes below 256, infos and rows have the same length, start is a state *)
Fixpoint row_ok (size : N) (prev : option N) (r : row) : bool :=
  match r with
  | [] => true
  | (lo, hi, t) :: r' =>
      (lo <=? hi) && (hi <? 256) && (t <? size)
      && match prev with None => true | Some p => p <? lo end
      && row_ok size (Some hi) r'
  end.

Definition data_ok (d : dfa_data) : bool :=
  let size := N.of_nat (length (dd_rows d)) in
  (dd_start d <? size)
  && Nat.eqb (length (dd_rows d)) (length (dd_infos d))
  && forallb (row_ok size None) (dd_rows d).

(* `is_terminal` really means "no outgoing edge": checked over the whole table *)
Definition terminal_ok (d : dfa) : bool :=
  forallb
    (fun ki : positive * info =>
       negb (snd (fst (snd ki)))
       || match PositiveMap.find (fst ki) (d_rows d) with
          | Some [] | None => true
          | Some (_ :: _) => false
          end)
    (PositiveMap.elements (d_infos d)).

(* every accepting state carries at least one tag (decoder.rs:257-261 `expect`s one) *)
Definition tagged_ok (d : dfa) : bool :=
  forallb
    (fun ki : positive * info =>
       negb (fst (fst (snd ki))) || match snd (snd ki) with [] => false | _ :: _ => true end)
    (PositiveMap.elements (d_infos d)).
