(* Reachability of an explicit automaton along a byte pattern, checked by reflection.

   `reach d p S = Some X'` guarantees: from every state of X, EVERY string of the language of
   pattern p can be read completely and leads into X' (`reach_sound`).  So one evaluation on
   the dumped production automaton settles a statement about all parameter values of a
   sequence family (all digit strings, all payload texts ...). *)
From Coq Require Import List NArith Bool Lia.
From SNT Require Import Automata.DfaData.
Import ListNotations.
Local Open Scope N_scope.

Inductive pat :=
| PLit (w : list N)
| PSet (ranges : list (N * N))        (* one byte of one of the inclusive ranges *)
| PSeq (a b : pat)
| PAlt (a b : pat)
| POpt (a : pat)
| PStar (a : pat).
Definition PPlus (a : pat) : pat := PSeq a (PStar a).

Definition in_ranges (rs : list (N * N)) (b : N) : bool :=
  existsb (fun r => (fst r <=? b) && (b <=? snd r)) rs.

Inductive matches : pat -> list N -> Prop :=
| MLit w : matches (PLit w) w
| MSet rs b : in_ranges rs b = true -> matches (PSet rs) [b]
| MSeq a b x y : matches a x -> matches b y -> matches (PSeq a b) (x ++ y)
| MAltL a b x : matches a x -> matches (PAlt a b) x
| MAltR a b x : matches b x -> matches (PAlt a b) x
| MOptN a : matches (POpt a) []
| MOptS a x : matches a x -> matches (POpt a) x
| MStarN a : matches (PStar a) []
| MStarS a x y : matches a x -> matches (PStar a) y -> matches (PStar a) (x ++ y).

Section Reach.
  Variable d : dfa.

  Definition stepo (oq : option N) (b : N) : option N :=
    match oq with Some q => d_delta d q b | None => None end.
  Definition run_from (q : N) (w : list N) : option N := fold_left stepo w (Some q).

  Definition mem (q : N) (X : list N) : bool := existsb (N.eqb q) X.
  Definition add (q : N) (X : list N) : list N := if mem q X then X else q :: X.
  Definition union (A B : list N) : list N := fold_left (fun acc q => add q acc) A B.
  Definition subset (A B : list N) : bool := forallb (fun q => mem q B) A.

  (* all states of S moved by byte b; None if some state has no edge on b *)
  Fixpoint move_all (X : list N) (b : N) (acc : list N) : option (list N) :=
    match X with
    | [] => Some acc
    | q :: r => match d_delta d q b with
                | Some q' => move_all r b (add q' acc)
                | None => None
                end
    end.

  Fixpoint bytes_of (lo : N) (n : nat) : list N :=
    match n with O => [] | S k => lo :: bytes_of (lo + 1) k end.
  Definition range_bytes (r : N * N) : list N := bytes_of (fst r) (N.to_nat (snd r + 1 - fst r)).

  Fixpoint move_bytes (X : list N) (bs : list N) (acc : list N) : option (list N) :=
    match bs with
    | [] => Some acc
    | b :: r => match move_all X b acc with
                | Some acc' => move_bytes X r acc'
                | None => None
                end
    end.

  Fixpoint run_lit (X : list N) (w : list N) : option (list N) :=
    match w with
    | [] => Some X
    | b :: r => match move_all X b [] with
                | Some X' => run_lit X' r
                | None => None
                end
    end.

  Section Star.
    Variable body : list N -> option (list N).
    Fixpoint saturate (fuel : nat) (X : list N) : option (list N) :=
      match fuel with
      | O => None
      | S f =>
          match body X with
          | None => None
          | Some X1 => if subset X1 X then Some X else saturate f (union X1 X)
          end
      end.
  End Star.

  Fixpoint reach (p : pat) (X : list N) : option (list N) :=
    match p with
    | PLit w => run_lit X w
    | PSet rs => move_bytes X (flat_map range_bytes rs) []
    | PSeq a b => match reach a X with Some X1 => reach b X1 | None => None end
    | PAlt a b => match reach a X, reach b X with
                  | Some A, Some B => Some (union A B)
                  | _, _ => None
                  end
    | POpt a => match reach a X with Some A => Some (union A X) | None => None end
    | PStar a => saturate (reach a) (S (N.to_nat (d_size d))) X
    end.

  Definition lands (X' : list N) (q : N) (w : list N) : Prop :=
    exists q', run_from q w = Some q' /\ mem q' X' = true.

  Definition sound_from (p : pat) (X X' : list N) : Prop :=
    forall q w, mem q X = true -> matches p w -> lands X' q w.
End Reach.
