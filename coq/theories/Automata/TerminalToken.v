(* A string that leads the automaton to an accepting TERMINAL state is tokenised as one item,
   whatever follows it ("self-delimiting").  Generic in the automaton; the only structural
   hypothesis is that a terminal state has no outgoing edge (DfaData.terminal_ok). *)
From Coq Require Import List NArith Arith Bool Lia.
From SNT Require Import Base.Outcome Automata.Tokenizer Automata.TokenizerRun Automata.TokenizerMunch.
Import ListNotations.

Section TT.
  Variables Q Item : Type.
  Variable q0 : Q.
  Variable delta : Q -> N -> option Q.
  Variables accepting terminal : Q -> bool.
  Variable decode_item : Q -> list N -> option Item.
  Hypothesis term_dead : forall q b, terminal q = true -> delta q b = None.

  Notation run := (run Q q0 delta).
  Notation step := (step Q delta).
  Notation munch1 := (munch1 Q Item q0 delta accepting terminal decode_item).
  Notation munch := (munch Q Item q0 delta accepting terminal decode_item).
  Notation mk_tok := (mk_tok Q Item decode_item).

  Lemma run_app_some x y q : run (x ++ y) = Some q -> exists p, run x = Some p.
  Proof.
    intros H. destruct (run x) as [p|] eqn:E; [eexists; reflexivity|].
    rewrite (run_app_none Q q0 delta x y E) in H. discriminate.
  Qed.

  Lemma firstn_lt_split {A} (w : list A) k :
    (k < length w)%nat -> exists b rest, w = firstn k w ++ b :: rest.
  Proof.
    intros Hk. destruct (skipn k w) as [|b rest] eqn:E.
    - exfalso. assert (H : length (skipn k w) = 0%nat) by (rewrite E; reflexivity). rewrite skipn_length in H. lia.
    - exists b, rest. rewrite <- E. symmetry. apply firstn_skipn.
  Qed.

  Lemma munch1_terminal w q :
    w <> [] -> run w = Some q -> accepting q = true -> terminal q = true ->
    munch1 w = Some (mk_tok q w, length w).
  Proof.
    intros Hne Hrun Hacc Hterm.
    assert (Hlen : (1 <= length w)%nat) by (destruct w; [contradiction| cbn; lia]).
    assert (Hfull : firstn (length w) w = w) by apply firstn_all.
    assert (Hprefix : forall k, (1 <= k < length w)%nat ->
                       stop_at Q q0 delta accepting terminal w k = false).
    { intros k Hk. destruct (firstn_lt_split w k ltac:(lia)) as (b & rest & Hw).
      unfold stop_at, dead_at, term_at.
      assert (Hr : run (firstn k w ++ [b]) <> None).
      { intros Hn. rewrite Hw in Hrun. change (b :: rest) with ([b] ++ rest) in Hrun.
        rewrite app_assoc in Hrun. rewrite (run_app_none Q q0 delta _ rest Hn) in Hrun. discriminate. }
      rewrite (run_snoc Q q0 delta) in Hr.
      destruct (run (firstn k w)) as [p|]; [|exfalso; apply Hr; reflexivity].
      cbn [orb]. destruct (accepting p && terminal p) eqn:E; [|reflexivity].
      apply andb_true_iff in E. destruct E as [_ Et]. exfalso. apply Hr. cbn. apply term_dead, Et. }
    assert (Hstop : first_stop Q q0 delta accepting terminal w = Some (length w)).
    { apply (first_stop_some Q q0 delta accepting terminal). split; [lia|]. split; [|exact Hprefix].
      unfold stop_at, term_at. rewrite Hfull, Hrun, Hacc, Hterm. apply orb_true_r. }
    unfold Tokenizer.munch1. rewrite Hstop.
    assert (Hdead : dead_at Q q0 delta w (length w) = false) by (unfold dead_at; rewrite Hfull, Hrun; reflexivity).
    rewrite Hdead.
    assert (Hl : longest_acc Q q0 delta accepting w (length w) = Some (length w)).
    { apply (longest_acc_some Q q0 delta accepting). split; [lia|]. split; [|intros j Hj; lia].
      unfold acc_at. rewrite Hfull, Hrun. exact Hacc. }
    rewrite Hl. unfold Tokenizer.tok_at. rewrite Hfull, Hrun. reflexivity.
  Qed.

  Theorem munch_terminal w q rest :
    w <> [] -> run w = Some q -> accepting q = true -> terminal q = true ->
    munch (w ++ rest) = (mk_tok q w :: fst (munch rest), snd (munch rest)).
  Proof.
    intros Hne Hrun Hacc Hterm.
    rewrite (munch_unfold Q Item q0 delta accepting terminal decode_item (w ++ rest)).
    rewrite (munch1_prefix Q Item q0 delta accepting terminal decode_item w rest _
               (munch1_terminal w q Hne Hrun Hacc Hterm)).
    rewrite skipn_app, skipn_all, Nat.sub_diag. cbn [skipn app].
    destruct (munch rest). reflexivity.
  Qed.
End TT.
