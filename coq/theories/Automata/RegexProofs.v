(* The derivative matcher decides the denotation:  matcher e s = true <-> matches e s,
   and isempty decides emptiness of the language. *)
From Coq Require Import List NArith Bool Arith Lia.
From SNT Require Import Automata.Regex Automata.RegexInd.
Import ListNotations.
Local Open Scope N_scope.

(* ---------- denotation helpers ---------- *)

Lemma matches_Seq es s : matches (Seq es) s <-> matches_seq es s.
Proof. revert s; induction es as [|e r IH]; intros s; cbn; [tauto|]. reflexivity. Qed.

Lemma matches_Choice es s : matches (Choice es) s <-> matches_any es s.
Proof.
  induction es as [|e r IH]; cbn; [tauto|].
  split; (intros [H | H]; [left; exact H|right; apply IH; exact H]).
Qed.

Lemma matches_any_In es s : matches_any es s <-> exists e, In e es /\ matches e s.
Proof.
  induction es as [|e r IH]; cbn [matches_any In].
  - split; [intros []|intros [e [[] _]]].
  - rewrite IH. split.
    + intros [H | [e' [Hin H]]]; [exists e; auto|exists e'; auto].
    + intros [e' [[-> | Hin] H]]; [left; exact H|right; exists e'; auto].
Qed.

Lemma matches_seq_app l r s :
  matches_seq (l ++ r) s <-> exists s1 s2, s = s1 ++ s2 /\ matches_seq l s1 /\ matches_seq r s2.
Proof.
  revert s; induction l as [|e l IH]; intros s; cbn [app matches_seq].
  - split.
    + intros H. exists [], s. auto.
    + intros [s1 [s2 [-> [-> H]]]]. exact H.
  - split.
    + intros [a [b [-> [Ha Hb]]]]. apply IH in Hb. destruct Hb as [b1 [b2 [-> [H1 H2]]]].
      exists (a ++ b1), b2. rewrite app_assoc. split; [reflexivity|]. split; [|exact H2].
      exists a, b1. auto.
    + intros [s1 [s2 [-> [[a [b1 [-> [Ha H1]]]] H2]]]].
      exists a, (b1 ++ s2). rewrite app_assoc. split; [reflexivity|]. split; [exact Ha|].
      apply IH. exists b1, s2. auto.
Qed.

Lemma star_cons_inv (L : list N -> Prop) c s :
  star L (c :: s) -> exists s1 s2, s = s1 ++ s2 /\ L (c :: s1) /\ star L s2.
Proof.
  intros H. remember (c :: s) as cs eqn:E. revert c s E.
  induction H as [|a b Ha Hb IH]; intros c s E; [discriminate|].
  destruct a as [|c' a'].
  - cbn in E. apply (IH c s E).
  - cbn in E. inversion E; subst. exists a', b. auto.
Qed.

(* ---------- nullable ---------- *)

Lemma nullable_correct : forall e, nullable e = true <-> matches e [].
Proof.
  apply regex_rect'; cbn [nullable].
  - intros set. split; [discriminate|]. intros [c [H _]]. discriminate.
  - intros bs. cbn [matches]. destruct bs; split; congruence.
  - cbn. tauto.
  - cbn. split; [discriminate|tauto].
  - intros es IH. rewrite matches_Seq.
    induction IH as [|e r He _ IHr]; cbn [forallb matches_seq]; [tauto|].
    rewrite andb_true_iff, He, IHr. split.
    + intros [H1 H2]. exists [], []. auto.
    + intros [s1 [s2 [E [H1 H2]]]]. symmetry in E. apply app_eq_nil in E. destruct E; subst. auto.
  - intros es IH. rewrite matches_Choice.
    induction IH as [|e r He _ IHr]; cbn [existsb matches_any]; [split; [discriminate|tauto]|].
    rewrite orb_true_iff, He, IHr. tauto.
  - intros e IH. cbn [matches]. rewrite IH. unfold plus. split.
    + intros H. exists [], []. repeat split; [exact H|apply star_nil].
    + intros [s1 [s2 [E [H1 _]]]]. symmetry in E. apply app_eq_nil in E. destruct E; subst. exact H1.
  - intros e _. cbn [matches]. tauto.
  - intros e _. cbn [matches]. split; [intros _; apply star_nil|reflexivity].
  - intros t e IH. exact IH.
Qed.

(* ---------- syntactic equality ---------- *)

Lemma nl_eqb_eq a b : nl_eqb a b = true -> a = b.
Proof.
  revert b; induction a as [|x a IH]; intros [|y b] H; cbn in H; try discriminate; auto.
  apply andb_prop in H. destruct H as [H1 H2]. apply N.eqb_eq in H1. subst. f_equal. auto.
Qed.

Lemma regex_eqb_eq : forall a b, regex_eqb a b = true -> a = b.
Proof.
  assert (Lists : forall l1, Forall (fun x => forall y, regex_eqb x y = true -> x = y) l1 ->
            forall l2, regexes_eqb l1 l2 = true -> l1 = l2).
  { induction 1 as [|x r Hx _ IH]; intros [|y r2] H; cbn in H; try discriminate; auto.
    apply andb_prop in H. destruct H as [H1 H2]. f_equal; auto. }
  apply (regex_rect' (fun a => forall b, regex_eqb a b = true -> a = b)).
  - intros s1 [] H; cbn in H; try discriminate. f_equal. apply nl_eqb_eq. exact H.
  - intros s1 [] H; cbn in H; try discriminate. f_equal. apply nl_eqb_eq. exact H.
  - intros [] H; cbn in H; try discriminate. reflexivity.
  - intros [] H; cbn in H; try discriminate. reflexivity.
  - intros l1 IH [] H; try discriminate. f_equal. apply (Lists l1 IH). exact H.
  - intros l1 IH [] H; try discriminate. f_equal. apply (Lists l1 IH). exact H.
  - intros x IH [] H; cbn in H; try discriminate. f_equal. auto.
  - intros x IH [] H; cbn in H; try discriminate. f_equal. auto.
  - intros x IH [] H; cbn in H; try discriminate. f_equal. auto.
  - intros t x IH [] H; cbn in H; try discriminate.
    apply andb_prop in H. destruct H as [H1 H2]. apply N.eqb_eq in H1. subst. f_equal. auto.
Qed.

(* ---------- smart constructors ---------- *)

Lemma mk_seq_correct l s : matches (mk_seq l) s <-> matches_seq l s.
Proof.
  destruct l as [|x [|y r]]; cbn [mk_seq].
  - reflexivity.
  - cbn [matches_seq]. split.
    + intros H. exists s, []. rewrite app_nil_r. auto.
    + intros [s1 [s2 [-> [H ->]]]]. rewrite app_nil_r. exact H.
  - apply matches_Seq.
Qed.

Lemma seq_skip_empty (d : regex) r s :
  (forall t, matches d t <-> t = []) ->
  (matches_seq r s <-> matches_seq (d :: r) s).
Proof.
  intros Hd. cbn [matches_seq]. split.
  - intros H. exists [], s. split; [reflexivity|]. split; [apply Hd; reflexivity|exact H].
  - intros [s1 [s2 [-> [H1 H2]]]]. apply Hd in H1. subst. exact H2.
Qed.

Lemma sseq_correct d r s : matches (sseq d r) s <-> matches_seq (d :: r) s.
Proof.
  assert (Default : matches (mk_seq (d :: r)) s <-> matches_seq (d :: r) s) by apply mk_seq_correct.
  destruct d as [set|bs| | |l|l|x|x|x|t x]; cbn [sseq]; try exact Default.
  - destruct bs as [|b bs']; [|exact Default].
    rewrite mk_seq_correct. apply seq_skip_empty. intros t. cbn. split; congruence.
  - rewrite mk_seq_correct. apply seq_skip_empty. intros t. cbn. tauto.
  - cbn [matches matches_seq]. split; [intros []|]. intros [s1 [s2 [_ [[] _]]]].
  - rewrite mk_seq_correct, matches_seq_app. cbn [matches_seq]. split.
    + intros [s1 [s2 [-> [H1 H2]]]]. exists s1, s2. split; [reflexivity|]. split; [|exact H2].
      apply matches_Seq. exact H1.
    + intros [s1 [s2 [-> [H1 H2]]]]. exists s1, s2. split; [reflexivity|]. split; [|exact H2].
      apply matches_Seq. exact H1.
Qed.

Lemma mk_choice_correct l s : matches (mk_choice l) s <-> matches_any l s.
Proof.
  destruct l as [|x [|y r]]; cbn [mk_choice].
  - reflexivity.
  - cbn [matches_any]. tauto.
  - apply matches_Choice.
Qed.

Lemma dedup_correct l s : matches_any (dedup l) s <-> matches_any l s.
Proof.
  induction l as [|x r IH]; cbn [dedup matches_any]; [reflexivity|].
  rewrite <- IH. rewrite !matches_any_In. split.
  - intros [H | [e [Hin H]]]; [left; exact H|].
    apply filter_In in Hin. right. exists e. tauto.
  - intros [H | [e [Hin H]]]; [left; exact H|].
    destruct (regex_eqb x e) eqn:E.
    + apply regex_eqb_eq in E. subst. left. exact H.
    + right. exists e. split; [|exact H]. apply filter_In. rewrite E. auto.
Qed.

Lemma alts_of_correct e s : matches_any (alts_of e) s <-> matches e s.
Proof.
  destruct e; cbn [alts_of matches_any]; try tauto.
  symmetry. apply matches_Choice.
Qed.

Lemma schoice_correct es s : matches (schoice es) s <-> matches_any es s.
Proof.
  unfold schoice. rewrite mk_choice_correct, dedup_correct.
  induction es as [|e r IH]; cbn [flat_map matches_any]; [reflexivity|].
  rewrite <- IH, <- alts_of_correct. rewrite !matches_any_In. split.
  - intros [x [Hin H]]. apply in_app_or in Hin. destruct Hin as [Hin | Hin].
    + left. exists x. auto.
    + right. exists x. auto.
  - intros [[x [Hin H]] | [x [Hin H]]]; exists x; (split; [apply in_or_app; auto|exact H]).
Qed.

Lemma salt_correct a b s : matches (salt a b) s <-> matches a s \/ matches b s.
Proof. unfold salt. rewrite schoice_correct. cbn [matches_any]. tauto. Qed.

(* ---------- derivatives ---------- *)

Lemma deriv_Seq c es : deriv c (Seq es) = deriv_seq c es.
Proof.
  induction es as [|e r IH]; [reflexivity|].
  cbn [deriv_seq]. rewrite <- IH. reflexivity.
Qed.

Definition deriv_ok (c : N) (e : regex) : Prop :=
  forall s, matches (deriv c e) s <-> matches e (c :: s).

Lemma deriv_seq_correct c es : Forall (deriv_ok c) es ->
  forall s, matches (deriv_seq c es) s <-> matches_seq es (c :: s).
Proof.
  induction 1 as [|e r He _ IH]; intros s; cbn [deriv_seq matches_seq].
  - cbn. split; [intros []|discriminate].
  - assert (Hcons : matches (sseq (deriv c e) r) s <->
                    exists s1 s2, s = s1 ++ s2 /\ matches e (c :: s1) /\ matches_seq r s2).
    { rewrite sseq_correct. cbn [matches_seq]. split;
        intros [s1 [s2 [-> [H1 H2]]]]; exists s1, s2; (split; [reflexivity|]; split; [apply He; exact H1|exact H2]). }
    destruct (nullable e) eqn:En.
    + rewrite salt_correct, Hcons, IH. split.
      * intros [[s1 [s2 [-> [H1 H2]]]] | H].
        -- exists (c :: s1), s2. auto.
        -- exists [], (c :: s). split; [reflexivity|]. split; [apply nullable_correct; exact En|exact H].
      * intros [s1 [s2 [E [H1 H2]]]]. destruct s1 as [|c' s1'].
        -- cbn in E. subst s2. right. exact H2.
        -- cbn in E. inversion E; subst. left. exists s1', s2. auto.
    + rewrite Hcons. split.
      * intros [s1 [s2 [-> [H1 H2]]]]. exists (c :: s1), s2. auto.
      * intros [s1 [s2 [E [H1 H2]]]]. destruct s1 as [|c' s1'].
        -- apply nullable_correct in H1. congruence.
        -- cbn in E. inversion E; subst. exists s1', s2. auto.
Qed.

Lemma loop_deriv c e s : deriv_ok c e ->
  (matches (sseq (deriv c e) [Many e]) s <->
   exists s1 s2, s = s1 ++ s2 /\ matches e (c :: s1) /\ star (matches e) s2).
Proof.
  intros He. rewrite sseq_correct. cbn [matches_seq matches]. split.
  - intros [s1 [s2 [-> [H1 [a [b [-> [Ha ->]]]]]]]]. rewrite app_nil_r.
    exists s1, a. split; [reflexivity|]. split; [apply He; exact H1|exact Ha].
  - intros [s1 [s2 [-> [H1 H2]]]]. exists s1, s2. split; [reflexivity|]. split; [apply He; exact H1|].
    exists s2, []. rewrite app_nil_r. auto.
Qed.

Lemma deriv_correct : forall c e, deriv_ok c e.
Proof.
  intros c. apply regex_rect'; unfold deriv_ok.
  - intros set s. cbn [deriv matches].
    destruct ((c <? 256) && mem c set) eqn:E.
    + apply andb_prop in E. destruct E as [E1 E2]. apply N.ltb_lt in E1. cbn [matches]. split.
      * intros ->. exists c. auto.
      * intros [c0 [H _]]. inversion H. reflexivity.
    + cbn [matches]. split; [intros []|]. intros [c0 [H [H1 H2]]]. inversion H; subst.
      apply N.ltb_lt in H1. rewrite H1, H2 in E. discriminate.
  - intros bs s. cbn [deriv matches]. destruct bs as [|b r].
    + cbn. split; [intros []|discriminate].
    + destruct (c =? b) eqn:E.
      * apply N.eqb_eq in E. subst. cbn [matches]. split; congruence.
      * cbn [matches]. split; [intros []|]. intros H. inversion H; subst.
        rewrite N.eqb_refl in E. discriminate.
  - intros s. cbn. split; [intros []|discriminate].
  - intros s. cbn. tauto.
  - intros es IH s. rewrite deriv_Seq, matches_Seq. apply deriv_seq_correct. exact IH.
  - intros es IH s. cbn [deriv]. rewrite schoice_correct, matches_Choice.
    induction IH as [|e r He _ IHr]; cbn [map matches_any]; [tauto|].
    rewrite (He s), IHr. tauto.
  - intros e IH s. cbn [deriv]. rewrite (loop_deriv c e s IH). cbn [matches]. unfold plus. split.
    + intros [s1 [s2 [-> [H1 H2]]]]. exists (c :: s1), s2. auto.
    + intros [s1 [s2 [E [H1 H2]]]]. destruct s1 as [|c' s1'].
      * cbn in E. subst s2. apply star_cons_inv in H2. exact H2.
      * cbn in E. inversion E; subst. exists s1', s2. auto.
  - intros e IH s. cbn [deriv matches]. rewrite (IH s). split; [auto|].
    intros [H | H]; [discriminate|exact H].
  - intros e IH s. cbn [deriv]. rewrite (loop_deriv c e s IH). cbn [matches]. split.
    + intros [s1 [s2 [-> [H1 H2]]]]. apply (star_app _ (c :: s1) s2 H1 H2).
    + apply star_cons_inv.
  - intros t e IH s. exact (IH s).
Qed.

Theorem matcher_correct : forall s e, matcher e s = true <-> matches e s.
Proof.
  unfold matcher. induction s as [|c s IH]; intros e; cbn [derivs].
  - apply nullable_correct.
  - rewrite IH. apply deriv_correct.
Qed.

Lemma derivs_correct : forall s e t, matches (derivs s e) t <-> matches e (s ++ t).
Proof.
  induction s as [|c s IH]; intros e t; cbn [derivs app]; [reflexivity|].
  rewrite IH. apply deriv_correct.
Qed.

(* ---------- emptiness ---------- *)

Lemma isempty_correct : forall e,
  (isempty e = true -> forall s, ~ matches e s) /\ (isempty e = false -> exists s, matches e s).
Proof.
  apply regex_rect'; cbn [isempty].
  - intros set. split.
    + intros H s [c [_ [Hc Hm]]]. apply negb_true_iff in H.
      unfold mem in Hm. apply existsb_exists in Hm. destruct Hm as [x [Hin Hx]].
      apply N.eqb_eq in Hx. subst x.
      assert (existsb (fun c => c <? 256) set = true)
        by (apply existsb_exists; exists c; split; [exact Hin|apply N.ltb_lt; exact Hc]).
      congruence.
    + intros H. apply negb_false_iff in H. apply existsb_exists in H.
      destruct H as [c [Hin Hc]]. apply N.ltb_lt in Hc. exists [c], c.
      repeat split; auto. unfold mem. apply existsb_exists. exists c. split; [exact Hin|apply N.eqb_refl].
  - intros bs. split; [discriminate|]. intros _. exists bs. reflexivity.
  - split; [discriminate|]. intros _. exists []. reflexivity.
  - split; [intros _ s []|discriminate].
  - intros es IH. split.
    + intros H s Hm. apply matches_Seq in Hm. revert s Hm.
      induction IH as [|e r [He _] _ IHr]; cbn [existsb] in H; [discriminate|].
      intros s [s1 [s2 [_ [H1 H2]]]]. apply orb_true_iff in H. destruct H as [H | H].
      * apply (He H s1 H1).
      * apply (IHr H s2 H2).
    + intros H. assert (G : exists s, matches_seq es s).
      { induction IH as [|e r [_ He] _ IHr]; cbn [existsb] in H; [exists []; reflexivity|].
        apply orb_false_iff in H. destruct H as [H1 H2].
        destruct (He H1) as [s1 Hs1]. destruct (IHr H2) as [s2 Hs2].
        exists (s1 ++ s2), s1, s2. auto. }
      destruct G as [s G]. exists s. apply matches_Seq. exact G.
  - intros es IH. split.
    + intros H s Hm. apply matches_Choice in Hm.
      induction IH as [|e r [He _] _ IHr]; cbn [forallb matches_any] in *; [exact Hm|].
      apply andb_prop in H. destruct H as [H1 H2]. destruct Hm as [Hm | Hm].
      * apply (He H1 s Hm).
      * apply (IHr H2 Hm).
    + intros H. assert (G : exists s, matches_any es s).
      { induction IH as [|e r [_ He] _ IHr]; cbn [forallb] in H; [discriminate|].
        apply andb_false_iff in H. destruct H as [H | H].
        - destruct (He H) as [s Hs]. exists s. left. exact Hs.
        - destruct (IHr H) as [s Hs]. exists s. right. exact Hs. }
      destruct G as [s G]. exists s. apply matches_Choice. exact G.
  - intros e [H1 H2]. split.
    + intros H s [s1 [s2 [_ [Hm _]]]]. apply (H1 H s1 Hm).
    + intros H. destruct (H2 H) as [s Hs]. exists s, s, []. rewrite app_nil_r.
      repeat split; [exact Hs|apply star_nil].
  - intros e _. split; [discriminate|]. intros _. exists []. left. reflexivity.
  - intros e _. split; [discriminate|]. intros _. exists []. apply star_nil.
  - intros t e IH. exact IH.
Qed.
