(* DfaData.index_from puts the i-th element of a list under the key N.succ_pos i *)
From Coq Require Import List NArith PArith FMapPositive Bool Arith Lia.
From SNT Require Import Automata.DfaData.
Import ListNotations.
Local Open Scope N_scope.

Lemma succ_pos_inj a b : N.succ_pos a = N.succ_pos b -> a = b.
Proof.
  intros H. apply N.succ_inj. rewrite <- !N.succ_pos_spec. rewrite H. reflexivity.
Qed.

Lemma index_from_find {A} (l : list A) : forall i m q,
  PositiveMap.find (N.succ_pos q) (index_from i l m) =
  if q <? i then PositiveMap.find (N.succ_pos q) m
  else match nth_error l (N.to_nat (q - i)) with
       | Some a => Some a
       | None => PositiveMap.find (N.succ_pos q) m
       end.
Proof.
  induction l as [|a l IH]; intros i m q; cbn [index_from].
  - destruct (q <? i); [reflexivity|]. destruct (N.to_nat (q - i)); reflexivity.
  - rewrite IH. destruct (q <? i) eqn:E1.
    + apply N.ltb_lt in E1. assert (E2 : q <? i + 1 = true) by (apply N.ltb_lt; lia).
      rewrite E2. apply PositiveMap.gso. intros H. apply succ_pos_inj in H. lia.
    + apply N.ltb_ge in E1. destruct (N.eq_dec q i) as [-> | Hne].
      * assert (E2 : i <? i + 1 = true) by (apply N.ltb_lt; lia). rewrite E2.
        rewrite PositiveMap.gss. replace (N.to_nat (i - i)) with O by lia. reflexivity.
      * assert (E2 : q <? i + 1 = false) by (apply N.ltb_ge; lia). rewrite E2.
        replace (N.to_nat (q - i)) with (S (N.to_nat (q - (i + 1)))) by lia. cbn [nth_error].
        destruct (nth_error l (N.to_nat (q - (i + 1)))); [reflexivity|].
        apply PositiveMap.gso. intros H. apply succ_pos_inj in H. lia.
Qed.

Lemma index0_find {A} (l : list A) q :
  PositiveMap.find (N.succ_pos q) (index_from 0 l (PositiveMap.empty A)) = nth_error l (N.to_nat q).
Proof.
  rewrite index_from_find. assert (E : q <? 0 = false) by (apply N.ltb_ge; lia). rewrite E.
  rewrite N.sub_0_r. destruct (nth_error l (N.to_nat q)); [reflexivity|apply PositiveMap.gempty].
Qed.

