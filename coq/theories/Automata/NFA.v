(* Model of `NFA<T>` of src/automata.rs (data and the combinators).

   Representation.  `states : BTreeMap<NFAStateId, NFAState<T>>` is a list of
   states, the state with id `i` at position `i`.  Every constructor of the
   public API produces a map whose keys are exactly 0..len-1 (predicate,
   nothing: {0,1}; empty: {0}; From<&str>: 0..=len; merge_states renumbers each
   operand by a running offset that advances by `max_id + 1`), so position and
   id coincide and `max_id + 1` is the length of the list.  The correspondence
   check compares the ids printed by `impl Debug for NFA` with the positions.
   `edges : BTreeMap<u8, NFAStateId>` is an association list in increasing
   symbol order, `epsilons : BTreeSet<NFAStateId>` an increasing duplicate-free
   list (`set_insert`), the tag type is `N`. *)
From Coq Require Import List NArith Bool Arith.
From SNT Require Import Automata.Regex.
Import ListNotations.

Record nstate := mkst { edges : list (N * nat); eps : list nat; tag : option N }.
Record nfa := mknfa { start : nat; stop : nat; states : list nstate }.

(* NFAState::new *)
Definition new_state : nstate := mkst [] [] None.

(* BTreeSet::insert *)
Fixpoint set_insert (a : nat) (l : list nat) : list nat :=
  match l with
  | [] => [a]
  | b :: r => if a <? b then a :: l
              else if a =? b then l
              else b :: set_insert a r
  end.

(* states.get_mut(&i).map(f): no effect when the key is absent *)
Fixpoint update {A} (l : list A) (i : nat) (f : A -> A) : list A :=
  match l, i with
  | [], _ => []
  | x :: r, O => f x :: r
  | x :: r, S j => x :: update r j f
  end.

Definition add_eps (q : nat) (st : nstate) : nstate :=
  mkst (edges st) (set_insert q (eps st)) (tag st).

Definition set_tag (t : N) (st : nstate) : nstate :=
  mkst (edges st) (eps st) (Some t).

(* tag_stop_state *)
Definition tag_stop_state (t : N) (n : nfa) : nfa :=
  mknfa (start n) (stop n) (update (states n) (stop n) (set_tag t)).

(* 0..=Symbol::MAX *)
Definition all_bytes : list N := map N.of_nat (seq 0 256).

(* predicate: state 0 has an edge to state 1 for every symbol satisfying pred *)
Definition predicate (set : list N) : nfa :=
  mknfa 0 1
    [ mkst (map (fun c => (c, 1)) (filter (fun c => mem c set) all_bytes)) [] None;
      new_state ].

Definition empty : nfa := mknfa 0 0 [new_state].

Definition nothing : nfa := mknfa 0 1 [new_state; new_state].

(* From<&str>: state i --bs[i]--> state i+1 *)
Fixpoint lit_states (i : nat) (bs : list N) : list nstate :=
  match bs with
  | [] => [new_state]
  | b :: r => mkst [(b, S i)] [] None :: lit_states (S i) r
  end.

Definition from_str (bs : list N) : nfa := mknfa 0 (length bs) (lit_states 0 bs).

(* renumbering inside merge_states *)
Definition shift_state (o : nat) (st : nstate) : nstate :=
  mkst (map (fun e => (fst e, o + snd e)) (edges st)) (map (Nat.add o) (eps st)) (tag st).

(* merge_states(nfas, offset): the merged states (the state with id
   offset + i at position i) and the (start, stop) pairs in order.  The loop
   appends, so it is written as a right fold; `max_id + 1` is the length. *)
Fixpoint merge_states (nfas : list nfa) (offset : nat) : list nstate * list (nat * nat) :=
  match nfas with
  | [] => ([], [])
  | n :: r =>
      let '(ss, es) := merge_states r (offset + length (states n)) in
      (map (shift_state offset) (states n) ++ ss,
       (offset + start n, offset + stop n) :: es)
  end.

(* sequence: for index in 1..ends.len() { states[ends[index-1].1].epsilons.insert(ends[index].0) }
   `base` is the id of the state at position 0 (0 for sequence). *)
Fixpoint bridge (base : nat) (ends : list (nat * nat)) (ss : list nstate) : list nstate :=
  match ends with
  | (_, from) :: (((to, _) :: _) as r) => bridge base r (update ss (from - base) (add_eps to))
  | _ => ss
  end.

Definition sequence (nfas : list nfa) : nfa :=
  let '(ss, ends) := merge_states nfas 0 in
  match ends with
  | [] => empty
  | (s0, _) :: _ => mknfa s0 (snd (last ends (0, 0))) (bridge 0 ends ss)
  end.

(* choice: merged operands from id 2, fresh start 0 and stop 1 *)
Fixpoint choice_loop (ends : list (nat * nat)) (start_state : nstate) (ss : list nstate)
  : nstate * list nstate :=
  match ends with
  | [] => (start_state, ss)
  | (from, to) :: r => choice_loop r (add_eps from start_state) (update ss (to - 2) (add_eps 1))
  end.

Definition choice (nfas : list nfa) : nfa :=
  let '(ss, ends) := merge_states nfas 2 in
  match ends with
  | [] => nothing
  | _ => let '(st0, ss') := choice_loop ends new_state ss in
         mknfa 0 1 (st0 :: new_state :: ss')
  end.

(* some: stop --eps--> start, in place *)
Definition some (n : nfa) : nfa :=
  mknfa (start n) (stop n) (update (states n) (stop n) (add_eps (start n))).

(* optional as it was before the fix: start --eps--> stop, in place.  Kept
   for the refutation lemma (Props/C15.v) and the corpus witness. *)
Definition optional_inplace (n : nfa) : nfa :=
  mknfa (start n) (stop n) (update (states n) (start n) (add_eps (stop n))).

(* optional (fixed code): fresh start 0 and stop 1, operand from id 2 *)
Definition optional (n : nfa) : nfa :=
  let '(ss, ends) := merge_states [n] 2 in
  let '(from, to) := hd (0, 0) ends in
  let st0 := add_eps 1 (add_eps from new_state) in
  let ss' := update ss (to - 2) (add_eps 1) in
  mknfa 0 1 (st0 :: new_state :: ss').

(* many: fresh start 0 and stop 1, operand from id 2, loop back *)
Definition many (n : nfa) : nfa :=
  let '(ss, ends) := merge_states [n] 2 in
  let '(from, to) := hd (0, 0) ends in
  let st0 := add_eps 1 (add_eps from new_state) in
  let ss' := update ss (to - 2) (fun st => add_eps from (add_eps 1 st)) in
  mknfa 0 1 (st0 :: new_state :: ss').

(* ---------- the graph of an NFA ---------- *)

(* one step of a list of states whose first element has id `base`;
   label None = epsilon *)
Definition gstep (base : nat) (ss : list nstate) (q : nat) (l : option N) (q' : nat) : Prop :=
  base <= q /\
  exists st, nth_error ss (q - base) = Some st /\
    match l with
    | Some c => In (c, q') (edges st)
    | None => In q' (eps st)
    end.

Definition rel := nat -> option N -> nat -> Prop.

Inductive path (R : rel) : nat -> list N -> nat -> Prop :=
| path_refl : forall q, path R q [] q
| path_eps : forall q q1 s q', R q None q1 -> path R q1 s q' -> path R q s q'
| path_sym : forall q c q1 s q', R q (Some c) q1 -> path R q1 s q' -> path R q (c :: s) q'.

Definition nstep (n : nfa) : rel := gstep 0 (states n).

(* the NFA accepts s *)
Definition accepts (n : nfa) (s : list N) : Prop := path (nstep n) (start n) s (stop n).

(* state q carries tag t *)
Definition has_tag (n : nfa) (q : nat) (t : N) : Prop :=
  exists st, nth_error (states n) q = Some st /\ tag st = Some t.
