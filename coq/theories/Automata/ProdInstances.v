(* The production automata of src/decoder.rs (regenerated on every run:
   Gen/ProdNFA.v from verif::dump_nfa, Gen/ProdDFA.v from verif::dump_dfa) pass
   the certificate check of Automata/ProdCheck.v: each compiled DFA is the
   subset construction of the NFA it was compiled from. *)
From Coq Require Import List NArith.
From SNT Require Import Automata.NFA Automata.CompileSpec Automata.DfaData Automata.ProdNfaData
  Automata.ProdCheck Automata.ProdCheckProofs Gen.ProdNFA Gen.ProdDFA.
Import ListNotations.
Local Open Scope N_scope.

Definition prod_fuel : nat := N.to_nat 100000.

Lemma event_checked : check event_nfa_data event_data event_subsets prod_fuel = true.
Proof. vm_compute. reflexivity. Qed.

Lemma command_checked : check command_nfa_data command_data command_subsets prod_fuel = true.
Proof. vm_compute. reflexivity. Qed.

Lemma utf8_checked : check utf8_nfa_data utf8_data utf8_subsets prod_fuel = true.
Proof. vm_compute. reflexivity. Qed.

(* the conclusion of check_sound, as a predicate of an NFA dump and a DFA dump *)
Definition subset_construction (nd : nfa_data) (dd : dfa_data) : Prop :=
  let n := to_nfa nd in
  let D := DfaData.compile dd in
  forall s, bytes s ->
    match d_run D (d_start D) s with
    | None => forall z, ~ RS n s z
    | Some k =>
        (exists z, RS n s z) /\
        (d_accepting D k = true <-> RS n s (stop n)) /\
        (forall t, In t (d_tags D k) <-> exists q, RS n s q /\ has_tag n q (tag_code t)) /\
        (d_terminal D k = true ->
           (forall c, c < 256 -> d_delta D k c = None) /\
           (forall c w z, c < 256 -> ~ RS n (s ++ c :: w) z))
    end.

Theorem event_subset_construction : subset_construction event_nfa_data event_data.
Proof. exact (check_sound _ _ _ _ event_checked). Qed.

Theorem command_subset_construction : subset_construction command_nfa_data command_data.
Proof. exact (check_sound _ _ _ _ command_checked). Qed.

Theorem utf8_subset_construction : subset_construction utf8_nfa_data utf8_data.
Proof. exact (check_sound _ _ _ _ utf8_checked). Qed.

(* the maps used by the reflection proofs of C02/C03/C04 are these compiled dumps *)
Lemma event_dfa_eq : event_dfa = DfaData.compile event_data.
Proof. vm_compute. reflexivity. Qed.
Lemma command_dfa_eq : command_dfa = DfaData.compile command_data.
Proof. vm_compute. reflexivity. Qed.
Lemma utf8_dfa_eq : utf8_dfa = DfaData.compile utf8_data.
Proof. vm_compute. reflexivity. Qed.
