(* C19: the Image visitor is total, decodes the 1 / 3 / 4 channel layouts to the
   stated pixels, and inverts the serializer. *)
From Coq Require Import String.
From Coq Require Import List NArith Bool Lia ZifyN ZifyBool ZifyNat Arith.
From SNT Require Import Base.Outcome Base.Report Keys.KeyParse Gen.TabBase64
  Encoder.Base64 Encoder.Base64Proofs Encoder.Base64DecProofs Serde.Json Serde.ImageDe.
Import ListNotations.
Local Open Scope N_scope.

Arguments N.add : simpl never.
Arguments N.sub : simpl never.
Arguments N.mul : simpl never.
Arguments N.eqb : simpl never.
Arguments N.ltb : simpl never.
Arguments N.leb : simpl never.

Definition no_panic {A} (o : outcome A) : Prop :=
  match o with Ok _ | Err _ => True | Panic _ | OutOfFuel => False end.

(* ------------------------------------------------------------ lists *)

Lemma collect_map_ok {A B} (f : A -> outcome B) (g : A -> B) (l : list A) :
  (forall x, In x l -> f x = Ok (g x)) -> collect (map f l) = Ok (map g l).
Proof.
  induction l as [|a l IH]; intros H; [reflexivity|].
  cbn [map collect]. rewrite (H a) by (left; reflexivity). cbn [bind].
  rewrite IH by (intros x Hx; apply H; right; exact Hx). reflexivity.
Qed.

Lemma seq_add : forall W a, seq a W = map (fun c => (a + c)%nat) (seq 0 W).
Proof.
  induction W as [|W IH]; intros a; [reflexivity|].
  cbn [seq map]. rewrite Nat.add_0_r. f_equal.
  rewrite (IH (S a)), <- seq_shift, map_map. apply map_ext. intros c. lia.
Qed.

Lemma flat_map_grid {A} (f : nat -> A) (H W : nat) :
  flat_map (fun r => map (fun c => f (r * W + c)%nat) (seq 0 W)) (seq 0 H)
  = map f (seq 0 (H * W)).
Proof.
  induction H as [|H IH]; [reflexivity|].
  rewrite seq_S, flat_map_app, IH. cbn [flat_map plus]. rewrite app_nil_r.
  replace (S H * W)%nat with (H * W + W)%nat by lia.
  rewrite seq_app, map_app. f_equal. cbn [plus].
  rewrite (seq_add W (H * W)), map_map. reflexivity.
Qed.

Lemma map_nth_seq {A} (l : list A) (d : A) :
  map (fun i => nth i l d) (seq 0 (length l)) = l.
Proof.
  induction l as [|a l IH]; [reflexivity|].
  cbn [length seq map nth]. f_equal. rewrite <- seq_shift, map_map. exact IH.
Qed.

(* ------------------------------------------------------------ pixels *)

Lemma idx_cons b data i : idx (b :: data) (N.succ i) = idx data i.
Proof. unfold idx. rewrite N2Nat.inj_succ. reflexivity. Qed.

Lemma idx_skip4 a b c d data i : idx (a :: b :: c :: d :: data) (4 + i) = idx data i.
Proof.
  replace (4 + i) with (N.succ (N.succ (N.succ (N.succ i)))) by lia. rewrite !idx_cons. reflexivity.
Qed.

Lemma idx_skip3 a b c data i : idx (a :: b :: c :: data) (3 + i) = idx data i.
Proof.
  replace (3 + i) with (N.succ (N.succ (N.succ i))) by lia. rewrite !idx_cons. reflexivity.
Qed.

Definition d0 : rgba := (0, 0, 0, 0).

Lemma pixel4 : forall (i : nat) data,
  (i < length (px4 data))%nat -> pixel_i 4 data (N.of_nat i) = Ok (nth i (px4 data) d0).
Proof.
  induction i as [|i IH]; intros data Hi.
  - destruct data as [|r [|g [|b [|a rest]]]]; cbn in Hi; try lia. reflexivity.
  - destruct data as [|r [|g [|b [|a rest]]]]; cbn [px4 length] in Hi; try lia.
    cbn [px4 nth]. rewrite <- (IH rest) by lia.
    unfold pixel_i. change (4 =? 4) with true. cbv iota.
    replace (4 * N.of_nat (S i)) with (4 + 4 * N.of_nat i) by lia.
    replace (4 + 4 * N.of_nat i + 1) with (4 + (4 * N.of_nat i + 1)) by lia.
    replace (4 + 4 * N.of_nat i + 2) with (4 + (4 * N.of_nat i + 2)) by lia.
    replace (4 + 4 * N.of_nat i + 3) with (4 + (4 * N.of_nat i + 3)) by lia.
    rewrite !idx_skip4. reflexivity.
Qed.

Lemma pixel3 : forall (i : nat) data,
  (i < length (px3 data))%nat -> pixel_i 3 data (N.of_nat i) = Ok (nth i (px3 data) d0).
Proof.
  induction i as [|i IH]; intros data Hi.
  - destruct data as [|r [|g [|b rest]]]; cbn in Hi; try lia. reflexivity.
  - destruct data as [|r [|g [|b rest]]]; cbn [px3 length] in Hi; try lia.
    cbn [px3 nth]. rewrite <- (IH rest) by lia.
    unfold pixel_i. change (3 =? 4) with false. change (3 =? 3) with true. cbv iota.
    replace (3 * N.of_nat (S i)) with (3 + 3 * N.of_nat i) by lia.
    replace (3 + 3 * N.of_nat i + 1) with (3 + (3 * N.of_nat i + 1)) by lia.
    replace (3 + 3 * N.of_nat i + 2) with (3 + (3 * N.of_nat i + 2)) by lia.
    rewrite !idx_skip3. reflexivity.
Qed.

Lemma pixel1 : forall (i : nat) data,
  (i < length (px1 data))%nat -> pixel_i 1 data (N.of_nat i) = Ok (nth i (px1 data) d0).
Proof.
  induction i as [|i IH]; intros data Hi.
  - destruct data as [|v rest]; cbn in Hi; try lia. reflexivity.
  - destruct data as [|v rest]; cbn [px1 map length] in Hi; try lia.
    cbn [px1 map nth]. fold (px1 rest). rewrite <- (IH rest) by (unfold px1; rewrite map_length in *; lia).
    unfold pixel_i. change (1 =? 4) with false. change (1 =? 3) with false. cbv iota.
    rewrite Nat2N.inj_succ, idx_cons. reflexivity.
Qed.

Lemma px4_length : forall n data, length data = (4 * n)%nat -> length (px4 data) = n.
Proof.
  induction n as [|n IH]; intros data H.
  - destruct data; [reflexivity | cbn in H; lia].
  - destruct data as [|r [|g [|b [|a rest]]]]; cbn in H; try lia. cbn [px4 length]. f_equal. apply IH. lia.
Qed.

Lemma px3_length : forall n data, length data = (3 * n)%nat -> length (px3 data) = n.
Proof.
  induction n as [|n IH]; intros data H.
  - destruct data; [reflexivity | cbn in H; lia].
  - destruct data as [|r [|g [|b rest]]]; cbn in H; try lia. cbn [px3 length]. f_equal. apply IH. lia.
Qed.

Lemma pixels_of_length c n data :
  channels_ok c = true -> length data = (N.to_nat c * n)%nat -> length (pixels_of c data) = n.
Proof.
  unfold channels_ok, pixels_of. intros Hc H.
  destruct (c =? 4) eqn:E4; [apply N.eqb_eq in E4; subst; apply px4_length; exact H|].
  destruct (c =? 3) eqn:E3; [apply N.eqb_eq in E3; subst; apply px3_length; exact H|].
  destruct (c =? 1) eqn:E1; [|discriminate]. apply N.eqb_eq in E1. subst.
  unfold px1. rewrite map_length. cbn in H. lia.
Qed.

Lemma pixel_i_spec c data (i : nat) :
  channels_ok c = true -> (i < length (pixels_of c data))%nat ->
  pixel_i c data (N.of_nat i) = Ok (nth i (pixels_of c data) d0).
Proof.
  unfold channels_ok, pixels_of. intros Hc Hi.
  destruct (c =? 4) eqn:E4; [apply N.eqb_eq in E4; subst; apply pixel4; exact Hi|].
  destruct (c =? 3) eqn:E3; [apply N.eqb_eq in E3; subst; apply pixel3; exact Hi|].
  destruct (c =? 1) eqn:E1; [|discriminate]. apply N.eqb_eq in E1. subst. apply pixel1. exact Hi.
Qed.

(* ------------------------------------------------------------ new_with *)

Lemma nseq_flat (B : Type) (F : N -> N -> B) (h w : N) :
  flat_map (fun row => map (fun col => F row col) (nseq w)) (nseq h)
  = flat_map (fun r => map (fun c => F (N.of_nat r) (N.of_nat c)) (seq 0 (N.to_nat w))) (seq 0 (N.to_nat h)).
Proof.
  unfold nseq. generalize (seq 0 (N.to_nat h)) as rows. intros rows.
  induction rows as [|r rows IH]; [reflexivity|].
  cbn [map flat_map]. rewrite IH, map_map. reflexivity.
Qed.

Lemma new_with_pixels c h w data :
  channels_ok c = true ->
  length data = (N.to_nat c * (N.to_nat h * N.to_nat w))%nat ->
  new_with h w (pixel_at c w data) = Ok (pixels_of c data).
Proof.
  intros Hc Hlen.
  pose proof (pixels_of_length c _ data Hc Hlen) as Hpl.
  unfold new_with. destruct (w =? 0) eqn:Ew.
  - apply N.eqb_eq in Ew. subst w. rewrite Nat.mul_0_r in Hpl.
    destruct (pixels_of c data); [reflexivity | discriminate].
  - apply N.eqb_neq in Ew.
    rewrite nseq_flat.
    set (W := N.to_nat w) in *. set (H := N.to_nat h) in *.
    assert (E : forall r,
              map (fun c0 => pixel_at c w data (N.of_nat r) (N.of_nat c0)) (seq 0 W)
              = map (fun c0 => pixel_i c data (N.of_nat (r * W + c0))) (seq 0 W)).
    { intros r. apply map_ext. intros c0. unfold pixel_at. f_equal. unfold W. lia. }
    rewrite (flat_map_ext _ _ E).
    rewrite (flat_map_grid (fun i => pixel_i c data (N.of_nat i)) H W).
    rewrite (collect_map_ok _ (fun i => nth i (pixels_of c data) d0)).
    + rewrite <- Hpl. rewrite map_nth_seq. reflexivity.
    + intros i Hi. apply in_seq in Hi. apply pixel_i_spec; [exact Hc | lia].
Qed.

(* ------------------------------------------------------------ totality *)

Lemma mul_usize_checked a b : no_panic (mul_usize true a b).
Proof. unfold mul_usize. destruct (a * b <? usize_lim); exact I. Qed.

Lemma image_fields_acc : forall m acc acc',
  image_fields m acc = Ok acc' ->
  channels_ok (a_channels acc) = true -> channels_ok (a_channels acc') = true.
Proof.
  induction m as [|[k v] m IH]; intros acc acc' H Hc; cbn [image_fields] in H.
  - injection H as <-. exact Hc.
  - destruct (str_eqb k (s2l "data")).
    + destruct (de_str v); [|discriminate].
      destruct (decode_all (utf8_encode l) [] []); cbn [bind] in H; try discriminate.
      apply (IH _ _ H). exact Hc.
    + destruct (str_eqb k (s2l "channels")).
      * destruct (de_usize v); [|discriminate]. destruct (channels_ok n) eqn:E; [|discriminate].
        apply (IH _ _ H). exact E.
      * destruct (str_eqb k (s2l "size")).
        -- destruct (de_size v); [|discriminate]. apply (IH _ _ H). exact Hc.
        -- apply (IH _ _ H). exact Hc.
Qed.

Lemma image_fields_total : forall m acc, no_panic (image_fields m acc).
Proof.
  induction m as [|[k v] m IH]; intros acc; cbn [image_fields]; [exact I|].
  destruct (str_eqb k (s2l "data")).
  - destruct (de_str v); [|exact I].
    pose proof (decode_all_total (utf8_encode l) [] []) as T.
    destruct (decode_all (utf8_encode l) [] []); cbn [bind]; try contradiction; [apply IH | exact I].
  - destruct (str_eqb k (s2l "channels")).
    + destruct (de_usize v); [|exact I]. destruct (channels_ok n); [apply IH | exact I].
    + destruct (str_eqb k (s2l "size")); [|apply IH].
      destruct (de_size v); [apply IH | exact I].
Qed.

Lemma image_finish_total acc :
  channels_ok (a_channels acc) = true -> no_panic (image_finish true acc).
Proof.
  intros Hc. unfold image_finish. destruct (a_size acc) as [[h w]|]; [|exact I].
  unfold mul_usize. destruct (h * w <? usize_lim) eqn:E1; cbn [bind]; [|exact I].
  destruct (h * w * a_channels acc <? usize_lim) eqn:E2; cbn [bind]; [|exact I].
  destruct (N.of_nat (length (a_data acc)) =? h * w * a_channels acc) eqn:E3; [|exact I].
  apply N.eqb_eq in E3.
  rewrite (new_with_pixels (a_channels acc) h w (a_data acc) Hc) by lia.
  exact I.
Qed.

(* every JSON value: a value or an error *)
Theorem image_de_total (j : json) : no_panic (image_de j).
Proof.
  unfold image_de, image_de_gen. destruct j; try exact I.
  pose proof (image_fields_total m acc0) as T.
  destruct (image_fields m acc0) as [acc| | |] eqn:E; cbn [bind]; try contradiction; [|exact I].
  apply image_finish_total. apply (image_fields_acc m acc0 acc E). reflexivity.
Qed.

(* the 1 / 3 / 4 channel layouts: a size and data of the right length give exactly the stated pixels *)
Theorem image_finish_layout c h w data :
  channels_ok c = true ->
  N.of_nat (length data) = h * w * c -> h * w * c < usize_lim ->
  image_finish true {| a_size := Some (h, w); a_data := data; a_channels := c |}
  = Ok {| i_h := h; i_w := w; i_pix := pixels_of c data |}.
Proof.
  intros Hc Hlen Hlim. unfold image_finish. cbn [a_size a_channels a_data].
  unfold mul_usize.
  assert (L1 : (h * w <? usize_lim) = true).
  { apply N.ltb_lt. unfold channels_ok in Hc. nia. }
  rewrite L1. cbn [bind].
  assert (L2 : (h * w * c <? usize_lim) = true) by (apply N.ltb_lt; exact Hlim).
  rewrite L2. cbn [bind].
  assert (L3 : (N.of_nat (length data) =? h * w * c) = true) by (apply N.eqb_eq; exact Hlen).
  rewrite L3. rewrite (new_with_pixels c h w data Hc) by lia. reflexivity.
Qed.

(* ------------------------------------------------------------ round trip *)

Lemma rfc_char_ascii i : rfc_char i < 128.
Proof.
  unfold rfc_char. destruct (i <? 26) eqn:E1; [lia|]. destruct (i <? 52) eqn:E2; [lia|].
  destruct (i <? 62) eqn:E3; [lia|]. destruct (i =? 62); lia.
Qed.

Lemma rfc4648_ascii : forall x, Forall (fun c => c < 128) (rfc4648 x).
Proof.
  apply list_ind3.
  - constructor.
  - intros a. cbn [rfc4648]. repeat constructor; try apply rfc_char_ascii; unfold PAD; lia.
  - intros a b. cbn [rfc4648]. repeat constructor; try apply rfc_char_ascii; unfold PAD; lia.
  - intros a b c r IH. cbn [rfc4648]. cbn [app]. repeat (constructor; [apply rfc_char_ascii|]). exact IH.
Qed.

Lemma utf8_encode_ascii s : Forall (fun c => c < 128) s -> utf8_encode s = s.
Proof.
  induction 1 as [|c s Hc Hs IH]; [reflexivity|].
  unfold utf8_encode in *. cbn [flat_map]. rewrite IH. unfold utf8_char.
  assert (L : (c <? 128) = true) by (apply N.ltb_lt; exact Hc). rewrite L. reflexivity.
Qed.

Definition rgba_okb (p : rgba) : bool :=
  let '(r, g, b, a) := p in (r <? 256) && (g <? 256) && (b <? 256) && (a <? 256).

Lemma bytes_ok_concat (pix : list rgba) :
  forallb rgba_okb pix = true -> bytes_ok (concat (map rgba_bytes pix)) = true.
Proof.
  induction pix as [|[[[r g] b] a] pix IH]; [reflexivity|].
  cbn [forallb map concat rgba_bytes]. rewrite andb_true_iff. intros [H1 H2].
  unfold rgba_okb in H1. repeat (apply andb_true_iff in H1 as [H1 ?]).
  unfold bytes_ok in *. cbn [app forallb]. unfold byte_ok at 1 2 3 4.
  rewrite H1, H, H0, H3. cbn [andb]. apply IH, H2.
Qed.

Lemma px4_concat (pix : list rgba) : px4 (concat (map rgba_bytes pix)) = pix.
Proof.
  induction pix as [|[[[r g] b] a] pix IH]; [reflexivity|].
  cbn [map concat rgba_bytes app px4]. rewrite IH. reflexivity.
Qed.

Lemma concat_length (pix : list rgba) : length (concat (map rgba_bytes pix)) = (4 * length pix)%nat.
Proof.
  induction pix as [|[[[r g] b] a] pix IH]; [reflexivity|].
  cbn [map concat rgba_bytes app length]. rewrite IH. lia.
Qed.

(* an image as it exists in memory: h * w pixels of four bytes each *)
Definition image_ok (img : image) : Prop :=
  N.of_nat (length (i_pix img)) = i_h img * i_w img
  /\ forallb rgba_okb (i_pix img) = true
  /\ i_h img <= u64_max /\ i_w img <= u64_max
  /\ i_h img * i_w img * 4 < usize_lim.

Theorem image_roundtrip (img : image) : image_ok img -> image_de (image_ser img) = Ok img.
Proof.
  destruct img as [h w pix]. unfold image_ok. cbn [i_h i_w i_pix]. intros [Hlen [Hpix [Hh [Hw Hlim]]]].
  unfold image_de, image_de_gen, image_ser. cbn [i_h i_w i_pix].
  cbn [image_fields].
  change (str_eqb (s2l "size") (s2l "data")) with false.
  change (str_eqb (s2l "size") (s2l "channels")) with false.
  change (str_eqb (s2l "size") (s2l "size")) with true.
  change (str_eqb (s2l "channels") (s2l "data")) with false.
  change (str_eqb (s2l "channels") (s2l "channels")) with true.
  change (str_eqb (s2l "data") (s2l "data")) with true.
  cbv iota.
  assert (S1 : de_size (ser_size (h, w)) = Some (h, w)).
  { unfold ser_size, de_size. cbn [fst snd size_fields].
    change (str_eqb (s2l "height") (s2l "height")) with true.
    change (str_eqb (s2l "width") (s2l "height")) with false.
    change (str_eqb (s2l "width") (s2l "width")) with true. cbv iota.
    unfold de_usize.
    assert (L1 : (h <=? u64_max) = true) by (apply N.leb_le; exact Hh).
    assert (L2 : (w <=? u64_max) = true) by (apply N.leb_le; exact Hw).
    rewrite L1, L2. reflexivity. }
  rewrite S1. cbn [a_size a_data a_channels acc0].
  change (de_usize (JNum (NU 4))) with (Some 4). cbv iota.
  change (channels_ok 4) with true. cbv iota.
  cbn [de_str a_size a_data a_channels].
  rewrite (encode_chunks_rfc (map rgba_bytes pix)) by (apply bytes_ok_concat, Hpix).
  rewrite utf8_encode_ascii by apply rfc4648_ascii.
  rewrite decode_all_roundtrip by (apply bytes_ok_concat, Hpix).
  cbn [bind app].
  rewrite (image_finish_layout 4 h w (concat (map rgba_bytes pix))).
  - unfold pixels_of. change (4 =? 4) with true. cbv iota. rewrite px4_concat. reflexivity.
  - reflexivity.
  - rewrite concat_length. lia.
  - exact Hlim.
Qed.

(* ------------------------------------------------------------ the defect *)

(* the code as it was: an unchecked multiplication on numbers taken from the document *)
Lemma image_de_orig_refuted :
  exists j, image_de_orig j = Panic 372.
Proof.
  exists (JObj [(s2l "size", JArr [JNum (NU 18446744073709551615); JNum (NU 2)]); (s2l "data", JStr [])]).
  vm_compute. reflexivity.
Qed.

(* ------------------------------------------------------------ any key order *)

From Coq Require Import Permutation.

Lemma step_size h w r acc : h <= u64_max -> w <= u64_max ->
  image_fields ((s2l "size", ser_size (h, w)) :: r) acc
  = image_fields r {| a_size := Some (h, w); a_data := a_data acc; a_channels := a_channels acc |}.
Proof.
  intros Hh Hw. cbn [image_fields].
  change (str_eqb (s2l "size") (s2l "data")) with false.
  change (str_eqb (s2l "size") (s2l "channels")) with false.
  change (str_eqb (s2l "size") (s2l "size")) with true. cbv iota.
  assert (S1 : de_size (ser_size (h, w)) = Some (h, w)).
  { unfold ser_size, de_size. cbn [fst snd size_fields].
    change (str_eqb (s2l "height") (s2l "height")) with true.
    change (str_eqb (s2l "width") (s2l "height")) with false.
    change (str_eqb (s2l "width") (s2l "width")) with true. cbv iota.
    unfold de_usize.
    assert (L1 : (h <=? u64_max) = true) by (apply N.leb_le; exact Hh).
    assert (L2 : (w <=? u64_max) = true) by (apply N.leb_le; exact Hw).
    rewrite L1, L2. reflexivity. }
  rewrite S1. reflexivity.
Qed.

Lemma step_channels c r acc : channels_ok c = true ->
  image_fields ((s2l "channels", JNum (NU c)) :: r) acc
  = image_fields r {| a_size := a_size acc; a_data := a_data acc; a_channels := c |}.
Proof.
  intros Hc. cbn [image_fields].
  change (str_eqb (s2l "channels") (s2l "data")) with false.
  change (str_eqb (s2l "channels") (s2l "channels")) with true. cbv iota.
  unfold de_usize.
  assert (L : (c <=? u64_max) = true).
  { apply N.leb_le. unfold channels_ok in Hc. unfold u64_max. lia. }
  rewrite L, Hc. reflexivity.
Qed.

Lemma step_data data r acc : bytes_ok data = true ->
  image_fields ((s2l "data", JStr (rfc4648 data)) :: r) acc
  = image_fields r {| a_size := a_size acc; a_data := a_data acc ++ data; a_channels := a_channels acc |}.
Proof.
  intros Hb. cbn [image_fields].
  change (str_eqb (s2l "data") (s2l "data")) with true. cbv iota. cbn [de_str].
  rewrite utf8_encode_ascii by apply rfc4648_ascii.
  rewrite decode_all_roundtrip by exact Hb. reflexivity.
Qed.

Lemma perm3 {A} (m : list A) a b c :
  Permutation m [a; b; c] ->
  m = [a; b; c] \/ m = [a; c; b] \/ m = [b; a; c] \/ m = [b; c; a] \/ m = [c; a; b] \/ m = [c; b; a].
Proof.
  intros P. pose proof (Permutation_length P) as L.
  destruct m as [|x [|y [|z [|? ?]]]]; cbn in L; try discriminate.
  assert (Hx : In x [a; b; c]) by (apply (Permutation_in _ P); left; reflexivity).
  destruct Hx as [<-|[<-|[<-|[]]]].
  - apply Permutation_cons_inv in P. apply Permutation_length_2_inv in P as [E|E]; injection E as -> ->; auto.
  - assert (P' : Permutation (b :: [y; z]) (b :: [a; c])).
    { eapply perm_trans; [exact P|]. apply perm_swap. }
    apply Permutation_cons_inv in P'. apply Permutation_length_2_inv in P' as [E|E]; injection E as -> ->; auto 10.
  - assert (P' : Permutation (c :: [y; z]) (c :: [a; b])).
    { eapply perm_trans; [exact P|]. eapply perm_trans; [apply perm_skip, perm_swap | apply perm_swap]. }
    apply Permutation_cons_inv in P'. apply Permutation_length_2_inv in P' as [E|E]; injection E as -> ->; auto 10.
Qed.

(* a document with the three fields in any order *)
Theorem image_any_order c h w data (m : list (str * json)) :
  channels_ok c = true -> bytes_ok data = true ->
  h <= u64_max -> w <= u64_max ->
  N.of_nat (length data) = h * w * c -> h * w * c < usize_lim ->
  Permutation m [(s2l "size", ser_size (h, w)); (s2l "channels", JNum (NU c)); (s2l "data", JStr (rfc4648 data))] ->
  image_de (JObj m) = Ok {| i_h := h; i_w := w; i_pix := pixels_of c data |}.
Proof.
  intros Hc Hb Hh Hw Hlen Hlim P.
  assert (F : image_fields m acc0 = Ok {| a_size := Some (h, w); a_data := data; a_channels := c |}).
  { apply perm3 in P as [->|[->|[->|[->|[->| ->]]]]];
      repeat (first [rewrite step_size by assumption | rewrite step_channels by assumption
                    | rewrite step_data by assumption]);
      cbn [image_fields a_size a_data a_channels acc0 app]; reflexivity. }
  unfold image_de, image_de_gen. rewrite F. cbn [bind].
  apply image_finish_layout; assumption.
Qed.
