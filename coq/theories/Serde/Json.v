(* serde_json::Value as the hand-written visitors of the crate see it (C19).

   An object is the sequence of (key, value) pairs the MapAccess hands to a
   visitor, in document order and with repeats (a streaming deserializer
   delivers repeated keys; a serde_json::Value map delivers each key once).
   Numbers: what matters to the visitors is which of serde_json's three
   number classes a number is in (u64 / negative i64 / f64). *)
From Coq Require Import List NArith ZArith Bool String Ascii.
From SNT Require Import Base.Report Keys.KeyParse.
Import ListNotations.
Local Open Scope N_scope.

Inductive jnum :=
| NU (n : N)        (* non-negative integer that fits u64 *)
| NI (z : Z)        (* negative integer that fits i64 *)
| NF (id : N).      (* any other number: an f64; the payload only identifies it *)

Inductive json :=
| JNull
| JBool (b : bool)
| JNum (n : jnum)
| JStr (s : str)
| JArr (l : list json)
| JObj (m : list (str * json)).

Definition u64_max : N := 18446744073709551615.

(* usize::deserialize: visit_u64 only *)
Definition de_usize (j : json) : option N :=
  match j with
  | JNum (NU n) => if n <=? u64_max then Some n else None
  | _ => None
  end.

Definition de_str (j : json) : option str :=
  match j with JStr s => Some s | _ => None end.

Definition de_bool (j : json) : option bool :=
  match j with JBool b => Some b | _ => None end.

(* serde_json::Value::get(key) on an object: the entry for the key (a Value map has unique keys;
   for a list with repeats serde_json keeps the last one when it builds the map) *)
Fixpoint obj_get (m : list (str * json)) (k : str) : option json :=
  match m with
  | [] => None
  | (k', v) :: r =>
      match obj_get r k with
      | Some v' => Some v'
      | None => if str_eqb k' k then Some v else None
      end
  end.

Definition jget (j : json) (k : str) : option json :=
  match j with JObj m => obj_get m k | _ => None end.

(* str::as_bytes *)
Definition utf8_char (c : N) : list N :=
  if c <? 128 then [c]
  else if c <? 2048 then [192 + c / 64; 128 + c mod 64]
  else if c <? 65536 then [224 + c / 4096; 128 + (c / 64) mod 64; 128 + c mod 64]
  else [240 + c / 262144; 128 + (c / 4096) mod 64; 128 + (c / 64) mod 64; 128 + c mod 64].

Definition utf8_encode (s : str) : list N := flat_map utf8_char s.

(* #[derive(Deserialize)] struct Size { height: usize, width: usize }:
   a map (unknown keys ignored, a repeated field is an error, both fields
   required) or a sequence of exactly two numbers *)
Fixpoint size_fields (m : list (str * json)) (h w : option N) : option (N * N) :=
  match m with
  | [] => match h, w with Some a, Some b => Some (a, b) | _, _ => None end
  | (k, v) :: r =>
      if str_eqb k (s2l "height") then
        match h with
        | Some _ => None
        | None => match de_usize v with Some a => size_fields r (Some a) w | None => None end
        end
      else if str_eqb k (s2l "width") then
        match w with
        | Some _ => None
        | None => match de_usize v with Some b => size_fields r h (Some b) | None => None end
        end
      else size_fields r h w
  end.

Definition de_size (j : json) : option (N * N) :=
  match j with
  | JObj m => size_fields m None None
  | JArr [a; b] =>
      match de_usize a, de_usize b with
      | Some x, Some y => Some (x, y)
      | _, _ => None
      end
  | _ => None
  end.

(* Serialize for Size (derive) *)
Definition ser_size (s : N * N) : json :=
  JObj [(s2l "height", JNum (NU (fst s))); (s2l "width", JNum (NU (snd s)))].
