(* C19: a face printed as text parses back to the same face; sizes survive
   to_value / from_value; the face parser is total. *)
From Coq Require Import String.
From Coq Require Import List NArith Bool Lia ZifyN ZifyBool ZifyNat Arith.
From SNT Require Import Base.Outcome Base.Report Base.Sweep Keys.KeyParse Keys.KeyParseProofs
  Serde.Json Serde.ImageDe Serde.ImageProofs Serde.FaceStr.
Import ListNotations.
Local Open Scope N_scope.

Arguments N.add : simpl never.
Arguments N.sub : simpl never.
Arguments N.mul : simpl never.
Arguments N.eqb : simpl never.
Arguments N.ltb : simpl never.
Arguments N.leb : simpl never.

(* ------------------------------------------------------------ characters of printed pieces *)

(* no separator, no '=', no '/', ASCII, not white space *)
Definition piece_char (ch : N) : bool :=
  negb (ch =? 44) && negb (ch =? 61) && negb (ch =? 47) && (ch <? 128) && negb (is_ws ch).

Lemma piece_char_spec ch : piece_char ch = true ->
  ch <> 44 /\ ch <> 61 /\ ch <> 47 /\ ch < 128 /\ is_ws ch = false.
Proof.
  unfold piece_char. rewrite !andb_true_iff, !negb_true_iff, !N.eqb_neq, N.ltb_lt. tauto.
Qed.

Definition byte_check (b : N) : bool :=
  forallb piece_char (hex2 b)
  && match hex_val (hex_digit (b / 16)), hex_val (hex_digit (b mod 16)) with
     | Some x, Some y => x * 16 + y =? b
     | _, _ => false
     end.

Lemma byte_check_all : forall b, b < 256 -> byte_check b = true.
Proof.
  assert (H : sweep1 256 byte_check = true) by (vm_compute; reflexivity).
  intros b Hb. exact (sweep1_sound _ _ H b Hb).
Qed.

Lemma hex_pairs_hex2 b rest :
  b < 256 ->
  hex_pairs (hex2 b ++ rest) = match hex_pairs rest with Some l => Some (b :: l) | None => None end.
Proof.
  intros Hb. pose proof (byte_check_all b Hb) as C. unfold byte_check in C.
  apply andb_true_iff in C as [_ C]. unfold hex2. cbn [app hex_pairs].
  destruct (hex_val (hex_digit (b / 16))) as [x|]; [|discriminate].
  destruct (hex_val (hex_digit (b mod 16))) as [y|]; [|discriminate].
  apply N.eqb_eq in C. rewrite C. reflexivity.
Qed.

Lemma hex2_chars b : b < 256 -> forallb piece_char (hex2 b) = true.
Proof.
  intros Hb. pose proof (byte_check_all b Hb) as C. unfold byte_check in C.
  apply andb_true_iff in C as [C _]. exact C.
Qed.

Lemma rgba_print_chars c : rgba_ok c = true -> forallb piece_char (rgba_print c) = true.
Proof.
  destruct c as [[[r g] b] a]. unfold rgba_ok. intros H.
  repeat (apply andb_true_iff in H as [H ?]).
  unfold rgba_print. rewrite !forallb_app. cbn [forallb].
  rewrite !hex2_chars by lia.
  destruct (a =? 255); [|rewrite hex2_chars by lia]; reflexivity.
Qed.

Lemma piece_char_utf8 s : forallb piece_char s = true -> utf8_len s = N.of_nat (length s).
Proof.
  induction s as [|c s IH]; [reflexivity|]. cbn [forallb utf8_len fold_right length].
  rewrite andb_true_iff. intros [Hc Hs]. fold (utf8_len s). rewrite (IH Hs).
  destruct (piece_char_spec c Hc) as [_ [_ [_ [Hlt _]]]].
  unfold len_utf8. apply N.ltb_lt in Hlt. rewrite Hlt. lia.
Qed.

Lemma piece_char_no c s : forallb piece_char s = true ->
  (c = 44 \/ c = 61 \/ c = 47) -> existsb (N.eqb c) s = false.
Proof.
  intros H Hc. induction s as [|x s IH]; [reflexivity|].
  cbn [forallb existsb] in *. apply andb_true_iff in H as [Hx Hs]. rewrite (IH Hs), orb_false_r.
  destruct (piece_char_spec x Hx) as [N1 [N2 [N3 _]]].
  apply N.eqb_neq. destruct Hc as [->|[->| ->]]; congruence.
Qed.

Lemma piece_char_not_In c s : forallb piece_char s = true ->
  (c = 44 \/ c = 61 \/ c = 47) -> ~ In c s.
Proof.
  intros H Hc Hin. pose proof (piece_char_no c s H Hc) as E.
  assert (X : existsb (N.eqb c) s = true) by (apply existsb_exists; exists c; split; [exact Hin | apply N.eqb_refl]).
  congruence.
Qed.

(* ------------------------------------------------------------ RGBA *)

Theorem rgba_roundtrip (o : str -> option rgba) (c : rgba) :
  rgba_ok c = true -> rgba_parse o (rgba_print c) = Some c.
Proof.
  intros Hok. pose proof (rgba_print_chars c Hok) as Hch.
  unfold rgba_parse. rewrite (piece_char_no 47 _ Hch) by auto.
  rewrite (piece_char_utf8 _ Hch).
  destruct c as [[[r g] b] a]. unfold rgba_ok in Hok.
  repeat (apply andb_true_iff in Hok as [Hok ?]).
  unfold rgba_print in *. cbn [app starts_with tl]. rewrite N.eqb_refl. cbn [andb].
  destruct (a =? 255) eqn:Ea.
  - apply N.eqb_eq in Ea. subst a. rewrite app_nil_r.
    assert (L : N.of_nat (length (35 :: hex2 r ++ hex2 g ++ hex2 b)) = 7) by reflexivity.
    rewrite L. change ((7 =? 7) || (7 =? 9)) with true. cbv iota.
    rewrite !hex_pairs_hex2 by lia. replace (hex2 b) with (hex2 b ++ []) by apply app_nil_r.
    rewrite hex_pairs_hex2 by lia. reflexivity.
  - assert (L : N.of_nat (length (35 :: hex2 r ++ hex2 g ++ hex2 b ++ hex2 a)) = 9) by reflexivity.
    rewrite L. change ((9 =? 7) || (9 =? 9)) with true. cbv iota.
    rewrite !hex_pairs_hex2 by lia. replace (hex2 a) with (hex2 a ++ []) by apply app_nil_r.
    rewrite hex_pairs_hex2 by lia. reflexivity.
Qed.

(* ------------------------------------------------------------ trimming and '=' *)

Lemma trim_start_id s : match s with c :: _ => is_ws c = false | [] => True end -> trim_start s = s.
Proof. destruct s as [|c r]; [reflexivity|]. cbn. intros ->. reflexivity. Qed.

Lemma trim_id s : forallb piece_char s = true -> trim s = s.
Proof.
  intros H. unfold trim.
  assert (Hd : forall l, forallb piece_char l = true -> trim_start l = l).
  { intros l Hl. apply trim_start_id. destruct l as [|c r]; [exact I|]. cbn [forallb] in Hl.
    apply andb_true_iff in Hl as [Hc _]. apply (piece_char_spec c Hc). }
  rewrite (Hd s H).
  assert (Hr : forallb piece_char (rev s) = true).
  { apply forallb_forall. intros x Hx. apply in_rev in Hx. rewrite forallb_forall in H. apply H, Hx. }
  rewrite (Hd _ Hr). apply rev_involutive.
Qed.

Lemma split_eq_noeq s : forallb piece_char s = true -> split_eq s = (s, None).
Proof.
  induction s as [|c s IH]; [reflexivity|]. cbn [forallb split_eq]. rewrite andb_true_iff. intros [Hc Hs].
  rewrite (IH Hs). destruct (piece_char_spec c Hc) as [_ [Hne _]].
  apply N.eqb_neq in Hne. rewrite Hne. reflexivity.
Qed.

Lemma split_eq_app k v : forallb piece_char k = true -> split_eq (k ++ 61 :: v) = (k, Some v).
Proof.
  induction k as [|c k IH]; [reflexivity|]. cbn [forallb app split_eq]. rewrite andb_true_iff. intros [Hc Hk].
  rewrite (IH Hk). destruct (piece_char_spec c Hc) as [_ [Hne _]].
  apply N.eqb_neq in Hne. rewrite Hne. reflexivity.
Qed.

(* ------------------------------------------------------------ steps *)

Section Face.
  Variable o : str -> option rgba.

  Local Notation face_step := (face_step o attrs_or).
  Local Notation face_fold := (face_fold o attrs_or).
  Local Notation face_parse := (face_parse o).

  Lemma face_fold_app l1 l2 f :
    face_fold (l1 ++ l2) f = bind (face_fold l1 f) (face_fold l2).
  Proof.
    revert f. induction l1 as [|p l1 IH]; intros f; [reflexivity|].
    cbn [app FaceStr.face_fold]. destruct (FaceStr.face_step o attrs_or f p); cbn [bind]; try reflexivity. apply IH.
  Qed.

  Lemma step_fg f c : rgba_ok c = true ->
    face_step f (s2l "fg=" ++ rgba_print c)
    = Ok {| f_fg := Some c; f_bg := f_bg f; f_attrs := f_attrs f |}.
  Proof.
    intros Hc. pose proof (rgba_print_chars c Hc) as Hch. unfold FaceStr.face_step.
    change (s2l "fg=" ++ rgba_print c) with ([102; 103] ++ 61 :: rgba_print c).
    rewrite split_eq_app by reflexivity. rewrite (trim_id (rgba_print c) Hch).
    change (trim [102; 103]) with [102; 103].
    change (str_eqb [102; 103] (s2l "fg")) with true. cbv iota.
    rewrite rgba_roundtrip by exact Hc. reflexivity.
  Qed.

  Lemma step_bg f c : rgba_ok c = true ->
    face_step f (s2l "bg=" ++ rgba_print c)
    = Ok {| f_fg := f_fg f; f_bg := Some c; f_attrs := f_attrs f |}.
  Proof.
    intros Hc. pose proof (rgba_print_chars c Hc) as Hch. unfold FaceStr.face_step.
    change (s2l "bg=" ++ rgba_print c) with ([98; 103] ++ 61 :: rgba_print c).
    rewrite split_eq_app by reflexivity. rewrite (trim_id (rgba_print c) Hch).
    change (trim [98; 103]) with [98; 103].
    change (str_eqb [98; 103] (s2l "fg")) with false.
    change (str_eqb [98; 103] (s2l "bg")) with true. cbv iota.
    rewrite rgba_roundtrip by exact Hc. reflexivity.
  Qed.

  (* the attribute names, at the level of the bits alone *)
  Definition attr_fold (names : list str) (a : N) : option N :=
    fold_left (fun acc nm => match acc, lookup_lit attr_parse_table nm with
                             | Some x, Some b => Some (attrs_or x b)
                             | _, _ => None
                             end) names (Some a).

  Definition all_names : list str := map snd underline_names ++ map snd flag_names.

  Definition name_check (nm : str) : bool :=
    forallb piece_char nm && negb (str_eqb nm (s2l "fg")) && negb (str_eqb nm (s2l "bg"))
    && match lookup_lit attr_parse_table nm with Some _ => true | None => false end.

  Lemma all_names_check : forallb name_check all_names = true.
  Proof. vm_compute. reflexivity. Qed.

  Lemma step_name f nm : In nm all_names ->
    exists b, lookup_lit attr_parse_table nm = Some b
              /\ face_step f nm = Ok {| f_fg := f_fg f; f_bg := f_bg f; f_attrs := attrs_or (f_attrs f) b |}.
  Proof.
    intros Hin. pose proof all_names_check as C. rewrite forallb_forall in C. specialize (C nm Hin).
    unfold name_check in C. repeat (apply andb_true_iff in C as [C ?]).
    destruct (lookup_lit attr_parse_table nm) as [b|] eqn:L; [|discriminate].
    exists b. split; [reflexivity|]. unfold FaceStr.face_step.
    rewrite (split_eq_noeq nm C), (trim_id nm C).
    apply negb_true_iff in H0, H1. rewrite H0, H1, L. reflexivity.
  Qed.

  Lemma fold_names names : forall f a,
    Forall (fun nm => In nm all_names) names ->
    attr_fold names (f_attrs f) = Some a ->
    face_fold names f = Ok {| f_fg := f_fg f; f_bg := f_bg f; f_attrs := a |}.
  Proof.
    induction names as [|nm names IH]; intros f a Hall H.
    - cbn in H. injection H as <-. destruct f; reflexivity.
    - inversion Hall as [|x l Hnm Hrest]; subst.
      destruct (step_name f nm Hnm) as [b [L S]].
      cbn [FaceStr.face_fold]. rewrite S. cbn [bind].
      unfold attr_fold in H. cbn [fold_left] in H. rewrite L in H.
      rewrite (IH _ a Hrest); [reflexivity|]. exact H.
  Qed.

  Lemma attr_names_in bits : Forall (fun nm => In nm all_names) (attr_names bits).
  Proof.
    unfold attr_names, all_names. apply Forall_forall. intros nm H. apply in_app_iff in H as [H|H]; apply in_app_iff.
    - left. apply in_map_iff in H as [p [<- Hp]]. apply filter_In in Hp as [Hp _]. apply in_map, Hp.
    - right. apply in_map_iff in H as [p [<- Hp]]. apply filter_In in Hp as [Hp _]. apply in_map, Hp.
  Qed.

  Lemma attr_fold_names : forall bits, attrs_ok bits = true -> attr_fold (attr_names bits) 0 = Some bits.
  Proof.
    assert (H : sweep1 256 (fun bits => if attrs_ok bits
                                        then match attr_fold (attr_names bits) 0 with Some b => b =? bits | None => false end
                                        else true) = true) by (vm_compute; reflexivity).
    intros bits Hok. pose proof (sweep1_sound _ _ H bits) as S. cbn beta in S. rewrite Hok in S.
    assert (Hlt : bits < 256).
    { unfold attrs_ok in Hok. apply andb_true_iff in Hok as [_ Hok]. apply N.ltb_lt, Hok. }
    specialize (S Hlt). destruct (attr_fold (attr_names bits) 0) as [b|]; [|discriminate].
    apply N.eqb_eq in S. subst. reflexivity.
  Qed.

  Lemma names_chars bits : Forall (fun p => ~ In 44 p) (attr_names bits).
  Proof.
    pose proof (attr_names_in bits) as A. rewrite Forall_forall in *. intros nm H. specialize (A nm H).
    pose proof all_names_check as C. rewrite forallb_forall in C. specialize (C nm A).
    unfold name_check in C. repeat (apply andb_true_iff in C as [C ?]).
    apply (piece_char_not_In 44 nm C). auto.
  Qed.

  (* ---------------------------------------------------------- the round trip *)

  Theorem face_roundtrip (f : face) : face_ok f = true -> face_parse (face_print f) = Ok f.
  Proof.
    destruct f as [fg bg attrs]. unfold face_ok. cbn [f_fg f_bg f_attrs].
    intros H. apply andb_true_iff in H as [H Ha]. apply andb_true_iff in H as [Hfg Hbg].
    unfold FaceStr.face_parse, face_parse_gen, face_print, face_pieces. cbn [f_fg f_bg f_attrs].
    set (P1 := match fg with Some c => [s2l "fg=" ++ rgba_print c] | None => [] end).
    set (P2 := match bg with Some c => [s2l "bg=" ++ rgba_print c] | None => [] end).
    assert (F1 : Forall (fun p => ~ In 44 p) P1).
    { unfold P1. destruct fg as [c|]; constructor; [|constructor].
      intros Hin. apply in_app_iff in Hin as [Hin|Hin].
      - cbn in Hin. repeat (destruct Hin as [Hin|Hin]; [discriminate|]). exact Hin.
      - apply (piece_char_not_In 44 _ (rgba_print_chars c Hfg)); [auto | exact Hin]. }
    assert (F2 : Forall (fun p => ~ In 44 p) P2).
    { unfold P2. destruct bg as [c|]; constructor; [|constructor].
      intros Hin. apply in_app_iff in Hin as [Hin|Hin].
      - cbn in Hin. repeat (destruct Hin as [Hin|Hin]; [discriminate|]). exact Hin.
      - apply (piece_char_not_In 44 _ (rgba_print_chars c Hbg)); [auto | exact Hin]. }
    assert (Fold : face_fold (P1 ++ P2 ++ attr_names attrs) face_default
                   = Ok {| f_fg := fg; f_bg := bg; f_attrs := attrs |}).
    { assert (E1 : face_fold P1 face_default = Ok {| f_fg := fg; f_bg := None; f_attrs := 0 |}).
      { unfold P1. destruct fg as [c|]; [|reflexivity]. cbn [FaceStr.face_fold]. rewrite step_fg by exact Hfg. reflexivity. }
      rewrite face_fold_app, E1. cbn [bind].
      assert (E2 : face_fold P2 {| f_fg := fg; f_bg := None; f_attrs := 0 |} = Ok {| f_fg := fg; f_bg := bg; f_attrs := 0 |}).
      { unfold P2. destruct bg as [c|]; [|reflexivity]. cbn [FaceStr.face_fold]. rewrite step_bg by exact Hbg. reflexivity. }
      rewrite face_fold_app, E2. cbn [bind].
      apply (fold_names _ {| f_fg := fg; f_bg := bg; f_attrs := 0 |} attrs (attr_names_in attrs)).
      apply attr_fold_names, Ha. }
    destruct (P1 ++ P2 ++ attr_names attrs) as [|p ps] eqn:E.
    - (* nothing to print: the empty string is the default face *)
      cbn [join split]. cbn in Fold. injection Fold as <- <- <-. reflexivity.
    - rewrite <- E in *. rewrite split_join.
      + exact Fold.
      + rewrite E. discriminate.
      + apply Forall_app. split; [exact F1|]. apply Forall_app. split; [exact F2 | apply names_chars].
  Qed.

  (* ---------------------------------------------------------- what the parser returns *)

  Lemma attrs_or_closed : forall a b, attrs_ok a = true -> In b (map snd attr_parse_table) ->
    attrs_ok (attrs_or a b) = true.
  Proof.
    assert (H : sweep1 256 (fun a => if attrs_ok a
                                     then forallb (fun b => attrs_ok (attrs_or a b)) (map snd attr_parse_table)
                                     else true) = true) by (vm_compute; reflexivity).
    intros a b Ha Hb. pose proof (sweep1_sound _ _ H a) as S. cbn beta in S. rewrite Ha in S.
    assert (Hlt : a < 256).
    { unfold attrs_ok in Ha. apply andb_true_iff in Ha as [_ Ha]. apply N.ltb_lt, Ha. }
    specialize (S Hlt). rewrite forallb_forall in S. apply S, Hb.
  Qed.

  Lemma hex_val_small c x : hex_val c = Some x -> x < 16.
  Proof.
    unfold hex_val. destruct ((65 <=? c) && (c <=? 70)) eqn:E1; [intros H; injection H as <-; lia|].
    destruct ((97 <=? c) && (c <=? 102)) eqn:E2; [intros H; injection H as <-; lia|].
    destruct ((48 <=? c) && (c <=? 57)) eqn:E3; [intros H; injection H as <-; lia | discriminate].
  Qed.

  Lemma hex_pairs_bytes_n : forall (n : nat) cs l, (length cs <= n)%nat ->
    hex_pairs cs = Some l -> Forall (fun b => b < 256) l.
  Proof.
    induction n as [|n IH]; intros cs l Hn.
    - destruct cs; [|cbn in Hn; lia]. cbn. intros H. injection H as <-. constructor.
    - destruct cs as [|a [|b r]]; cbn [hex_pairs]; try discriminate.
      + intros H. injection H as <-. constructor.
      + destruct (hex_val a) as [x|] eqn:Ea; [|discriminate]. destruct (hex_val b) as [y|] eqn:Eb; [|discriminate].
        destruct (hex_pairs r) as [rest|] eqn:Er; [|discriminate]. intros H. injection H as <-.
        constructor; [|apply (IH r rest); [cbn in Hn; lia | exact Er]].
        pose proof (hex_val_small _ _ Ea). pose proof (hex_val_small _ _ Eb). lia.
  Qed.

  Lemma hex_pairs_bytes cs l : hex_pairs cs = Some l -> Forall (fun b => b < 256) l.
  Proof. apply (hex_pairs_bytes_n (length cs)). lia. Qed.

  (* the external colour parser (names, /alpha) returns byte colours *)
  Definition oracle_ok : Prop := forall s c, o s = Some c -> rgba_ok c = true.

  Lemma rgba_parse_ok s c : oracle_ok -> rgba_parse o s = Some c -> rgba_ok c = true.
  Proof.
    intros Ho. unfold rgba_parse. destruct (existsb (N.eqb 47) s); [apply Ho|].
    destruct (starts_with 35 s && ((utf8_len s =? 7) || (utf8_len s =? 9))); [|apply Ho].
    destruct (hex_pairs (tl s)) as [l|] eqn:E; [|discriminate]. pose proof (hex_pairs_bytes _ _ E) as F.
    destruct l as [|r [|g [|b [|a [|? ?]]]]]; try discriminate; intros H; injection H as <-;
      unfold rgba_ok; repeat (match goal with H : Forall _ (_ :: _) |- _ => inversion H; clear H; subst end);
      repeat (apply andb_true_iff; split); apply N.ltb_lt; try assumption; lia.
  Qed.

  Lemma face_step_ok f p f' : oracle_ok -> face_ok f = true -> face_step f p = Ok f' -> face_ok f' = true.
  Proof.
    intros Ho Hf. unfold face_ok in *. apply andb_true_iff in Hf as [Hf Ha]. apply andb_true_iff in Hf as [Hfg Hbg].
    unfold FaceStr.face_step. destruct (split_eq p) as [k v].
    destruct (str_eqb (trim k) (s2l "fg")).
    { destruct (rgba_parse o _) as [c|] eqn:E; [|discriminate]. intros H. injection H as <-. cbn [f_fg f_bg f_attrs].
      cbn [orgba_ok]. rewrite (rgba_parse_ok _ _ Ho E), Hbg, Ha. reflexivity. }
    destruct (str_eqb (trim k) (s2l "bg")).
    { destruct (rgba_parse o _) as [c|] eqn:E; [|discriminate]. intros H. injection H as <-. cbn [f_fg f_bg f_attrs].
      cbn [orgba_ok]. rewrite (rgba_parse_ok _ _ Ho E), Hfg, Ha. reflexivity. }
    destruct (lookup_lit attr_parse_table (trim k)) as [b|] eqn:L.
    { intros H. injection H as <-. cbn [f_fg f_bg f_attrs]. rewrite Hfg, Hbg. cbn [andb].
      apply attrs_or_closed; [exact Ha|]. apply lookup_lit_In in L. apply in_map_iff. exists (trim k, b). split; [reflexivity | exact L]. }
    destruct (trim k); [|discriminate]. intros H. injection H as <-. rewrite Hfg, Hbg, Ha. reflexivity.
  Qed.

  Lemma face_fold_ok l : forall f f', oracle_ok -> face_ok f = true -> face_fold l f = Ok f' -> face_ok f' = true.
  Proof.
    induction l as [|p l IH]; intros f f' Ho Hf; cbn [FaceStr.face_fold].
    - intros H. injection H as <-. exact Hf.
    - destruct (FaceStr.face_step o attrs_or f p) as [f1| | |] eqn:E; cbn [bind]; try discriminate.
      apply (IH _ _ Ho). apply (face_step_ok f p f1 Ho Hf E).
  Qed.

  (* a face the parser produced prints to text that parses back to the same face *)
  Theorem face_parsed_roundtrip s f : oracle_ok -> face_parse s = Ok f -> face_parse (face_print f) = Ok f.
  Proof.
    intros Ho H. apply face_roundtrip. unfold FaceStr.face_parse, face_parse_gen in H.
    assert (D : face_ok face_default = true) by reflexivity.
    exact (face_fold_ok _ _ _ Ho D H).
  Qed.

  (* ---------------------------------------------------------- totality *)

  Lemma face_step_total f p : no_panic (face_step f p).
  Proof.
    unfold FaceStr.face_step. destruct (split_eq p) as [k v].
    destruct (str_eqb (trim k) (s2l "fg")); [destruct (rgba_parse o _); exact I|].
    destruct (str_eqb (trim k) (s2l "bg")); [destruct (rgba_parse o _); exact I|].
    destruct (lookup_lit attr_parse_table (trim k)); [exact I|]. destruct (trim k); exact I.
  Qed.

  Lemma face_fold_total l : forall f, no_panic (face_fold l f).
  Proof.
    induction l as [|p l IH]; intros f; [exact I|]. cbn [FaceStr.face_fold].
    pose proof (face_step_total f p) as T. destruct (FaceStr.face_step o attrs_or f p); try contradiction; cbn [bind]; [apply IH | exact I].
  Qed.

  Theorem face_parse_total s : no_panic (face_parse s).
  Proof. apply face_fold_total. Qed.

End Face.

(* ------------------------------------------------------------ sizes *)

Theorem size_roundtrip h w : h <= u64_max -> w <= u64_max -> de_size (ser_size (h, w)) = Some (h, w).
Proof.
  intros Hh Hw. unfold ser_size, de_size. cbn [fst snd size_fields].
  change (str_eqb (s2l "height") (s2l "height")) with true.
  change (str_eqb (s2l "width") (s2l "height")) with false.
  change (str_eqb (s2l "width") (s2l "width")) with true. cbv iota.
  unfold de_usize.
  assert (L1 : (h <=? u64_max) = true) by (apply N.leb_le; exact Hh).
  assert (L2 : (w <=? u64_max) = true) by (apply N.leb_le; exact Hw).
  rewrite L1, L2. reflexivity.
Qed.
