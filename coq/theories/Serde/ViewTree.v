(* C19, last clause: the view a JSON document deserialises to, as a view tree of the C10 model
   (View/ViewModel.v), so that C10's totality theorems (layout and render never panic) apply to it.

   `vtree_builders` instantiates the constructors of Serde/ViewDe.v `view_gen`:
     text         -> VText          flex      -> VFlex        container -> VContainer
     glyph        -> VGlyph         image     -> VImage       tag       -> VTag
     ref          -> VRef (what the cache holds for it, if anything)
     a type with a registered handler -> whatever view the handler returns
     trace-layout -> the inner view (TraceLayout::layout / render delegate to it on the same node)
     image_ascii  -> VImageAscii
   The CONTENT of the nodes (cells of a text, parsed faces, alignment, flex factors, margins, ids)
   comes from arbitrary functions of the JSON node (`content`): C10's theorems hold for every
   view tree, so nothing depends on them.  What is fixed is the SHAPE: which node has which
   children. *)
From Coq Require Import String.
From Coq Require Import List NArith ZArith Bool Lia.
From SNT Require Import Surface.Bounds Surface.Shape Surface.ShapeProofs
  Render.CellLayout Render.Writer Render.WriterFrame View.ViewModel View.LayoutProofs Props.C10.
(* own modules last: their names (json constructors, i64_max ...) take precedence *)
From SNT Require Import Base.Outcome Base.Report Keys.KeyParse Serde.Json Serde.ImageDe Serde.ImageProofs
  Serde.ViewDe Serde.ViewProofs.
Import ListNotations.
Local Open Scope N_scope.

Record content := {
  cells_of : json -> list ccell * bool;        (* Text: cells and wraps *)
  axis_of : json -> axis;
  justify_of : json -> justify;
  flex_of : json -> option positive;           (* a child's flex factor, if it is a flex child *)
  cface_of : json -> CellLayout.face;
  align_of : json -> align;
  margins_of : json -> margins;
  tag_of : json -> N;
  glyph_id : json -> N;
  glyph_cells_of : json -> nat * nat;          (* the glyph's size in cells (the `size` attribute, default 1 x 3) *)
  fallback_of : json -> list N;
  image_id : image -> N;
  ascii_color : image -> N;
  cache_of : json -> option vtree;            (* what the ViewCache holds for a ref node, if anything *)
  custom_of : json -> vtree                   (* what a registered handler returns *)
}.

Section Tree.
  Variable orc : N -> json -> bool.
  Variable frgba : str -> option rgba.
  Variable K : content.
  Variable handlers : str -> bool.

  Definition attr {A} (j : json) (k : string) (f : json -> A) (d : A) : A :=
    match jget j (s2l k) with Some v => f v | None => d end.

  Definition size_attr (j : json) (d : N * N) : N * N :=
    match jget j (s2l "size") with
    | Some v => match de_size v with Some s => s | None => d end
    | None => d
    end.

  (* flex.rs:268-300: a child with a "type" is a plain child (no factor, no face, default alignment
     = Shrink); otherwise a wrapper {flex, align, face, view} *)
  Definition flex_child (p : json * vtree) : fchild :=
    let '(c, x) := p in
    if is_some (jget c (s2l "type")) then (x, None, None, AShrink)
    else (x,
          match jget c (s2l "flex") with Some v => flex_of K v | None => None end,
          match jget c (s2l "face") with Some v => Some (cface_of K v) | None => None end,
          attr c "align" (align_of K) AShrink).

  Definition vtree_builders : builders vtree :=
    {| b_text := fun j => VText (fst (cells_of K j)) (snd (cells_of K j));
       b_flex := fun j kids =>
         VFlex (attr j "direction" (axis_of K) Hor) (attr j "justify" (justify_of K) JStart) (map flex_child kids);
       b_container := fun j x =>
         VContainer x (attr j "face" (cface_of K) face0)
                    (attr j "vertical" (align_of K) AShrink) (attr j "horizontal" (align_of K) AShrink)
                    (attr j "margins" (margins_of K) (mkM 0 0 0 0))
                    (fst (size_attr j (0, 0))) (snd (size_attr j (0, 0)));
       b_glyph := fun j =>
         VGlyph (glyph_id K j) (fst (glyph_cells_of K j)) (snd (glyph_cells_of K j)) (fallback_of K j);
       b_image := fun j img => VImage (image_id K img) (i_h img) (i_w img);
       b_ascii := fun _ img => Ok (VImageAscii (i_h img) (i_w img) (ascii_color K img));
       b_tag := fun j x => VTag (tag_of K j) x;
       b_ref := fun j => VRef (cache_of K j);
       b_trace := fun _ x => x;
       b_custom := fun j => custom_of K j |}.

  (* the view tree of a document *)
  Definition view_tree (k : vkind) (j : json) : outcome vtree := view_gen_kind orc frgba handlers vtree_builders k j.

  (* ---- coverage: whatever deserialises has a view tree *)

  Definition covered {T} (y : outcome T) : Prop := exists v, y = Ok v.

  Lemma bind_cov {A U} (x : outcome A) (f : A -> outcome unit) (g : A -> outcome U) :
    bind x f = Ok tt -> (forall a, x = Ok a -> f a = Ok tt -> covered (g a)) -> covered (bind x g)
  .
  Proof.
    destruct x as [a| | |]; cbn [bind]; try discriminate. intros H C. apply (C a eq_refl H).
  Qed.

  Lemma view_gen_covered : forall fuel j,
    view_gen orc frgba handlers (unit_builders) fuel j = Ok tt ->
    covered (view_gen orc frgba handlers vtree_builders fuel j).
  Proof.
    induction fuel as [|f IH]; intros j; [discriminate|].
    cbn [view_gen].
    destruct (match jget j (s2l "type") with Some (JStr t) => Some t | _ => None end) as [t|]; [|discriminate].
    destruct (str_eqb t (s2l "text")).
    { intros H. apply (bind_cov _ _ _ H). intros a _ _. eexists. reflexivity. }
    destruct (str_eqb t (s2l "trace-layout")).
    { destruct (jget j (s2l "view")) as [v|]; [|discriminate]. intros H.
      destruct (view_gen orc frgba handlers unit_builders f v) as [[]| | |] eqn:E; try discriminate.
      destruct (IH v E) as [x Ex]; rewrite Ex; cbn [bind]; eexists; reflexivity. }
    destruct (str_eqb t (s2l "flex")).
    { intros H. apply (bind_cov _ _ _ H). intros _ _ H1. apply (bind_cov _ _ _ H1). intros _ _ H2.
      destruct (jget j (s2l "children")) as [ch|]; [|eexists; reflexivity].
      destruct ch; try discriminate.
      (* the children loop *)
      match type of H2 with bind (map_out ?gu l) _ = _ => set (GU := gu) in * end.
      match goal with |- covered (bind (map_out ?gt l) _) => set (GT := gt) end.
      assert (Hg : forall c, GU c = Ok tt -> covered (GT c)).
      { intros c. unfold GU, GT. destruct (is_some (jget c (s2l "type"))); [apply IH|].
        intros Hc. apply (bind_cov _ _ _ Hc). intros _ _ Hc1. apply (bind_cov _ _ _ Hc1). intros _ _ Hc2.
        apply (bind_cov _ _ _ Hc2). intros _ _ Hc3.
        destruct (jget c (s2l "view")) as [v|]; [apply IH; exact Hc3 | discriminate]. }
      clearbody GU GT.
      assert (L : forall l0 ku, map_out GU l0 = Ok ku -> covered (map_out GT l0)).
      { induction l0 as [|c l0 IHl]; intros ku Hk; [eexists; reflexivity|].
        cbn [map_out] in *.
        destruct (GU c) as [[]| | |] eqn:E; try discriminate. cbn [bind] in Hk.
        destruct (map_out GU l0) as [k0| | |] eqn:E0; try discriminate.
        destruct (Hg c E) as [x Ex]; rewrite Ex; cbn [bind].
        destruct (IHl k0 eq_refl) as [y Ey]; rewrite Ey; cbn [bind]; eexists; reflexivity. }
      destruct (map_out GU l) as [ku| | |] eqn:EU; try discriminate.
      destruct (L l ku EU) as [y Ey]; rewrite Ey; cbn [bind]; eexists; reflexivity. }
    destruct (str_eqb t (s2l "container")).
    { intros H. apply (bind_cov _ _ _ H). intros _ _ H1. apply (bind_cov _ _ _ H1). intros _ _ H2.
      apply (bind_cov _ _ _ H2). intros _ _ H3. apply (bind_cov _ _ _ H3). intros _ _ H4.
      apply (bind_cov _ _ _ H4). intros _ _ H5.
      destruct (jget j (s2l "child")) as [v|]; [|discriminate].
      destruct (view_gen orc frgba handlers unit_builders f v) as [[]| | |] eqn:E; try discriminate.
      destruct (IH v E) as [x Ex]; rewrite Ex; cbn [bind]; eexists; reflexivity. }
    destruct (str_eqb t (s2l "glyph")).
    { intros H. apply (bind_cov _ _ _ H). intros a _ _. eexists. reflexivity. }
    destruct (str_eqb t (s2l "image")).
    { intros H. apply (bind_cov _ _ _ H). intros a _ _. eexists. reflexivity. }
    destruct (str_eqb t (s2l "image_ascii")).
    { intros H. apply (bind_cov _ _ _ H). intros a _ _. eexists. reflexivity. }
    destruct (str_eqb t (s2l "color")); [discriminate|].
    destruct (str_eqb t (s2l "tag")).
    { destruct (jget j (s2l "view")) as [v|]; [|discriminate].
      destruct (jget j (s2l "tag")); [|discriminate]. intros H.
      destruct (view_gen orc frgba handlers unit_builders f v) as [[]| | |] eqn:E; try discriminate.
      destruct (IH v E) as [x Ex]; rewrite Ex; cbn [bind]; eexists; reflexivity. }
    destruct (str_eqb t (s2l "ref")).
    { intros H. apply (bind_cov _ _ _ H). intros a _ _. eexists. reflexivity. }
    destruct (handlers t); [|discriminate]. intros _. eexists. reflexivity.
  Qed.

  Theorem view_tree_covers (k : vkind) (j : json) :
    view_de_kind orc frgba handlers k j = Ok tt -> exists v, view_tree k j = Ok v.
  Proof.
    unfold view_de_kind, view_tree. destruct k; cbn [view_gen_kind].
    - apply view_gen_covered.
    - intros H. apply (bind_cov _ _ _ H). intros a _ _. eexists. reflexivity.
    - intros H. apply (bind_cov _ _ _ H). intros a _ _. eexists. reflexivity.
  Qed.

  (* the last clause of C19 for every kind of view the C10 model has: the view tree of an accepted
     document lays out under every valid constraint and renders into every surface cut out of a
     canvas, without panic and without InvalidLayout, touching nothing outside the surface *)
  Theorem view_tree_layout_render (k : vkind) (j : json) (v : vtree) :
    view_tree k j = Ok v ->
    forall (H W : nat) (vc : vctx) (c : ct) (sh : shape) (w : window) (s : rst),
      (Z.of_nat (Nat.max H W) <= Bounds.i64_max)%Z -> Valid c -> Rep H W sh w -> (H * W <= length (r_data s))%nat ->
      exists t s', layout vc v c = Ok t /\ render vc v t sh s = Ok s' /\ Frame sh (r_data s) (r_data s').
  Proof.
    intros _ H W vc c sh w s Hmax Hv Hrep Hlen.
    exact (C10_total H W vc v c sh w s Hmax Hv Hrep Hlen).
  Qed.

End Tree.

(* ---- the shape of a view tree as its layout tree shows it: one layout node per view node, flex has
   one child node per child, container, tag and a cached ref one; trace-layout adds no node *)
Inductive skel := SK (kids : list skel).

Fixpoint skel_eqb (a b : skel) : bool :=
  match a, b with
  | SK x, SK y =>
      (fix go (x y : list skel) : bool :=
         match x, y with
         | [], [] => true
         | p :: x', q :: y' => skel_eqb p q && go x' y'
         | _, _ => false
         end) x y
  end.

Fixpoint vskel (v : vtree) : skel :=
  match v with
  | VFlex _ _ children => SK (map (fun c => vskel (fst (fst (fst c)))) children)
  | VContainer child _ _ _ _ _ _ => SK [vskel child]
  | VTag _ child => SK [vskel child]
  | VFrame child _ => SK [vskel child]
  | VRef (Some t) => SK [vskel t]          (* as repaired: the cached view gets a node of its own *)
  | _ => SK []
  end.

(* the layout tree of the real view against the view tree.  A flex child WITH a flex factor is laid out
   only when room is left for it (flex.rs: `if major_remain > 0 && flex_total > 0.0`, `if child_major_max
   != 0`); otherwise its node stays the default one, without children, whatever is below it.  (An empty
   flex with a spreading justification takes the whole main axis, so this happens under any constraint.)
   Every other node is laid out: the shape is exactly `vskel`. *)
Fixpoint skel_fits (v : vtree) (k : skel) {struct v} : bool :=
  match v, k with
  | VFlex _ _ children, SK ks =>
      (fix go (cs : list fchild) (ks : list skel) {struct cs} : bool :=
         match cs, ks with
         | [], [] => true
         | c :: cs', q :: ks' =>
             (skel_fits (fst (fst (fst c))) q
              || match snd (fst (fst c)) with
                 | Some _ => skel_eqb q (SK [])
                 | None => false
                 end)
             && go cs' ks'
         | _, _ => false
         end) children ks
  | VContainer child _ _ _ _ _ _, SK [q] => skel_fits child q
  | VTag _ child, SK [q] => skel_fits child q
  | VFrame child _, SK [q] => skel_fits child q
  | VRef (Some t), SK [q] => skel_fits t q
  | VContainer _ _ _ _ _ _ _, _ | VTag _ _, _ | VFrame _ _, _ | VRef (Some _), _ => false
  | _, SK [] => true
  | _, _ => false
  end.

(* a content with nothing in it (shapes do not depend on the content) except a cache and a handler as
   the correspondence run installs them when asked to: uid 7 is a container around a text; the handler
   returns a text *)
Definition content0 (with_cache : bool) : content :=
  {| cells_of := fun _ => ([], true); axis_of := fun _ => Hor; justify_of := fun _ => JStart;
     (* which children have a flex factor: a positive number (flex.rs keeps finite positive factors only;
        the sign of a float is not part of the case, so a float counts as possibly positive) *)
     flex_of := fun v => match v with
                         | Json.JNum (NU 0) | Json.JNum (NI _) => None
                         | Json.JNum _ => Some 1%positive
                         | _ => None
                         end;
     cface_of := fun _ => face0; align_of := fun _ => AShrink;
     margins_of := fun _ => mkM 0 0 0 0; tag_of := fun _ => 0; glyph_id := fun _ => 0;
     glyph_cells_of := fun _ => (1%nat, 3%nat);
     fallback_of := fun _ => []; image_id := fun _ => 0; ascii_color := fun _ => 0;
     cache_of := fun j =>
       if with_cache then
         match jget j (s2l "ref") with
         | Some (Json.JNum (NU 7)) => Some (VContainer (VText [] true) face0 AShrink AShrink (mkM 0 0 0 0) 0 0)
         | _ => None
         end
       else None;
     custom_of := fun _ => VText [] true |}.
