(* Text forms of Face (src/face.rs:283-398) and of RGBA (rasterize::RGBA,
   Display and from_str_named — external code, modelled for the '#rrggbb[aa]'
   form; colour names and the '/alpha' suffix are an oracle).  C19. *)
From Coq Require Import List NArith Bool String.
From SNT Require Import Base.Outcome Base.Report Keys.KeyParse Serde.Json Serde.ImageDe.
Import ListNotations.
Local Open Scope N_scope.

(* ------------------------------------------------------------- RGBA *)

Definition hex_digit (d : N) : N := if d <? 10 then 48 + d else 87 + d.     (* {:x} *)
Definition hex2 (b : N) : str := [hex_digit (b / 16); hex_digit (b mod 16)]. (* {:02x} of a u8 *)

(* Display for RGBA *)
Definition rgba_print (c : rgba) : str :=
  let '(r, g, b, a) := c in
  [35] ++ hex2 r ++ hex2 g ++ hex2 b ++ (if a =? 255 then [] else hex2 a).

Definition hex_val (c : N) : option N :=
  if (65 <=? c) && (c <=? 70) then Some (c - 65 + 10)
  else if (97 <=? c) && (c <=? 102) then Some (c - 97 + 10)
  else if (48 <=? c) && (c <=? 57) then Some (c - 48)
  else None.

Fixpoint hex_pairs (cs : str) : option (list N) :=
  match cs with
  | [] => Some []
  | a :: b :: r =>
      match hex_val a, hex_val b, hex_pairs r with
      | Some x, Some y, Some rest => Some (x * 16 + y :: rest)   (* (digit << 4) | digit *)
      | _, _, _ => None
      end
  | _ => None
  end.

(* RGBA::from_str_named; `oracle` answers for everything that is not the plain hex form *)
Definition rgba_parse (oracle : str -> option rgba) (s : str) : option rgba :=
  if existsb (N.eqb 47) s then oracle s
  else if starts_with 35 s && ((utf8_len s =? 7) || (utf8_len s =? 9)) then
    match hex_pairs (tl s) with
    | Some [r; g; b] => Some (r, g, b, 255)
    | Some [r; g; b; a] => Some (r, g, b, a)
    | _ => None
    end
  else oracle s.

(* ------------------------------------------------------------- Face *)

Record face := { f_fg : option rgba; f_bg : option rgba; f_attrs : N }.
Definition face_default : face := {| f_fg := None; f_bg := None; f_attrs := 0 |}.

(* face.rs:41-60 *)
Definition underline_names : list (N * str) :=
  [(1, s2l "underline"); (2, s2l "underline_double"); (3, s2l "underline_curly");
   (4, s2l "underline_dotted"); (5, s2l "underline_dashed")].
Definition flag_names : list (N * str) :=
  [(8, s2l "bold"); (16, s2l "italic"); (32, s2l "blink"); (64, s2l "reverse"); (128, s2l "strike")].

(* FaceAttrs::names *)
Definition attr_names (bits : N) : list str :=
  map snd (filter (fun p => N.land bits 7 =? fst p) underline_names)
  ++ map snd (filter (fun p => negb (N.land bits (fst p) =? 0)) flag_names).

(* Display for Face *)
Definition face_pieces (f : face) : list str :=
  (match f_fg f with Some c => [s2l "fg=" ++ rgba_print c] | None => [] end)
  ++ (match f_bg f with Some c => [s2l "bg=" ++ rgba_print c] | None => [] end)
  ++ attr_names (f_attrs f).

Definition face_print (f : face) : str := join [44] (face_pieces f).

(* char::is_whitespace *)
Definition is_ws (c : N) : bool :=
  ((9 <=? c) && (c <=? 13)) || (c =? 32) || (c =? 133) || (c =? 160) || (c =? 5760)
  || ((8192 <=? c) && (c <=? 8202)) || (c =? 8232) || (c =? 8233) || (c =? 8239)
  || (c =? 8287) || (c =? 12288).

Fixpoint trim_start (s : str) : str :=
  match s with
  | c :: r => if is_ws c then trim_start r else s
  | [] => []
  end.
Definition trim (s : str) : str := rev (trim_start (rev (trim_start s))).

(* attrs.splitn(2, '='): text before the first '=', and the rest if there is one *)
Fixpoint split_eq (s : str) : str * option str :=
  match s with
  | [] => ([], None)
  | c :: r =>
      if c =? 61 then ([], Some r)
      else let '(k, v) := split_eq r in (c :: k, v)
  end.

(* FaceAttrs::underline / unpack / pack / BitOr (face.rs:132-195): the low three bits are an underline
   code (6 and 7 stand for no underline), the rest are flags; `a | b` takes b's underline unless it
   is None and ORs the flags.  `|=` is `*self = *self | rhs` (it was a plain OR of the bits before
   the repair: attrs_or_orig). *)
Definition under_of (x : N) : N := let u := N.land x 7 in if u <=? 5 then u else 0.
Definition attrs_or (a b : N) : N :=
  let u := if under_of b =? 0 then under_of a else under_of b in
  N.lor u (N.shiftl (N.lor (N.shiftr a 3) (N.shiftr b 3)) 3).
Definition attrs_or_orig (a b : N) : N := N.lor a b.

(* the names matched in from_str_named, in source order *)
Definition attr_parse_table : list (str * N) :=
  [(s2l "underline", 1); (s2l "underline_double", 2); (s2l "underline_curly", 3);
   (s2l "underline_dotted", 4); (s2l "underline_dashed", 5);
   (s2l "bold", 8); (s2l "italic", 16); (s2l "blink", 32); (s2l "reverse", 64); (s2l "strike", 128)].

Section FaceParse.
  Variable oracle : str -> option rgba.
  Variable aor : N -> N -> N.        (* the `|=` of FaceAttrs *)

  Definition face_step (f : face) (piece : str) : outcome face :=
    let '(k, v) := split_eq piece in
    let key := trim k in
    let value := trim (match v with Some x => x | None => [] end) in
    if str_eqb key (s2l "fg") then
      match rgba_parse oracle value with
      | Some c => Ok {| f_fg := Some c; f_bg := f_bg f; f_attrs := f_attrs f |}
      | None => Err 1
      end
    else if str_eqb key (s2l "bg") then
      match rgba_parse oracle value with
      | Some c => Ok {| f_fg := f_fg f; f_bg := Some c; f_attrs := f_attrs f |}
      | None => Err 1
      end
    else match lookup_lit attr_parse_table key with
         | Some bits => Ok {| f_fg := f_fg f; f_bg := f_bg f; f_attrs := aor (f_attrs f) bits |}
         | None => match key with [] => Ok f | _ => Err 2 end
         end.

  Fixpoint face_fold (pieces : list str) (f : face) : outcome face :=
    match pieces with
    | [] => Ok f
    | p :: r => let* f' := face_step f p in face_fold r f'
    end.

  (* Face::from_str_named *)
  Definition face_parse_gen (s : str) : outcome face := face_fold (split 44 s) face_default.
End FaceParse.

Definition face_parse (oracle : str -> option rgba) := face_parse_gen oracle attrs_or.
Definition face_parse_orig (oracle : str -> option rgba) := face_parse_gen oracle attrs_or_orig.

(* attribute sets: an underline style (0..5) and any of the five flags *)
Definition attrs_ok (bits : N) : bool := (N.land bits 7 <=? 5) && (bits <? 256).
Definition rgba_ok (c : rgba) : bool :=
  let '(r, g, b, a) := c in (r <? 256) && (g <? 256) && (b <? 256) && (a <? 256).
Definition orgba_ok (c : option rgba) : bool := match c with Some x => rgba_ok x | None => true end.
Definition face_ok (f : face) : bool := orgba_ok (f_fg f) && orgba_ok (f_bg f) && attrs_ok (f_attrs f).

(* ------------------------------------------------------------- serde forms *)

(* Serialize for Face / KeyChord: collect_str(self); Deserialize: a string, then FromStr *)
Definition face_ser (f : face) : json := JStr (face_print f).
Definition face_de_json (oracle : str -> option rgba) (j : json) : outcome face :=
  match j with JStr s => face_parse oracle s | _ => Err 1 end.

Definition chord_ser (ks : list key) : json := JStr (print_chord ks).
Definition chord_de_json (lower : str -> str) (j : json) : outcome (list key) :=
  match j with JStr s => parse_chord lower s | _ => Err 1 end.
