(* C19: the view / text / glyph deserialisers are total on every JSON value
   (a value or an error: no panic, and the model's fuel never runs out). *)
From Coq Require Import String.
From Coq Require Import List NArith Bool Lia Arith.
From SNT Require Import Base.Outcome Base.Report Keys.KeyParse
  Serde.Json Serde.ImageDe Serde.ImageProofs Serde.FaceStr Serde.FaceProofs Serde.ViewDe.
Import ListNotations.

(* ------------------------------------------------------------ depth of sub-values *)

Lemma obj_get_In m k v : obj_get m k = Some v -> exists k', In (k', v) m.
Proof.
  induction m as [|[k0 v0] m IH]; cbn [obj_get]; [discriminate|].
  destruct (obj_get m k) as [v'|] eqn:E.
  - intros H. injection H as <-. destruct (IH eq_refl) as [k' Hin]. exists k'. right. exact Hin.
  - destruct (str_eqb k0 k); [|discriminate]. intros H. injection H as <-. exists k0. left. reflexivity.
Qed.

Lemma depth_in_obj (m : list (str * json)) k v :
  In (k, v) m -> (jdepth v <= fold_right (fun p a => Nat.max (jdepth (snd p)) a) O m)%nat.
Proof.
  induction m as [|[k0 v0] m IH]; [intros []|]. cbn [fold_right snd]. intros [E|H].
  - injection E as _ <-. lia.
  - specialize (IH H). lia.
Qed.

Lemma depth_in_arr (l : list json) x :
  In x l -> (jdepth x <= fold_right (fun y a => Nat.max (jdepth y) a) O l)%nat.
Proof.
  induction l as [|y l IH]; [intros []|]. cbn [fold_right]. intros [->|H]; [lia|]. specialize (IH H). lia.
Qed.

Lemma jget_depth j k v : jget j k = Some v -> (jdepth v < jdepth j)%nat.
Proof.
  destruct j; cbn [jget]; try discriminate. intros H.
  destruct (obj_get_In _ _ _ H) as [k' Hin]. pose proof (depth_in_obj _ _ _ Hin). cbn [jdepth]. lia.
Qed.

Lemma arr_depth l x : In x l -> (jdepth x < jdepth (JArr l))%nat.
Proof. intros H. pose proof (depth_in_arr _ _ H). cbn [jdepth]. lia. Qed.

Lemma jdepth_pos j : (1 <= jdepth j)%nat.
Proof. destruct j; cbn [jdepth]; lia. Qed.

(* ------------------------------------------------------------ totality *)

Section Total.
  Variable orc : N -> json -> bool.
  Variable frgba : str -> option rgba.

  Local Notation face_de_u := (face_de_u frgba).
  Local Notation rgba_de_u := (rgba_de_u frgba).
  Local Notation glyph_de := (glyph_de orc frgba).
  Local Notation text_rec := (text_rec orc frgba).

  Lemma of_bool_total b : no_panic (of_bool b).
  Proof. destruct b; exact I. Qed.

  Lemma face_de_u_total j : no_panic (face_de_u j).
  Proof.
    unfold ViewDe.face_de_u. destruct j; try exact I.
    pose proof (face_parse_total frgba s) as T. unfold unit_of, omap.
    destruct (face_parse frgba s); try contradiction; exact I.
  Qed.

  Lemma rgba_de_u_total j : no_panic (rgba_de_u j).
  Proof. unfold ViewDe.rgba_de_u. destruct j; try exact I. destruct (rgba_parse frgba s); exact I. Qed.

  Lemma opt_attr_total j k de : (forall v, no_panic (de v)) -> no_panic (opt_attr j k de).
  Proof. intros H. unfold opt_attr. destruct (jget j (s2l k)); [apply H | exact I]. Qed.

  Lemma bind_total {A B} (x : outcome A) (f : A -> outcome B) :
    no_panic x -> (forall a, no_panic (f a)) -> no_panic (bind x f).
  Proof. destruct x; cbn; auto. Qed.

  Lemma frame_fields_total m : no_panic (frame_fields orc frgba m).
  Proof.
    induction m as [|[k v] m IH]; [exact I|]. cbn [frame_fields]. apply bind_total; [|intros ?; exact IH].
    destruct (_ || _); [apply of_bool_total|]. destruct (_ || _); [apply rgba_de_u_total | exact I].
  Qed.

  Lemma frame_de_total j : no_panic (frame_de orc frgba j).
  Proof. destruct j; try exact I. apply frame_fields_total. Qed.

  Lemma glyph_fields_total m : forall p s, no_panic (glyph_fields orc frgba m p s).
  Proof.
    induction m as [|[k v] m IH]; intros p s; [exact I|]. cbn [glyph_fields].
    repeat (match goal with
            | |- no_panic (if ?c then _ else _) => destruct c
            | |- no_panic (bind _ _) => apply bind_total; [try apply of_bool_total; try apply frame_de_total | intros _]
            end); apply IH.
  Qed.

  Lemma glyph_de_total j : no_panic (glyph_de j).
  Proof.
    unfold ViewDe.glyph_de. destruct j; try exact I. apply bind_total; [apply glyph_fields_total|].
    intros [[|] [|]]; exact I.
  Qed.

  Lemma text_rec_total : forall fuel j, (jdepth j < fuel)%nat -> no_panic (text_rec fuel j).
  Proof.
    induction fuel as [|f IH]; intros j Hd; [lia|].
    destruct j; cbn [ViewDe.text_rec]; try exact I.
    - (* array *)
      assert (Hall : forall x, In x l -> no_panic (text_rec f x)).
      { intros x Hx. apply IH. pose proof (arr_depth l x Hx). lia. }
      clear Hd. induction l as [|x l IHl]; [exact I|].
      apply bind_total; [apply Hall; left; reflexivity|]. intros _. apply IHl.
      intros y Hy. apply Hall. right. exact Hy.
    - (* object *)
      apply bind_total; [apply opt_attr_total, face_de_u_total|]. intros _.
      destruct (obj_get m (s2l "glyph")) as [g|]; [apply glyph_de_total|].
      destruct (obj_get m (s2l "text")) as [t|] eqn:E; [|exact I].
      apply IH. assert (H : jget (JObj m) (s2l "text") = Some t) by exact E.
      pose proof (jget_depth _ _ _ H). lia.
  Qed.

  Lemma unit_of_total {A} (o : outcome A) : no_panic o -> no_panic (unit_of o).
  Proof. destruct o; cbn; auto. Qed.

  Lemma map_out_total {X} (g : json -> outcome X) l :
    (forall c, In c l -> no_panic (g c)) -> no_panic (map_out g l).
  Proof.
    induction l as [|c l IHl]; intros H; [exact I|]. cbn [map_out].
    apply bind_total; [apply H; left; reflexivity|]. intros x.
    apply bind_total; [apply IHl; intros y Hy; apply H; right; exact Hy | intros ?; exact I].
  Qed.

  Lemma view_gen_total {T : Type} (handlers : str -> bool) (B : builders T) :
    (forall j i, no_panic (b_ascii T B j i)) ->
    forall fuel j, (jdepth j < fuel)%nat -> no_panic (view_gen orc frgba handlers B fuel j).
  Proof.
    intros HB. induction fuel as [|f IH]; intros j Hd; [lia|].
    cbn [view_gen].
    destruct (match jget j (s2l "type") with Some (JStr t) => Some t | _ => None end) as [t|]; [|exact I].
    destruct (str_eqb t (s2l "text")).
    { apply bind_total; [apply text_rec_total; exact Hd | intros ?; exact I]. }
    destruct (str_eqb t (s2l "trace-layout")).
    { destruct (jget j (s2l "view")) as [v|] eqn:E; [|exact I].
      apply bind_total; [|intros ?; exact I]. apply IH. pose proof (jget_depth _ _ _ E). lia. }
    destruct (str_eqb t (s2l "flex")).
    { apply bind_total; [apply opt_attr_total; intros v; apply of_bool_total|]. intros _.
      apply bind_total; [apply opt_attr_total; intros v; apply of_bool_total|]. intros _.
      destruct (jget j (s2l "children")) as [ch|] eqn:E; [|exact I].
      destruct ch; try exact I.
      pose proof (jget_depth _ _ _ E) as Hch.
      assert (Hall : forall c, In c l -> (jdepth c + 1 < f)%nat).
      { intros c Hc. pose proof (arr_depth l c Hc). lia. }
      apply bind_total; [|intros ?; exact I].
      apply map_out_total. intros c Hc.
      destruct (is_some (jget c (s2l "type"))).
      + apply IH. specialize (Hall c Hc). lia.
      + apply bind_total; [apply opt_attr_total; intros v; apply of_bool_total|]. intros _.
        apply bind_total; [apply opt_attr_total; intros v; apply of_bool_total|]. intros _.
        apply bind_total; [apply opt_attr_total, face_de_u_total|]. intros _.
        destruct (jget c (s2l "view")) as [v|] eqn:Ev; [|exact I].
        apply IH. pose proof (jget_depth _ _ _ Ev). specialize (Hall c Hc). lia. }
    destruct (str_eqb t (s2l "container")).
    { apply bind_total; [apply opt_attr_total, face_de_u_total|]. intros _.
      apply bind_total; [apply opt_attr_total; intros v; apply of_bool_total|]. intros _.
      apply bind_total; [apply opt_attr_total; intros v; apply of_bool_total|]. intros _.
      apply bind_total; [apply opt_attr_total; intros v; apply of_bool_total|]. intros _.
      apply bind_total; [apply opt_attr_total; intros v; apply of_bool_total|]. intros _.
      destruct (jget j (s2l "child")) as [v|] eqn:E; [|exact I].
      apply bind_total; [|intros ?; exact I]. apply IH. pose proof (jget_depth _ _ _ E). lia. }
    destruct (str_eqb t (s2l "glyph")); [apply bind_total; [apply glyph_de_total | intros ?; exact I]|].
    destruct (str_eqb t (s2l "image")); [apply bind_total; [apply image_de_total | intros ?; exact I]|].
    destruct (str_eqb t (s2l "image_ascii")); [apply bind_total; [apply image_de_total | intros i; apply HB]|].
    destruct (str_eqb t (s2l "color")); [exact I|].
    destruct (str_eqb t (s2l "tag")).
    { destruct (jget j (s2l "view")) as [v|] eqn:E; [|exact I].
      destruct (jget j (s2l "tag")); [|exact I].
      apply bind_total; [|intros ?; exact I]. apply IH. pose proof (jget_depth _ _ _ E). lia. }
    destruct (str_eqb t (s2l "ref")); [apply bind_total; [apply of_bool_total | intros ?; exact I]|].
    destruct (handlers t); exact I.
  Qed.

  Theorem view_gen_kind_total {T : Type} (handlers : str -> bool) (B : builders T) (k : vkind) (j : json) :
    (forall j i, no_panic (b_ascii T B j i)) -> no_panic (view_gen_kind orc frgba handlers B k j).
  Proof.
    intros HB. destruct k; cbn [view_gen_kind].
    - apply view_gen_total; [exact HB | lia].
    - apply bind_total; [apply text_rec_total; lia | intros ?; exact I].
    - apply bind_total; [apply glyph_de_total | intros ?; exact I].
  Qed.

  (* every JSON value, as a view tree, as a text, as a glyph *)
  Theorem view_de_kind_total (handlers : str -> bool) (k : vkind) (j : json) : no_panic (view_de_kind orc frgba handlers k j).
  Proof. apply view_gen_kind_total. intros ? ?. exact I. Qed.

End Total.
