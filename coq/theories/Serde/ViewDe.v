(* Model of the hand-written view / text / glyph deserialisers (C19):
     src/view/mod.rs:793-878   ViewDeserializer (type dispatch, trace-layout, tag, ref)
     src/view/flex.rs:253-316  Flex::from_json_value
     src/view/container.rs:258-298  container::from_json_value
     src/view/text.rs:201-264  TextDeserializer (collect_rec)
     src/glyph.rs:475-655      GlyphFrame and Glyph visitors
   The result is only the outcome class (a view object is opaque); what is
   modelled is which documents are accepted, rejected, or crash.

   Deserialisers the crate does not write by hand are an oracle
   `orc kind value : bool` (accepted or not): rasterize's Scene / Path / BBox /
   FillRule, [Scalar; 4], and the derived Axis / Justify / Align / Margins.
   Recursion uses explicit fuel; ViewProofs.v shows depth + 1 suffices. *)
From Coq Require Import List NArith ZArith Bool String.
From SNT Require Import Base.Outcome Base.Report Keys.KeyParse Serde.Json Serde.ImageDe Serde.FaceStr.
Import ListNotations.
Local Open Scope N_scope.

(* oracle kinds *)
Definition OScene : N := 1.
Definition OPath : N := 2.
Definition OBBox : N := 3.
Definition OFillRule : N := 4.
Definition OScalar4 : N := 6.
Definition OAxis : N := 7.
Definition OJustify : N := 8.
Definition OAlign : N := 9.
Definition OMargins : N := 10.

Inductive vkind := KView | KText | KGlyph.

Definition i64_max : N := 9223372036854775807.

(* serde_json::Value::as_i64 *)
Definition as_i64_some (j : json) : bool :=
  match j with
  | JNum (NU n) => n <=? i64_max
  | JNum (NI _) => true
  | _ => false
  end.

(* f64::deserialize from a Value: any number *)
Definition de_f64_ok (j : json) : bool := match j with JNum _ => true | _ => false end.

Definition unit_of {A} (o : outcome A) : outcome unit := omap (fun _ => tt) o.
Definition of_bool (b : bool) : outcome unit := if b then Ok tt else Err 1.

(* for value in values { children.push(f(value)?) }: stops at the first failure *)
Fixpoint map_out {X} (g : json -> outcome X) (l : list json) : outcome (list (json * X)) :=
  match l with
  | [] => Ok []
  | c :: r => let* x := g c in let* rest := map_out g r in Ok ((c, x) :: rest)
  end.

Section ViewDe.
  Variable orc : N -> json -> bool.
  Variable frgba : str -> option rgba.

  (* FaceDeserializer / ViewDeserializer::face *)
  Definition face_de_u (j : json) : outcome unit :=
    match j with
    | JStr s => unit_of (face_parse frgba s)
    | _ => Err 1
    end.

  (* RGBADeserializer *)
  Definition rgba_de_u (j : json) : outcome unit :=
    match j with
    | JStr s => match rgba_parse frgba s with Some _ => Ok tt | None => Err 1 end
    | _ => Err 1
    end.

  (* optional attribute: value.get(k).map(T::deserialize).transpose()? *)
  Definition opt_attr (j : json) (k : string) (de : json -> outcome unit) : outcome unit :=
    match jget j (s2l k) with
    | None => Ok tt
    | Some v => de v
    end.

  (* glyph.rs:502-560  GlyphFrame visitor *)
  Fixpoint frame_fields (m : list (str * json)) : outcome unit :=
    match m with
    | [] => Ok tt
    | (k, v) :: r =>
        let* _ :=
          (if str_eqb k (s2l "margin") || str_eqb k (s2l "border_width")
              || str_eqb k (s2l "border_radius") || str_eqb k (s2l "padding")
           then of_bool (orc OScalar4 v)
           else if str_eqb k (s2l "border_color") || str_eqb k (s2l "fill_color")
           then rgba_de_u v
           else Ok tt) in
        frame_fields r
    end.

  Definition frame_de (j : json) : outcome unit :=
    match j with JObj m => frame_fields m | _ => Err 1 end.

  (* glyph.rs:588-655  Glyph visitor: (path seen, scene seen) *)
  Fixpoint glyph_fields (m : list (str * json)) (path scene : bool) : outcome (bool * bool) :=
    match m with
    | [] => Ok (path, scene)
    | (k, v) :: r =>
        if str_eqb k (s2l "scene") then
          let* _ := of_bool (orc OScene v) in glyph_fields r path true
        else if str_eqb k (s2l "path") then
          let* _ := of_bool (orc OPath v) in glyph_fields r true scene
        else if str_eqb k (s2l "view_box") then
          let* _ := of_bool (orc OBBox v) in glyph_fields r path scene
        else if str_eqb k (s2l "fallback") then
          let* _ := of_bool (match v with JStr _ => true | _ => false end) in glyph_fields r path scene
        else if str_eqb k (s2l "fill_rule") then
          let* _ := of_bool (orc OFillRule v) in glyph_fields r path scene
        else if str_eqb k (s2l "size") then
          let* _ := of_bool (match de_size v with Some _ => true | None => false end) in glyph_fields r path scene
        else if str_eqb k (s2l "frame") then
          let* _ := frame_de v in glyph_fields r path scene
        else glyph_fields r path scene
    end.

  Definition glyph_de (j : json) : outcome unit :=
    match j with
    | JObj m =>
        let* ps := glyph_fields m false false in
        match ps with
        | (true, false) => Ok tt
        | (false, true) => Ok tt
        | _ => Err 2                    (* must contain either scene or path *)
        end
    | _ => Err 1
    end.

  (* text.rs:216-256  collect_rec *)
  Fixpoint text_rec (fuel : nat) (j : json) : outcome unit :=
    match fuel with
    | O => OutOfFuel
    | S f =>
        match j with
        | JStr _ => Ok tt
        | JObj m =>
            let* _ := opt_attr j "face" face_de_u in
            match obj_get m (s2l "glyph") with
            | Some g => glyph_de g
            | None =>
                match obj_get m (s2l "text") with
                | Some t => text_rec f t
                | None => Ok tt
                end
            end
        | JArr l =>
            (fix go (l : list json) : outcome unit :=
               match l with
               | [] => Ok tt
               | x :: r => let* _ := text_rec f x in go r
               end) l
        | _ => Err 1
        end
    end.

  Definition is_some {A} (o : option A) : bool := match o with Some _ => true | None => false end.

  (* What the deserialiser builds is left to a family of constructors, so that the same definition
     gives the outcome class alone (unit_builders: view_de) and the view tree of the C10 model
     (Serde/ViewTree.v).  Constructors see the JSON node for the attributes and the children built. *)
  Record builders (T : Type) := {
    b_text : json -> T;                          (* Text from the whole node *)
    b_flex : json -> list (json * T) -> T;       (* node, (child entry, child view) in order *)
    b_container : json -> T -> T;
    b_glyph : json -> T;
    b_image : json -> image -> T;
    b_ascii : json -> image -> outcome T;        (* ImageAsciiView *)
    b_tag : json -> T -> T;
    b_ref : json -> T;                           (* ViewCached *)
    b_trace : json -> T -> T;                    (* TraceLayout *)
    b_custom : json -> T                         (* the view a registered handler returns *)
  }.

  (* view/mod.rs:793-878 with flex.rs:253-316, container.rs:258-298, tag_from_json_value *)
  (* `handlers t`: a handler is registered under the type name t (ViewDeserializer::register) *)
  Fixpoint view_gen {T : Type} (handlers : str -> bool) (B : builders T) (fuel : nat) (j : json) : outcome T :=
    match fuel with
    | O => OutOfFuel
    | S f =>
        match (match jget j (s2l "type") with Some (JStr t) => Some t | _ => None end) with
        | None => Err 1
        | Some t =>
            if str_eqb t (s2l "text") then
              let* _ := text_rec (S f) j in Ok (b_text T B j)
            else if str_eqb t (s2l "trace-layout") then
              match jget j (s2l "view") with
              | None => Err 2
              | Some v => let* x := view_gen handlers B f v in Ok (b_trace T B j x)
              end
            else if str_eqb t (s2l "flex") then
              let* _ := opt_attr j "direction" (fun v => of_bool (orc OAxis v)) in
              let* _ := opt_attr j "justify" (fun v => of_bool (orc OJustify v)) in
              match jget j (s2l "children") with
              | None => Ok (b_flex T B j [])
              | Some (JArr values) =>
                  let* kids :=
                    map_out (fun c =>
                      if is_some (jget c (s2l "type")) then view_gen handlers B f c
                      else
                        let* _ := opt_attr c "flex" (fun v => of_bool (de_f64_ok v)) in
                        let* _ := opt_attr c "align" (fun v => of_bool (orc OAlign v)) in
                        let* _ := opt_attr c "face" face_de_u in
                        match jget c (s2l "view") with
                        | None => Err 3
                        | Some v => view_gen handlers B f v
                        end) values in
                  Ok (b_flex T B j kids)
              | Some _ => Err 4
              end
            else if str_eqb t (s2l "container") then
              let* _ := opt_attr j "face" face_de_u in
              let* _ := opt_attr j "vertical" (fun v => of_bool (orc OAlign v)) in
              let* _ := opt_attr j "horizontal" (fun v => of_bool (orc OAlign v)) in
              let* _ := opt_attr j "margins" (fun v => of_bool (orc OMargins v)) in
              let* _ := opt_attr j "size" (fun v => of_bool (is_some (de_size v))) in
              match jget j (s2l "child") with
              | None => Err 5
              | Some v => let* x := view_gen handlers B f v in Ok (b_container T B j x)
              end
            else if str_eqb t (s2l "glyph") then let* _ := glyph_de j in Ok (b_glyph T B j)
            else if str_eqb t (s2l "image") then let* img := image_de j in Ok (b_image T B j img)
            else if str_eqb t (s2l "image_ascii") then let* img := image_de j in b_ascii T B j img
            else if str_eqb t (s2l "color") then Err 6      (* RGBADeserializer on the object itself: never a string *)
            else if str_eqb t (s2l "tag") then
              match jget j (s2l "view") with
              | None => Err 7
              | Some v =>
                  match jget j (s2l "tag") with
                  | None => Err 8
                  | Some _ => let* x := view_gen handlers B f v in Ok (b_tag T B j x)
                  end
              end
            else if str_eqb t (s2l "ref") then
              let* _ := of_bool (match jget j (s2l "ref") with Some r => as_i64_some r | None => false end) in
              Ok (b_ref T B j)
            else if handlers t then Ok (b_custom T B j)     (* a registered handler: it returns a view, it cannot fail *)
            else Err 9                                      (* no registered handler *)
        end
    end.

  Definition unit_builders : builders unit :=
    {| b_text := fun _ => tt; b_flex := fun _ _ => tt; b_container := fun _ _ => tt; b_glyph := fun _ => tt;
       b_image := fun _ _ => tt; b_ascii := fun _ _ => Ok tt; b_tag := fun _ _ => tt; b_ref := fun _ => tt;
       b_trace := fun _ _ => tt; b_custom := fun _ => tt |}.

  (* the outcome class alone *)
  Definition view_de (handlers : str -> bool) (fuel : nat) (j : json) : outcome unit := view_gen handlers unit_builders fuel j.

  (* nesting depth of a JSON value *)
  Fixpoint jdepth (j : json) : nat :=
    match j with
    | JArr l => S (fold_right (fun x a => Nat.max (jdepth x) a) O l)
    | JObj m => S (fold_right (fun p a => Nat.max (jdepth (snd p)) a) O m)
    | _ => 1%nat
    end.

  Definition view_gen_kind {T : Type} (handlers : str -> bool) (B : builders T) (k : vkind) (j : json) : outcome T :=
    match k with
    | KView => view_gen handlers B (S (jdepth j)) j
    | KText => let* _ := text_rec (S (jdepth j)) j in Ok (b_text T B j)
    | KGlyph => let* _ := glyph_de j in Ok (b_glyph T B j)
    end.

  Definition view_de_kind (handlers : str -> bool) (k : vkind) (j : json) : outcome unit := view_gen_kind handlers unit_builders k j.

  Definition no_handlers : str -> bool := fun _ => false.
End ViewDe.

(* oracle from a finite table of answers: (kind, value) -> accepted *)
Fixpoint table_orc (jeq : json -> json -> bool) (tbl : list (N * json * bool)) (k : N) (v : json) : bool :=
  match tbl with
  | [] => false
  | (k', v', b) :: r => if (k =? k') && jeq v v' then b else table_orc jeq r k v
  end.
