(* C19 / C07: the pixels of a cropped image view are the cells of its window
   (Surface/Shape.v `iter`, C07_iter), so cropped views round-trip as well. *)
From Coq Require Import List NArith ZArith Bool Lia ZifyN ZifyBool ZifyNat Arith.
From SNT Require Import Base.Outcome Keys.KeyParse Surface.Bounds Surface.Shape Surface.ShapeProofs
  Serde.Json Serde.ImageDe Serde.ImageProofs.
Import ListNotations.
Local Open Scope N_scope.

(* the image value of a view `sh` onto the pixel vector `data` *)
Definition view_image (sh : shape) (data : list rgba) : image :=
  {| i_h := N.of_nat (sh_height sh); i_w := N.of_nat (sh_width sh); i_pix := iter sh data |}.

Lemma iter_in {A} (H W : nat) (sh : shape) (w : window) (data : list A) :
  Rep H W sh w -> (H * W <= length data)%nat ->
  (forall x, In x (iter sh data) -> In x data)
  /\ length (iter sh data) = (sh_height sh * sh_width sh)%nat.
Proof.
  intros Hrep Hlen. pose proof (iter_spec H W sh w data Hrep Hlen) as Hmap.
  pose proof (iter_length H W sh w data Hrep Hlen) as Hl. split; [|exact Hl].
  intros x Hx. assert (Hs : In (Some x) (map Some (iter sh data))) by (apply in_map, Hx).
  rewrite Hmap in Hs. apply in_map_iff in Hs as [p [Hp _]].
  eapply nth_error_In, Hp.
Qed.

Theorem cropped_roundtrip (H W : nat) (ops : list vop) (data : list rgba) :
  (Z.of_nat (Nat.max H W) <= i64_max)%Z ->
  forallb op_in ops = true ->
  (H * W <= length data)%nat ->
  forallb rgba_okb data = true ->
  let sh := apply_chain (of_size H W) ops in
  N.of_nat (sh_height sh) <= u64_max -> N.of_nat (sh_width sh) <= u64_max ->
  N.of_nat (sh_height sh) * N.of_nat (sh_width sh) * 4 < usize_lim ->
  image_de (image_ser (view_image sh data)) = Ok (view_image sh data).
Proof.
  intros Hmax Hops Hlen Hpix sh Hh Hw Hlim.
  assert (Hrep : Rep H W sh (win_chain (win_root H W) ops)).
  { apply rep_chain; auto. apply rep_root. }
  destruct (iter_in H W sh _ data Hrep Hlen) as [Hin Hl].
  apply image_roundtrip. unfold image_ok, view_image. cbn [i_h i_w i_pix].
  repeat split; try assumption.
  - rewrite Hl. lia.
  - apply forallb_forall. intros x Hx. rewrite forallb_forall in Hpix. apply Hpix, Hin, Hx.
Qed.
