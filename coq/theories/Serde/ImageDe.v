(* Model of the hand-written Image visitor and serializer, src/image.rs:311-432 (C19). *)
From Coq Require Import List NArith Bool String.
From SNT Require Import Base.Outcome Base.Report Keys.KeyParse Encoder.Base64 Serde.Json.
Import ListNotations.
Local Open Scope N_scope.

Definition usize_lim : N := 18446744073709551616.   (* 2^64 *)

(* usize multiplication as the code performs it: `checked = false` is the
   plain `*` of the original code (a panic in debug builds, wrap-around in
   release builds: both are `Panic` here); `checked = true` is checked_mul *)
Definition mul_usize (checked : bool) (a b : N) : outcome N :=
  if a * b <? usize_lim then Ok (a * b) else if checked then Err 9 else Panic 372.

Record img_acc := { a_size : option (N * N); a_data : list N; a_channels : N }.

Definition acc0 : img_acc := {| a_size := None; a_data := []; a_channels := 3 |}.

Definition channels_ok (c : N) : bool := (c =? 1) || (c =? 3) || (c =? 4).

(* the `while let Some(key) = map.next_key()` loop *)
Fixpoint image_fields (m : list (str * json)) (acc : img_acc) : outcome img_acc :=
  match m with
  | [] => Ok acc
  | (k, v) :: r =>
      if str_eqb k (s2l "data") then
        match de_str v with
        | None => Err 1
        | Some s =>
            (* Base64Decoder::new(data_raw.as_bytes()).read_to_end(&mut data): appends *)
            let* bytes := decode_all (utf8_encode s) [] [] in
            image_fields r {| a_size := a_size acc; a_data := a_data acc ++ bytes; a_channels := a_channels acc |}
        end
      else if str_eqb k (s2l "channels") then
        match de_usize v with
        | None => Err 1
        | Some c =>
            if channels_ok c
            then image_fields r {| a_size := a_size acc; a_data := a_data acc; a_channels := c |}
            else Err 2
        end
      else if str_eqb k (s2l "size") then
        match de_size v with
        | None => Err 1
        | Some s => image_fields r {| a_size := Some s; a_data := a_data acc; a_channels := a_channels acc |}
        end
      else image_fields r acc        (* IgnoredAny *)
  end.

Definition rgba := (N * N * N * N)%type.

(* data[i] with the bounds check of slice indexing *)
Definition idx (data : list N) (i : N) : outcome N :=
  match nth_error data (N.to_nat i) with
  | Some b => Ok b
  | None => Panic 386
  end.

(* the closure given to SurfaceOwned::new_with, for the pixel number i = row * width + col *)
Definition pixel_i (channels : N) (data : list N) (i : N) : outcome rgba :=
  if channels =? 4 then
    let off := 4 * i in
    let* r := idx data off in let* g := idx data (off + 1) in
    let* b := idx data (off + 2) in let* a := idx data (off + 3) in
    Ok (r, g, b, a)
  else if channels =? 3 then
    let off := 3 * i in
    let* r := idx data off in let* g := idx data (off + 1) in
    let* b := idx data (off + 2) in
    Ok (r, g, b, 255)
  else
    let* v := idx data i in Ok (v, v, v, 255).

Definition pixel_at (channels w : N) (data : list N) (row col : N) : outcome rgba :=
  pixel_i channels data (row * w + col).

Fixpoint collect {A} (l : list (outcome A)) : outcome (list A) :=
  match l with
  | [] => Ok []
  | x :: r => let* a := x in let* rest := collect r in Ok (a :: rest)
  end.

Definition nseq (n : N) : list N := map N.of_nat (seq 0 (N.to_nat n)).

(* SurfaceOwned::new_with:  for row in 0..h { for col in 0..w { push(f(row, col)) } }
   With w = 0 no call of f happens whatever h is (the repaired new_with does
   not even walk the h empty rows; the original one did, which for h near 2^62
   never finishes in practice: see design/C19.md).  The result is the same. *)
Definition new_with (h w : N) (f : N -> N -> outcome rgba) : outcome (list rgba) :=
  if w =? 0 then Ok []
  else collect (flat_map (fun row => map (fun col => f row col) (nseq w)) (nseq h)).

(* an image: size and the pixels of the (possibly cropped) view in row-major order *)
Record image := { i_h : N; i_w : N; i_pix : list rgba }.

Definition image_finish (checked : bool) (acc : img_acc) : outcome image :=
  match a_size acc with
  | None => Err 3
  | Some (h, w) =>
      (* original: channels * size.height * size.width;  repaired: checked, height * width first *)
      let* expected :=
        (if checked
         then (let* hw := mul_usize true h w in mul_usize true hw (a_channels acc))
         else (let* ch := mul_usize false (a_channels acc) h in mul_usize false ch w)) in
      if N.of_nat (List.length (a_data acc)) =? expected then
        let* pix := new_with h w (pixel_at (a_channels acc) w (a_data acc)) in
        Ok {| i_h := h; i_w := w; i_pix := pix |}
      else Err 4
  end.

(* Deserialize for Image over a JSON value: deserialize_map *)
Definition image_de_gen (checked : bool) (j : json) : outcome image :=
  match j with
  | JObj m => let* acc := image_fields m acc0 in image_finish checked acc
  | _ => Err 1
  end.

Definition image_de := image_de_gen true.          (* the code after the fix: commit *)
Definition image_de_orig := image_de_gen false.    (* the code as it was *)

(* Serialize for Image: every pixel written as 4 bytes through one Base64Encoder *)
Definition rgba_bytes (p : rgba) : list N :=
  let '(r, g, b, a) := p in [r; g; b; a].

Definition image_ser (img : image) : json :=
  JObj [(s2l "size", ser_size (i_h img, i_w img));
        (s2l "channels", JNum (NU 4));
        (s2l "data", JStr (encode_chunks (map rgba_bytes (i_pix img))))].

(* ------------------------------------------------------------ specification *)

(* the pixels a data buffer in the 4 / 3 / 1 channel layout stands for *)
Fixpoint px4 (data : list N) : list rgba :=
  match data with r :: g :: b :: a :: rest => (r, g, b, a) :: px4 rest | _ => [] end.
Fixpoint px3 (data : list N) : list rgba :=
  match data with r :: g :: b :: rest => (r, g, b, 255) :: px3 rest | _ => [] end.
Definition px1 (data : list N) : list rgba := map (fun v => (v, v, v, 255)) data.

Definition pixels_of (c : N) (data : list N) : list rgba :=
  if c =? 4 then px4 data else if c =? 3 then px3 data else px1 data.
