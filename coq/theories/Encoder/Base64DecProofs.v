(* The streaming decoder (any read schedule, any destination sizes) computes
   exactly the pure group decoder spec_dec4; spec_dec4 inverts rfc4648 and
   rejects every text whose length is not a multiple of four. *)
From Coq Require Import List NArith ZArith Lia Bool Arith ZifyBool ZifyNat ZifyN.
From SNT Require Import Base.Sweep Base.Outcome Gen.TabBase64 Encoder.Base64 Encoder.Base64Proofs.
Import ListNotations.
Local Open Scope N_scope.

(* structural version of the reference decoder *)
Fixpoint spec_dec4 (text : list N) : option (list N) :=
  match text with
  | [] => Some []
  | i0 :: i1 :: i2 :: i3 :: r =>
      match spec_dec4 r with
      | Some rest => Some (firstn (decode_size i2 i3) (decode_u8x4 i0 i1 i2 i3) ++ rest)
      | None => None
      end
  | _ => None
  end.

Lemma buflen_ge3 : (3 <= base64_buffer_len)%nat.
Proof. vm_compute. lia. Qed.

(* ---------- spec_dec4 inverts the RFC encoder ---------- *)

Lemma decode_u8x4_full a b c : a < 256 -> b < 256 -> c < 256 ->
  decode_u8x4 (rfc_char (a / 4)) (rfc_char ((a mod 4) * 16 + b / 16))
              (rfc_char ((b mod 16) * 4 + c / 64)) (rfc_char (c mod 64)) = [a; b; c].
Proof.
  intros Ha Hb Hc. unfold decode_u8x4; cbv zeta.
  rewrite !dec_tbl_inverts_rfc by auto using sext_lt_0, sext_lt_1, sext_lt_2, sext_lt_3.
  rewrite bits_d0 by assumption.
  rewrite bits_d1a, bits_d1b, bits_d1c by assumption.
  rewrite bits_d2 by assumption. reflexivity.
Qed.

Lemma list_ind3 (P : list N -> Prop) :
  P [] -> (forall a, P [a]) -> (forall a b, P [a; b]) ->
  (forall a b c r, P r -> P (a :: b :: c :: r)) -> forall l, P l.
Proof.
  intros H0 H1 H2 H3.
  assert (forall n l, (length l <= n)%nat -> P l) as H.
  { induction n as [|n IH]; intros l Hl.
    - destruct l; [exact H0|cbn in Hl; lia].
    - destruct l as [|a [|b [|c r]]]; auto.
      apply H3, IH. cbn [length] in Hl. lia. }
  intros l. apply (H (length l)). lia.
Qed.

Theorem spec_dec4_rfc x : bytes_ok x = true -> spec_dec4 (rfc4648 x) = Some x.
Proof.
  induction x as [|a|a b|a b c r IH] using list_ind3; intros Hx.
  - reflexivity.
  - apply bytes_ok_cons in Hx as [Ha _].
    cbn [rfc4648]. rewrite g24_0, g24_1 by (assumption || lia).
    change (0 / 16) with 0. rewrite N.add_0_r.
    cbn [spec_dec4]. unfold decode_size. rewrite N.eqb_refl. cbn [firstn].
    unfold decode_u8x4; cbv zeta. rewrite ?dec_tbl_pad.
    rewrite !dec_tbl_inverts_rfc by (auto using sext_lt_0; lia).
    rewrite bits_d0_pad by assumption. reflexivity.
  - apply bytes_ok_cons in Hx as [Ha Hx]. apply bytes_ok_cons in Hx as [Hb _].
    cbn [rfc4648]. rewrite g24_0, g24_1, g24_2 by (assumption || lia).
    change (0 / 64) with 0. rewrite N.add_0_r.
    cbn [spec_dec4]. unfold decode_size.
    rewrite rfc_char_not_pad by lia. rewrite N.eqb_refl. cbn [firstn].
    unfold decode_u8x4; cbv zeta. rewrite ?dec_tbl_pad.
    rewrite !dec_tbl_inverts_rfc by (auto using sext_lt_0, sext_lt_1; lia).
    rewrite bits_d0, bits_d1_pad by assumption. reflexivity.
  - apply bytes_ok_cons in Hx as [Ha Hx]. apply bytes_ok_cons in Hx as [Hb Hx].
    apply bytes_ok_cons in Hx as [Hc Hx].
    cbn [rfc4648]. rewrite g24_0, g24_1, g24_2, g24_3 by assumption.
    cbn [app spec_dec4]. rewrite IH by assumption.
    unfold decode_size.
    rewrite (rfc_char_not_pad ((b mod 16) * 4 + c / 64)) by (apply sext_lt_2; assumption).
    rewrite (rfc_char_not_pad (c mod 64)) by apply sext_lt_3.
    rewrite decode_u8x4_full by assumption. reflexivity.
Qed.

Lemma list_ind4 (P : list N -> Prop) :
  P [] -> (forall a, P [a]) -> (forall a b, P [a; b]) -> (forall a b c, P [a; b; c]) ->
  (forall a b c d r, P r -> P (a :: b :: c :: d :: r)) -> forall l, P l.
Proof.
  intros H0 H1 H2 H3 H4.
  assert (forall n l, (length l <= n)%nat -> P l) as H.
  { induction n as [|n IH]; intros l Hl.
    - destruct l; [exact H0|cbn in Hl; lia].
    - destruct l as [|a [|b [|c [|d r]]]]; auto.
      apply H4, IH. cbn [length] in Hl. lia. }
  intros l. apply (H (length l)). lia.
Qed.

Theorem spec_dec4_reject text :
  (length text mod 4 <> 0)%nat -> spec_dec4 text = None.
Proof.
  induction text as [|a|a b|a b c|a b c d r IH] using list_ind4; intros H; try reflexivity.
  - cbn in H. lia.
  - cbn [spec_dec4]. rewrite IH; [reflexivity|].
    cbn [length] in H. intros E. apply H.
    replace (S (S (S (S (length r))))) with (length r + 1 * 4)%nat by lia.
    rewrite Nat.mod_add by lia. exact E.
Qed.

(* ---------- reading a 4-byte group does not depend on the schedule ---------- *)

Lemma firstn_split_le (l : list N) : forall n k, (n <= k)%nat ->
  firstn n l ++ firstn (k - length (firstn n l)) (skipn n l) = firstn k l.
Proof.
  induction l as [|x l IH]; intros n k Hnk.
  - rewrite !firstn_nil, skipn_nil, firstn_nil. reflexivity.
  - destruct n as [|n].
    + cbn [firstn skipn length app]. now rewrite Nat.sub_0_r.
    + destruct k as [|k]; [lia|].
      cbn [firstn skipn length app]. rewrite Nat.sub_succ. f_equal. apply IH. lia.
Qed.

Lemma skipn_skipn_len (l : list N) : forall n k, (n <= k)%nat ->
  skipn (k - length (firstn n l)) (skipn n l) = skipn k l.
Proof.
  induction l as [|x l IH]; intros n k Hnk.
  - now rewrite !skipn_nil.
  - destruct n as [|n].
    + cbn [firstn skipn length]. now rewrite Nat.sub_0_r.
    + destruct k as [|k]; [lia|].
      cbn [firstn skipn length]. rewrite Nat.sub_succ. apply IH. lia.
Qed.

Lemma rd_group_spec : forall f acc rem sched,
  (4 - length acc <= f)%nat -> (length acc <= 4)%nat ->
  exists sched',
    rd_group f acc (rem, sched) =
    (acc ++ firstn (4 - length acc) rem, (skipn (4 - length acc) rem, sched')).
Proof.
  induction f as [|f IH]; intros acc rem sched Hf Hacc.
  - exists sched. cbn [rd_group]. replace (4 - length acc)%nat with 0%nat by lia.
    cbn [firstn skipn]. now rewrite app_nil_r.
  - cbn [rd_group]. destruct (Nat.ltb (length acc) 4) eqn:Hlt.
    + apply Nat.ltb_lt in Hlt.
      set (k := (4 - length acc)%nat) in *.
      unfold rd_read.
      set (s := match sched with [] => k | s :: _ => Nat.max 1 s end).
      assert (Hs : (1 <= s)%nat) by (subst s; destruct sched; lia).
      set (n := Nat.min k s).
      assert (Hn : (1 <= n <= k)%nat) by (subst n; lia).
      destruct (firstn n rem) as [|b bs] eqn:Hbs.
      * (* nothing read: rem = [] *)
        assert (rem = []) as ->.
        { destruct rem; [reflexivity|]. destruct n; [lia|]. discriminate Hbs. }
        exists (tl sched). rewrite firstn_nil, !skipn_nil, app_nil_r. reflexivity.
      * rewrite <- Hbs.
        assert (Hlen : (length (firstn n rem) <= n)%nat) by apply firstn_le_length.
        assert (Hpos : (1 <= length (firstn n rem))%nat) by (rewrite Hbs; cbn; lia).
        destruct (IH (acc ++ firstn n rem) (skipn n rem) (tl sched)) as [sched' E].
        { rewrite app_length. lia. }
        { rewrite app_length. lia. }
        exists sched'. rewrite E. rewrite app_length.
        replace (4 - (length acc + length (firstn n rem)))%nat
          with (k - length (firstn n rem))%nat by lia.
        rewrite <- app_assoc. rewrite firstn_split_le by lia.
        rewrite skipn_skipn_len by lia. reflexivity.
    + apply Nat.ltb_ge in Hlt. exists sched.
      replace (4 - length acc)%nat with 0%nat by lia.
      cbn [firstn skipn]. now rewrite app_nil_r.
Qed.

Lemma rd_group4 rem sched :
  exists sched', rd_group 4 [] (rem, sched) = (firstn 4 rem, (skipn 4 rem, sched')).
Proof.
  destruct (rd_group_spec 4 [] rem sched) as [s E]; cbn [length]; try lia.
  exists s. exact E.
Qed.

(* ---------- buffer_fill ---------- *)

Definition omap_app (d : list N) (o : option (list N)) : option (list N) :=
  match o with Some t => Some (d ++ t) | None => None end.

Lemma decode_group_len g out : decode_group g = Some out ->
  (1 <= length out <= 3)%nat /\ length g = 4%nat.
Proof.
  destruct g as [|i0 [|i1 [|i2 [|i3 [|? ?]]]]]; cbn [decode_group]; try discriminate.
  intros [= <-]. split; [|reflexivity].
  unfold decode_size, decode_u8x4.
  destruct (i2 =? PAD); [cbn; lia|]. destruct (i3 =? PAD); cbn; lia.
Qed.

Lemma fill_loop_spec : forall fuel pend size rem sched,
  (fuel + size > base64_buffer_len)%nat -> (size <= base64_buffer_len)%nat ->
  match fill_loop fuel pend size (rem, sched) with
  | Ok (p', s', (rem', _)) =>
      exists d, p' = pend ++ d /\ s' = (size + length d)%nat /\
                spec_dec4 rem = omap_app d (spec_dec4 rem') /\
                (length d + length rem' <= length rem)%nat /\
                ((size + 3 <= base64_buffer_len)%nat -> rem <> [] -> d <> [])
  | Err e => e = 1 /\ spec_dec4 rem = None
  | Panic _ => False
  | OutOfFuel => False
  end.
Proof.
  induction fuel as [|fuel IH]; intros pend size rem sched Hfuel Hsize.
  - lia.
  - cbn [fill_loop]. destruct (Nat.leb (size + 3) base64_buffer_len) eqn:Hle.
    + apply Nat.leb_le in Hle.
      destruct (rd_group4 rem sched) as [sched' E]. rewrite E.
      destruct rem as [|i0 [|i1 [|i2 [|i3 r]]]]; cbn [firstn skipn].
      * exists []. rewrite app_nil_r. cbn [length].
        repeat split; auto; try lia; try congruence.
      * cbn [decode_group]. split; reflexivity.
      * cbn [decode_group]. split; reflexivity.
      * cbn [decode_group]. split; reflexivity.
      * set (g := [i0; i1; i2; i3]).
        destruct (decode_group g) as [out|] eqn:Hg; [|discriminate Hg].
        pose proof (decode_group_len _ _ Hg) as [Hout _].
        destruct (Nat.leb (size + length out) base64_buffer_len) eqn:Hfit;
          [|apply Nat.leb_gt in Hfit; lia].
        specialize (IH (pend ++ out) (size + length out)%nat r sched').
        destruct (fill_loop fuel (pend ++ out) (size + length out) (r, sched'))
          as [[[p' s'] [rem' sch'']]|e|s|] eqn:Hrec.
        -- apply Nat.leb_le in Hfit.
           destruct IH as (d & Hp & Hs & Hspec & Hlen & _); [lia|lia|].
           exists (out ++ d). rewrite app_length. repeat split.
           ++ now rewrite app_assoc.
           ++ lia.
           ++ cbn [spec_dec4]. rewrite Hspec. unfold g in Hg. cbn [decode_group] in Hg.
              injection Hg as <-.
              destruct (spec_dec4 rem'); cbn [omap_app]; [now rewrite app_assoc|reflexivity].
           ++ cbn [length] in *. lia.
           ++ intros _ _ Hd. apply app_eq_nil in Hd as [Hd _]. subst out. cbn in Hout. lia.
        -- apply Nat.leb_le in Hfit.
           destruct IH as [He Hn]; [lia|lia|]. split; [exact He|].
           cbn [spec_dec4]. now rewrite Hn.
        -- apply Nat.leb_le in Hfit. apply IH; lia.
        -- apply Nat.leb_le in Hfit. apply IH; lia.
    + apply Nat.leb_gt in Hle. exists []. rewrite app_nil_r. cbn [length].
      repeat split; auto; try lia; try (destruct (spec_dec4 rem); reflexivity).
Qed.

(* ---------- the state seen as a virtual stream ---------- *)

Definition rem_of (st : dec_state) : list N := fst (rd st).
Definition avail (st : dec_state) : option (list N) :=
  omap_app (pending st) (spec_dec4 (rem_of st)).
Definition measure (st : dec_state) : nat := (length (pending st) + length (rem_of st))%nat.

Lemma buffer_fill_spec st :
  pending st = [] ->
  match buffer_fill st with
  | Ok st' => avail st' = avail st /\ (measure st' <= measure st)%nat /\
              (rem_of st <> [] -> pending st' <> [])
  | Err e => e = 1 /\ avail st = None
  | Panic _ => False
  | OutOfFuel => False
  end.
Proof.
  intros Hp. unfold buffer_fill. rewrite Hp.
  destruct st as [p bs [rem sched]]. cbn [pending bsize rd] in *. subst p.
  pose proof (fill_loop_spec (S base64_buffer_len) [] 0 rem sched) as H.
  destruct (fill_loop (S base64_buffer_len) [] 0 (rem, sched))
    as [[[p' s'] [rem' sch']]|e|s|]; cbn [bind].
  - destruct H as (d & -> & -> & Hspec & Hlen & Hprog); [lia|lia|].
    unfold avail, measure, rem_of. cbn [pending rd fst app length].
    repeat split.
    + rewrite Hspec. destruct (spec_dec4 rem'); reflexivity.
    + lia.
    + intros Hrem. apply Hprog; [pose proof buflen_ge3; lia|exact Hrem].
  - destruct H as [He Hn]; [lia|lia|]. split; [exact He|].
    unfold avail, rem_of. cbn [pending rd fst]. now rewrite Hn.
  - apply H; lia.
  - apply H; lia.
Qed.

(* ---------- Read::read ---------- *)

Lemma omap_app_app a b o : omap_app (a ++ b) o = omap_app a (omap_app b o).
Proof. destruct o; cbn; [now rewrite app_assoc|reflexivity]. Qed.

Lemma read_loop_spec : forall fuel want got st,
  (fuel + length got > want)%nat -> (length got <= want)%nat ->
  match read_loop fuel want got st with
  | Ok (got', st') =>
      exists taken, got' = got ++ taken /\
        avail st = omap_app taken (avail st') /\
        (measure st' + length taken <= measure st)%nat /\
        (length got' <= Nat.max want (length got))%nat /\
        ((length got' < want)%nat -> rem_of st' = [] /\ pending st' = [])
  | Err e => e = 1 /\ avail st = None
  | Panic _ => False
  | OutOfFuel => False
  end.
Proof.
  induction fuel as [|fuel IH]; intros want got st Hfuel Hgw.
  - lia.
  - cbn [read_loop]. destruct (Nat.ltb (length got) want) eqn:Hlt.
    + apply Nat.ltb_lt in Hlt.
      (* st1: after the optional refill *)
      assert (Hst1 :
        match (match pending st with [] => buffer_fill st | _ => Ok st end) with
        | Ok st1 => avail st1 = avail st /\ (measure st1 <= measure st)%nat /\
                    (pending st1 = [] -> rem_of st1 = [] )
        | Err e => e = 1 /\ avail st = None
        | Panic _ => False
        | OutOfFuel => False
        end).
      { destruct (pending st) as [|p ps] eqn:Hp.
        - pose proof (buffer_fill_spec st Hp) as H.
          destruct (buffer_fill st) as [st1|e|s|] eqn:Hbf; auto.
          destruct H as (Ha & Hm & Hprog). repeat split; auto.
          intros Hp1.
          (* pending empty after fill: either rem was empty (then rem_of st1 = []
             because measure did not grow) *)
          destruct (rem_of st) as [|r0 rs] eqn:Hrem.
          + unfold measure in Hm. rewrite Hp, Hrem, Hp1 in Hm. cbn [length] in Hm.
            destruct (rem_of st1); [reflexivity|cbn [length] in Hm; lia].
          + exfalso. apply Hprog; [discriminate|exact Hp1].
        - repeat split; auto. intros Hp1. rewrite Hp in Hp1. discriminate. }
      destruct (match pending st with [] => buffer_fill st | _ => Ok st end)
        as [st1|e|s|]; cbn [bind]; auto.
      destruct Hst1 as (Ha1 & Hm1 & Hemp).
      destruct (pending st1) as [|p ps] eqn:Hp1.
      * exists []. rewrite app_nil_r. cbn [length omap_app]. repeat split.
        -- rewrite <- Ha1. destruct (avail st1); reflexivity.
        -- lia.
        -- lia.
        -- apply Hemp. reflexivity.
        -- exact Hp1.
      * rewrite <- Hp1.
        set (n := Nat.min (length (pending st1)) (want - length got)).
        set (st2 := {| pending := skipn n (pending st1); bsize := bsize st1; rd := rd st1 |}).
        assert (Hn : (1 <= n)%nat).
        { subst n. rewrite Hp1. cbn [length]. lia. }
        assert (Hfl : length (firstn n (pending st1)) = n).
        { apply firstn_length_le. subst n. lia. }
        specialize (IH want (got ++ firstn n (pending st1)) st2).
        destruct (read_loop fuel want (got ++ firstn n (pending st1)) st2)
          as [[got' st']|e|s|] eqn:Hrec.
        -- destruct IH as (taken & Hg & Ha & Hm & Hl & Hfin).
           { rewrite app_length. lia. }
           { rewrite app_length. subst n. lia. }
           exists (firstn n (pending st1) ++ taken). repeat split.
           ++ now rewrite app_assoc.
           ++ rewrite <- Ha1. rewrite omap_app_app. rewrite <- Ha.
              unfold avail. subst st2. cbn [pending rd]. unfold rem_of. cbn [rd].
              rewrite <- omap_app_app. now rewrite firstn_skipn.
           ++ rewrite app_length.
              assert (measure st2 + n = measure st1)%nat.
              { unfold measure, st2, rem_of. cbn [pending rd].
                rewrite skipn_length. subst n. lia. }
              lia.
           ++ rewrite app_length in Hl. rewrite Hfl in Hl. subst n. lia.
           ++ now apply Hfin.
           ++ now apply Hfin.
        -- destruct IH as [He Hn']. { rewrite app_length. lia. } { rewrite app_length. subst n. lia. }
           split; [exact He|]. rewrite <- Ha1.
           assert (avail st1 = omap_app (firstn n (pending st1)) (avail st2)) as ->.
           { unfold avail. subst st2. cbn [pending rd]. unfold rem_of. cbn [rd].
             rewrite <- omap_app_app. now rewrite firstn_skipn. }
           now rewrite Hn'.
        -- apply IH; rewrite app_length; subst n; lia.
        -- apply IH; rewrite app_length; subst n; lia.
    + apply Nat.ltb_ge in Hlt. exists []. rewrite app_nil_r. cbn [length]. repeat split.
      * destruct (avail st); reflexivity.
      * lia.
      * lia.
      * lia.
      * lia.
Qed.

Lemma dec_read_spec want st : (1 <= want)%nat ->
  match dec_read want st with
  | Ok (bs, st') =>
        avail st = omap_app bs (avail st') /\
        (measure st' + length bs <= measure st)%nat /\
        (bs = [] -> avail st' = Some [])
  | Err e => e = 1 /\ avail st = None
  | Panic _ => False
  | OutOfFuel => False
  end.
Proof.
  intros Hw. unfold dec_read.
  pose proof (read_loop_spec (S want) want [] st) as H. cbn [length] in H.
  destruct (read_loop (S want) want [] st) as [[got' st']|e|s|]; try (apply H; lia).
  destruct H as (taken & -> & Ha & Hm & _ & Hfin); [lia|lia|]. cbn [app] in *.
  repeat split; auto. intros ->. cbn [length] in Hfin.
  destruct Hfin as [Hr Hp]; [lia|]. unfold avail. now rewrite Hr, Hp.
Qed.

(* ---------- driving the decoder to exhaustion ---------- *)

Definition expected (o : option (list N)) (acc : list N) : outcome (list N) :=
  match o with Some t => Ok (acc ++ t) | None => Err 1 end.

Lemma next_dest_pos dests all : (1 <= fst (next_dest dests all))%nat.
Proof. unfold next_dest. destruct dests; [destruct all|]; cbn [fst]; lia. Qed.

Lemma drive_spec : forall fuel dests all acc st,
  (measure st < fuel)%nat ->
  drive fuel dests all acc st = expected (avail st) acc.
Proof.
  induction fuel as [|fuel IH]; intros dests all acc st Hm; [lia|].
  cbn [drive]. pose proof (next_dest_pos dests all) as Hd.
  destruct (next_dest dests all) as [d ds]. cbn [fst] in Hd.
  pose proof (dec_read_spec d st Hd) as H.
  destruct (dec_read d st) as [[bs st']|e|s|]; cbn [bind]; try contradiction.
  - destruct H as (Ha & Hme & Hnil). destruct bs as [|b bs].
    + rewrite Ha, (Hnil eq_refl). cbn. now rewrite app_nil_r.
    + rewrite IH by (cbn [length] in Hme; lia).
      rewrite Ha. destruct (avail st'); cbn; [now rewrite <- app_assoc|reflexivity].
  - destruct H as [-> Hn]. rewrite Hn. reflexivity.
Qed.

Theorem decode_all_spec text sched dests :
  decode_all text sched dests = expected (spec_dec4 text) [].
Proof.
  unfold decode_all. rewrite drive_spec.
  - unfold avail, rem_of. cbn [pending rd fst].
    destruct (spec_dec4 text); reflexivity.
  - unfold measure, rem_of. cbn. lia.
Qed.

(* ---------- the three decoder statements of C14 ---------- *)

Theorem decode_all_roundtrip x sched dests :
  bytes_ok x = true -> decode_all (rfc4648 x) sched dests = Ok x.
Proof. intros H. rewrite decode_all_spec, spec_dec4_rfc by exact H. reflexivity. Qed.

Theorem decode_all_reject text sched dests :
  (length text mod 4 <> 0)%nat -> decode_all text sched dests = Err 1.
Proof. intros H. rewrite decode_all_spec, spec_dec4_reject by exact H. reflexivity. Qed.

Theorem decode_all_total text sched dests :
  match decode_all text sched dests with
  | Ok _ | Err _ => True
  | Panic _ | OutOfFuel => False
  end.
Proof. rewrite decode_all_spec. destruct (spec_dec4 text); exact I. Qed.

(* drive_p is drive plus the bytes delivered so far *)
Lemma drive_p_drive : forall fuel dests all acc st,
  drive fuel dests all acc st =
  match drive_p fuel dests all acc st with
  | (a, Ok _) => Ok a
  | (_, Err e) => Err e
  | (_, Panic s) => Panic s
  | (_, OutOfFuel) => OutOfFuel
  end.
Proof.
  induction fuel as [|f IH]; intros dests all acc st; [reflexivity|].
  cbn [drive drive_p]. destruct (next_dest dests all) as [d ds].
  destruct (dec_read d st) as [[bs st']| | |]; cbn [bind]; try reflexivity.
  destruct bs; [reflexivity|apply IH].
Qed.

Theorem decode_all_partial_agrees text sched dests :
  decode_all text sched dests =
  match decode_all_partial text sched dests with
  | (a, Ok _) => Ok a
  | (_, Err e) => Err e
  | (_, Panic s) => Panic s
  | (_, OutOfFuel) => OutOfFuel
  end.
Proof. apply drive_p_drive. Qed.
