(* C05: every command except the two SGR ones (EncodeSgrProofs.v).
   For each command: the bytes of the encoder model, read by the independent
   VT parser + interpreter, are exactly the command's meaning, and the parser
   is back in its initial state afterwards. *)
From Coq Require Import List NArith ZArith Bool Lia ZifyBool ZifyN.
From SNT Require Import Base.Outcome Encoder.Decimal Encoder.DecimalProofs Encoder.Utf8 Encoder.Utf8Proofs
  Encoder.VT Encoder.VTProofs Encoder.Encode Encoder.Denote Gen.TabEncoder.
Import ListNotations.
Local Open Scope N_scope.
Arguments print : simpl never.

(* bytes `bs` mean exactly `ops` and leave nothing pending *)
Definition good (bs : list N) (ops : list op) : Prop :=
  vt_ops bs = ops /\ vt_complete bs = true.

Lemma good_nil : good [] [].
Proof. split; reflexivity. Qed.

Lemma good_app a b x y : good a x -> good b y -> good (a ++ b) (x ++ y).
Proof.
  intros [Ha Ca] [Hb Cb]. split.
  - rewrite vt_ops_app by exact Ca. congruence.
  - apply vt_complete_app; assumption.
Qed.

Lemma good_utf8 cs ts :
  forallb scalar_ok cs = true -> feed_all SGround cs = (SGround, ts) -> good (utf8_list cs) (interp ts).
Proof.
  intros H E. destruct (parse_utf8 cs ts H E) as [P C]. split; [|exact C].
  unfold vt_ops. rewrite P. reflexivity.
Qed.

Lemma good_ascii bs ts :
  Forall (fun c => c < 128) bs -> feed_all SGround bs = (SGround, ts) -> good bs (interp ts).
Proof.
  intros H E. rewrite <- (utf8_list_ascii bs H). apply good_utf8; [apply ascii_scalar, H | exact E].
Qed.

Lemma ascii_params ps : Forall (fun c => c < 128) (print_params ps).
Proof. eapply Forall_impl; [|apply print_params_bytes]. intros a Ha. cbn beta in Ha. lia. Qed.

(* ---------- interpreting a printed parameter string ---------- *)
Definition wf_params (ps : list param) : Prop := ps <> [] /\ Forall (fun p => p <> []) ps.

Lemma interp_csi_print tok ps ints f :
  wf_params ps -> interp_csi tok (print_params ps) ints f = csi_dispatch tok None ps ints f.
Proof.
  intros [H1 H2]. unfold interp_csi.
  rewrite split_marker_plain by apply print_params_bytes.
  rewrite parse_print_params by assumption. reflexivity.
Qed.

Lemma interp_csi_print_m tok m ps ints f :
  60 <= m <= 63 -> wf_params ps ->
  interp_csi tok (m :: print_params ps) ints f = csi_dispatch tok (Some m) ps ints f.
Proof.
  intros Hm [H1 H2]. unfold interp_csi.
  rewrite split_marker_marked by exact Hm.
  rewrite parse_print_params by assumption. reflexivity.
Qed.

(* ESC [ params final *)
Lemma csi_good ps f :
  wf_params ps -> 64 <= f <= 126 ->
  exists tok, good (CSI ++ print_params ps ++ [f]) (csi_dispatch tok None ps [] f).
Proof.
  intros Hw Hf. exists (TCsi (print_params ps) [] f).
  rewrite <- (app_nil_r (csi_dispatch _ _ _ _ _)), <- (interp_csi_print _ ps [] f Hw).
  apply (good_ascii _ [TCsi (print_params ps) [] f]).
  - unfold CSI. repeat constructor; try lia. apply Forall_app. split; [apply ascii_params|].
    constructor; [lia|constructor].
  - apply csi_seq; [apply print_params_param_bytes | exact Hf].
Qed.

(* ESC [ marker params final *)
Lemma csi_good_m m ps f :
  60 <= m <= 63 -> wf_params ps -> 64 <= f <= 126 ->
  exists tok, good (CSI ++ [m] ++ print_params ps ++ [f]) (csi_dispatch tok (Some m) ps [] f).
Proof.
  intros Hm Hw Hf. exists (TCsi (m :: print_params ps) [] f).
  rewrite <- (app_nil_r (csi_dispatch _ _ _ _ _)), <- (interp_csi_print_m _ m ps [] f Hm Hw).
  apply (good_ascii _ [TCsi (m :: print_params ps) [] f]).
  - unfold CSI. repeat constructor; try lia. apply Forall_app. split; [apply ascii_params|].
    constructor; [lia|constructor].
  - apply (csi_seq (m :: print_params ps) f); [|exact Hf].
    constructor; [unfold param_byte; lia | apply print_params_param_bytes].
Qed.

(* ESC [ marker params intermediate final *)
Lemma csi_good_mi m ps i f :
  60 <= m <= 63 -> wf_params ps -> inter_byte i -> 64 <= f <= 126 ->
  exists tok, good (CSI ++ [m] ++ print_params ps ++ [i; f]) (csi_dispatch tok (Some m) ps [i] f).
Proof.
  intros Hm Hw Hi Hf. exists (TCsi (m :: print_params ps) [i] f).
  rewrite <- (app_nil_r (csi_dispatch _ _ _ _ _)), <- (interp_csi_print_m _ m ps [i] f Hm Hw).
  apply (good_ascii _ [TCsi (m :: print_params ps) [i] f]).
  - unfold CSI. repeat constructor; try lia. apply Forall_app. split; [apply ascii_params|].
    unfold inter_byte in Hi. repeat constructor; lia.
  - apply (csi_seq_i (m :: print_params ps) i f); [|exact Hi|exact Hf].
    constructor; [unfold param_byte; lia | apply print_params_param_bytes].
Qed.

Lemma wf1 n : wf_params [[Some n]].
Proof. split; [discriminate | repeat constructor; discriminate]. Qed.
Lemma wf2 a b : wf_params [[Some a]; [Some b]].
Proof. split; [discriminate | repeat constructor; discriminate]. Qed.

Lemma one_if_default_pos n : n <> 0 -> one_if_default (Some n) = n.
Proof. destruct n; [congruence | reflexivity]. Qed.
Lemma nonzero_pos n : n <> 0 -> nonzero (Some n) = Some n.
Proof. destruct n; [congruence | reflexivity]. Qed.

(* ---------- one-parameter cursor / erase / scroll functions ---------- *)
Lemma csi1_good n f o :
  n <> 0 -> 64 <= f <= 126 ->
  (forall tok, csi_dispatch tok None [[Some n]] [] f = [o (one_if_default (Some n))]) ->
  good (CSI ++ print n ++ [f]) [o n].
Proof.
  intros Hn Hf Hd. destruct (csi_good [[Some n]] f (wf1 n) Hf) as [tok H].
  rewrite Hd, one_if_default_pos in H by exact Hn. exact H.
Qed.

Lemma cuf_good n : n <> 0 -> good (CSI ++ print n ++ [67]) [OCuf n].
Proof. intros H. apply (csi1_good n 67 OCuf); [exact H | lia | reflexivity]. Qed.
Lemma cub_good n : n <> 0 -> good (CSI ++ print n ++ [68]) [OCub n].
Proof. intros H. apply (csi1_good n 68 OCub); [exact H | lia | reflexivity]. Qed.
Lemma cud_good n : n <> 0 -> good (CSI ++ print n ++ [66]) [OCud n].
Proof. intros H. apply (csi1_good n 66 OCud); [exact H | lia | reflexivity]. Qed.
Lemma cuu_good n : n <> 0 -> good (CSI ++ print n ++ [65]) [OCuu n].
Proof. intros H. apply (csi1_good n 65 OCuu); [exact H | lia | reflexivity]. Qed.
Lemma ech_good n : n <> 0 -> good (CSI ++ print n ++ [88]) [OEch n].
Proof. intros H. apply (csi1_good n 88 OEch); [exact H | lia | reflexivity]. Qed.
Lemma su_good n : n <> 0 -> good (CSI ++ print n ++ [83]) [OSu n].
Proof. intros H. apply (csi1_good n 83 OSu); [exact H | lia | reflexivity]. Qed.
Lemma sd_good n : n <> 0 -> good (CSI ++ print n ++ [84]) [OSd n].
Proof. intros H. apply (csi1_good n 84 OSd); [exact H | lia | reflexivity]. Qed.

Lemma two_params a b f : CSI ++ print a ++ [59] ++ print b ++ [f] = CSI ++ print_params [[Some a]; [Some b]] ++ [f].
Proof. rewrite print_params_2. f_equal. rewrite <- app_assoc. reflexivity. Qed.

Lemma cup_good a b : a <> 0 -> b <> 0 -> good (CSI ++ print a ++ [59] ++ print b ++ [72]) [OCup a b].
Proof.
  intros Ha Hb. rewrite two_params. destruct (csi_good [[Some a]; [Some b]] 72 (wf2 _ _)) as [tok H]; [lia|].
  destruct a; [congruence|]. destruct b; [congruence|]. exact H.
Qed.

Lemma decstbm_good a b :
  a <> 0 -> b <> 0 -> good (CSI ++ print a ++ [59] ++ print b ++ [114]) [ODecstbm (Some a) (Some b)].
Proof.
  intros Ha Hb. rewrite two_params. destruct (csi_good [[Some a]; [Some b]] 114 (wf2 _ _)) as [tok H]; [lia|].
  destruct a; [congruence|]. destruct b; [congruence|]. exact H.
Qed.

(* ---------- DEC private modes, kitty keyboard ---------- *)
Lemma decset_good m : good (CSI ++ [63] ++ print m ++ [104]) [ODecset m].
Proof. destruct (csi_good_m 63 [[Some m]] 104) as [tok H]; [lia | apply wf1 | lia | exact H]. Qed.
Lemma decrst_good m : good (CSI ++ [63] ++ print m ++ [108]) [ODecrst m].
Proof. destruct (csi_good_m 63 [[Some m]] 108) as [tok H]; [lia | apply wf1 | lia | exact H]. Qed.
Lemma decrqm_good m : good (CSI ++ [63] ++ print m ++ [36; 112]) [ODecrqm m].
Proof.
  destruct (csi_good_mi 63 [[Some m]] 36 112) as [tok H];
    [lia | apply wf1 | unfold inter_byte; lia | lia | exact H].
Qed.
Lemma kitty_set_good l : good (CSI ++ [61] ++ print l ++ [117]) [OKittySet l 1].
Proof. destruct (csi_good_m 61 [[Some l]] 117) as [tok H]; [lia | apply wf1 | lia | exact H]. Qed.

Lemma kitty_level_good cp l : good (kitty_level cp l) (kitty_ops cp l).
Proof.
  unfold kitty_level, kitty_ops. destruct (cp_kitty cp); [apply kitty_set_good | apply good_nil].
Qed.

(* the regenerated discriminants are xterm's mode numbers *)
Lemma decmode_code_xterm m : decmode_code m = decmode_xterm m.
Proof. destruct m; reflexivity. Qed.

(* ---------- fixed strings ---------- *)
Ltac fixed := split; vm_compute; reflexivity.
Lemma dsr_good : good (CSI ++ [54; 110]) [ODsr 6]. Proof. fixed. Qed.
Lemma decsc_good : good [27; 55] [ODecsc]. Proof. fixed. Qed.
Lemma decrc_good : good [27; 56] [ODecrc]. Proof. fixed. Qed.
Lemma el0_good : good (CSI ++ [75]) [OEl 0]. Proof. fixed. Qed.
Lemma el1_good : good (CSI ++ [49; 75]) [OEl 1]. Proof. fixed. Qed.
Lemma el2_good : good (CSI ++ [50; 75]) [OEl 2]. Proof. fixed. Qed.
Lemma ed2_good : good (CSI ++ [50; 74]) [OEd 2]. Proof. fixed. Qed.
Lemma ris_good : good [27; 99] [ORis]. Proof. fixed. Qed.
Lemma da1_good : good (CSI ++ [99]) [ODa1]. Proof. fixed. Qed.
Lemma decrqss_good : good ([27; 80; 36; 113; 109] ++ ST) [ODecrqss [109]]. Proof. fixed. Qed.
Lemma decstbm_reset_good : good (CSI ++ [114]) [ODecstbm None None]. Proof. fixed. Qed.

(* ---------- characters ---------- *)
Definition char_ops (c : N) : list op :=
  if (c =? 127) || (c =? 156) then []
  else if is_c0 c || is_c1 c then [OExec c]
  else [OPrint c].

Lemma char_good_plain c :
  scalar_ok c = true -> char_introducer c = false -> good (utf8_enc c) (char_ops c).
Proof.
  intros Hs Hc. unfold char_introducer in Hc.
  set (ts := if (c =? 127) || (c =? 156) then [] else if is_c0 c || is_c1 c then [TExec c] else [TPrint c]).
  assert (E : feed_all SGround [c] = (SGround, ts)).
  { cbn [feed_all]. unfold ts, feed, is_c1, is_c0, between. ifs; reflexivity. }
  assert (G : good (utf8_list [c]) (interp ts)).
  { apply good_utf8; [cbn; rewrite Hs; reflexivity | exact E]. }
  unfold utf8_list in G. cbn [flat_map] in G. rewrite app_nil_r in G.
  unfold char_ops, ts in *. destruct ((c =? 127) || (c =? 156)); [exact G|].
  destruct (is_c0 c || is_c1 c); exact G.
Qed.

Lemma opens_sequence_introducer c : opens_sequence c = char_introducer c.
Proof. reflexivity. Qed.

Lemma char_good c :
  scalar_ok c = true ->
  good (utf8_enc (if opens_sequence c then 65533 else c))
       (if char_introducer c then [OPrint 65533] else char_ops c).
Proof.
  intros Hs. rewrite opens_sequence_introducer. destruct (char_introducer c) eqn:E.
  - exact (char_good_plain 65533 eq_refl eq_refl).
  - apply char_good_plain; assumption.
Qed.

(* ---------- OSC: title ---------- *)
Lemma utf8_list_app a b : utf8_list (a ++ b) = utf8_list a ++ utf8_list b.
Proof. unfold utf8_list. apply flat_map_app. Qed.

Lemma text_ok_put t : text_ok t = true -> Forall osc_put t /\ forallb scalar_ok t = true.
Proof.
  unfold text_ok. intros H. split.
  - apply Forall_forall. intros c Hc. rewrite forallb_forall in H. apply H in Hc.
    unfold is_control, between, osc_put in *. lia.
  - apply forallb_forall. intros c Hc. rewrite forallb_forall in H. apply H in Hc.
    apply andb_prop in Hc. tauto.
Qed.

Lemma title_good t :
  text_ok t = true -> good ([27; 93; 48; 59] ++ utf8_list t ++ ST) [OTitle 0 t].
Proof.
  intros H. destruct (text_ok_put t H) as [Hp Hs].
  replace ([27; 93; 48; 59] ++ utf8_list t ++ ST) with (utf8_list ([27; 93; 48; 59] ++ t ++ [27; 92])).
  2:{ rewrite !utf8_list_app. reflexivity. }
  change [OTitle 0 t] with (interp [TOsc (48 :: 59 :: t); TEsc [] 92]).
  apply good_utf8.
  - rewrite !forallb_app, Hs. reflexivity.
  - apply (osc_seq (48 :: 59 :: t)). repeat constructor; try lia. exact Hp.
Qed.

(* ---------- OSC: colours ---------- *)
Ltac Zify.zify_post_hook ::= Z.div_mod_to_equations.

Definition rgb_spec (c : rgba) : list N := [35] ++ hex2 (cr c) ++ hex2 (cg c) ++ hex2 (cb c).
Definition spec_bytes (c : option rgba) : list N := match c with Some c => rgb_spec c | None => [63] end.

Lemma parse_cspec_rgb c : rgba_ok c = true -> parse_cspec (rgb_spec c) = CsSharp 2 (cr c) (cg c) (cb c).
Proof.
  unfold rgba_ok, byte_ok. intros H. unfold rgb_spec, hex2. cbn [app]. unfold parse_cspec.
  cbn [hex_all]. rewrite !hex_val_digit by lia. cbn. f_equal; lia.
Qed.

Lemma parse_cspec_spec c : orgba_ok c = true -> parse_cspec (spec_bytes c) = spec_of c.
Proof. destruct c as [c|]; [apply parse_cspec_rgb | reflexivity]. Qed.

Lemma hex2_range b : b < 256 -> Forall (fun x => 32 <= x <= 126 /\ x <> 59) (hex2 b).
Proof.
  intros Hb. unfold hex2.
  assert (H1 : b / 16 < 16) by lia. assert (H2 : b mod 16 < 16) by lia.
  apply hex_digit_range in H1. apply hex_digit_range in H2.
  generalize dependent (hex_digit (b / 16)). generalize dependent (hex_digit (b mod 16)).
  intros x Hx y Hy. repeat constructor; lia.
Qed.

Lemma spec_bytes_range c : orgba_ok c = true -> Forall (fun x => 32 <= x <= 126 /\ x <> 59) (spec_bytes c).
Proof.
  destruct c as [c|]; cbn [spec_bytes orgba_ok]; [|intros _; repeat constructor; lia].
  unfold rgba_ok, byte_ok. intros H. unfold rgb_spec.
  repeat (apply Forall_app; split); try (apply hex2_range; lia). repeat constructor; lia.
Qed.

Lemma spec_no59 c : orgba_ok c = true -> ~ In 59 (spec_bytes c).
Proof.
  intros H Hin. pose proof (spec_bytes_range c H) as F. rewrite Forall_forall in F.
  apply F in Hin. lia.
Qed.

Lemma range_put l : Forall (fun x => 32 <= x <= 126 /\ x <> 59) l -> Forall osc_put l.
Proof. apply Forall_impl. unfold osc_put. intros a Ha. lia. Qed.

Lemma range_ascii l : Forall (fun x => 32 <= x <= 126 /\ x <> 59) l -> Forall (fun c => c < 128) l.
Proof. apply Forall_impl. intros a Ha. lia. Qed.

Lemma digits_put n : Forall osc_put (print n).
Proof.
  pose proof (print_digits n) as Hd. unfold digits in Hd. eapply Forall_impl; [|exact Hd].
  intros a Ha. apply is_digit_range in Ha. unfold osc_put. lia.
Qed.
Lemma digits_ascii n : Forall (fun c => c < 128) (print n).
Proof.
  pose proof (print_digits n) as Hd. unfold digits in Hd. eapply Forall_impl; [|exact Hd].
  intros a Ha. apply is_digit_range in Ha. lia.
Qed.

Lemma cut_semicolon_at ds rest : forall acc,
  ~ In 59 ds -> cut_semicolon (ds ++ 59 :: rest) acc = (rev acc ++ ds, Some rest).
Proof.
  induction ds as [|d ds IH]; intros acc H.
  - cbn [app cut_semicolon]. rewrite N.eqb_refl, app_nil_r. reflexivity.
  - cbn [app cut_semicolon]. replace (d =? 59) with false.
    + rewrite IH by (intros Hin; apply H; right; exact Hin). cbn [rev]. rewrite <- app_assoc. reflexivity.
    + symmetry. apply N.eqb_neq. intros ->. apply H. left. reflexivity.
Qed.

(* OSC Ps ; spec ST for a dynamic colour Ps = 10 / 11 *)
Lemma dyn_good w c :
  w = 10 \/ w = 11 -> orgba_ok c = true ->
  good ([27; 93] ++ (print w ++ [59]) ++ spec_bytes c ++ ST) [ODynColour w (spec_of c)].
Proof.
  intros Hw Hc.
  pose proof (spec_bytes_range c Hc) as Hr.
  assert (E : interp [TOsc (print w ++ 59 :: spec_bytes c); TEsc [] 92] = [ODynColour w (spec_of c)]).
  { cbn [interp flat_map interp_token app]. unfold interp_osc.
    rewrite cut_semicolon_at by (apply print_no_sep; lia). cbv beta iota. cbn [rev app].
    rewrite parse_print, split_single by (apply spec_no59, Hc). rewrite parse_cspec_spec by exact Hc.
    destruct Hw; subst w; reflexivity. }
  rewrite <- E.
  replace ([27; 93] ++ (print w ++ [59]) ++ spec_bytes c ++ ST)
    with (27 :: 93 :: (print w ++ 59 :: spec_bytes c) ++ [27; 92]).
  2:{ cbn [app]. rewrite <- !app_assoc. reflexivity. }
  apply good_ascii.
  - repeat constructor; try lia. apply Forall_app. split.
    + apply Forall_app. split; [apply digits_ascii|]. constructor; [lia | apply range_ascii, Hr].
    + repeat constructor; lia.
  - apply (osc_seq (print w ++ 59 :: spec_bytes c)).
    apply Forall_app. split; [apply digits_put|].
    constructor; [unfold osc_put; lia | apply range_put, Hr].
Qed.

Lemma palette_good i c :
  orgba_ok c = true ->
  good ([27; 93] ++ ([52; 59] ++ print i ++ [59]) ++ spec_bytes c ++ ST) [OPalette i (spec_of c)].
Proof.
  intros Hc. pose proof (spec_bytes_range c Hc) as Hr.
  assert (E : interp [TOsc (52 :: 59 :: print i ++ 59 :: spec_bytes c); TEsc [] 92] = [OPalette i (spec_of c)]).
  { cbn [interp flat_map interp_token app]. unfold interp_osc.
    change (52 :: 59 :: print i ++ 59 :: spec_bytes c) with ([52] ++ 59 :: print i ++ 59 :: spec_bytes c).
    rewrite cut_semicolon_at by (intros [H|[]]; discriminate). cbv beta iota. cbn [rev app].
    change (parse_dec [52]) with (Some 4). cbv beta iota.
    change (print i ++ 59 :: spec_bytes c) with (join 59 [print i; spec_bytes c]).
    rewrite split_join; [|discriminate|].
    - cbn [palette_ops]. rewrite parse_print, parse_cspec_spec by exact Hc. reflexivity.
    - constructor; [apply print_no_sep; lia|]. constructor; [apply spec_no59, Hc | constructor]. }
  rewrite <- E.
  replace ([27; 93] ++ ([52; 59] ++ print i ++ [59]) ++ spec_bytes c ++ ST)
    with (27 :: 93 :: (52 :: 59 :: print i ++ 59 :: spec_bytes c) ++ [27; 92]).
  2:{ cbn [app]. rewrite <- !app_assoc. reflexivity. }
  apply good_ascii.
  - repeat constructor; try lia. apply Forall_app. split.
    + apply Forall_app. split; [apply digits_ascii|]. constructor; [lia | apply range_ascii, Hr].
    + repeat constructor; lia.
  - apply (osc_seq (52 :: 59 :: print i ++ 59 :: spec_bytes c)).
    repeat constructor; try lia. apply Forall_app. split; [apply digits_put|].
    constructor; [unfold osc_put; lia | apply range_put, Hr].
Qed.

(* ---------- DCS: XTGETTCAP ---------- *)
Definition hexs (name : list N) : list N := flat_map hex2 name.

Lemma hexs_range name : Forall (fun b => b < 256) name -> Forall (fun x => 48 <= x <= 102 /\ x <> 59) (hexs name).
Proof.
  induction 1 as [|b r Hb _ IH]; [constructor|]. unfold hexs in *. cbn [flat_map hex2 app].
  pose proof (hex_digit_range (b / 16)). pose proof (hex_digit_range (b mod 16)).
  repeat constructor; try lia. exact IH.
Qed.

Lemma join_range (P : N -> Prop) sep xs :
  P sep -> Forall (Forall P) xs -> Forall P (join sep xs).
Proof.
  intros Hs H. induction H as [|x xs Hx Hxs IH]; [constructor|].
  destruct xs as [|y ys]; [exact Hx|].
  change (join sep (x :: y :: ys)) with (x ++ sep :: join sep (y :: ys)).
  apply Forall_app. split; [exact Hx|]. constructor; [exact Hs | exact IH].
Qed.

Lemma names_forall names :
  forallb (forallb byte_ok) names = true -> Forall (Forall (fun b => b < 256)) names.
Proof.
  intros H. apply Forall_forall. intros n Hn. rewrite forallb_forall in H. apply H in Hn.
  apply Forall_forall. intros b Hb. rewrite forallb_forall in Hn. apply Hn in Hb.
  unfold byte_ok in Hb. lia.
Qed.

Lemma termcap_good names :
  forallb (forallb byte_ok) names = true ->
  good ([27; 80; 43; 113] ++ join 59 (map hexs names) ++ ST)
       [OXtgettcap (match names with [] => [[]] | _ => names end)].
Proof.
  intros Hb. pose proof (names_forall names Hb) as Hn.
  set (d := join 59 (map hexs names)).
  assert (Hd : Forall (fun x => 48 <= x <= 102) d).
  { apply join_range; [lia|]. apply Forall_forall. intros x Hx. apply in_map_iff in Hx.
    destruct Hx as (n & <- & Hin). rewrite Forall_forall in Hn.
    eapply Forall_impl; [|apply hexs_range, Hn, Hin]. intros a Ha. cbn beta in Ha. lia. }
  assert (E : interp [TDcs [] [43] 113 d; TEsc [] 92] = [OXtgettcap (match names with [] => [[]] | _ => names end)]).
  { cbn [interp flat_map interp_token app interp_dcs].
    destruct names as [|n0 ns]; [reflexivity|]. unfold d.
    rewrite split_join.
    - rewrite map_map. rewrite (sequence_map_some _ (fun n => n)); [rewrite map_id; reflexivity|].
      intros n Hin. rewrite Forall_forall in Hn. apply unhex_hex2, Hn, Hin.
    - discriminate.
    - apply Forall_forall. intros x Hx. apply in_map_iff in Hx. destruct Hx as (n & <- & Hin).
      rewrite Forall_forall in Hn. apply hex2_no_sep; [apply Hn, Hin | lia]. }
  rewrite <- E.
  change ([27; 80; 43; 113] ++ d ++ ST) with (27 :: 80 :: 43 :: 113 :: d ++ [27; 92]).
  apply good_ascii.
  - repeat constructor; try lia. apply Forall_app. split.
    + eapply Forall_impl; [|exact Hd]. intros a Ha. cbn beta in Ha. lia.
    + repeat constructor; lia.
  - apply dcs_seq; [unfold inter_byte; lia | lia |].
    eapply Forall_impl; [|exact Hd]. unfold dcs_put. intros a Ha. lia.
Qed.
