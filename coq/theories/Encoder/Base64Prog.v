(* Consumption PROGRAMS over one Base64Decoder and production programs over one
   Base64Encoder: sequences of operations of the std::io::Read / Write surface.

   The crate implements only `read` (decoder) and `write`, `flush` (encoder); every
   other method of the traits is std's default method, which is an iteration of
   `read` / `write`.  That is an ASSUMPTION about std, made explicit here as the
   definition of the operations (and listed in the trusted base); the translator
   translate/c14impl.py fails the run when the crate starts overriding one of them.

     ORead n        read(&mut buf[..n])                     one call
     OExact n       read_exact(n): read until n bytes or a 0-byte read (UnexpectedEof, bytes lost)
     OToEnd         read_to_end / read_to_string / BufReader::read_to_end: read until a 0-byte read
     OVectored ns   read_vectored: read into the first non-empty buffer
     OBytes k       bytes().next() k times: 1-byte reads until k bytes or a 0-byte read
     OTake n        take(n).read_to_end: read until n bytes or a 0-byte read
   (BufReader::with_capacity(c, _).fill_buf() + consume(all) is ORead c.) *)
From Coq Require Import List NArith Bool Arith.
From SNT Require Import Base.Outcome Gen.TabBase64 Encoder.Base64.
Import ListNotations.

Inductive dop :=
| ORead (n : nat)
| OExact (n : nat)
| OToEnd
| OVectored (ns : list nat)
| OBytes (k : nat)
| OTake (n : nat).

(* what the caller sees of one operation *)
Inductive dres :=
| Got (bs : list N)      (* bytes handed to the caller *)
| Failed                 (* io::Error of the decoder ("input length is not dividable by 4") *)
| EofErr                 (* read_exact: UnexpectedEof *)
| Bad.                   (* model panic / fuel: never (Base64ProgProofs) *)

(* read repeatedly, asking for `ask got` bytes, until `limit` bytes are collected
   (None = no limit) or a read returns nothing; the flag says the limit was reached *)
Fixpoint collect (fuel : nat) (limit : option nat) (ask : nat -> nat) (got : list N) (st : dec_state)
  : outcome (list N * dec_state * bool) :=
  match fuel with
  | O => OutOfFuel
  | S f =>
      let full := match limit with Some n => Nat.leb n (length got) | None => false end in
      if full then Ok (got, st, true)
      else
        let* r := dec_read (Nat.max 1 (ask (length got))) st in
        let '(bs, st') := r in
        match bs with
        | [] => Ok (got, st', false)
        | _ => collect f limit ask (got ++ bs) st'
        end
  end.

Definition fuel_of (st : dec_state) : nat :=
  S (S (length (pending st) + length (fst (rd st)))).

Definition first_nonzero (ns : list nat) : nat :=
  match filter (fun n => negb (Nat.eqb n 0)) ns with n :: _ => n | [] => O end.

Definition run_op (op : dop) (st : dec_state) : dres * dec_state :=
  let lift (o : outcome (list N * dec_state * bool)) (k : list N -> bool -> dres) : dres * dec_state :=
    match o with
    | Ok (got, st', full) => (k got full, st')
    | Err _ => (Failed, st)
    | Panic _ | OutOfFuel => (Bad, st)
    end in
  match op with
  | ORead n =>
      match dec_read n st with
      | Ok (bs, st') => (Got bs, st')
      | Err _ => (Failed, st)
      | Panic _ | OutOfFuel => (Bad, st)
      end
  | OVectored ns =>
      match dec_read (first_nonzero ns) st with
      | Ok (bs, st') => (Got bs, st')
      | Err _ => (Failed, st)
      | Panic _ | OutOfFuel => (Bad, st)
      end
  | OExact n =>
      lift (collect (fuel_of st) (Some n) (fun g => n - g) [] st)
           (fun got full => if full then Got got else EofErr)
  | OTake n =>
      lift (collect (fuel_of st) (Some n) (fun g => n - g) [] st) (fun got _ => Got got)
  | OBytes k =>
      lift (collect (fuel_of st) (Some k) (fun _ => 1) [] st) (fun got _ => Got got)
  | OToEnd =>
      lift (collect (fuel_of st) None (fun _ => 32) [] st) (fun got _ => Got got)
  end.

(* the program stops at the first operation that does not return bytes *)
Fixpoint run_prog (ops : list dop) (st : dec_state) : list dres :=
  match ops with
  | [] => []
  | op :: r =>
      let '(res, st') := run_op op st in
      match res with
      | Got _ => res :: run_prog r st'
      | _ => [res]
      end
  end.

Definition dec_init (text : list N) (sched : list nat) : dec_state :=
  {| pending := []; bsize := O; rd := (text, sched) |}.

Definition decode_prog (text : list N) (sched : list nat) (ops : list dop) : list dres :=
  run_prog ops (dec_init text sched).

(* everything handed to the caller, in order *)
Fixpoint gotten (rs : list dres) : list N :=
  match rs with
  | Got bs :: r => bs ++ gotten r
  | _ :: r => gotten r
  | [] => []
  end.

Definition all_got (rs : list dres) : bool :=
  forallb (fun r => match r with Got _ => true | _ => false end) rs.

(* ---------- encoder programs ---------- *)

(* one production operation; the bytes the encoder accepts are what reaches enc_write:
     EWrite bufs    write / write_all / write_fmt (one buffer) or write_vectored (several:
                    std's default writes the first non-empty buffer only)
     EFlush         flush: passes through to the inner writer, emits nothing *)
Inductive eop :=
| EWrite (vectored : bool) (bufs : list (list N))
| EFlush.

Definition first_nonempty (bufs : list (list N)) : list N :=
  match filter (fun b => match b with [] => false | _ => true end) bufs with b :: _ => b | [] => [] end.

Definition accepted (vectored : bool) (bufs : list (list N)) : list N :=
  if vectored then first_nonempty bufs else concat bufs.

(* returns per operation: number of bytes accepted (writes) / the text in the inner writer (flush) *)
Inductive eres := Wrote (n : nat) | Flushed (sink : list N).

Fixpoint run_enc (ops : list eop) (st : enc_state) : list eres * enc_state :=
  match ops with
  | [] => ([], st)
  | EWrite v bufs :: r =>
      let a := accepted v bufs in
      let '(rs, st') := run_enc r (enc_write st a) in
      (Wrote (length a) :: rs, st')
  | EFlush :: r =>
      let '(rs, st') := run_enc r st in
      (Flushed (snd st) :: rs, st')
  end.

(* finish() -> the whole text; dropping the encoder without finish leaves what was emitted *)
Definition encode_prog (ops : list eop) (finish : bool) : list eres * list N :=
  let '(rs, st) := run_enc ops enc_init in
  (rs, if finish then enc_finish st else snd st).
