(* Any program of consumption operations over one Base64Decoder hands out, in
   order and without repetition or loss, the RFC 4648 decoding of the text; any
   program of write operations followed by finish() yields the RFC 4648 text of
   the accepted bytes. *)
From Coq Require Import List NArith Bool Arith Lia.
From SNT Require Import Base.Outcome Gen.TabBase64 Encoder.Base64 Encoder.Base64Proofs
  Encoder.Base64DecProofs Encoder.Base64Prog.
Import ListNotations.

Lemma omap_app_some d o t : omap_app d o = Some t -> exists t', o = Some t' /\ t = d ++ t'.
Proof. destruct o as [t'|]; cbn; [intros [= <-]; exists t'; auto|discriminate]. Qed.

(* one read of at least one byte on a state whose virtual stream is `rest` *)
Lemma dec_read_some want st rest : (1 <= want)%nat -> avail st = Some rest ->
  exists bs st' rest', dec_read want st = Ok (bs, st') /\ rest = bs ++ rest' /\
    avail st' = Some rest' /\ (measure st' + length bs <= measure st)%nat /\
    (bs = [] -> rest' = []).
Proof.
  intros Hw Ha. pose proof (dec_read_spec want st Hw) as H.
  destruct (dec_read want st) as [[bs st']|e|s|]; try contradiction.
  - destruct H as (H1 & H2 & H3). rewrite Ha in H1. symmetry in H1.
    apply omap_app_some in H1. destruct H1 as [rest' [H1 ->]].
    exists bs, st', rest'. repeat split; auto.
    intros Hb. specialize (H3 Hb). rewrite H1 in H3. congruence.
  - destruct H as [_ H]. congruence.
Qed.

Lemma dec_read_zero st : dec_read 0 st = Ok ([], st).
Proof. reflexivity. Qed.

Lemma collect_spec : forall fuel limit ask got st rest,
  avail st = Some rest -> (measure st < fuel)%nat ->
  exists bs st' full rest',
    collect fuel limit ask got st = Ok (got ++ bs, st', full) /\
    rest = bs ++ rest' /\ avail st' = Some rest' /\ (full = false -> rest' = []).
Proof.
  induction fuel as [|f IH]; intros limit ask got st rest Ha Hm; [lia|].
  cbn [collect].
  destruct (match limit with Some n => Nat.leb n (length got) | None => false end).
  - exists [], st, true, rest. rewrite app_nil_r. repeat split; auto. discriminate.
  - destruct (dec_read_some (Nat.max 1 (ask (length got))) st rest) as (bs & st1 & rest1 & E & Hr & Ha1 & Hme & Hnil);
      [lia|exact Ha|].
    rewrite E. cbn [bind]. destruct bs as [|b bs].
    + exists [], st1, false, rest1. rewrite app_nil_r. repeat split; auto.
    + destruct (IH limit ask (got ++ b :: bs) st1 rest1 Ha1) as (bs2 & st2 & full & rest2 & E2 & Hr2 & Ha2 & Hf);
        [cbn [length] in Hme; lia|].
      exists ((b :: bs) ++ bs2), st2, full, rest2. rewrite app_assoc. repeat split; auto.
      rewrite Hr, Hr2, app_assoc. reflexivity.
Qed.

(* without a limit the loop only stops at a 0-byte read *)
Lemma collect_nolimit : forall fuel ask got st r st',
  collect fuel None ask got st = Ok (r, st', true) -> False.
Proof.
  induction fuel as [|f IH]; intros ask got st r st' E; cbn [collect] in E; [discriminate|].
  destruct (dec_read (Nat.max 1 (ask (length got))) st) as [[b1 s1]|e|s|]; cbn [bind] in E; try discriminate.
  destruct b1 as [|x b1]; [discriminate|]. eapply IH. exact E.
Qed.

Lemma fuel_of_measure st : (measure st < fuel_of st)%nat.
Proof. unfold measure, fuel_of, rem_of. lia. Qed.

(* one operation *)
Lemma run_op_spec op st rest : avail st = Some rest ->
  match run_op op st with
  | (Got bs, st') => exists rest', rest = bs ++ rest' /\ avail st' = Some rest' /\ (op = OToEnd -> rest' = [])
  | (EofErr, _) => True
  | (Failed, _) | (Bad, _) => False
  end.
Proof.
  intros Ha.
  assert (Hread : forall n, match (match dec_read n st with
                                   | Ok (bs, st') => (Got bs, st')
                                   | Err _ => (Failed, st)
                                   | Panic _ | OutOfFuel => (Bad, st)
                                   end) with
                            | (Got bs, st') => exists rest', rest = bs ++ rest' /\ avail st' = Some rest'
                            | (EofErr, _) => True
                            | _ => False
                            end).
  { intros [|n].
    - rewrite dec_read_zero. exists rest. auto.
    - destruct (dec_read_some (S n) st rest) as (bs & st' & rest' & E & Hr & Ha' & _); [lia|exact Ha|].
      rewrite E. exists rest'. auto. }
  assert (Hcol : forall limit ask (k : list N -> bool -> dres),
            (forall g f, k g f = Got g \/ k g f = EofErr) ->
            match (match collect (fuel_of st) limit ask [] st with
                   | Ok (got, st', full) => (k got full, st')
                   | Err _ => (Failed, st)
                   | Panic _ | OutOfFuel => (Bad, st)
                   end) with
            | (Got bs, st') => exists rest', rest = bs ++ rest' /\ avail st' = Some rest' /\ (limit = None -> rest' = [])
            | (EofErr, _) => True
            | _ => False
            end).
  { intros limit ask k Hk.
    destruct (collect_spec (fuel_of st) limit ask [] st rest Ha (fuel_of_measure st))
      as (bs & st' & full & rest' & E & Hr & Ha' & Hf).
    rewrite E. cbn [app]. destruct (Hk bs full) as [-> | ->]; [|exact I].
    exists rest'. repeat split; auto. intros ->.
    destruct full; [exfalso; eapply collect_nolimit; exact E|apply Hf; reflexivity]. }
  destruct op as [n|n| |ns|k|n]; cbn [run_op].
  - specialize (Hread n). destruct (dec_read n st) as [[bs st']|e|s|]; try exact Hread.
    destruct Hread as [rest' [H1 H2]]. exists rest'. repeat split; auto. discriminate.
  - specialize (Hcol (Some n) (fun g => n - g) (fun got full => if full then Got got else EofErr)).
    destruct (collect (fuel_of st) (Some n) (fun g => n - g) [] st) as [[[got st'] full]|e|s|];
      try (apply Hcol; intros g f; destruct f; auto).
    destruct full.
    + destruct Hcol as [rest' [H1 [H2 _]]]; [intros g f; destruct f; auto|].
      exists rest'. repeat split; auto. discriminate.
    + exact I.
  - specialize (Hcol None (fun _ => 32) (fun got _ => Got got)).
    destruct (collect (fuel_of st) None (fun _ => 32) [] st) as [[[got st'] full]|e|s|];
      try (apply Hcol; intros g f; auto).
    destruct Hcol as [rest' [H1 [H2 H3]]]; [intros g f; auto|]. exists rest'. repeat split; auto.
  - specialize (Hread (first_nonzero ns)).
    destruct (dec_read (first_nonzero ns) st) as [[bs st']|e|s|]; try exact Hread.
    destruct Hread as [rest' [H1 H2]]. exists rest'. repeat split; auto. discriminate.
  - specialize (Hcol (Some k) (fun _ => 1) (fun got _ => Got got)).
    destruct (collect (fuel_of st) (Some k) (fun _ => 1) [] st) as [[[got st'] full]|e|s|];
      try (apply Hcol; intros g f; auto).
    destruct Hcol as [rest' [H1 [H2 _]]]; [intros g f; auto|]. exists rest'. repeat split; auto. discriminate.
  - specialize (Hcol (Some n) (fun g => n - g) (fun got _ => Got got)).
    destruct (collect (fuel_of st) (Some n) (fun g => n - g) [] st) as [[[got st'] full]|e|s|];
      try (apply Hcol; intros g f; auto).
    destruct Hcol as [rest' [H1 [H2 _]]]; [intros g f; auto|]. exists rest'. repeat split; auto. discriminate.
Qed.

(* a whole program *)
Theorem run_prog_spec : forall ops st rest, avail st = Some rest ->
  let rs := run_prog ops st in
  (forall r, In r rs -> r <> Failed /\ r <> Bad) /\
  exists rest', rest = gotten rs ++ rest' /\
                (all_got rs = true -> In OToEnd ops -> rest' = []).
Proof.
  induction ops as [|op r IH]; intros st rest Ha; cbn [run_prog].
  - split; [intros x []|]. exists rest. split; [reflexivity|]. intros _ [].
  - pose proof (run_op_spec op st rest Ha) as H.
    destruct (run_op op st) as [res st']. destruct res as [bs| | |]; try contradiction.
    + destruct H as [rest1 [Hr [Ha1 Hend]]]. destruct (IH st' rest1 Ha1) as [H1 [rest2 [Hr2 Hd]]].
      split.
      * intros x [<- | Hin]; [split; discriminate|apply H1; exact Hin].
      * exists rest2. cbn [gotten]. split; [rewrite Hr, Hr2, app_assoc; reflexivity|].
        cbn [all_got forallb andb]. intros Hall [-> | Hin].
        -- specialize (Hend eq_refl). subst rest1. symmetry in Hr2. apply app_eq_nil in Hr2. tauto.
        -- apply Hd; assumption.
    + split.
      * intros x [<- | []]. split; discriminate.
      * exists rest. cbn [gotten]. split; [reflexivity|]. cbn. discriminate.
Qed.

(* the statement for C14: decoding the RFC text of x by any program *)
Theorem decode_prog_roundtrip (x : list N) (sched : list nat) (ops : list dop) :
  bytes_ok x = true ->
  let rs := decode_prog (rfc4648 x) sched ops in
  (forall r, In r rs -> r <> Failed /\ r <> Bad) /\
  (exists rest, x = gotten rs ++ rest) /\
  (all_got rs = true -> In OToEnd ops -> gotten rs = x).
Proof.
  intros Hx. unfold decode_prog.
  assert (Ha : avail (dec_init (rfc4648 x) sched) = Some x).
  { unfold avail, dec_init, rem_of. cbn [pending rd fst]. rewrite (spec_dec4_rfc x Hx). reflexivity. }
  destruct (run_prog_spec ops _ x Ha) as [H1 [rest [Hr Hd]]].
  split; [exact H1|]. split; [exists rest; exact Hr|].
  intros Hall Hin. specialize (Hd Hall Hin). subst rest. rewrite app_nil_r in Hr. auto.
Qed.

(* ---------- encoder ---------- *)

Fixpoint accepted_all (ops : list eop) : list N :=
  match ops with
  | [] => []
  | EWrite v bufs :: r => accepted v bufs ++ accepted_all r
  | EFlush :: r => accepted_all r
  end.

Lemma run_enc_state : forall ops st, snd (run_enc ops st) = enc_write st (accepted_all ops).
Proof.
  induction ops as [|[v bufs|] r IH]; intros st; cbn [run_enc accepted_all].
  - reflexivity.
  - specialize (IH (enc_write st (accepted v bufs))).
    destruct (run_enc r (enc_write st (accepted v bufs))) as [rs st']. cbn [snd] in *.
    rewrite IH. unfold enc_write. rewrite fold_left_app. reflexivity.
  - specialize (IH st). destruct (run_enc r st) as [rs st']. cbn [snd] in *. exact IH.
Qed.

Theorem encode_prog_rfc (ops : list eop) :
  bytes_ok (accepted_all ops) = true ->
  snd (encode_prog ops true) = rfc4648 (accepted_all ops).
Proof.
  intros H. unfold encode_prog. pose proof (run_enc_state ops enc_init) as E.
  destruct (run_enc ops enc_init) as [rs st]. cbn [snd] in *. subst st.
  unfold enc_write, enc_init. rewrite enc_bytes_rfc; auto.
Qed.
