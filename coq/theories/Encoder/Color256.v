(* C20: colour reduction in color_sgr_encode (src/encoder.rs:420-525) over exact
   integers.  Every real quantity is represented by its exact value times a
   fixed denominator (Gen/TabColor.v: color_den for linear-light values,
   luma_den for luma), so all comparisons are the comparisons of the exact
   rationals; the implementation's f32 rounding is NOT modelled (see
   Corr/C20Corr.v for how the two are compared).

   Tables are regenerated from the source on every run:
     cube_z, greys_z         CUBE / GREYS literals (exact decimal values)
     gray_levels_z           [0.0, 0.33, 0.66, 1.0]
     srgb_z                  LinColor::from(RGBA) per channel value (exact value of the f32) *)
From Coq Require Import List NArith ZArith Bool.
From SNT Require Import Encoder.Encode Gen.TabColor.
Import ListNotations.
Local Open Scope Z_scope.

Definition nthz (t : list Z) (i : nat) : Z := nth i t 0.

(* number of elements below v: for a sorted slice this is the partition point
   that slice::binary_search_by returns as Err(index), and the index of v when
   v occurs (Ok(index)) *)
Fixpoint count_lt (v : Z) (t : list Z) : nat :=
  match t with
  | [] => O
  | a :: r => if a <? v then S (count_lt v r) else count_lt v r
  end.

(* fn nearest(v, vs) -> usize *)
Definition nearest (v : Z) (t : list Z) : nat :=
  let i := count_lt v t in
  if Nat.ltb i (length t) && (nthz t i =? v) then i           (* Ok(index) => index *)
  else if Nat.eqb i 0 then O
  else if Nat.leb (length t) i then (length t - 1)%nat
  else if (v - nthz t (i - 1)) <? (nthz t i - v) then (i - 1)%nat
  else i.

Definition vec : Type := (Z * Z * Z)%type.
(* squared Euclidean distance (LinColor::distance is its square root; alpha = 1 on both sides) *)
Definition d2 (v e : vec) : Z :=
  let '(a, b, c) := v in let '(x, y, z) := e in
  (a - x) * (a - x) + (b - y) * (b - y) + (c - z) * (c - z).

Definition grey_vec (greys : list Z) (i : nat) : vec := (nthz greys i, nthz greys i, nthz greys i).
Definition cube_vec (cube : list Z) (i j k : nat) : vec := (nthz cube i, nthz cube j, nthz cube k).

(* ColorDepth::EightBit arm: palette index for linear-light channel values v *)
Definition pal_algo (cube greys : list Z) (v : vec) : N :=
  let '(r, g, b) := v in
  let c_red := nearest r cube in
  let c_green := nearest g cube in
  let c_blue := nearest b cube in
  (* nearest((r + g + b) / 3.0, GREYS): both sides of every comparison times 3 *)
  let g_index := nearest (r + g + b) (map (Z.mul 3) greys) in
  if d2 v (grey_vec greys g_index) <? d2 v (cube_vec cube c_red c_green c_blue)
  then (232 + N.of_nat g_index)%N
  else (16 + 36 * N.of_nat c_red + 6 * N.of_nat c_green + N.of_nat c_blue)%N.

(* the xterm 256-colour palette, non-system part, in the library's linear-light terms:
   16 + 36 r + 6 g + b is the cube entry (r, g, b); 232 + k the k-th grey *)
Definition entry (cube greys : list Z) (n : N) : vec :=
  if (n <? 232)%N then
    let m := N.to_nat (n - 16) in
    cube_vec cube (m / 36) ((m / 6) mod 6) (m mod 6)
  else grey_vec greys (N.to_nat (n - 232)).

(* linear-light value of an 8-bit channel *)
Definition lin (c : N) : Z := nth (N.to_nat c) srgb_z 0.
Definition lin_vec (c : rgba) : vec := (lin (cr c), lin (cg c), lin (cb c)).

Definition pal256_exact (c : rgba) : N := pal_algo cube_z greys_z (lin_vec c).

(* ColorDepth::Gray arm: luma * luma_den, level 0..3 *)
Definition luma_z (c : rgba) : Z := 2126 * Z.of_N (cr c) + 7152 * Z.of_N (cg c) + 722 * Z.of_N (cb c).
Definition gray4_exact (c : rgba) : N := N.of_nat (nearest (luma_z c) gray_levels_z).

(* ---------- specification side: brute force over the palette ---------- *)
Definition palette_indices : list N := map N.of_nat (seq 16 240).
Definition best_d2 (cube greys : list Z) (v : vec) : Z :=
  fold_left (fun m n => Z.min m (d2 v (entry cube greys n))) palette_indices
            (d2 v (entry cube greys 16)).

(* x <= y + eps for the square roots of non-negative xx, yy, all rational:
   sqrt xx <= sqrt yy + eps  <->  xx - yy - eps^2 <= 2 eps sqrt yy *)
Definition sqrt_le_plus (xx yy eps : Z) : bool :=
  let l := xx - yy - eps * eps in
  (l <=? 0) || (l * l <=? 4 * eps * eps * yy).

(* EPSILON.  One tolerance is used everywhere: eps = 1e-6 in linear-light units
   (the unit in which a channel ranges over [0,1]), i.e. tol256 in scaled units.
   It bounds (a) the error of each typed table constant against the library's own
   linearisation (tables_ok), (b) the slack allowed to the f32 implementation
   against the exact optimum in the correspondence check (1e-6 in DISTANCE), and
   it appears in the theorem about the true palette positions as 12 * eps in
   SQUARED distance (Color256Proofs.pal256_true_palette_upto_eps). *)
Definition tol256 : Z := color_den / 1000000.
Definition eps_sq_bound : Z := 12 * tol256 * color_den.
Definition tol_luma : Z := luma_den / 1000000 + 1.

Fixpoint sortedb (t : list Z) : bool :=
  match t with
  | a :: ((b :: _) as r) => (a <? b) && sortedb r
  | _ => true
  end.

(* the xterm levels the typed tables stand for *)
Definition xterm_cube_levels : list N := [0; 95; 135; 175; 215; 255]%N.
Definition xterm_grey_levels : list N := map (fun k => (8 + 10 * N.of_nat k)%N) (seq 0 24).

(* the palette entries themselves, linearised by the library's own conversion *)
Definition xcube_z : list Z := map lin xterm_cube_levels.
Definition xgreys_z : list Z := map lin xterm_grey_levels.

Fixpoint all2 {A B} (f : A -> B -> bool) (x : list A) (y : list B) : bool :=
  match x, y with
  | [], [] => true
  | a :: x', b :: y' => f a b && all2 f x' y'
  | _, _ => false
  end.
Definition close (t : Z) (level : N) : bool := Z.abs (t - lin level) <=? tol256.

Definition tables_ok : bool :=
  sortedb cube_z && sortedb greys_z && Nat.eqb (length cube_z) 6 && Nat.eqb (length greys_z) 24
  && all2 close cube_z xterm_cube_levels && all2 close greys_z xterm_grey_levels
  && sortedb gray_levels_z && Nat.eqb (length gray_levels_z) 4 && Nat.eqb (length srgb_z) 256
  && sortedb srgb_z
  (* all linear-light values lie in [0, 1] *)
  && forallb (fun x => (0 <=? x) && (x <=? color_den)) (srgb_z ++ cube_z ++ greys_z)
  (* WHICH FOUR LUMINANCES ("the nearest of the four available by luminance").  SPEC DECISION: the four
     levels are sent as the system colours 0, 8, 7, 15 (SGR 30 / 90 / 37 / 97, background +10) and stand
     for the luminances of these colours in the standard VGA / Linux-console palette: (0,0,0),
     (85,85,85), (170,170,170), (255,255,255) = 0, 1/3, 2/3, 1 -- the values the code's thresholds
     [0.0, 0.33, 0.66, 1.0] round.  The real luminances depend on the terminal's palette, which the
     library cannot know; in xterm's default palette (0, 127, 229, 255 -> luma 0, .498, .898, 1) the same
     four colours are still ordered by luminance, but "nearest" is then not exact: e.g. luma .55 is sent
     as colour 7 (xterm .898) although colour 8 (xterm .498) is nearer there.  Recorded as a decision,
     not as a finding (Props/C20.v, C20_gray_levels_are_vga). *)
  && sortedb (map luma_z [mkRgba 0 0 0 255; mkRgba 127 127 127 255; mkRgba 229 229 229 255; mkRgba 255 255 255 255])
  && all2 (fun l c => Z.abs (l - luma_z c) <=? luma_den / 100) gray_levels_z
          [mkRgba 0 0 0 255; mkRgba 85 85 85 255; mkRgba 170 170 170 255; mkRgba 255 255 255 255]
  && (nth 0 gray_codes 0 =? 30)%N && (nth 1 gray_codes 0 =? 90)%N && (nth 2 gray_codes 0 =? 37)%N
  && (nth 3 gray_codes 0 =? 97)%N && (gray_bg_offset =? 10)%N
  (* the four grey levels stand for luminance 0, 1/3, 2/3, 1 (within 0.01) *)
  && all2 (fun l k => Z.abs (3 * l - k * luma_den) <=? 3 * (luma_den / 100)) gray_levels_z [0; 1; 2; 3].

(* the typed entry and the true entry of every palette index differ by at most eps per channel *)
Definition vec_close (a b : vec) : bool :=
  let '(x, y, z) := a in let '(u, v, w) := b in
  (Z.abs (x - u) <=? tol256) && (Z.abs (y - v) <=? tol256) && (Z.abs (z - w) <=? tol256).
Definition vec_in_unit (a : vec) : bool :=
  let '(x, y, z) := a in
  (0 <=? x) && (x <=? color_den) && (0 <=? y) && (y <=? color_den) && (0 <=? z) && (z <=? color_den).
Definition entries_close : bool :=
  forallb (fun n => vec_close (entry cube_z greys_z n) (entry xcube_z xgreys_z n)
                    && vec_in_unit (entry cube_z greys_z n) && vec_in_unit (entry xcube_z xgreys_z n))
          palette_indices.

(* the 240 true palette entries once (not per case), and the brute-force minimum over them;
   Color256Proofs.best_d2_tab_eq: this IS best_d2 at the true positions *)
Definition palette_entries : list vec := Eval vm_compute in map (entry xcube_z xgreys_z) palette_indices.
Definition best_d2_tab (v : vec) : Z :=
  fold_left (fun m e => Z.min m (d2 v e)) palette_entries (d2 v (entry xcube_z xgreys_z 16)).
