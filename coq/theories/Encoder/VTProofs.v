(* Facts about the VT parser (VT.v): decoding composes with tokenising,
   concatenation, the collecting loops, and "print then parse" round trips
   for parameter strings. *)
From Coq Require Import List NArith ZArith Bool Lia ZifyBool ZifyN.
From SNT Require Import Encoder.Decimal Encoder.DecimalProofs Encoder.Utf8 Encoder.Utf8Proofs Encoder.VT.
Import ListNotations.
Local Open Scope N_scope.

Ltac ifs :=
  repeat match goal with
         | |- context [if ?c then _ else _] =>
             let E := fresh "E" in destruct c eqn:E; try (exfalso; lia)
         end.

(* ---------- composition ---------- *)
Lemma feed_all_app : forall a b s,
  feed_all s (a ++ b) =
  let '(s1, t1) := feed_all s a in let '(s2, t2) := feed_all s1 b in (s2, t1 ++ t2).
Proof.
  induction a as [|c a IH]; intros b s.
  - cbn. destruct (feed_all s b). reflexivity.
  - cbn [app feed_all]. destruct (feed s c) as [s1 t1]. rewrite IH.
    destruct (feed_all s1 a) as [s2 t2]. destruct (feed_all s2 b) as [s3 t3].
    rewrite app_assoc. reflexivity.
Qed.

(* the byte-level run = decode everything, then tokenise the code points *)
Theorem vrun_decode : forall bs u s,
  vrun (u, s) bs =
  let '(u', cs) := urun u bs in let '(s', ts) := feed_all s cs in ((u', s'), ts).
Proof.
  induction bs as [|b r IH]; intros u s; [reflexivity|].
  cbn [vrun urun vstep]. destruct (ustep u b) as [u1 c1].
  destruct (feed_all s c1) as [s1 t1] eqn:E1. rewrite IH.
  destruct (urun u1 r) as [u2 c2]. rewrite feed_all_app, E1.
  destruct (feed_all s1 c2) as [s2 t2]. reflexivity.
Qed.

Lemma vrun_app : forall a b v,
  vrun v (a ++ b) =
  let '(v1, t1) := vrun v a in let '(v2, t2) := vrun v1 b in (v2, t1 ++ t2).
Proof.
  induction a as [|c a IH]; intros b v.
  - cbn. destruct (vrun v b). reflexivity.
  - cbn [app vrun]. destruct (vstep v c) as [v1 t1]. rewrite IH.
    destruct (vrun v1 a) as [v2 t2]. destruct (vrun v2 b) as [v3 t3].
    rewrite app_assoc. reflexivity.
Qed.

(* text that is valid UTF-8 reaches the tokeniser as its code points *)
Theorem vrun_utf8 cs s :
  forallb scalar_ok cs = true ->
  vrun (UStart, s) (utf8_list cs) =
  let '(s', ts) := feed_all s cs in ((UStart, s'), ts).
Proof.
  intros H. rewrite vrun_decode, (utf8_list_roundtrip cs H). reflexivity.
Qed.

(* an encoder output that is the UTF-8 form of code points `cs` which take the
   tokeniser from ground back to ground: tokens and completeness *)
Lemma parse_utf8 cs ts :
  forallb scalar_ok cs = true ->
  feed_all SGround cs = (SGround, ts) ->
  vt_parse (utf8_list cs) = ts /\ vt_complete (utf8_list cs) = true.
Proof.
  intros H E. unfold vt_parse, vt_complete, vt_final, vinit.
  rewrite (vrun_utf8 cs SGround H), E. split; reflexivity.
Qed.

Lemma utf8_list_ascii cs : Forall (fun c => c < 128) cs -> utf8_list cs = cs.
Proof.
  induction 1 as [|c cs Hc _ IH]; [reflexivity|].
  unfold utf8_list in *. cbn [flat_map]. rewrite IH. unfold utf8_enc.
  replace (c <? 128) with true by lia. reflexivity.
Qed.

Lemma ascii_scalar cs : Forall (fun c => c < 128) cs -> forallb scalar_ok cs = true.
Proof.
  intros H. apply forallb_forall. intros c Hc. rewrite Forall_forall in H. apply H in Hc.
  unfold scalar_ok. lia.
Qed.

(* ---------- self-containedness at the stream level ---------- *)
Theorem vt_parse_app a b :
  vt_complete a = true -> vt_parse (a ++ b) = vt_parse a ++ vt_parse b.
Proof.
  unfold vt_complete, vt_parse, vt_final. intros H. rewrite vrun_app.
  destruct (vrun vinit a) as [[u s] t1]. cbn [fst snd] in *.
  destruct u; [|discriminate]. destruct s; try discriminate.
  fold vinit. destruct (vrun vinit b) as [v2 t2]. reflexivity.
Qed.

Theorem vt_complete_app a b :
  vt_complete a = true -> vt_complete b = true -> vt_complete (a ++ b) = true.
Proof.
  unfold vt_complete, vt_final. intros Ha Hb. rewrite vrun_app.
  destruct (vrun vinit a) as [[u s] t1]. cbn [fst snd] in *.
  destruct u; [|discriminate]. destruct s; try discriminate.
  fold vinit. destruct (vrun vinit b) as [v2 t2]. exact Hb.
Qed.

Lemma interp_app a b : interp (a ++ b) = interp a ++ interp b.
Proof. unfold interp. apply flat_map_app. Qed.

Theorem vt_ops_app a b :
  vt_complete a = true -> vt_ops (a ++ b) = vt_ops a ++ vt_ops b.
Proof. intros H. unfold vt_ops. rewrite (vt_parse_app a b H). apply interp_app. Qed.

(* ---------- collecting loops ---------- *)
Definition param_byte (c : N) : Prop := 48 <= c <= 63.
Definition inter_byte (c : N) : Prop := 32 <= c <= 47.
Definition osc_put (c : N) : Prop := 32 <= c /\ (c < 128 \/ 159 < c).
Definition dcs_put (c : N) : Prop := 32 <= c <= 126.

Lemma feed_csi_param acc c : param_byte c -> feed (SCsi acc []) c = (SCsi (c :: acc) [], []).
Proof. unfold param_byte, feed, is_c1, is_c0, between. intros H. ifs. reflexivity. Qed.

Lemma csi_collect : forall ps acc,
  Forall param_byte ps -> feed_all (SCsi acc []) ps = (SCsi (rev ps ++ acc) [], []).
Proof.
  induction ps as [|c ps IH]; intros acc H; [reflexivity|].
  inversion H as [|? ? Hc Hps]; subst. cbn [feed_all]. rewrite feed_csi_param by exact Hc.
  rewrite IH by exact Hps. cbn [rev]. rewrite <- app_assoc. reflexivity.
Qed.

Lemma feed_csi_inter acc iacc c : inter_byte c -> feed (SCsi acc iacc) c = (SCsi acc (c :: iacc), []).
Proof. unfold inter_byte, feed, is_c1, is_c0, between. intros H. ifs. reflexivity. Qed.

Lemma feed_csi_final acc iacc c :
  64 <= c <= 126 -> feed (SCsi acc iacc) c = (SGround, [TCsi (rev acc) (rev iacc) c]).
Proof. unfold feed, is_c1, is_c0, between. intros H. ifs. reflexivity. Qed.

(* ESC [ params final *)
Theorem csi_seq ps f :
  Forall param_byte ps -> 64 <= f <= 126 ->
  feed_all SGround (27 :: 91 :: ps ++ [f]) = (SGround, [TCsi ps [] f]).
Proof.
  intros Hp Hf. change (27 :: 91 :: ps ++ [f]) with ([27; 91] ++ ps ++ [f]).
  rewrite feed_all_app. change (feed_all SGround [27; 91]) with (SCsi [] [], @nil token). cbv beta iota.
  rewrite feed_all_app, csi_collect by exact Hp. cbn [feed_all].
  rewrite feed_csi_final by exact Hf. cbv beta iota. rewrite ?app_nil_r, ?rev_involutive. reflexivity.
Qed.

(* ESC [ params intermediate final *)
Theorem csi_seq_i ps i f :
  Forall param_byte ps -> inter_byte i -> 64 <= f <= 126 ->
  feed_all SGround (27 :: 91 :: ps ++ [i; f]) = (SGround, [TCsi ps [i] f]).
Proof.
  intros Hp Hi Hf. change (27 :: 91 :: ps ++ [i; f]) with ([27; 91] ++ ps ++ [i; f]).
  rewrite feed_all_app. change (feed_all SGround [27; 91]) with (SCsi [] [], @nil token). cbv beta iota.
  rewrite feed_all_app, csi_collect by exact Hp. cbn [feed_all].
  rewrite feed_csi_inter by exact Hi. cbv beta iota. rewrite feed_csi_final by exact Hf.
  cbv beta iota. rewrite ?app_nil_r, ?rev_involutive. reflexivity.
Qed.

Lemma feed_osc_put acc c : osc_put c -> feed (SOsc acc) c = (SOsc (c :: acc), []).
Proof. unfold osc_put, feed, is_c1, is_c0, between. intros H. ifs. reflexivity. Qed.

Lemma osc_collect : forall cs acc,
  Forall osc_put cs -> feed_all (SOsc acc) cs = (SOsc (rev cs ++ acc), []).
Proof.
  induction cs as [|c cs IH]; intros acc H; [reflexivity|].
  inversion H as [|? ? Hc Hcs]; subst. cbn [feed_all]. rewrite feed_osc_put by exact Hc.
  rewrite IH by exact Hcs. cbn [rev]. rewrite <- app_assoc. reflexivity.
Qed.

(* ESC ] data ESC \ *)
Theorem osc_seq d :
  Forall osc_put d ->
  feed_all SGround (27 :: 93 :: d ++ [27; 92]) = (SGround, [TOsc d; TEsc [] 92]).
Proof.
  intros Hd. change (27 :: 93 :: d ++ [27; 92]) with ([27; 93] ++ d ++ [27; 92]).
  rewrite feed_all_app. change (feed_all SGround [27; 93]) with (SOsc [], @nil token). cbv beta iota.
  rewrite feed_all_app, osc_collect by exact Hd. rewrite app_nil_r.
  cbn [feed_all]. change (feed (SOsc (rev d)) 27) with (SEsc [], [TOsc (rev (rev d))]).
  rewrite rev_involutive. reflexivity.
Qed.

Lemma feed_dcs_put ps ints f acc c :
  dcs_put c -> feed (SDcsPass ps ints f acc) c = (SDcsPass ps ints f (c :: acc), []).
Proof. unfold dcs_put, feed, is_c1, is_c0, between. intros H. ifs. reflexivity. Qed.

Lemma dcs_collect ps ints f : forall cs acc,
  Forall dcs_put cs -> feed_all (SDcsPass ps ints f acc) cs = (SDcsPass ps ints f (rev cs ++ acc), []).
Proof.
  induction cs as [|c cs IH]; intros acc H; [reflexivity|].
  inversion H as [|? ? Hc Hcs]; subst. cbn [feed_all]. rewrite feed_dcs_put by exact Hc.
  rewrite IH by exact Hcs. cbn [rev]. rewrite <- app_assoc. reflexivity.
Qed.

(* ESC P intermediate final data ESC \   (no parameters) *)
Theorem dcs_seq i f d :
  inter_byte i -> 64 <= f <= 126 -> Forall dcs_put d ->
  feed_all SGround (27 :: 80 :: i :: f :: d ++ [27; 92]) = (SGround, [TDcs [] [i] f d; TEsc [] 92]).
Proof.
  intros Hi Hf Hd. change (27 :: 80 :: i :: f :: d ++ [27; 92]) with ([27; 80] ++ [i; f] ++ d ++ [27; 92]).
  rewrite feed_all_app. change (feed_all SGround [27; 80]) with (SDcs [] [], @nil token). cbv beta iota.
  rewrite feed_all_app.
  assert (E : feed_all (SDcs [] []) [i; f] = (SDcsPass [] [i] f [], [])).
  { cbn [feed_all]. unfold inter_byte in Hi.
    assert (E1 : feed (SDcs [] []) i = (SDcs [] [i], [])).
    { unfold feed, is_c1, is_c0, between. ifs. reflexivity. }
    rewrite E1.
    assert (E2 : feed (SDcs [] [i]) f = (SDcsPass [] [i] f [], [])).
    { unfold feed, is_c1, is_c0, between. ifs. reflexivity. }
    rewrite E2. reflexivity. }
  rewrite E, feed_all_app, dcs_collect by exact Hd. rewrite app_nil_r.
  cbn [feed_all].
  change (feed (SDcsPass [] [i] f (rev d)) 27) with (SEsc [], [TDcs (rev []) (rev [i]) f (rev (rev d))]).
  rewrite rev_involutive. reflexivity.
Qed.

(* ---------- parameter strings: print, then parse ---------- *)
Definition print_optn (o : option N) : list N := match o with Some n => print n | None => [] end.
Definition print_param (p : param) : list N := join 58 (map print_optn p).
Definition print_params (ps : list param) : list N := join 59 (map print_param ps).

Lemma print_optn_no_sep o s : (s < 48 \/ 57 < s) -> ~ In s (print_optn o).
Proof. destruct o; cbn; [apply print_no_sep | tauto]. Qed.

Lemma parse_opt_print o : parse_opt (print_optn o) = Some o.
Proof.
  destruct o as [n|]; [|reflexivity]. cbn [print_optn]. unfold parse_opt.
  pose proof (print_nonempty n). destruct (print n) eqn:E; [congruence|].
  rewrite <- E, parse_print. reflexivity.
Qed.

Lemma sequence_map_some {A B} (f : A -> option B) (g : A -> B) l :
  (forall a, In a l -> f a = Some (g a)) -> sequence (map f l) = Some (map g l).
Proof.
  induction l as [|a l IH]; intros H; [reflexivity|].
  cbn [map sequence]. rewrite (H a (or_introl eq_refl)), IH; [reflexivity|].
  intros b Hb. apply H. right. exact Hb.
Qed.

Lemma print_param_no59 p : ~ In 59 (print_param p).
Proof.
  unfold print_param. apply join_not_in; [lia|].
  apply Forall_forall. intros x Hx. apply in_map_iff in Hx. destruct Hx as (o & <- & _).
  apply print_optn_no_sep. lia.
Qed.

Lemma parse_param_print p :
  p <> [] -> sequence (map parse_opt (split 58 (print_param p))) = Some p.
Proof.
  intros Hp. unfold print_param. rewrite split_join.
  - rewrite map_map. rewrite (sequence_map_some _ (fun o => o)); [rewrite map_id; reflexivity|].
    intros o _. apply parse_opt_print.
  - destruct p; [congruence | discriminate].
  - apply Forall_forall. intros x Hx. apply in_map_iff in Hx. destruct Hx as (o & <- & _).
    apply print_optn_no_sep. lia.
Qed.

Theorem parse_print_params ps :
  ps <> [] -> Forall (fun p => p <> []) ps -> parse_params (print_params ps) = Some ps.
Proof.
  intros Hne Hps. unfold parse_params, print_params. rewrite split_join.
  - rewrite map_map. rewrite (sequence_map_some _ (fun p => p)); [rewrite map_id; reflexivity|].
    intros p Hp. rewrite Forall_forall in Hps. apply parse_param_print, Hps, Hp.
  - destruct ps; [congruence | discriminate].
  - apply Forall_forall. intros x Hx. apply in_map_iff in Hx. destruct Hx as (p & <- & _).
    apply print_param_no59.
Qed.

(* every byte of a printed parameter string is a digit, `:` or `;` *)
Lemma print_params_bytes ps : Forall (fun c => 48 <= c <= 59) (print_params ps).
Proof.
  unfold print_params. induction ps as [|p ps IH]; [constructor|].
  assert (Hp : Forall (fun c => 48 <= c <= 59) (print_param p)).
  { unfold print_param. induction p as [|o p IHp]; [constructor|].
    assert (Ho : Forall (fun c => 48 <= c <= 59) (print_optn o)).
    { destruct o as [n|]; [|constructor]. cbn [print_optn].
      pose proof (print_digits n) as Hd. unfold digits in Hd.
      eapply Forall_impl; [|exact Hd]. intros a Ha. apply is_digit_range in Ha. lia. }
    destruct p as [|o' p']; [exact Ho|].
    change (join 58 (map print_optn (o :: o' :: p'))) with (print_optn o ++ 58 :: join 58 (map print_optn (o' :: p'))).
    apply Forall_app. split; [exact Ho|]. constructor; [lia | exact IHp]. }
  destruct ps as [|p' ps']; [exact Hp|].
  change (join 59 (map print_param (p :: p' :: ps'))) with (print_param p ++ 59 :: join 59 (map print_param (p' :: ps'))).
  apply Forall_app. split; [exact Hp|]. constructor; [lia | exact IH].
Qed.

Lemma print_params_param_bytes ps : Forall param_byte (print_params ps).
Proof.
  eapply Forall_impl; [|apply print_params_bytes]. unfold param_byte. intros a Ha. lia.
Qed.

Lemma split_marker_plain bs :
  Forall (fun c => 48 <= c <= 59) bs -> split_marker bs = (None, bs).
Proof.
  intros H. destruct bs as [|b r]; [reflexivity|]. inversion H; subst.
  unfold split_marker, between. ifs. reflexivity.
Qed.

Lemma split_marker_marked m bs : 60 <= m <= 63 -> split_marker (m :: bs) = (Some m, bs).
Proof. intros H. unfold split_marker, between. ifs. reflexivity. Qed.

(* print_params of the common shapes *)
Lemma print_params_1 n : print_params [[Some n]] = print n.
Proof. reflexivity. Qed.
Lemma print_params_2 a b : print_params [[Some a]; [Some b]] = print a ++ 59 :: print b.
Proof. reflexivity. Qed.
