(* C05 o C01: the bytes of every renderer command, run on the reference screen through the
   independent VT interpreter, do what C01's reference terminal does with the command. *)
From Coq Require Import List NArith ZArith Bool Arith Lia ZifyBool ZifyNat ZifyN.
From SNT Require Import Base.Outcome Render.Cell Render.Screen Render.Frame Render.Spec Render.HistoryProofs Encoder.Utf8 Encoder.Encode Encoder.VT Encoder.Denote
  Encoder.EncodeMeaning Encoder.ScreenSem.
Import ListNotations.

Section Proofs.
  Variable o : oracle.
  Variable fval : N -> Encode.face.
  Variable fid : rendition -> N.
  Variable pal256 : rgba -> N.
  Variable gray4 : rgba -> N.
  Hypothesis pal256_byte : forall c, (pal256 c < 256)%N.
  Variable cp : caps.
  Hypothesis truecolor : cp_depth cp = TrueColor.

  Notation interp_cmd := (interp_cmd o fval fid pal256 gray4 cp).
  Notation interp_list := (interp_list o fval fid pal256 gray4 cp).
  Notation apply_op := (apply_op o fval fid).
  Notation cmd_valid := (cmd_valid fval fid).

  Lemma err_set_err s : err (set_err s) = true.
  Proof. reflexivity. Qed.

  (* the error flag of the reference terminal is sticky *)
  Lemma exec_err_sticky s c : err s = true -> err (exec o s c) = true.
  Proof.
    intros H. destruct c; cbn [exec]; try exact H; try reflexivity.
    - destruct (cur s) as [r k]. destruct (_ && _ && _); [exact H | reflexivity].
    - destruct (_ <? _); [exact H | reflexivity].
    - destruct (cur s) as [r k]. destruct (_ && _ && _); [exact H | reflexivity].
    - destruct (place_mem _ _); exact H.
    - destruct p as [[r k]|]; exact H.
  Qed.

  Lemma exec_list_err_sticky l : forall s, err s = true -> err (exec_list o s l) = true.
  Proof.
    induction l as [|c l IH]; intros s H; [exact H|]. cbn [exec_list fold_left]. apply IH, exec_err_sticky, H.
  Qed.

  Lemma graphic_ok ch : graphic ch = true -> cmd_ok (Char ch) = true /\ denote pal256 gray4 cp (Char ch) = [OPrint ch].
  Proof.
    unfold graphic, between. intros H.
    apply andb_prop in H. destruct H as [H H3]. apply andb_prop in H. destruct H as [H1 H2]. split.
    - cbn [cmd_ok]. exact H1.
    - cbn [denote]. unfold char_introducer, is_c0, is_c1, between.
      replace ((ch =? 27) || (ch =? 144) || (ch =? 152) || (ch =? 155) || (ch =? 157) || (ch =? 158) || (ch =? 159))%N
        with false by lia.
      replace ((ch =? 127) || (ch =? 156))%N with false by lia.
      replace ((ch <? 32) || ((128 <=? ch) && (ch <=? 159)))%N with false by lia. reflexivity.
  Qed.

  (* PER-COMMAND REFINEMENT *)
  Theorem refine_cmd s c :
    cmd_valid c = true -> err (exec o s c) = false -> interp_cmd s c = exec o s c.
  Proof.
    intros Hv He. destruct c as [ch|f|r k|n|i r k|i p|on|]; cbn [ScreenSem.interp_cmd to_cmd]; try reflexivity.
    - (* CChar *)
      cbn [ScreenSem.cmd_valid] in Hv. destruct (graphic_ok ch Hv) as [Hok Hd].
      destruct (encode_meaning pal256 gray4 pal256_byte cp (Char ch) Hok) as (bs & E & M & _).
      rewrite E. unfold interp_bytes, scr_run. rewrite M, Hd. reflexivity.
    - (* CFace *)
      cbn [ScreenSem.cmd_valid] in Hv. apply andb_prop in Hv. destruct Hv as [Hok Hid]. apply N.eqb_eq in Hid.
      destruct (encode_meaning pal256 gray4 pal256_byte cp (Face (fval f)) Hok) as (bs & E & M & _).
      rewrite E. unfold interp_bytes, scr_run. rewrite M. cbn [denote fold_left]. rewrite truecolor.
      cbn [ScreenSem.apply_op face_trans t_bad]. rewrite face_trans_truecolor.
      unfold rend_of in Hid. rewrite Hid. reflexivity.
    - (* CCursorTo *)
      cbn [ScreenSem.cmd_valid] in Hv.
      assert (Hok : cmd_ok (CursorTo (N.of_nat r) (N.of_nat k)) = true) by exact Hv.
      destruct (encode_meaning pal256 gray4 pal256_byte cp _ Hok) as (bs & E & M & _).
      rewrite E. unfold interp_bytes, scr_run. rewrite M. cbn [denote fold_left ScreenSem.apply_op].
      cbn [exec] in He |- *. destruct (k <? sw s) eqn:Hk; [|discriminate He].
      f_equal. f_equal; lia.
    - (* CEraseChars *)
      cbn [ScreenSem.cmd_valid] in Hv.
      assert (Hok : cmd_ok (EraseChars (N.of_nat n)) = true) by exact Hv.
      destruct (encode_meaning pal256 gray4 pal256_byte cp _ Hok) as (bs & E & M & _).
      rewrite E. unfold interp_bytes, scr_run. rewrite M. cbn [denote].
      cbn [exec] in He |- *. destruct (cur s) as [r k] eqn:Hc.
      destruct ((0 <? n) && (k <? sw s) && (r <? sh s)) eqn:Hcond; [|discriminate He].
      replace (N.of_nat n =? 0)%N with false by lia. cbn [fold_left ScreenSem.apply_op]. rewrite Hc.
      replace ((k <? sw s) && (r <? sh s)) with true by lia. rewrite Nat2N.id. reflexivity.
    - (* CSync *)
      assert (Hok : cmd_ok (DecModeSet on SynchronizedOutput) = true) by reflexivity.
      destruct (encode_meaning pal256 gray4 pal256_byte cp _ Hok) as (bs & E & M & _).
      rewrite E. unfold interp_bytes, scr_run. rewrite M. destruct on; reflexivity.
  Qed.

  (* COMMAND LISTS: as long as the reference terminal reports no protocol error, running the
     bytes and executing the commands are the same thing *)
  Theorem refine_list l : forall s,
    forallb cmd_valid l = true -> err (exec_list o s l) = false -> interp_list s l = exec_list o s l.
  Proof.
    induction l as [|c l IH]; intros s Hv He; [reflexivity|].
    cbn [forallb] in Hv. apply andb_prop in Hv. destruct Hv as [Hc Hl].
    cbn [ScreenSem.interp_list exec_list fold_left] in *.
    assert (He1 : err (exec o s c) = false).
    { destruct (err (exec o s c)) eqn:E; [|reflexivity].
      pose proof (exec_list_err_sticky l _ E) as H. unfold exec_list in H. congruence. }
    rewrite (refine_cmd s c Hc He1). apply IH; assumption.
  Qed.

  (* ---------- whole histories of the renderer ---------- *)
  (* the terminal side of a history, given how a command list acts on the screen: the issued lists
     are applied op by op; a Resize then replaces the cells (as Spec.screen_step) *)
  Definition after_op (x : Frame.op) (scr' : screen) : screen :=
    match x with
    | Resize h w g => mkscreen h w g (places scr') (cur scr') (pen scr') (err scr')
    | _ => scr'
    end.
  Fixpoint play (step : screen -> list Screen.cmd -> screen) (scr : screen) (ops : list Frame.op)
           (impl : list (list Screen.cmd)) : screen :=
    match ops, impl with
    | x :: ops', cs :: impl' => play step (after_op x (step scr cs)) ops' impl'
    | _, _ => scr
    end.

  Lemma run_is_play : forall ops st scr,
    snd (run o st scr ops) = play (exec_list o) scr ops (rrun o st ops).
  Proof.
    induction ops as [|x ops IH]; intros st scr; [reflexivity|].
    cbn [run rrun]. destruct (rstep o st x) as [cs st'] eqn:E. cbn [fst snd play].
    rewrite IH. unfold screen_step, after_op. destruct x; reflexivity.
  Qed.

  Lemma play_err_sticky : forall ops impl scr,
    err scr = true -> err (play (exec_list o) scr ops impl) = true.
  Proof.
    induction ops as [|x ops IH]; intros impl scr H; [exact H|]. destruct impl as [|cs impl]; [exact H|].
    cbn [play]. apply IH. pose proof (exec_list_err_sticky cs scr H) as H1. destruct x; exact H1.
  Qed.

  Theorem refine_play : forall ops impl scr,
    forallb (forallb cmd_valid) impl = true ->
    err (play (exec_list o) scr ops impl) = false ->
    play interp_list scr ops impl = play (exec_list o) scr ops impl.
  Proof.
    induction ops as [|x ops IH]; intros impl scr Hv He; [reflexivity|]. destruct impl as [|cs impl]; [reflexivity|].
    cbn [forallb] in Hv. apply andb_prop in Hv. destruct Hv as [Hc Hl]. cbn [play] in *.
    assert (He1 : err (exec_list o scr cs) = false).
    { destruct (err (exec_list o scr cs)) eqn:E; [|reflexivity].
      assert (E2 : err (after_op x (exec_list o scr cs)) = true) by (destruct x; exact E).
      rewrite (play_err_sticky ops impl _ E2) in He. discriminate He. }
    rewrite (refine_list cs scr Hc He1). apply IH; assumption.
  Qed.
End Proofs.

Lemma c05_c01_history_final :
  forall (o : oracle) (fval : N -> Encode.face) (fid : rendition -> N) (pal256 gray4 : rgba -> N),
  (forall c, (pal256 c < 256)%N) ->
  forall cp : caps, cp_depth cp = TrueColor ->
  forall h w ops s,
  oracle_ok o -> good_ops o h w ops ->
  good_surface o (fst (size_after h w ops)) (snd (size_after h w ops)) s ->
  let all_ops := ops ++ [Draw s; Frame] in
  forallb (forallb (cmd_valid fval fid)) (rrun o (rnew h w false) all_ops) = true ->
  same_display (play (interp_list o fval fid pal256 gray4 cp) (blank_screen h w) all_ops
                     (rrun o (rnew h w false) all_ops))
               (show o (fst (size_after h w ops)) (snd (size_after h w ops)) s) = true.
Proof.
  intros o fval fid pal gray Hp cp Htc h w ops s Hok Hgood Hs all_ops Hv.
  pose proof (history_final o h w ops s Hok Hgood Hs) as H. fold all_ops in H.
  rewrite (run_is_play o) in H.
  assert (He : err (play (exec_list o) (blank_screen h w) all_ops (rrun o (rnew h w false) all_ops)) = false).
  { unfold same_display in H. apply andb_prop in H. destruct H as [H _]. apply andb_prop in H. destruct H as [_ H].
    destruct (err _); [discriminate H | reflexivity]. }
  rewrite (refine_play o fval fid pal gray Hp cp Htc all_ops _ _ Hv He). exact H.
Qed.
