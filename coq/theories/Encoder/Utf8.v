(* UTF-8: the encoder (what Rust's `write!("{}", c)` / `String` bytes are) and
   an incremental decoder following Unicode 15 Table 3-7 (well-formed byte
   sequences), as a terminal in UTF-8 mode applies it before control-sequence
   parsing.  Ill-formed input yields U+FFFD and resynchronises. *)
From Coq Require Import List NArith Bool.
Import ListNotations.
Local Open Scope N_scope.

Definition scalar_ok (c : N) : bool :=
  (c <? 55296) || ((57344 <=? c) && (c <? 1114112)).

Definition utf8_enc (c : N) : list N :=
  if c <? 128 then [c]
  else if c <? 2048 then [192 + c / 64; 128 + c mod 64]
  else if c <? 65536 then [224 + c / 4096; 128 + (c / 64) mod 64; 128 + c mod 64]
  else [240 + c / 262144; 128 + (c / 4096) mod 64; 128 + (c / 64) mod 64; 128 + c mod 64].

Definition utf8_list (cs : list N) : list N := flat_map utf8_enc cs.

(* decoder state: between characters, or inside one: continuation bytes still
   expected, bits accumulated, admissible range of the next byte *)
Inductive ustate :=
| UStart
| UMore (need : nat) (acc lo hi : N).

Definition between (lo b hi : N) : bool := (lo <=? b) && (b <=? hi).

Definition ustart (b : N) : ustate * list N :=
  if b <? 128 then (UStart, [b])
  else if between 194 b 223 then (UMore 1 (b - 192) 128 191, [])
  else if b =? 224 then (UMore 2 0 160 191, [])
  else if between 225 b 236 then (UMore 2 (b - 224) 128 191, [])
  else if b =? 237 then (UMore 2 13 128 159, [])
  else if between 238 b 239 then (UMore 2 (b - 224) 128 191, [])
  else if b =? 240 then (UMore 3 0 144 191, [])
  else if between 241 b 243 then (UMore 3 (b - 240) 128 191, [])
  else if b =? 244 then (UMore 3 4 128 143, [])
  else (UStart, [65533]).

Definition ustep (u : ustate) (b : N) : ustate * list N :=
  match u with
  | UStart => ustart b
  | UMore need acc lo hi =>
      if between lo b hi then
        let acc' := acc * 64 + (b - 128) in
        match need with
        | O | S O => (UStart, [acc'])
        | S k => (UMore k acc' 128 191, [])
        end
      else
        (* ill-formed: replacement character, then the byte starts afresh *)
        let '(u', out) := ustart b in (u', 65533 :: out)
  end.
