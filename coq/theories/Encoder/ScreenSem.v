(* Composition of C05 with C01: the meaning of the abstract VT operations (Encoder/VT.v) on the
   reference screen of the renderer development (Render/Screen.v), so that the BYTES the encoder
   emits for the renderer's commands can be run against the screen C01's theorems speak about.

   Written from xterm semantics, for the operations the renderer's commands produce:
     CUP r c      1-based; the cursor goes to (r-1, c-1), each coordinate clamped to the screen
     SGR t        the rendition is transformed (rt_apply); the screen's pen is the face id of the
                  resulting rendition
     PRINT ch     a character of display width 1 or 2 (wcwidth oracle of C01) is written at the
                  cursor in the current pen and the cursor advances by its width; column = width of
                  the screen afterwards stands for xterm's "pending wrap" position.  Not modelled
                  (flagged in `err`): wrapping at the right margin, zero-width characters
     ECH n        n cells from the cursor, clipped to the row, become blank in the ERASE rendition
                  of the pen (background only); the cursor does not move
     DECSET/DECRST 2026 (synchronized output)  nothing is displayed differently
     anything else sets `err`: it is not something the renderer's commands produce

   SHARED WITH C01 (assumptions of its reference terminal that stay assumptions here): how cells
   change when written -- Screen.put_char / put / put2 / unpair (a wide character occupies two cells;
   overwriting one half orphans the other), Screen.erase_cells, the oracle (cw = wcwidth, fspace /
   ferase = how a blank / erased cell of a face displays), and the image placement model (the image
   protocols are C11 / C12; TTYEncoder emits nothing for Image / ImageErase).
   ESTABLISHED HERE (lemmas about this interpreter + the C05 theorems): which of these primitives the
   BYTES select and with which arguments -- position (CUP off-by-one and clamping), pen (SGR sets
   exactly the face, from any prior rendition), character and width, erase count, cursor not moved
   by ECH, sync 2026 invisible.

   Faces: C01's faces are opaque ids; `fval id` is the Face value the renderer sends for it and
   `fid r` the id of a rendition (both supplied by the case / assumed inverse on the ids in use). *)
From Coq Require Import List NArith ZArith Bool Arith Lia.
From SNT Require Import Base.Outcome Render.Cell Render.Screen Encoder.Utf8 Encoder.Encode Encoder.VT Encoder.Denote
  Encoder.EncodeMeaning.
Import ListNotations.

Section ScreenSem.
  Variable o : oracle.
  Variable fval : N -> Encode.face.
  Variable fid : rendition -> N.

  Definition rend_of (f : Cell.face) : rendition := face_rendition (fval f).

  Definition apply_op (s : screen) (x : op) : screen :=
    match x with
    | OSgr t =>
        if t_bad t then set_err s
        else mkscreen (sh s) (sw s) (sgrid s) (places s) (cur s) (fid (rt_apply t (rend_of (pen s)))) (err s)
    | OCup row col =>
        mkscreen (sh s) (sw s) (sgrid s) (places s)
                 (Nat.min (N.to_nat row - 1) (sh s - 1), Nat.min (N.to_nat col - 1) (sw s - 1)) (pen s) (err s)
    | OPrint ch =>
        let '(r, c) := cur s in
        let w := cw o ch in
        if ((w =? 1) || (w =? 2)) && (c + w <=? sw s) && (r <? sh s)
        then set_grid s (on_row (sgrid s) r (fun row => put_char o row c ch (pen s))) (r, c + w)
        else set_err s
    | OEch n =>
        let '(r, c) := cur s in
        if (c <? sw s) && (r <? sh s)
        then set_grid s (on_row (sgrid s) r (fun row => erase_cells row c (N.to_nat n) (Blank, ferase o (pen s)))) (r, c)
        else set_err s
    | ODecset 2026%N | ODecrst 2026%N => s
    | _ => set_err s
    end.

  Definition scr_run (s : screen) (ops : list op) : screen := fold_left apply_op ops s.
  Definition interp_bytes (s : screen) (bs : list N) : screen := scr_run s (vt_ops bs).

  (* the renderer's commands as TerminalCommands *)
  Definition to_cmd (c : Screen.cmd) : option Encode.cmd :=
    match c with
    | CChar ch => Some (Char ch)
    | CFace f => Some (Face (fval f))
    | CCursorTo r c => Some (CursorTo (N.of_nat r) (N.of_nat c))
    | CEraseChars n => Some (EraseChars (N.of_nat n))
    | CSync on => Some (DecModeSet on SynchronizedOutput)
    | _ => None
    end.

  Section Bytes.
    Variable pal256 : rgba -> N.
    Variable gray4 : rgba -> N.
    Variable cp : caps.

    (* executing a renderer command THROUGH ITS BYTES; image commands are not encoded by
       TTYEncoder (image handlers, C11 / C12): their placement semantics is taken from C01 *)
    Definition interp_cmd (s : screen) (c : Screen.cmd) : screen :=
      match c with
      | CImage _ _ _ | CImageErase _ _ => exec o s c
      | COther => set_err s
      | _ =>
          match to_cmd c with
          | Some tc => match encode pal256 gray4 cp tc with Ok bs => interp_bytes s bs | _ => set_err s end
          | None => set_err s
          end
      end.
    Definition interp_list (s : screen) (l : list Screen.cmd) : screen := fold_left interp_cmd l s.
  End Bytes.

  (* a printable character: scalar value, not a C0 / C1 control, not DEL *)
  Definition graphic (ch : N) : bool := scalar_ok ch && (32 <=? ch)%N && negb (between 127 ch 159).

  (* static validity of a renderer command: its face is a known, well-formed face whose id round
     trips; its character is printable *)
  Definition cmd_valid (c : Screen.cmd) : bool :=
    match c with
    | CChar ch => graphic ch
    | CFace f => cmd_ok (Face (fval f)) && (fid (rend_of f) =? f)%N
    | CCursorTo r c => (N.of_nat r <=? usize_max)%N && (N.of_nat c <=? usize_max)%N
    | CEraseChars n => (N.of_nat n <=? usize_max)%N
    | _ => true
    end.
End ScreenSem.
