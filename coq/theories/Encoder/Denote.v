(* The short meaning of each TerminalCommand, as the operations a VT/xterm
   terminal is to perform (specification side of C05).  Written from the
   documentation of the commands (src/terminal.rs doc comments) and of the
   control functions, not from the encoder.

   The observable is the LIST OF OPERATIONS the interpreter extracts (cursor,
   erase, scroll, mode, SGR transformer, OSC/DCS requests), not a screen
   contents model.

   SPECIFICATION DECISIONS.  Where the documentation of a command leaves its
   meaning open, the meaning below was FIXED BY US and agrees with what the
   encoder does today; for these points the theorem is a round trip, not an
   independent judgement:
     D1 Title t            = OSC 0 (icon name AND window title), xterm's usual "set title";
                             OSC 2 (title only) would be reported as a difference
     D2 ScrollRegion s e   with s >= e (empty or inverted region) = reset the margins (CSI r)
     D3 KeyboardLevel l    without the kitty keyboard capability = nothing
     D4 DecModeSet AltScreen also sets the kitty keyboard level (KEYBOARD_LEVEL on entry,
                             0 on exit) when the capability is present: the alternate
                             screen has its own keyboard-mode stack
     D5 colours            alpha is not transmitted (a terminal colour has none); under Gray
                             the four levels are the system colours 0 < 8 < 7 < 15 (black,
                             bright black, white, bright white) and an underline colour has
                             no grey rendering (nothing is sent)
     D6 CursorMove 0 0, Scroll 0, EraseChars 0, Image, ImageErase = nothing (images are
                             drawn by the image handlers, not by this encoder)
     D7 Termcap []         = Termcap [""] = the request with ONE EMPTY name (OXtgettcap [[]]): on the wire the
                             names are joined by `;`, so the empty list cannot be told from the list
                             holding the empty name; we read the bytes as the grammar does
     D8 Char of a control  Char DEL and Char ST (U+009C) = nothing (a terminal ignores them in ground
                             state); Char of any other C0 / C1 control (BEL, BS, HT, LF, CR, SO/SI, CAN,
                             SUB, NEL, SS2/SS3, DECID, ..) = "the terminal executes control c" (OExec c):
                             WHICH control function that is and what it does is not interpreted further
     D10 Char of an introducer (ESC, C1 DCS SOS CSI OSC PM APC) = show U+FFFD: such a character cannot be
                             displayed and must not open a sequence
     D9 Raw bytes          = whatever the bytes mean (tautological; outside self-containedness) *)
From Coq Require Import List NArith ZArith Bool.
From SNT Require Import Encoder.Decimal Encoder.Utf8 Encoder.Encode Encoder.VT.
Import ListNotations.
Local Open Scope N_scope.

(* what each DecMode is called in xterm's DECSET table *)
Definition decmode_xterm (m : decmode) : N :=
  match m with
  | VisibleCursor => 25          (* DECTCEM *)
  | AutoWrap => 7                (* DECAWM *)
  | SixelScrolling => 80         (* DECSDM *)
  | MouseReport => 1000          (* X11 mouse reporting *)
  | MouseMotions => 1003         (* any-event tracking *)
  | MouseSGR => 1006             (* SGR mouse format *)
  | AltScreen => 1049            (* save cursor + alternate screen buffer *)
  | SynchronizedOutput => 2026
  | BracketedPaste => 2004
  end.

Definition uline_of_style (u : ustyle) : uline :=
  match u with
  | UNone => LNone | UStraight => LSingle | UDouble => LDouble | UCurly => LCurly
  | UDotted => LDotted | UDashed => LDashed
  end.

(* The seven characters that OPEN a control sequence or control string: ESC and the C1 controls
   DCS (U+0090), SOS (U+0098), CSI (U+009B), OSC (U+009D), PM (U+009E), APC (U+009F).  Written
   bare they leave the parser inside an escape sequence that swallows what follows (the defect
   fixed by crate commit 73d8d1c, Props/C05.v C05_char_introducer_refuted_before_fix); they cannot
   be put on a screen, so `Char` of one of them means: show U+FFFD (decision D10). *)
Definition char_introducer (c : N) : bool :=
  (c =? 27) || (c =? 144) || (c =? 152) || (c =? 155) || (c =? 157) || (c =? 158) || (c =? 159).

Section Denote.
  Variable pal256 : rgba -> N.
  Variable gray4 : rgba -> N.

  (* the terminal colour a face colour becomes under each depth; under Gray
     the four levels are the system colours black, bright black, white, bright
     white (SGR 30 / 90 / 37 / 97 and the background codes 10 higher); there is
     no grey rendering of an underline colour *)
  Definition gray_entry (level : N) : N :=
    match level with 0 => 0 | 1 => 8 | 2 => 7 | _ => 15 end.

  Definition colour_of (d : depth) (k : crole) (c : rgba) : option colour :=
    match d with
    | TrueColor => Some (CRgb (cr c) (cg c) (cb c))
    | EightBit => Some (CIdx (pal256 c))
    | Gray => match k with KUl => None | _ => Some (CIdx (gray_entry (gray4 c))) end
    end.

  Definition over {A} (new old : option A) : option A :=
    match new with Some x => Some x | None => old end.
  Definition ocolour (d : depth) (k : crole) (c : option rgba) : option colour :=
    match c with Some c => colour_of d k c | None => None end.

  (* Face: the rendition becomes exactly the face, whatever it was before *)
  Definition face_trans (d : depth) (f : face) : rtrans :=
    mkRT (Some (if attrs_flag (f_bits f) 0 then IBold else INormal))
         (Some (attrs_flag (f_bits f) 1))
         (Some (uline_of_style (attrs_underline (f_bits f))))
         (Some (attrs_flag (f_bits f) 2))
         (Some (attrs_flag (f_bits f) 3))
         (Some false)
         (Some (attrs_flag (f_bits f) 4))
         (Some (pick (ocolour d KFg (f_fg f)) CDefault))
         (Some (pick (ocolour d KBg (f_bg f)) CDefault))
         (Some CDefault)
         false.

  (* FaceModify: only the named aspects change (after an optional reset) *)
  Definition fm_trans (d : depth) (m : facemod) : rtrans :=
    let b := if fm_reset m then rt_reset else rt_id in
    mkRT (over (option_map (fun x : bool => if x then IBold else INormal) (fm_bold m)) (t_intensity b))
         (over (fm_italic m) (t_italic b))
         (over (option_map uline_of_style (fm_underline m)) (t_uline b))
         (over (fm_blink m) (t_blink b))
         (t_inverse b)
         (t_invisible b)
         (over (fm_strike m) (t_strike b))
         (over (ocolour d KFg (fm_fg m)) (t_fg b))
         (over (ocolour d KBg (fm_bg m)) (t_bg b))
         (over (ocolour d KUl (fm_ucolor m)) (t_ulc b))
         false.

  Definition rtrans_is_id (t : rtrans) : bool :=
    match t with
    | mkRT None None None None None None None None None None false => true
    | _ => false
    end.

  Definition kitty_ops (cp : caps) (level : N) : list op :=
    if cp_kitty cp then [OKittySet level 1] else [].

  Definition spec_of (c : option rgba) : cspec :=
    match c with Some c => CsSharp 2 (cr c) (cg c) (cb c) | None => CsQuery end.

  Definition denote (cp : caps) (c : cmd) : list op :=
    match c with
    | Char c =>
        (* a graphic character is printed; a C0 / C1 control is executed; DEL and a stray ST
           (U+009C) are ignored by a terminal *)
        if char_introducer c then [OPrint 65533]
        else if (c =? 127) || (c =? 156) then []
        else if is_c0 c || is_c1 c then [OExec c]
        else [OPrint c]
    | Face f => [OSgr (face_trans (cp_depth cp) f)]
    | FaceModify m =>
        let t := fm_trans (cp_depth cp) m in
        if rtrans_is_id t then [] else [OSgr t]
    | FaceGet => [ODecrqss [109]]
    | DecModeSet true mode =>
        (* the alternate screen has its own keyboard level: the library's level is set on entry *)
        ODecset (decmode_xterm mode)
        :: (if is_altscreen mode then kitty_ops cp Gen.TabEncoder.keyboard_level else [])
    | DecModeSet false mode =>
        (if is_altscreen mode then kitty_ops cp 0 else [])
        ++ [ODecrst (decmode_xterm mode)]
    | DecModeGet mode => [ODecrqm (decmode_xterm mode)]
    | CursorGet => [ODsr 6]
    | CursorTo row col => [OCup (row + 1) (col + 1)]
    | CursorMove row col =>
        (if (0 <? col)%Z then [OCuf (Z.to_N col)] else if (col <? 0)%Z then [OCub (Z.to_N (- col))] else [])
        ++ (if (0 <? row)%Z then [OCud (Z.to_N row)] else if (row <? 0)%Z then [OCuu (Z.to_N (- row))] else [])
    | CursorSave => [ODecsc]
    | CursorRestore => [ODecrc]
    | EraseLineRight => [OEl 0]
    | EraseLineLeft => [OEl 1]
    | EraseLine => [OEl 2]
    | EraseScreen => [OEd 2]
    | EraseChars count => if count =? 0 then [] else [OEch count]
    | Scroll count =>
        if (0 <? count)%Z then [OSu (Z.to_N count)]
        else if (count <? 0)%Z then [OSd (Z.to_N (- count))]
        else []
    | ScrollRegion start stop =>
        if start <? stop then [ODecstbm (Some (start + 1)) (Some (stop + 1))]
        else [ODecstbm None None]
    | Reset => [ORis]
    | Image | ImageErase => []
    | Termcap names =>
        (* on the wire the names are joined by `;`: no name at all and one empty name are the
           same request *)
        [OXtgettcap (match names with [] => [[]] | _ => names end)]
    | Color TBackground color => [ODynColour 11 (spec_of color)]
    | Color TForeground color => [ODynColour 10 (spec_of color)]
    | Color (TPalette index) color => [OPalette index (spec_of color)]
    | Title title => [OTitle 0 title]
    | DeviceAttrs => [ODa1]
    | KeyboardLevel level => kitty_ops cp level
    | Raw data => vt_ops data
    end.
End Denote.

Definition is_raw (c : cmd) : bool := match c with Raw _ => true | _ => false end.

(* ---------- the domain the property quantifies over ---------- *)
Definition byte_ok (b : N) : bool := b <? 256.
Definition rgba_ok (c : rgba) : bool := byte_ok (cr c) && byte_ok (cg c) && byte_ok (cb c) && byte_ok (ca c).
Definition orgba_ok (c : option rgba) : bool := match c with Some c => rgba_ok c | None => true end.

(* a character that is not a control character (Unicode Cc: C0, DEL, C1) *)
Definition is_control (c : N) : bool := (c <? 32) || between 127 c 159.
Definition text_ok (cs : list N) : bool := forallb (fun c => scalar_ok c && negb (is_control c)) cs.

Definition cmd_ok (c : cmd) : bool :=
  match c with
  | Char c => scalar_ok c
  | Face f =>
      (* FaceAttrs bits: every public operation packs (underline style, flags), so the
         underline code is 0..5; the codes 6 and 7 cannot be constructed *)
      orgba_ok (f_fg f) && orgba_ok (f_bg f) && (f_bits f <? 256) && (N.land (f_bits f) 7 <=? 5)
  | FaceModify m => orgba_ok (fm_fg m) && orgba_ok (fm_bg m) && orgba_ok (fm_ucolor m)
  | CursorTo r c => (r <=? usize_max) && (c <=? usize_max)
  | CursorMove r c => ((i32_min <=? r) && (r <=? i32_max) && (i32_min <=? c) && (c <=? i32_max))%Z
  | EraseChars n => n <=? usize_max
  | Scroll n => ((i32_min <=? n) && (n <=? i32_max))%Z
  | ScrollRegion s e => (s <=? usize_max) && (e <=? usize_max)
  | Termcap names => forallb (forallb byte_ok) names
  | Color name c =>
      orgba_ok c && match name with TPalette i => i <=? usize_max | _ => true end
  | Title t => text_ok t
  | KeyboardLevel l => l <=? usize_max
  | _ => true
  end.
