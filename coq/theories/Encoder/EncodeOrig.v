(* The encoder arms as they were BEFORE the `fix:` commits of C05 (kept only to
   state the refutation witnesses; nothing else depends on this file).
   Checked machine arithmetic as in the debug profile. *)
From Coq Require Import List NArith ZArith Bool.
From SNT Require Import Base.Outcome Encoder.Decimal Encoder.Utf8 Encoder.Encode.
Import ListNotations.
Local Open Scope N_scope.

Definition usize_succ (site : N) (n : N) : outcome N :=
  if n <? usize_max then Ok (n + 1) else Panic site.
Definition i32_neg (site : N) (z : Z) : outcome N :=
  if (z =? i32_min)%Z then Panic site else Ok (Z.to_N (- z)).

(* `{}` of an RGBA (rasterize::RGBA as Display): #rrggbb, plus aa unless opaque *)
Definition rgba_display (c : rgba) : list N :=
  [35] ++ hex2 (cr c) ++ hex2 (cg c) ++ hex2 (cb c)
  ++ (if ca c =? 255 then [] else hex2 (ca c)).

Definition encode_orig (c : cmd) : outcome (list N) :=
  match c with
  | CursorTo row col =>
      let* r := usize_succ 77 row in
      let* c := usize_succ 77 col in
      Ok (CSI ++ print r ++ [59] ++ print c ++ [72])
  | CursorMove row col =>
      let* h :=
        (if (0 <? col)%Z then Ok (CSI ++ print (Z.to_N col) ++ [67])
         else if (col <? 0)%Z then let* n := i32_neg 81 col in Ok (CSI ++ print n ++ [68])
         else Ok []) in
      let* v :=
        (if (0 <? row)%Z then Ok (CSI ++ print (Z.to_N row) ++ [66])
         else if (row <? 0)%Z then let* n := i32_neg 86 row in Ok (CSI ++ print n ++ [65])
         else Ok []) in
      Ok (h ++ v)
  | Char c => Ok (utf8_enc c)                        (* the bare character, also ESC / C1 introducers *)
  | EraseChars count => Ok (CSI ++ print count ++ [88])
  | Scroll count =>
      if (count <? 0)%Z then let* n := i32_neg 205 count in Ok (CSI ++ print n ++ [84])
      else if (0 <? count)%Z then Ok (CSI ++ print (Z.to_N count) ++ [83])
      else Ok []
  | ScrollRegion start stop =>
      if start <? stop then
        let* s := usize_succ 211 start in
        let* e := usize_succ 211 stop in
        Ok (CSI ++ print s ++ [59] ++ print e ++ [114])
      else Ok (CSI ++ [114])
  | Termcap names =>
      Ok ([27; 80; 43; 113] ++ join 59 (map (flat_map hex_nopad) names) ++ ST)
  | Color name color =>
      Ok ([27; 93]
          ++ match name with
             | TBackground => [49; 49; 59]
             | TForeground => [49; 48; 59]
             | TPalette index => [52; 59] ++ print index ++ [59]
             end
          ++ match color with
             | Some c => rgba_display c
             | None => [63]
             end
          ++ ST)
  | FaceModify (mkFM false None None None None (Some false) None None None) =>
      Ok (CSI ++ [50; 49; 109])                       (* bold off was "21" *)
  | _ => Err 0                                         (* other arms unchanged: see Encode.v *)
  end.
