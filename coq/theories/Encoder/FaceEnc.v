(* Model of the SGR part of TTYEncoder::encode (src/encoder.rs:98-197) in
   true-colour mode (ColorDepth::TrueColor), of color_sgr_encode's TrueColor
   branch (464-476), of the Chunks buffer (`drain(b";")` = join with ';') and of
   `Char(c) => write!(out, "{}", c)` (UTF-8 encoding of one scalar value). *)
From Coq Require Import List NArith Bool.
From SNT Require Export Base.Dec10 Render.FaceModel.
Import ListNotations.
Local Open Scope N_scope.

Definition ESC : N := 27.

Fixpoint join (sep : list N) (chunks : list (list N)) : list N :=
  match chunks with
  | [] => []
  | [c] => c
  | c :: r => c ++ sep ++ join sep r
  end.

Inductive color_kind := Foreground | Background | Underline.

(* color.to_rgb() of an RGBA is [r, g, b] (alpha dropped) *)
Definition color_chunks (k : color_kind) (c : rgba) : list (list N) :=
  match c with
  | RGBA r g b _ =>
      (match k with Foreground => [51; 56] | Background => [52; 56] | Underline => [53; 56] end)
      :: [50] :: digits r :: digits g :: digits b :: nil
  end.

Definition opt_color_chunks (k : color_kind) (c : option rgba) : list (list N) :=
  match c with Some c => color_chunks k c | None => [] end.

Definition face_underline_chunks (u : ustyle) : list (list N) :=
  match u with
  | UStraight => [[52]]
  | UDouble => [[52; 58; 50]]
  | UCurly => [[52; 58; 51]]
  | UDotted => [[52; 58; 52]]
  | UDashed => [[52; 58; 53]]
  | UNone => []
  end.

Definition flag_chunk (attrs flag : N) (code : list N) : list (list N) :=
  if fa_contains attrs flag then [code] else [].

Definition sgr_wrap (chunks : list (list N)) : list N :=
  [ESC; 91] ++ join [59] chunks ++ [109].

(* TerminalCommand::Face(face) *)
Definition enc_face_chunks (f : face) : list (list N) :=
  [[48]]
  ++ opt_color_chunks Foreground (f_fg f)
  ++ opt_color_chunks Background (f_bg f)
  ++ face_underline_chunks (fa_underline (f_attrs f))
  ++ (if fa_is_empty (f_attrs f) then []
      else flag_chunk (f_attrs f) FA_BOLD [49]
           ++ flag_chunk (f_attrs f) FA_ITALIC [51]
           ++ flag_chunk (f_attrs f) FA_BLINK [53]
           ++ flag_chunk (f_attrs f) FA_REVERSE [55]
           ++ flag_chunk (f_attrs f) FA_STRIKE [57]).
Definition enc_face (f : face) : list N := sgr_wrap (enc_face_chunks f).

Definition modify_underline_chunks (u : option ustyle) : list (list N) :=
  match u with
  | None => []
  | Some UNone => [[50; 52]]
  | Some u => face_underline_chunks u
  end.

Definition onoff_chunk (flag : option bool) (on off : list N) : list (list N) :=
  match flag with
  | None => []
  | Some true => [on]
  | Some false => [off]
  end.

(* TerminalCommand::FaceModify(face_modify) *)
Definition enc_modify_chunks (m : face_modify) : list (list N) :=
  (if m_reset m then [[48]] else [])
  ++ opt_color_chunks Foreground (m_fg m)
  ++ opt_color_chunks Background (m_bg m)
  ++ modify_underline_chunks (m_underline m)
  ++ opt_color_chunks Underline (m_ucolor m)
  ++ onoff_chunk (m_bold m) [49] [50; 50]
  ++ onoff_chunk (m_italic m) [51] [50; 51]
  ++ onoff_chunk (m_blink m) [53] [50; 53]
  ++ onoff_chunk (m_strike m) [57] [50; 57].
Definition enc_modify (m : face_modify) : list N :=
  match enc_modify_chunks m with
  | [] => []
  | chunks => sgr_wrap chunks
  end.

(* char::encode_utf8 *)
Definition utf8_encode (c : N) : list N :=
  if c <? 128 then [c]
  else if c <? 2048 then [192 + c / 64; 128 + c mod 64]
  else if c <? 65536 then [224 + c / 4096; 128 + (c / 64) mod 64; 128 + c mod 64]
  else [240 + c / 262144; 128 + (c / 4096) mod 64; 128 + (c / 64) mod 64; 128 + c mod 64].

Definition scalar_ok (c : N) : bool := (c <? 55296) || ((57344 <=? c) && (c <? 1114112)).

(* ESC and the C1 sequence introducers DCS, SOS, CSI, OSC, PM, APC are never written as characters: the
   encoder writes U+FFFD in their place (encoder.rs `Char(c)`, crate commit 73d8d1c) *)
Definition char_unsafe (c : N) : bool :=
  (c =? 27) || (c =? 144) || (c =? 152) || (c =? 155) || (c =? 157) || (c =? 158) || (c =? 159).
Definition char_out (c : N) : N := if char_unsafe c then 65533 else c.

Inductive command :=
| CmdFace (f : face)
| CmdFaceModify (m : face_modify)
| CmdChar (c : N)
| CmdRaw (bs : list N).

(* the commands this model covers; Raw(data) is written verbatim *)
Definition encode (cmd : command) : list N :=
  match cmd with
  | CmdFace f => enc_face f
  | CmdFaceModify m => enc_modify m
  | CmdChar c => utf8_encode (char_out c)
  | CmdRaw bs => bs
  end.
