(* The encoder model with the colour reduction of C20 plugged in, and the
   panic sites of the reduced-depth path made explicit (C05 no-panic):

     nearest(..)            binary_search_by(|c| c.partial_cmp(&v).unwrap()): the values compared are
                            finite (channels come from u8, tables are literals), so partial_cmp is
                            total -- in the exact model every comparison is defined; `vs.len() - 1`
                            is guarded by `index == 0` (an empty table yields index 0)
     CUBE[c_red] ..         slice indexing: Panic 485 when out of range
     GREYS[g_index]         slice indexing: Panic 489 when out of range
   The Gray arm matches on the index and cannot panic. *)
From Coq Require Import List NArith ZArith Bool.
From SNT Require Import Base.Outcome Encoder.Encode Encoder.Color256 Gen.TabColor.
Import ListNotations.
Local Open Scope Z_scope.

Definition nth_chk (site : N) (t : list Z) (i : nat) : outcome Z :=
  match nth_error t i with Some x => Ok x | None => Panic site end.

Definition pal_algo_chk (cube greys : list Z) (v : vec) : outcome N :=
  let '(r, g, b) := v in
  let c_red := nearest r cube in
  let c_green := nearest g cube in
  let c_blue := nearest b cube in
  let* x := nth_chk 485 cube c_red in
  let* y := nth_chk 485 cube c_green in
  let* z := nth_chk 485 cube c_blue in
  let g_index := nearest (r + g + b) (map (Z.mul 3) greys) in
  let* t := nth_chk 489 greys g_index in
  if d2 v (t, t, t) <? d2 v (x, y, z)
  then Ok (232 + N.of_nat g_index)%N
  else Ok (16 + 36 * N.of_nat c_red + 6 * N.of_nat c_green + N.of_nat c_blue)%N.

Definition pal256_chk (c : rgba) : outcome N := pal_algo_chk cube_z greys_z (lin_vec c).

Definition cmd_colours (c : cmd) : list rgba :=
  let opt (o : option rgba) := match o with Some x => [x] | None => [] end in
  match c with
  | Face f => opt (f_fg f) ++ opt (f_bg f)
  | FaceModify m => opt (fm_fg m) ++ opt (fm_bg m) ++ opt (fm_ucolor m)
  | _ => []
  end.

Fixpoint all_ok (l : list (outcome N)) : outcome unit :=
  match l with
  | [] => Ok tt
  | x :: r => let* _ := x in all_ok r
  end.

(* TTYEncoder::encode with the reduction inside *)
Definition encode_c20 (cp : caps) (c : cmd) : outcome (list N) :=
  let* _ := match cp_depth cp with
            | EightBit => all_ok (map pal256_chk (cmd_colours c))
            | _ => Ok tt
            end in
  encode pal256_exact gray4_exact cp c.
