(* Decimal and hexadecimal printing as Rust's `{}` / `{:02x}` produce it for
   unsigned integers, and the matching parsers.  Executable definitions; the
   round-trip proofs are in DecimalProofs.v. *)
From Coq Require Import List NArith Bool.
Import ListNotations.
Local Open Scope N_scope.

(* ---------- `{}` of an unsigned integer ---------- *)
(* digits are produced least significant first and consed onto `acc`;
   fuel = number of bits + 1 is always enough (DecimalProofs.print_aux_spec) *)
Fixpoint print_aux (fuel : nat) (n : N) (acc : list N) : list N :=
  match fuel with
  | O => acc
  | S f =>
      let acc' := (48 + n mod 10) :: acc in
      if n / 10 =? 0 then acc' else print_aux f (n / 10) acc'
  end.

Definition print (n : N) : list N := print_aux (S (N.to_nat (N.size n))) n [].

Definition is_digit (b : N) : bool := (48 <=? b) && (b <=? 57).

(* value of a digit string read left to right, starting from `a` *)
Definition dec_step (a d : N) : N := a * 10 + (d - 48).
Definition dec_val (ds : list N) (a : N) : N := fold_left dec_step ds a.

(* a non-empty string of ASCII digits, any length, leading zeros allowed *)
Definition parse_dec (bs : list N) : option N :=
  match bs with
  | [] => None
  | _ => if forallb is_digit bs then Some (dec_val bs 0) else None
  end.

(* ---------- `{:02x}` of a u8 ---------- *)
Definition hex_digit (d : N) : N := if d <? 10 then 48 + d else 87 + d.   (* 0-9 a-f *)
Definition hex2 (b : N) : list N := [hex_digit (b / 16); hex_digit (b mod 16)].

(* `{:x}` of a u8: no padding *)
Definition hex_nopad (b : N) : list N :=
  if b <? 16 then [hex_digit b] else hex2 b.

Definition hex_val (c : N) : option N :=
  if (48 <=? c) && (c <=? 57) then Some (c - 48)
  else if (97 <=? c) && (c <=? 102) then Some (c - 87)
  else if (65 <=? c) && (c <=? 70) then Some (c - 55)
  else None.

(* pairs of hex digits -> bytes; None on odd length or a non-hex character *)
Fixpoint unhex (bs : list N) : option (list N) :=
  match bs with
  | [] => Some []
  | h :: l :: r =>
      match hex_val h, hex_val l, unhex r with
      | Some a, Some b, Some t => Some (a * 16 + b :: t)
      | _, _, _ => None
      end
  | _ => None
  end.

(* generic split / join on a separator byte *)
Fixpoint split_go (sep : N) (bs cur : list N) : list (list N) :=
  match bs with
  | [] => [rev cur]
  | b :: r => if b =? sep then rev cur :: split_go sep r [] else split_go sep r (b :: cur)
  end.
Definition split (sep : N) (bs : list N) : list (list N) := split_go sep bs [].

Fixpoint join (sep : N) (xs : list (list N)) : list N :=
  match xs with
  | [] => []
  | [x] => x
  | x :: r => x ++ sep :: join sep r
  end.
