(* Model of Base64Encoder (src/encoder.rs) and Base64Decoder (src/decoder.rs),
   and the RFC 4648 specification they are compared with.
   Executable definitions only; proofs are in Base64Proofs.v. *)
From Coq Require Import List NArith Lia Bool.
From SNT Require Import Base.Outcome Gen.TabBase64.
Import ListNotations.
Local Open Scope N_scope.

(* ---------- u8 arithmetic as the code performs it ---------- *)
Definition shl8 (x k : N) : N := (N.shiftl x k) mod 256.   (* u8 << k discards high bits *)
Definition shr8 (x k : N) : N := N.shiftr x k.
Definition byte_ok (b : N) : bool := b <? 256.
Definition bytes_ok (l : list N) : bool := forallb byte_ok l.

(* table lookups; the Rust code indexes a 64-byte slice resp. a [u8;256];
   Base64Proofs.enc_index_in_range shows every index used is in range *)
Definition tbl_enc (i : N) : N := nth (N.to_nat i) base64_encode_tbl 0.
Definition tbl_dec (i : N) : N := nth (N.to_nat i) base64_decode_tbl 0.

Definition PAD : N := 61. (* b'=' *)

(* ---------- specification: RFC 4648 section 4 ---------- *)
Definition rfc_char (i : N) : N :=
  if i <? 26 then 65 + i            (* A-Z *)
  else if i <? 52 then 71 + i       (* a-z *)
  else if i <? 62 then i - 4        (* 0-9 *)
  else if i =? 62 then 43           (* + *)
  else 47.                          (* / *)

Definition group24 (a b c : N) : N := a * 65536 + b * 256 + c.

Fixpoint rfc4648 (l : list N) : list N :=
  match l with
  | [] => []
  | [a] =>
      let n := group24 a 0 0 in
      [rfc_char (n / 262144); rfc_char ((n / 4096) mod 64); PAD; PAD]
  | [a; b] =>
      let n := group24 a b 0 in
      [rfc_char (n / 262144); rfc_char ((n / 4096) mod 64); rfc_char ((n / 64) mod 64); PAD]
  | a :: b :: c :: r =>
      let n := group24 a b c in
      [rfc_char (n / 262144); rfc_char ((n / 4096) mod 64);
       rfc_char ((n / 64) mod 64); rfc_char (n mod 64)] ++ rfc4648 r
  end.

(* ---------- encoder (encoder.rs:325-390) ---------- *)
Definition enc_group3 (s0 s1 s2 : N) : list N :=
  [ tbl_enc (shr8 s0 2);
    tbl_enc (N.land (N.lor (shl8 s0 4) (shr8 s1 4)) 63);
    tbl_enc (N.land (N.lor (shl8 s1 2) (shr8 s2 6)) 63);
    tbl_enc (N.land s2 63) ].

(* state: bytes held in `buffer[..size]` (at most 2 between calls), output so far *)
Definition enc_state : Type := (list N * list N)%type.
Definition enc_init : enc_state := ([], []).

Definition enc_write_byte (st : enc_state) (b : N) : enc_state :=
  let (carry, out) := st in
  match carry with
  | [s0; s1] => ([], out ++ enc_group3 s0 s1 b)
  | _ => (carry ++ [b], out)
  end.

Definition enc_write (st : enc_state) (buf : list N) : enc_state :=
  fold_left enc_write_byte buf st.

Definition enc_finish (st : enc_state) : list N :=
  let (carry, out) := st in
  match carry with
  | [] => out
  | [s0] => out ++ [tbl_enc (shr8 s0 2); tbl_enc (N.land (shl8 s0 4) 63); PAD; PAD]
  | [s0; s1] =>
      out ++ [tbl_enc (shr8 s0 2);
              tbl_enc (N.land (N.lor (shl8 s0 4) (shr8 s1 4)) 63);
              tbl_enc (N.land (shl8 s1 2) 63); PAD]
  | s0 :: s1 :: s2 :: _ => out ++ enc_group3 s0 s1 s2
  end.

(* one Base64Encoder fed by a sequence of write calls, then finish() *)
Definition encode_chunks (chunks : list (list N)) : list N :=
  enc_finish (fold_left enc_write chunks enc_init).

(* ---------- decoder (decoder.rs:1384-1476) ---------- *)

(* The inner reader: remaining text and a read schedule.  A call
   read(buf) with |buf| = k returns min(k, max(1, s), |remaining|) bytes where
   s is the next schedule entry (an exhausted schedule means "as much as asked").
   This covers every reader that signals end of input only by returning 0. *)
Definition reader : Type := (list N * list nat)%type.

Definition rd_read (k : nat) (rd : reader) : list N * reader :=
  let (rem, sched) := rd in
  let s := match sched with [] => k | s :: _ => Nat.max 1 s end in
  let n := Nat.min k s in
  (firstn n rem, (skipn n rem, tl sched)).

(* fill a 4-byte group across reads: while size < 4 { n = read(&mut input[size..]); if n == 0 break; size += n } *)
Fixpoint rd_group (fuel : nat) (acc : list N) (rd : reader) : list N * reader :=
  match fuel with
  | O => (acc, rd)
  | S f =>
      if Nat.ltb (length acc) 4 then
        let '(bs, rd') := rd_read (4 - length acc) rd in
        match bs with
        | [] => (acc, rd')
        | _ => rd_group f (acc ++ bs) rd'
        end
      else (acc, rd)
  end.

Definition decode_u8x4 (i0 i1 i2 i3 : N) : list N :=
  let o0 := tbl_dec i0 in let o1 := tbl_dec i1 in
  let o2 := tbl_dec i2 in let o3 := tbl_dec i3 in
  [ N.lor (shl8 o0 2) (shr8 o1 4);
    N.lor (shl8 o1 4) (shr8 o2 2);
    N.lor (shl8 o2 6) o3 ].

Definition decode_size (i2 i3 : N) : nat :=
  if i2 =? PAD then 1%nat else if i3 =? PAD then 2%nat else 3%nat.

Definition decode_group (g : list N) : option (list N) :=
  match g with
  | [i0; i1; i2; i3] => Some (firstn (decode_size i2 i3) (decode_u8x4 i0 i1 i2 i3))
  | _ => None
  end.

(* decoder state: pending = buffer[buffer_offset..buffer_size], size = buffer_size *)
Record dec_state := { pending : list N; bsize : nat; rd : reader }.

(* the while loop of buffer_fill *)
Fixpoint fill_loop (fuel : nat) (pend : list N) (size : nat) (r : reader)
  : outcome (list N * nat * reader) :=
  match fuel with
  | O => OutOfFuel
  | S f =>
      if Nat.leb (size + 3) base64_buffer_len then
        let '(g, r') := rd_group 4 [] r in
        match g with
        | [] => Ok (pend, size, r')
        | _ =>
            match decode_group g with
            | None => Err 1          (* "input length is not dividable by 4" *)
            | Some out =>
                (* self.buffer[size..size + out_size].copy_from_slice(..): slice bound *)
                if Nat.leb (size + length out) base64_buffer_len
                then fill_loop f (pend ++ out) (size + length out) r'
                else Panic 1
            end
        end
      else Ok (pend, size, r)
  end.

Definition buffer_fill (st : dec_state) : outcome dec_state :=
  let size := match pending st with [] => O | _ => bsize st end in
  let* (p, s, r) := fill_loop (S base64_buffer_len) (pending st) size (rd st) in
  Ok {| pending := p; bsize := s; rd := r |}.

(* Read::read(out) with |out| = want: returns the bytes copied *)
Fixpoint read_loop (fuel : nat) (want : nat) (got : list N) (st : dec_state)
  : outcome (list N * dec_state) :=
  match fuel with
  | O => OutOfFuel
  | S f =>
      if Nat.ltb (length got) want then
        let* st1 := match pending st with [] => buffer_fill st | _ => Ok st end in
        match pending st1 with
        | [] => Ok (got, st1)
        | _ =>
            let n := Nat.min (length (pending st1)) (want - length got) in
            read_loop f want (got ++ firstn n (pending st1))
              {| pending := skipn n (pending st1); bsize := bsize st1; rd := rd st1 |}
        end
      else Ok (got, st)
  end.

Definition dec_read (want : nat) (st : dec_state) : outcome (list N * dec_state) :=
  read_loop (S want) want [] st.

(* Drive the decoder as read_to_end-like callers do: successive read calls
   with destination sizes taken cyclically from dests (entries of 0 are taken
   as 1; an empty list means 64), until a call returns 0 bytes or an error. *)
Definition next_dest (dests all : list nat) : nat * list nat :=
  match dests with
  | d :: ds => (Nat.max 1 d, ds)
  | [] => match all with
          | d :: ds => (Nat.max 1 d, ds)
          | [] => (64%nat, [])
          end
  end.

Fixpoint drive (fuel : nat) (dests all : list nat) (acc : list N) (st : dec_state)
  : outcome (list N) :=
  match fuel with
  | O => OutOfFuel
  | S f =>
      let '(d, ds) := next_dest dests all in
      let* (bs, st') := dec_read d st in
      match bs with
      | [] => Ok acc
      | _ => drive f ds all (acc ++ bs) st'
      end
  end.

Definition decode_all (text : list N) (sched : list nat) (dests : list nat) : outcome (list N) :=
  drive (S (length text)) dests dests []
        {| pending := []; bsize := O; rd := (text, sched) |}.

(* the same drive, also reporting what the successful read calls had delivered when a later call fails
   (a caller that streams the output has consumed these bytes already) *)
Fixpoint drive_p (fuel : nat) (dests all : list nat) (acc : list N) (st : dec_state)
  : list N * outcome unit :=
  match fuel with
  | O => (acc, OutOfFuel)
  | S f =>
      let '(d, ds) := next_dest dests all in
      match dec_read d st with
      | Ok (bs, st') =>
          match bs with
          | [] => (acc, Ok tt)
          | _ => drive_p f ds all (acc ++ bs) st'
          end
      | Err e => (acc, Err e)
      | Panic s => (acc, Panic s)
      | OutOfFuel => (acc, OutOfFuel)
      end
  end.

Definition decode_all_partial (text : list N) (sched : list nat) (dests : list nat) : list N * outcome unit :=
  drive_p (S (length text)) dests dests []
          {| pending := []; bsize := O; rd := (text, sched) |}.

(* ---------- pure reference decoder used to state what decode_all computes ---------- *)
Fixpoint spec_dec (fuel : nat) (text : list N) : option (list N) :=
  match fuel with
  | O => None
  | S f =>
      match text with
      | [] => Some []
      | _ =>
          match decode_group (firstn 4 text) with
          | None => None
          | Some out =>
              match spec_dec f (skipn 4 text) with
              | None => None
              | Some rest => Some (out ++ rest)
              end
          end
      end
  end.
