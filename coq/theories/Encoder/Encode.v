(* Model of TTYEncoder::encode (src/encoder.rs:57-257), Chunks (260-320) and
   color_sgr_encode (454-525), line by line: same branch order, same chunk
   list, same separators.  Executable definitions only.

   Bytes are N < 256.  Strings that the Rust code formats as text (`Title`,
   `Char`) are lists of scalar values and are UTF-8 encoded here, as
   `write!(out, "{}", s)` does; capability names are their UTF-8 bytes
   (`cap.as_bytes()`).

   The palette index chosen for a colour under ColorDepth::EightBit and the
   grey level chosen under ColorDepth::Gray are parameters of the model
   (`pal256`, `gray4`): which entry is chosen is property C20
   (Encoder/Color256.v); C05 only needs that exactly one entry is selected. *)
From Coq Require Import List NArith ZArith Bool.
From SNT Require Import Base.Outcome Encoder.Decimal Encoder.Utf8 Gen.TabEncoder Gen.TabColor.
Import ListNotations.
Local Open Scope N_scope.

(* ---------- terminal.rs / face.rs data ---------- *)
Inductive depth := TrueColor | EightBit | Gray.
Record caps := mkCaps { cp_depth : depth; cp_glyphs : bool; cp_kitty : bool }.

Inductive decmode :=
| VisibleCursor | AutoWrap | SixelScrolling | MouseReport | MouseMotions
| MouseSGR | AltScreen | SynchronizedOutput | BracketedPaste.

Definition decmode_index (m : decmode) : nat :=
  match m with
  | VisibleCursor => 0 | AutoWrap => 1 | SixelScrolling => 2 | MouseReport => 3
  | MouseMotions => 4 | MouseSGR => 5 | AltScreen => 6 | SynchronizedOutput => 7
  | BracketedPaste => 8
  end%nat.

(* `mode as usize`: discriminants regenerated from terminal.rs (Gen/TabEncoder.v) *)
Definition decmode_code (m : decmode) : N := nth (decmode_index m) decmode_codes 0.

Definition is_altscreen (m : decmode) : bool :=
  match m with AltScreen => true | _ => false end.

Record rgba := mkRgba { cr : N; cg : N; cb : N; ca : N }.

Inductive ustyle := UNone | UStraight | UDouble | UCurly | UDotted | UDashed.

(* Face: attrs is the raw `bits: u16` of FaceAttrs (3 bits underline style, then
   BOLD ITALIC BLINK REVERSE STRIKE) *)
Record face := mkFace { f_fg : option rgba; f_bg : option rgba; f_bits : N }.

Record facemod := mkFM {
  fm_reset : bool;
  fm_fg : option rgba;
  fm_bg : option rgba;
  fm_underline : option ustyle;
  fm_ucolor : option rgba;
  fm_bold : option bool;
  fm_italic : option bool;
  fm_blink : option bool;
  fm_strike : option bool }.

Inductive tcolor := TBackground | TForeground | TPalette (index : N).

Inductive cmd :=
| Char (c : N)
| Face (f : face)
| FaceModify (m : facemod)
| FaceGet
| DecModeSet (enable : bool) (mode : decmode)
| DecModeGet (mode : decmode)
| CursorGet
| CursorTo (row col : N)
| CursorMove (row col : Z)
| CursorSave
| CursorRestore
| EraseLineLeft
| EraseLineRight
| EraseLine
| EraseScreen
| EraseChars (count : N)
| Scroll (count : Z)
| ScrollRegion (start stop : N)
| Reset
| Image            (* payload irrelevant: ignored by the encoder *)
| ImageErase
| Termcap (names : list (list N))
| Color (name : tcolor) (color : option rgba)
| Title (title : list N)
| DeviceAttrs
| KeyboardLevel (level : N)
| Raw (data : list N).

(* ---------- machine integers ---------- *)
Definition usize_max : N := 18446744073709551615.
Definition i32_min : Z := (-2147483648)%Z.
Definition i32_max : Z := 2147483647%Z.

(* FaceAttrs::underline() *)
Definition attrs_underline (bits : N) : ustyle :=
  match N.land bits 7 with
  | 1 => UStraight | 2 => UDouble | 3 => UCurly | 4 => UDotted | 5 => UDashed
  | _ => UNone
  end.
(* FaceAttrs::contains(flag) for the five single-flag constants: flag k is bit 3+k *)
Definition attrs_flag (bits : N) (k : N) : bool := N.testbit bits (3 + k).

(* ---------- byte strings ---------- *)
Definition ESC : N := 27.
Definition CSI : list N := [27; 91].       (* "\x1b["  *)
Definition ST  : list N := [27; 92].       (* "\x1b\\" *)

Inductive role := RFg | RBg | RUl.
Definition role_code (r : role) : list N :=
  match r with RFg => [51; 56] | RBg => [52; 56] | RUl => [53; 56] end.   (* "38" "48" "58" *)

(* '\x1b' | '\u{90}' | '\u{98}' | '\u{9b}' | '\u{9d}' | '\u{9e}' | '\u{9f}' *)
Definition opens_sequence (c : N) : bool :=
  (c =? 27) || (c =? 144) || (c =? 152) || (c =? 155) || (c =? 157) || (c =? 158) || (c =? 159).

Section Encoder.
  (* palette index under EightBit / level 0..3 under Gray (see header) *)
  Variable pal256 : rgba -> N.
  Variable gray4 : rgba -> N.

  (* color_sgr_encode: the chunks it pushes *)
  Definition color_chunks (d : depth) (r : role) (c : rgba) : list (list N) :=
    match d with
    | TrueColor => [role_code r; [50]; print (cr c); print (cg c); print (cb c)]
    | EightBit => [role_code r; [53]; print (pal256 c)]
    | Gray =>
        let index := match gray4 c with
                     | 0 => nth 0 gray_codes 0
                     | 1 => nth 1 gray_codes 0
                     | 2 => nth 2 gray_codes 0
                     | _ => nth 3 gray_codes 0
                     end in
        match r with
        | RFg => [print index]
        | RBg => [print (index + gray_bg_offset)]
        | RUl => []
        end
    end.

  Definition opt_color_chunks (d : depth) (r : role) (c : option rgba) : list (list N) :=
    match c with Some c => color_chunks d r c | None => [] end.

  Definition underline_chunk (u : ustyle) : list (list N) :=
    match u with
    | UStraight => [[52]]
    | UDouble => [[52; 58; 50]]
    | UCurly => [[52; 58; 51]]
    | UDotted => [[52; 58; 52]]
    | UDashed => [[52; 58; 53]]
    | UNone => []
    end.

  Definition flag_chunk (bits k code : N) : list (list N) :=
    if attrs_flag bits k then [[code]] else [].

  Definition face_chunks (d : depth) (f : face) : list (list N) :=
    [[48]]
    ++ opt_color_chunks d RFg (f_fg f)
    ++ opt_color_chunks d RBg (f_bg f)
    ++ underline_chunk (attrs_underline (f_bits f))
    ++ (if f_bits f =? 0 then []
        else flag_chunk (f_bits f) 0 49 ++ flag_chunk (f_bits f) 1 51 ++ flag_chunk (f_bits f) 2 53
             ++ flag_chunk (f_bits f) 3 55 ++ flag_chunk (f_bits f) 4 57).

  Definition onoff_chunk (flag : option bool) (on off : list N) : list (list N) :=
    match flag with None => [] | Some true => [on] | Some false => [off] end.

  Definition fm_chunks (d : depth) (m : facemod) : list (list N) :=
    (if fm_reset m then [[48]] else [])
    ++ opt_color_chunks d RFg (fm_fg m)
    ++ opt_color_chunks d RBg (fm_bg m)
    ++ match fm_underline m with
       | None => []
       | Some UNone => [[50; 52]]
       | Some u => underline_chunk u
       end
    ++ opt_color_chunks d RUl (fm_ucolor m)
    ++ onoff_chunk (fm_bold m) [49] [50; 50]
    ++ onoff_chunk (fm_italic m) [51] [50; 51]
    ++ onoff_chunk (fm_blink m) [53] [50; 53]
    ++ onoff_chunk (fm_strike m) [57] [50; 57].

  (* Chunks::drain(b";") between "\x1b[" and "m" *)
  Definition sgr_bytes (chunks : list (list N)) : list N := CSI ++ join 59 chunks ++ [109].

  (* TTYEncoder::kitty_level *)
  Definition kitty_level (cp : caps) (level : N) : list N :=
    if cp_kitty cp then CSI ++ [61] ++ print level ++ [117] else [].

  (* i32::unsigned_abs: total, the result is a u32 *)
  Definition unsigned_abs (z : Z) : N := Z.to_N (Z.abs z).

  Definition encode (cp : caps) (c : cmd) : outcome (list N) :=
    match c with
    | DecModeSet enable mode =>
        Ok ((if negb enable && is_altscreen mode then kitty_level cp 0 else [])
            ++ CSI ++ [63] ++ print (decmode_code mode) ++ [if enable then 104 else 108]
            ++ (if enable && is_altscreen mode then kitty_level cp keyboard_level else []))
    | DecModeGet mode => Ok (CSI ++ [63] ++ print (decmode_code mode) ++ [36; 112])
    | CursorTo row col =>
        (* `pos.row as u128 + 1`: cannot overflow for a usize *)
        Ok (CSI ++ print (row + 1) ++ [59] ++ print (col + 1) ++ [72])
    | CursorMove row col =>
        let* h :=
          (if (0 <? col)%Z then Ok (CSI ++ print (Z.to_N col) ++ [67])
           else if (col <? 0)%Z then Ok (CSI ++ print (unsigned_abs col) ++ [68])
           else Ok []) in
        let* v :=
          (if (0 <? row)%Z then Ok (CSI ++ print (Z.to_N row) ++ [66])
           else if (row <? 0)%Z then Ok (CSI ++ print (unsigned_abs row) ++ [65])
           else Ok []) in
        Ok (h ++ v)
    | CursorGet => Ok (CSI ++ [54; 110])
    | CursorSave => Ok [27; 55]
    | CursorRestore => Ok [27; 56]
    | EraseLineRight => Ok (CSI ++ [75])
    | EraseLineLeft => Ok (CSI ++ [49; 75])
    | EraseLine => Ok (CSI ++ [50; 75])
    | EraseScreen => Ok (CSI ++ [50; 74])
    | EraseChars count => if 0 <? count then Ok (CSI ++ print count ++ [88]) else Ok []
    | Face f => Ok (sgr_bytes (face_chunks (cp_depth cp) f))
    | FaceModify m =>
        let chunks := fm_chunks (cp_depth cp) m in
        match chunks with
        | [] => Ok []
        | _ => Ok (sgr_bytes chunks)
        end
    | FaceGet => Ok ([27; 80; 36; 113; 109] ++ ST)
    | Reset => Ok [27; 99]
    | Char c =>
        (* ESC and the C1 introducers are written as U+FFFD (REPLACEMENT CHARACTER) *)
        Ok (utf8_enc (if opens_sequence c then 65533 else c))
    | Scroll count =>
        if (count <? 0)%Z then Ok (CSI ++ print (unsigned_abs count) ++ [84])
        else if (0 <? count)%Z then Ok (CSI ++ print (Z.to_N count) ++ [83])
        else Ok []
    | ScrollRegion start stop =>
        if start <? stop then
          Ok (CSI ++ print (start + 1) ++ [59] ++ print (stop + 1) ++ [114])
        else Ok (CSI ++ [114])
    | Image | ImageErase => Ok []
    | Termcap names =>
        Ok ([27; 80; 43; 113] ++ join 59 (map (flat_map hex2) names) ++ ST)
    | Color name color =>
        Ok ([27; 93]
            ++ match name with
               | TBackground => [49; 49; 59]
               | TForeground => [49; 48; 59]
               | TPalette index => [52; 59] ++ print index ++ [59]
               end
            ++ match color with
               | Some c => [35] ++ hex2 (cr c) ++ hex2 (cg c) ++ hex2 (cb c)   (* to_rgb, "#{:02x}{:02x}{:02x}" *)
               | None => [63]
               end
            ++ ST)
    | Title title => Ok ([27; 93; 48; 59] ++ utf8_list title ++ ST)
    | DeviceAttrs => Ok (CSI ++ [99])
    | KeyboardLevel level => Ok (kitty_level cp level)
    | Raw data => Ok data
    end.
End Encoder.
