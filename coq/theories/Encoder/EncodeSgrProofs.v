(* C05: the two SGR commands, Face and FaceModify.
   The chunk list of the encoder is the printed form of a structured parameter
   list; the independent SGR interpreter run over that list yields exactly the
   transformer the command denotes. *)
From Coq Require Import List NArith ZArith Bool Lia ZifyBool ZifyN.
From SNT Require Import Base.Outcome Encoder.Decimal Encoder.DecimalProofs Encoder.Utf8
  Encoder.VT Encoder.VTProofs Encoder.Encode Encoder.Denote Encoder.EncodeProofs Gen.TabEncoder Gen.TabColor.
Import ListNotations.
Local Open Scope N_scope.
Arguments print : simpl never.
Arguments N.ltb : simpl never.

(* composition of transformers: first t, then d *)
Definition upd (t d : rtrans) : rtrans :=
  mkRT (over (t_intensity d) (t_intensity t)) (over (t_italic d) (t_italic t))
       (over (t_uline d) (t_uline t)) (over (t_blink d) (t_blink t))
       (over (t_inverse d) (t_inverse t)) (over (t_invisible d) (t_invisible t))
       (over (t_strike d) (t_strike t))
       (over (t_fg d) (t_fg t)) (over (t_bg d) (t_bg t)) (over (t_ulc d) (t_ulc t))
       (t_bad d || t_bad t).

Definition d_intensity o := mkRT o None None None None None None None None None false.
Definition d_italic o := mkRT None o None None None None None None None None false.
Definition d_uline o := mkRT None None o None None None None None None None false.
Definition d_blink o := mkRT None None None o None None None None None None false.
Definition d_inverse o := mkRT None None None None o None None None None None false.
Definition d_strike o := mkRT None None None None None None o None None None false.
Definition d_colour (k : crole) (o : option colour) :=
  match k with
  | KFg => mkRT None None None None None None None o None None false
  | KBg => mkRT None None None None None None None None o None false
  | KUl => mkRT None None None None None None None None None o false
  end.

Definition krole (r : role) : crole := match r with RFg => KFg | RBg => KBg | RUl => KUl end.
Definition role_num (r : role) : N := match r with RFg => 38 | RBg => 48 | RUl => 58 end.

Section Sgr.
  Variable pal256 : rgba -> N.
  Variable gray4 : rgba -> N.
  Hypothesis pal256_byte : forall c, pal256 c < 256.

  (* ---------- the chunks are printed parameters ---------- *)
  Definition gray_code (c : rgba) : N :=
    match gray4 c with
    | 0 => nth 0 gray_codes 0 | 1 => nth 1 gray_codes 0 | 2 => nth 2 gray_codes 0 | _ => nth 3 gray_codes 0
    end.

  Definition color_params (d : depth) (r : role) (c : rgba) : list param :=
    match d with
    | TrueColor => [[Some (role_num r)]; [Some 2]; [Some (cr c)]; [Some (cg c)]; [Some (cb c)]]
    | EightBit => [[Some (role_num r)]; [Some 5]; [Some (pal256 c)]]
    | Gray =>
        match r with
        | RFg => [[Some (gray_code c)]]
        | RBg => [[Some (gray_code c + gray_bg_offset)]]
        | RUl => []
        end
    end.
  Definition ocolor_params d r (c : option rgba) : list param :=
    match c with Some c => color_params d r c | None => [] end.

  Definition underline_params (u : ustyle) : list param :=
    match u with
    | UStraight => [[Some 4]]
    | UDouble => [[Some 4; Some 2]]
    | UCurly => [[Some 4; Some 3]]
    | UDotted => [[Some 4; Some 4]]
    | UDashed => [[Some 4; Some 5]]
    | UNone => []
    end.

  Definition flag_params (bits k code : N) : list param :=
    if attrs_flag bits k then [[Some code]] else [].

  Definition face_params (d : depth) (f : face) : list param :=
    [[Some 0]]
    ++ ocolor_params d RFg (f_fg f)
    ++ ocolor_params d RBg (f_bg f)
    ++ underline_params (attrs_underline (f_bits f))
    ++ (if f_bits f =? 0 then []
        else flag_params (f_bits f) 0 1 ++ flag_params (f_bits f) 1 3 ++ flag_params (f_bits f) 2 5
             ++ flag_params (f_bits f) 3 7 ++ flag_params (f_bits f) 4 9).

  Definition onoff_params (flag : option bool) (on off : N) : list param :=
    match flag with None => [] | Some true => [[Some on]] | Some false => [[Some off]] end.

  Definition fm_params (d : depth) (m : facemod) : list param :=
    (if fm_reset m then [[Some 0]] else [])
    ++ ocolor_params d RFg (fm_fg m)
    ++ ocolor_params d RBg (fm_bg m)
    ++ match fm_underline m with
       | None => []
       | Some UNone => [[Some 24]]
       | Some u => underline_params u
       end
    ++ ocolor_params d RUl (fm_ucolor m)
    ++ onoff_params (fm_bold m) 1 22
    ++ onoff_params (fm_italic m) 3 23
    ++ onoff_params (fm_blink m) 5 25
    ++ onoff_params (fm_strike m) 9 29.

  Lemma print_param_1 n : print_param [Some n] = print n.
  Proof. reflexivity. Qed.

  Lemma color_chunks_params d r c :
    color_chunks pal256 gray4 d r c = map print_param (color_params d r c).
  Proof. destruct d, r; reflexivity. Qed.

  Lemma ocolor_chunks_params d r c :
    opt_color_chunks pal256 gray4 d r c = map print_param (ocolor_params d r c).
  Proof. destruct c; [apply color_chunks_params | reflexivity]. Qed.

  Lemma underline_chunk_params u : underline_chunk u = map print_param (underline_params u).
  Proof. destruct u; reflexivity. Qed.

  Lemma flag_chunk_params bits k code ch :
    print code = [ch] -> flag_chunk bits k ch = map print_param (flag_params bits k code).
  Proof.
    intros H. unfold flag_chunk, flag_params. destruct (attrs_flag bits k); [|reflexivity].
    cbn [map]. rewrite print_param_1, H. reflexivity.
  Qed.

  Lemma face_chunks_params d f :
    face_chunks pal256 gray4 d f = map print_param (face_params d f).
  Proof.
    unfold face_chunks, face_params. rewrite !map_app, <- !ocolor_chunks_params, <- underline_chunk_params.
    do 4 f_equal. destruct (f_bits f =? 0); [reflexivity|].
    rewrite !map_app.
    rewrite <- (flag_chunk_params _ 0 1 49), <- (flag_chunk_params _ 1 3 51), <- (flag_chunk_params _ 2 5 53),
            <- (flag_chunk_params _ 3 7 55), <- (flag_chunk_params _ 4 9 57) by reflexivity.
    reflexivity.
  Qed.

  Lemma onoff_chunk_params o on off con coff :
    print on = con -> print off = coff ->
    onoff_chunk o con coff = map print_param (onoff_params o on off).
  Proof. intros <- <-. destruct o as [[|]|]; reflexivity. Qed.

  Lemma fm_chunks_params d m :
    fm_chunks pal256 gray4 d m = map print_param (fm_params d m).
  Proof.
    unfold fm_chunks, fm_params. rewrite !map_app, <- !ocolor_chunks_params.
    rewrite <- (onoff_chunk_params _ 1 22 [49] [50; 50]), <- (onoff_chunk_params _ 3 23 [51] [50; 51]),
            <- (onoff_chunk_params _ 5 25 [53] [50; 53]), <- (onoff_chunk_params _ 9 29 [57] [50; 57]) by reflexivity.
    f_equal; [destruct (fm_reset m); reflexivity|]. do 2 f_equal. f_equal.
    destruct (fm_underline m) as [[| | | | |]|]; reflexivity.
  Qed.

  (* ---------- well-formedness ---------- *)
  Definition ne_all (ps : list param) : Prop := Forall (fun p => p <> []) ps.
  Lemma ne_app a b : ne_all a -> ne_all b -> ne_all (a ++ b).
  Proof. intros. apply Forall_app. split; assumption. Qed.
  Ltac ne_solve := repeat (constructor; try discriminate).

  Lemma ne_color d r c : ne_all (color_params d r c).
  Proof. destruct d, r; ne_solve. Qed.
  Lemma ne_ocolor d r c : ne_all (ocolor_params d r c).
  Proof. destruct c; [apply ne_color | constructor]. Qed.
  Lemma ne_underline u : ne_all (underline_params u).
  Proof. destruct u; ne_solve. Qed.
  Lemma ne_flag bits k code : ne_all (flag_params bits k code).
  Proof. unfold flag_params. destruct (attrs_flag bits k); ne_solve. Qed.
  Lemma ne_onoff o a b : ne_all (onoff_params o a b).
  Proof. destruct o as [[|]|]; ne_solve. Qed.

  Lemma wf_face d f : wf_params (face_params d f).
  Proof.
    split; [discriminate|]. unfold face_params.
    repeat apply ne_app; try apply ne_ocolor; try apply ne_underline; [ne_solve|].
    destruct (f_bits f =? 0); [constructor|]. repeat apply ne_app; apply ne_flag.
  Qed.

  Lemma ne_fm d m : ne_all (fm_params d m).
  Proof.
    unfold fm_params. repeat apply ne_app; try apply ne_ocolor; try apply ne_onoff.
    - destruct (fm_reset m); ne_solve.
    - destruct (fm_underline m) as [[| | | | |]|]; ne_solve.
  Qed.

  (* ---------- running the interpreter over one segment ---------- *)
  Lemma byte_val_some n : n < 256 -> byte_val (Some n) = Some n.
  Proof. intros H. unfold byte_val. replace (n <? 256) with true by lia. reflexivity. Qed.

  Lemma run_reset rest t : sgr_run ([Some 0] :: rest) t = sgr_run rest (upd t rt_reset).
  Proof. destruct t. reflexivity. Qed.

  Lemma run_rgb r0 r g b rest t :
    r < 256 -> g < 256 -> b < 256 ->
    sgr_run ([Some (role_num r0)] :: [Some 2] :: [Some r] :: [Some g] :: [Some b] :: rest) t =
    sgr_run rest (set_colour (krole r0) (CRgb r g b) t).
  Proof.
    intros Hr Hg Hb.
    assert (E : sgr_run ([Some (role_num r0)] :: [Some 2] :: [Some r] :: [Some g] :: [Some b] :: rest) t =
      match byte_val (Some r), byte_val (Some g), byte_val (Some b) with
      | Some r, Some g, Some b => sgr_run rest (set_colour (krole r0) (CRgb r g b) t)
      | _, _, _ => sgr_run rest (set_bad t)
      end).
    { destruct r0; reflexivity. }
    rewrite E, !byte_val_some by assumption. reflexivity.
  Qed.

  Lemma run_idx r0 i rest t :
    i < 256 ->
    sgr_run ([Some (role_num r0)] :: [Some 5] :: [Some i] :: rest) t =
    sgr_run rest (set_colour (krole r0) (CIdx i) t).
  Proof.
    intros Hi.
    assert (E : sgr_run ([Some (role_num r0)] :: [Some 5] :: [Some i] :: rest) t =
      match byte_val (Some i) with
      | Some i => sgr_run rest (set_colour (krole r0) (CIdx i) t)
      | None => sgr_run rest (set_bad t)
      end).
    { destruct r0; reflexivity. }
    rewrite E, !byte_val_some by assumption. reflexivity.
  Qed.

  Lemma set_colour_upd k col t : set_colour k col t = upd t (d_colour k (Some col)).
  Proof. destruct t, k; reflexivity. Qed.

  Lemma run_color d r c rest t :
    rgba_ok c = true ->
    sgr_run (color_params d r c ++ rest) t = sgr_run rest (upd t (d_colour (krole r) (colour_of pal256 gray4 d (krole r) c))).
  Proof.
    unfold rgba_ok, byte_ok. intros Hc. destruct d.
    - unfold color_params, colour_of. cbn [app]. rewrite run_rgb by lia. rewrite set_colour_upd. reflexivity.
    - unfold color_params, colour_of. cbn [app]. rewrite run_idx by apply pal256_byte. rewrite set_colour_upd. reflexivity.
    - unfold color_params, gray_code, colour_of, gray_entry. destruct t.
      destruct r; [| |reflexivity];
        (destruct (gray4 c) as [|[[p|p|]|[p|p|]|]]; reflexivity).
  Qed.

  Lemma run_ocolor d r c rest t :
    orgba_ok c = true ->
    sgr_run (ocolor_params d r c ++ rest) t = sgr_run rest (upd t (d_colour (krole r) (ocolour pal256 gray4 d (krole r) c))).
  Proof.
    destruct c as [c|]; [apply run_color|]. intros _. destruct t, r; reflexivity.
  Qed.

  Lemma run_underline u rest t :
    sgr_run (underline_params u ++ rest) t =
    sgr_run rest (upd t (d_uline (match u with UNone => None | _ => Some (uline_of_style u) end))).
  Proof. destruct t, u; reflexivity. Qed.

  Definition flag_delta (k : N) (b : bool) : rtrans :=
    let o := if b then Some true else None in
    match k with
    | 0 => d_intensity (if b then Some IBold else None)
    | 1 => d_italic o
    | 2 => d_blink o
    | 3 => d_inverse o
    | _ => d_strike o
    end.

  Lemma run_flag bits k code rest t :
    (k = 0 /\ code = 1) \/ (k = 1 /\ code = 3) \/ (k = 2 /\ code = 5) \/ (k = 3 /\ code = 7) \/ (k = 4 /\ code = 9) ->
    sgr_run (flag_params bits k code ++ rest) t = sgr_run rest (upd t (flag_delta k (attrs_flag bits k))).
  Proof.
    intros H. unfold flag_params. destruct t.
    destruct H as [[-> ->]|[[-> ->]|[[-> ->]|[[-> ->]|[-> ->]]]]];
      destruct (attrs_flag bits _); reflexivity.
  Qed.

  Lemma run_nil t : sgr_run [] t = t.
  Proof. reflexivity. Qed.

  (* ---------- Face ---------- *)
  Lemma flags_zero k : attrs_flag 0 k = false.
  Proof. reflexivity. Qed.

  Lemma colour_of_some d k c : k <> KUl -> exists col, colour_of pal256 gray4 d k c = Some col.
  Proof. intros H. destruct d, k; try congruence; eexists; reflexivity. Qed.

  Theorem sgr_face d f :
    orgba_ok (f_fg f) = true -> orgba_ok (f_bg f) = true ->
    sgr_trans (face_params d f) = face_trans pal256 gray4 d f.
  Proof.
    intros Hfg Hbg. unfold sgr_trans, face_params.
    (* the guard on the empty attribute set is an optimisation: all flags are off then *)
    assert (G : (if f_bits f =? 0 then []
                 else flag_params (f_bits f) 0 1 ++ flag_params (f_bits f) 1 3 ++ flag_params (f_bits f) 2 5
                      ++ flag_params (f_bits f) 3 7 ++ flag_params (f_bits f) 4 9)
                = flag_params (f_bits f) 0 1 ++ flag_params (f_bits f) 1 3 ++ flag_params (f_bits f) 2 5
                  ++ flag_params (f_bits f) 3 7 ++ flag_params (f_bits f) 4 9 ++ []).
    { destruct (f_bits f =? 0) eqn:E; [|rewrite app_nil_r; reflexivity].
      apply N.eqb_eq in E. rewrite E. reflexivity. }
    rewrite G. cbn [app]. rewrite run_reset.
    rewrite run_ocolor by exact Hfg. rewrite run_ocolor by exact Hbg. rewrite run_underline.
    rewrite (run_flag (f_bits f) 0 1) by tauto. rewrite (run_flag (f_bits f) 1 3) by tauto. rewrite (run_flag (f_bits f) 2 5) by tauto.
    rewrite (run_flag (f_bits f) 3 7) by tauto. rewrite (run_flag (f_bits f) 4 9) by tauto. rewrite run_nil.
    unfold face_trans.
    destruct (attrs_flag (f_bits f) 0), (attrs_flag (f_bits f) 1), (attrs_flag (f_bits f) 2),
             (attrs_flag (f_bits f) 3), (attrs_flag (f_bits f) 4), (attrs_underline (f_bits f));
      destruct (f_fg f) as [c1|], (f_bg f) as [c2|]; cbn [ocolour krole];
      try (destruct (colour_of_some d KFg c1) as [x1 ->]; [discriminate|]);
      try (destruct (colour_of_some d KBg c2) as [x2 ->]; [discriminate|]);
      reflexivity.
  Qed.

  (* ---------- FaceModify ---------- *)
  Lemma run_onoff_bold o rest t :
    sgr_run (onoff_params o 1 22 ++ rest) t =
    sgr_run rest (upd t (d_intensity (option_map (fun x : bool => if x then IBold else INormal) o))).
  Proof. destruct t, o as [[|]|]; reflexivity. Qed.
  Lemma run_onoff_italic o rest t :
    sgr_run (onoff_params o 3 23 ++ rest) t = sgr_run rest (upd t (d_italic o)).
  Proof. destruct t, o as [[|]|]; reflexivity. Qed.
  Lemma run_onoff_blink o rest t :
    sgr_run (onoff_params o 5 25 ++ rest) t = sgr_run rest (upd t (d_blink o)).
  Proof. destruct t, o as [[|]|]; reflexivity. Qed.
  Lemma run_onoff_strike o rest t :
    sgr_run (onoff_params o 9 29 ++ rest) t = sgr_run rest (upd t (d_strike o)).
  Proof. destruct t, o as [[|]|]; reflexivity. Qed.

  Lemma run_fm_underline o rest t :
    sgr_run (match o with None => [] | Some UNone => [[Some 24]] | Some u => underline_params u end ++ rest) t =
    sgr_run rest (upd t (d_uline (option_map uline_of_style o))).
  Proof. destruct t, o as [[| | | | |]|]; reflexivity. Qed.

  Lemma run_fm_reset (b : bool) rest t :
    sgr_run ((if b then [[Some 0]] else []) ++ rest) t = sgr_run rest (upd t (if b then rt_reset else rt_id)).
  Proof. destruct t, b; reflexivity. Qed.

  Theorem sgr_fm d m :
    orgba_ok (fm_fg m) = true -> orgba_ok (fm_bg m) = true -> orgba_ok (fm_ucolor m) = true ->
    sgr_trans (fm_params d m) = fm_trans pal256 gray4 d m.
  Proof.
    intros Hfg Hbg Hul. unfold sgr_trans, fm_params.
    rewrite <- (app_nil_r (onoff_params (fm_strike m) 9 29)).
    rewrite run_fm_reset. rewrite run_ocolor by exact Hfg. rewrite run_ocolor by exact Hbg.
    rewrite run_fm_underline. rewrite run_ocolor by exact Hul.
    rewrite run_onoff_bold, run_onoff_italic, run_onoff_blink, run_onoff_strike, run_nil.
    unfold fm_trans. destruct (fm_reset m); reflexivity.
  Qed.

  (* an empty chunk list exactly when the modification is the identity *)
  Lemma is_id_fields t :
    rtrans_is_id t = true ->
    t_intensity t = None /\ t_italic t = None /\ t_uline t = None /\ t_blink t = None /\
    t_inverse t = None /\ t_strike t = None /\ t_fg t = None /\ t_bg t = None /\ t_ulc t = None.
  Proof.
    destruct t as [a b c d e f g h i j k]. cbn.
    destruct a, b, c, d, e, f, g, h, i, j, k; intros H; try discriminate H; repeat split; reflexivity.
  Qed.

  Lemma fm_params_nil d m :
    orgba_ok (fm_fg m) = true -> orgba_ok (fm_bg m) = true -> orgba_ok (fm_ucolor m) = true ->
    (fm_params d m = [] <-> rtrans_is_id (fm_trans pal256 gray4 d m) = true).
  Proof.
    intros Hfg Hbg Hul. split.
    - intros E. rewrite <- (sgr_fm d m Hfg Hbg Hul), E. reflexivity.
    - intros H. apply is_id_fields in H. unfold fm_trans in H. cbn [t_intensity t_italic t_uline t_blink t_inverse t_strike t_fg t_bg t_ulc] in H.
      destruct H as (Hi & Hit & Hu & Hb & Hinv & Hs & Hf & Hg & Hc).
      unfold fm_params.
      destruct (fm_reset m); [discriminate Hinv|]. cbn [t_intensity t_italic t_uline t_blink t_strike t_fg t_bg t_ulc rt_id] in *.
      destruct (fm_bold m) as [[|]|]; try discriminate Hi.
      destruct (fm_italic m) as [[|]|]; try discriminate Hit.
      destruct (fm_underline m) as [[| | | | |]|]; try discriminate Hu.
      destruct (fm_blink m) as [[|]|]; try discriminate Hb.
      destruct (fm_strike m) as [[|]|]; try discriminate Hs.
      destruct (fm_fg m) as [c1|].
      { exfalso. destruct (colour_of_some d KFg c1) as [x E]; [discriminate|]. cbn [ocolour] in Hf. rewrite E in Hf. discriminate Hf. }
      destruct (fm_bg m) as [c2|].
      { exfalso. destruct (colour_of_some d KBg c2) as [x E]; [discriminate|]. cbn [ocolour] in Hg. rewrite E in Hg. discriminate Hg. }
      destruct (fm_ucolor m) as [c3|]; [|reflexivity].
      destruct d; try discriminate Hc. reflexivity.
  Qed.
End Sgr.
