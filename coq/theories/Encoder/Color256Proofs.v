(* C20: the reduction algorithm picks a closest palette entry, for ALL channel
   values and ANY strictly increasing tables of the right lengths; the
   regenerated tables qualify. *)
From Coq Require Import List NArith ZArith Bool Lia ZifyBool ZifyNat ZifyN Sorted.
From SNT Require Import Base.Outcome Encoder.Encode Encoder.VT Encoder.Denote Encoder.Color256 Encoder.EncodeC20 Gen.TabColor.
Import ListNotations.
Local Open Scope Z_scope.
Ltac Zify.zify_post_hook ::= Z.div_mod_to_equations.

Definition inc (t : list Z) : Prop := StronglySorted Z.lt t.

(* ---------- sortedness ---------- *)
Lemma sortedb_inc t : sortedb t = true -> inc t.
Proof.
  induction t as [|a [|b r] IH]; intros H.
  - constructor.
  - constructor; constructor.
  - cbn [sortedb] in H. apply andb_prop in H. destruct H as [Hab Hr].
    specialize (IH Hr). constructor; [exact IH|].
    inversion IH as [|? ? Hs Hf]; subst. constructor; [lia|].
    eapply Forall_impl; [|exact Hf]. intros x Hx. cbn beta in Hx. lia.
Qed.

Lemma inc_nth t : inc t -> forall i j, (i < j < length t)%nat -> nthz t i < nthz t j.
Proof.
  induction 1 as [|a r Hs IH Hf]; intros i j Hij; [cbn in Hij; lia|].
  destruct j as [|j]; [lia|]. destruct i as [|i].
  - unfold nthz. cbn [nth]. rewrite Forall_forall in Hf. apply Hf. apply nth_In. cbn in Hij. lia.
  - unfold nthz in *. cbn [nth]. apply IH. cbn in Hij. lia.
Qed.

Lemma inc_nth_le t : inc t -> forall i j, (i <= j < length t)%nat -> nthz t i <= nthz t j.
Proof.
  intros H i j Hij. destruct (Nat.eq_dec i j) as [->|Hne]; [lia|].
  pose proof (inc_nth t H i j). lia.
Qed.

Lemma inc_map3 t : inc t -> inc (map (Z.mul 3) t).
Proof.
  induction 1 as [|a r Hs IH Hf]; [constructor|]. cbn [map]. constructor; [exact IH|].
  apply Forall_forall. intros x Hx. apply in_map_iff in Hx. destruct Hx as (y & <- & Hy).
  rewrite Forall_forall in Hf. specialize (Hf y Hy). lia.
Qed.

Lemma nthz_map3 t i : nthz (map (Z.mul 3) t) i = 3 * nthz t i.
Proof.
  unfold nthz. change 0 with (3 * 0) at 1. apply map_nth.
Qed.

(* ---------- the partition point ---------- *)
Lemma count_lt_zero v t : Forall (fun x => v <= x) t -> count_lt v t = O.
Proof.
  induction 1 as [|a r Ha _ IH]; [reflexivity|]. cbn [count_lt].
  replace (a <? v) with false by lia. exact IH.
Qed.

Lemma count_lt_le v t : (count_lt v t <= length t)%nat.
Proof. induction t as [|a r IH]; cbn [count_lt length]; [lia|]. destruct (a <? v); lia. Qed.

Lemma count_lt_split v t :
  inc t ->
  (forall k, (k < count_lt v t)%nat -> nthz t k < v) /\
  (forall k, (count_lt v t <= k < length t)%nat -> v <= nthz t k).
Proof.
  induction 1 as [|a r Hs IH Hf]; [split; intros k Hk; cbn in Hk; lia|].
  cbn [count_lt]. destruct (a <? v) eqn:E.
  - destruct IH as [IH1 IH2]. split; intros k Hk.
    + destruct k as [|k]; [unfold nthz; cbn; lia|]. unfold nthz in *. cbn [nth]. apply IH1. lia.
    + destruct k as [|k]; [lia|]. unfold nthz in *. cbn [nth]. apply IH2. cbn [length] in Hk. lia.
  - assert (Hz : count_lt v r = O).
    { apply count_lt_zero. eapply Forall_impl; [|exact Hf]. intros x Hx. cbn beta in Hx. lia. }
    rewrite Hz. split; intros k Hk; [lia|].
    destruct k as [|k]; [unfold nthz; cbn; lia|]. unfold nthz. cbn [nth].
    rewrite Forall_forall in Hf. assert (a < nth k r 0); [|lia].
    apply Hf, nth_In. cbn [length] in Hk. lia.
Qed.

(* ---------- nearest: in range and a minimiser of |v - t_i| ---------- *)
Theorem nearest_min v t :
  inc t -> t <> [] ->
  (nearest v t < length t)%nat /\
  forall j, (j < length t)%nat -> Z.abs (v - nthz t (nearest v t)) <= Z.abs (v - nthz t j).
Proof.
  intros Hi Hne.
  assert (Hlen : (0 < length t)%nat) by (destruct t; [congruence | cbn; lia]).
  destruct (count_lt_split v t Hi) as [Hlo Hhi]. pose proof (count_lt_le v t) as Hle.
  unfold nearest. set (i := count_lt v t) in *.
  destruct (Nat.ltb i (length t) && (nthz t i =? v)) eqn:E1.
  { split; [lia|]. intros j Hj. replace (nthz t i) with v by lia. lia. }
  destruct (Nat.eqb i 0) eqn:E2.
  { assert (i = O) by lia. split; [lia|]. intros j Hj.
    pose proof (Hhi O ltac:(lia)). pose proof (Hhi j ltac:(lia)).
    pose proof (inc_nth_le t Hi O j ltac:(lia)). lia. }
  destruct (Nat.leb (length t) i) eqn:E3.
  { assert (i = length t) by lia. split; [lia|]. intros j Hj.
    pose proof (Hlo (length t - 1)%nat ltac:(lia)). pose proof (Hlo j ltac:(lia)).
    pose proof (inc_nth_le t Hi j (length t - 1)%nat ltac:(lia)). lia. }
  assert (Hi1 : (0 < i < length t)%nat) by lia.
  pose proof (Hlo (i - 1)%nat ltac:(lia)) as Hl. pose proof (Hhi i ltac:(lia)) as Hh.
  destruct (v - nthz t (i - 1) <? nthz t i - v) eqn:E4.
  - split; [lia|]. intros j Hj. destruct (Nat.le_gt_cases j (i - 1)) as [Hj1|Hj1].
    + pose proof (inc_nth_le t Hi j (i - 1)%nat ltac:(lia)). pose proof (Hlo j ltac:(lia)). lia.
    + pose proof (inc_nth_le t Hi i j ltac:(lia)). lia.
  - split; [lia|]. intros j Hj. destruct (Nat.le_gt_cases j (i - 1)) as [Hj1|Hj1].
    + pose proof (inc_nth_le t Hi j (i - 1)%nat ltac:(lia)). pose proof (Hlo j ltac:(lia)). lia.
    + pose proof (inc_nth_le t Hi i j ltac:(lia)). lia.
Qed.

(* the choice moves monotonically with the value *)
Theorem nearest_mono v w t :
  inc t -> t <> [] -> v <= w -> (nearest v t <= nearest w t)%nat.
Proof.
  intros Hi Hne Hvw.
  destruct (nearest_min v t Hi Hne) as [Rv Mv]. destruct (nearest_min w t Hi Hne) as [Rw Mw].
  destruct (Nat.le_gt_cases (nearest v t) (nearest w t)) as [H|H]; [exact H|exfalso].
  pose proof (inc_nth t Hi (nearest w t) (nearest v t) ltac:(lia)) as Hlt.
  specialize (Mv (nearest w t) Rw). specialize (Mw (nearest v t) Rv).
  assert (v = w) by lia. subst w. lia.
Qed.

(* ---------- squares ---------- *)
Lemma abs_le_sq a b : Z.abs a <= Z.abs b -> a * a <= b * b.
Proof. intros H. nia. Qed.

(* ---------- cube: per-channel separability ---------- *)
Lemma cube_best cube r g b i j k :
  inc cube -> cube <> [] -> (i < length cube)%nat -> (j < length cube)%nat -> (k < length cube)%nat ->
  d2 (r, g, b) (cube_vec cube (nearest r cube) (nearest g cube) (nearest b cube))
  <= d2 (r, g, b) (cube_vec cube i j k).
Proof.
  intros Hi Hne Hi' Hj Hk. unfold d2, cube_vec.
  destruct (nearest_min r cube Hi Hne) as [_ Mr]. destruct (nearest_min g cube Hi Hne) as [_ Mg].
  destruct (nearest_min b cube Hi Hne) as [_ Mb].
  pose proof (abs_le_sq _ _ (Mr i Hi')). pose proof (abs_le_sq _ _ (Mg j Hj)). pose proof (abs_le_sq _ _ (Mb k Hk)).
  lia.
Qed.

(* ---------- greys: distance to (t,t,t) is governed by the distance of t to the mean ---------- *)
Lemma grey_identity r g b t :
  3 * d2 (r, g, b) (t, t, t) = (r + g + b - 3 * t) * (r + g + b - 3 * t) + (3 * (r * r + g * g + b * b) - (r + g + b) * (r + g + b)).
Proof. unfold d2. ring. Qed.

Lemma grey_best greys r g b j :
  inc greys -> greys <> [] -> (j < length greys)%nat ->
  d2 (r, g, b) (grey_vec greys (nearest (r + g + b) (map (Z.mul 3) greys)))
  <= d2 (r, g, b) (grey_vec greys j).
Proof.
  intros Hi Hne Hj. unfold grey_vec.
  assert (Hne3 : map (Z.mul 3) greys <> []) by (destruct greys; [congruence | discriminate]).
  destruct (nearest_min (r + g + b) _ (inc_map3 _ Hi) Hne3) as [_ M].
  specialize (M j). rewrite map_length in M. specialize (M Hj). rewrite !nthz_map3 in M.
  apply abs_le_sq in M.
  pose proof (grey_identity r g b (nthz greys (nearest (r + g + b) (map (Z.mul 3) greys)))).
  pose proof (grey_identity r g b (nthz greys j)). lia.
Qed.

(* ---------- palette indices ---------- *)
Lemma entry_cube cube greys (a b c : nat) :
  (a < 6)%nat -> (b < 6)%nat -> (c < 6)%nat ->
  entry cube greys (16 + 36 * N.of_nat a + 6 * N.of_nat b + N.of_nat c)%N = cube_vec cube a b c.
Proof.
  intros Ha Hb Hc. unfold entry.
  replace (16 + 36 * N.of_nat a + 6 * N.of_nat b + N.of_nat c <? 232)%N with true by lia.
  replace (N.to_nat (16 + 36 * N.of_nat a + 6 * N.of_nat b + N.of_nat c - 16)) with (36 * a + 6 * b + c)%nat by lia.
  f_equal; lia.
Qed.

Lemma entry_grey cube greys (k : nat) :
  (k < 24)%nat -> entry cube greys (232 + N.of_nat k)%N = grey_vec greys k.
Proof.
  intros Hk. unfold entry. replace (232 + N.of_nat k <? 232)%N with false by lia.
  f_equal. lia.
Qed.

Lemma entry_cases cube greys (m : N) :
  (16 <= m < 256)%N ->
  (exists a b c, (a < 6)%nat /\ (b < 6)%nat /\ (c < 6)%nat /\ entry cube greys m = cube_vec cube a b c)
  \/ (exists k, (k < 24)%nat /\ entry cube greys m = grey_vec greys k).
Proof.
  intros Hm. unfold entry. destruct (m <? 232)%N eqn:E.
  - left. set (n := N.to_nat (m - 16)). assert (n < 216)%nat by lia.
    exists (n / 36)%nat, ((n / 6) mod 6)%nat, (n mod 6)%nat. repeat split; lia.
  - right. exists (N.to_nat (m - 232)). split; [lia | reflexivity].
Qed.

(* ---------- the 256-colour choice is a closest entry ---------- *)
Theorem pal_algo_optimal cube greys v :
  inc cube -> length cube = 6%nat -> inc greys -> length greys = 24%nat ->
  (16 <= pal_algo cube greys v < 256)%N /\
  forall m, (16 <= m < 256)%N ->
    d2 v (entry cube greys (pal_algo cube greys v)) <= d2 v (entry cube greys m).
Proof.
  intros Hc Lc Hg Lg. destruct v as [[r g] b].
  assert (Nc : cube <> []) by (destruct cube; [discriminate | congruence]).
  assert (Ng : greys <> []) by (destruct greys; [discriminate | congruence]).
  assert (Ng3 : map (Z.mul 3) greys <> []) by (destruct greys; [congruence | discriminate]).
  destruct (nearest_min r cube Hc Nc) as [Rr _]. destruct (nearest_min g cube Hc Nc) as [Rg _].
  destruct (nearest_min b cube Hc Nc) as [Rb _].
  destruct (nearest_min (r + g + b) _ (inc_map3 _ Hg) Ng3) as [Rs _]. rewrite map_length in Rs.
  rewrite Lc in *. rewrite Lg in *.
  unfold pal_algo.
  set (cr := nearest r cube) in *. set (cg := nearest g cube) in *. set (cb := nearest b cube) in *.
  set (gi := nearest (r + g + b) (map (Z.mul 3) greys)) in *.
  assert (Bc : forall a b' c, (a < 6)%nat -> (b' < 6)%nat -> (c < 6)%nat ->
               d2 (r, g, b) (cube_vec cube cr cg cb) <= d2 (r, g, b) (cube_vec cube a b' c)).
  { intros a b' c Ha Hb Hc'. apply cube_best; try assumption; rewrite Lc; assumption. }
  assert (Bg : forall k, (k < 24)%nat -> d2 (r, g, b) (grey_vec greys gi) <= d2 (r, g, b) (grey_vec greys k)).
  { intros k Hk. apply grey_best; try assumption. rewrite Lg. exact Hk. }
  destruct (d2 (r, g, b) (grey_vec greys gi) <? d2 (r, g, b) (cube_vec cube cr cg cb)) eqn:E.
  - split; [lia|]. intros m Hm. rewrite entry_grey by exact Rs.
    destruct (entry_cases cube greys m Hm) as [(a & b' & c & Ha & Hb & Hc' & ->)|(k & Hk & ->)].
    + specialize (Bc a b' c Ha Hb Hc'). lia.
    + apply Bg, Hk.
  - split; [lia|]. intros m Hm. rewrite entry_cube by assumption.
    destruct (entry_cases cube greys m Hm) as [(a & b' & c & Ha & Hb & Hc' & ->)|(k & Hk & ->)].
    + apply Bc; assumption.
    + specialize (Bg k Hk). lia.
Qed.

(* ---------- the regenerated tables ---------- *)
Lemma tables_ok_true : tables_ok = true.
Proof. vm_compute. reflexivity. Qed.

Lemma tables_facts :
  inc cube_z /\ length cube_z = 6%nat /\ inc greys_z /\ length greys_z = 24%nat /\
  inc gray_levels_z /\ length gray_levels_z = 4%nat /\
  all2 close cube_z xterm_cube_levels = true /\ all2 close greys_z xterm_grey_levels = true /\
  inc srgb_z /\ length srgb_z = 256%nat.
Proof.
  pose proof tables_ok_true as H. unfold tables_ok in H.
  repeat (apply andb_prop in H; let H2 := fresh "H" in destruct H as [H H2]).
  repeat split; try (apply sortedb_inc; assumption); try (apply Nat.eqb_eq; assumption); assumption.
Qed.

(* C20, 256 colours: for every colour the selected entry is a closest one among all 240 *)
Theorem pal256_exact_optimal (c : rgba) :
  (16 <= pal256_exact c < 256)%N /\
  forall m, (16 <= m < 256)%N ->
    d2 (lin_vec c) (entry cube_z greys_z (pal256_exact c)) <= d2 (lin_vec c) (entry cube_z greys_z m).
Proof.
  destruct tables_facts as (Hc & Lc & Hg & Lg & _).
  apply pal_algo_optimal; assumption.
Qed.

(* ---------- grey depth ---------- *)
Theorem gray4_exact_nearest (c : rgba) :
  (gray4_exact c < 4)%N /\
  forall j, (j < 4)%nat ->
    Z.abs (luma_z c - nthz gray_levels_z (N.to_nat (gray4_exact c))) <= Z.abs (luma_z c - nthz gray_levels_z j).
Proof.
  destruct tables_facts as (_ & _ & _ & _ & Hl & Ll & _).
  assert (Ne : gray_levels_z <> []) by (intros E; rewrite E in Ll; discriminate).
  destruct (nearest_min (luma_z c) gray_levels_z Hl Ne) as [R M]. unfold gray4_exact. rewrite Nat2N.id.
  rewrite Ll in *. split; [lia | exact M].
Qed.

Theorem gray4_exact_monotone (c1 c2 : rgba) :
  luma_z c1 <= luma_z c2 -> (gray4_exact c1 <= gray4_exact c2)%N.
Proof.
  destruct tables_facts as (_ & _ & _ & _ & Hl & Ll & _).
  assert (Ne : gray_levels_z <> []) by (intros E; rewrite E in Ll; discriminate).
  intros H. pose proof (nearest_mono _ _ gray_levels_z Hl Ne H). unfold gray4_exact. lia.
Qed.

(* brute force minimum really is the minimum over the 240 entries *)
Lemma fold_min_le (f : N -> Z) l : forall init,
  fold_left (fun m n => Z.min m (f n)) l init <= init /\
  forall n, In n l -> fold_left (fun m n => Z.min m (f n)) l init <= f n.
Proof.
  induction l as [|a l IH]; intros init; cbn [fold_left]; [split; [lia | intros n []]|].
  destruct (IH (Z.min init (f a))) as [H1 H2]. split; [lia|].
  intros n [<-|Hn]; [lia | apply H2, Hn].
Qed.

Lemma palette_indices_in m : (16 <= m < 256)%N -> In m palette_indices.
Proof.
  intros H. unfold palette_indices. apply in_map_iff. exists (N.to_nat m). split; [lia|].
  apply in_seq. lia.
Qed.

Theorem best_d2_spec cube greys v m :
  (16 <= m < 256)%N -> best_d2 cube greys v <= d2 v (entry cube greys m).
Proof.
  intros H. unfold best_d2.
  apply (fold_min_le (fun n => d2 v (entry cube greys n))), palette_indices_in, H.
Qed.

(* ---------- the tolerance predicate means what it says ---------- *)
Theorem sqrt_le_plus_squares a b e :
  0 <= a -> 0 <= b -> 0 <= e -> (sqrt_le_plus (a * a) (b * b) e = true <-> a <= b + e).
Proof.
  intros Ha Hb He. unfold sqrt_le_plus. split.
  - intros H. apply orb_prop in H. destruct H as [H|H].
    + apply Z.leb_le in H. nia.
    + apply Z.leb_le in H. destruct (Z.le_gt_cases a (b + e)) as [Hle|Hgt]; [exact Hle|exfalso].
      assert (Hl : 2 * e * b < a * a - b * b - e * e) by nia.
      assert (Hp : 0 <= 2 * e * b) by nia.
      assert ((2 * e * b) * (2 * e * b) < (a * a - b * b - e * e) * (a * a - b * b - e * e)) by nia.
      nia.
  - intros H. apply orb_true_iff. destruct (Z.leb_spec (a * a - b * b - e * e) 0) as [H0|H0]; [left; reflexivity|right].
    apply Z.leb_le. assert (Hu : a * a - b * b - e * e <= 2 * e * b) by nia.
    assert ((a * a - b * b - e * e) * (a * a - b * b - e * e) <= (2 * e * b) * (2 * e * b)) by nia.
    nia.
Qed.

Lemma sqrt_le_plus_le xx yy e : xx <= yy -> sqrt_le_plus xx yy e = true.
Proof. intros H. unfold sqrt_le_plus. apply orb_true_iff. left. apply Z.leb_le. nia. Qed.

(* ---------- EPSILON statement: the true palette positions ---------- *)
Lemma entries_close_true : entries_close = true.
Proof. vm_compute. reflexivity. Qed.

Lemma lin_in_unit n : 0 <= lin n <= color_den.
Proof.
  pose proof tables_ok_true as H. unfold tables_ok in H.
  repeat (apply andb_prop in H; let H2 := fresh "H" in destruct H as [H H2]).
  match goal with Hr : forallb _ (srgb_z ++ _) = true |- _ => rename Hr into Hrange end.
  rewrite forallb_app in Hrange. apply andb_prop in Hrange. destruct Hrange as [Hs _].
  unfold lin. destruct (nth_in_or_default (N.to_nat n) srgb_z 0) as [Hin| ->].
  - rewrite forallb_forall in Hs. apply Hs in Hin. lia.
  - unfold color_den. lia.
Qed.

Lemma sq_perturb v x t d e :
  0 <= v <= d -> 0 <= x <= d -> 0 <= t <= d -> Z.abs (t - x) <= e ->
  Z.abs ((v - x) * (v - x) - (v - t) * (v - t)) <= 2 * e * d.
Proof. intros Hv Hx Ht He. nia. Qed.

Lemma d2_perturb v a b :
  vec_in_unit v = true -> vec_in_unit a = true -> vec_in_unit b = true -> vec_close a b = true ->
  Z.abs (d2 v a - d2 v b) <= 6 * tol256 * color_den.
Proof.
  destruct v as [[v1 v2] v3], a as [[a1 a2] a3], b as [[b1 b2] b3]. unfold vec_in_unit, vec_close, d2.
  intros Hv Ha Hb Hc.
  pose proof (sq_perturb v1 b1 a1 color_den tol256). pose proof (sq_perturb v2 b2 a2 color_den tol256).
  pose proof (sq_perturb v3 b3 a3 color_den tol256). lia.
Qed.

(* For every opaque 8-bit colour the entry chosen by the exact algorithm over the TYPED
   tables, measured at the TRUE palette positions (the library's own linearisation of the
   xterm levels), is a closest entry up to 12 * eps in squared linear-light distance. *)
Theorem pal256_true_palette_upto_eps (c : rgba) :
  forall m, (16 <= m < 256)%N ->
    d2 (lin_vec c) (entry xcube_z xgreys_z (pal256_exact c))
    <= d2 (lin_vec c) (entry xcube_z xgreys_z m) + eps_sq_bound.
Proof.
  intros m Hm. destruct (pal256_exact_optimal c) as [Hr Hopt]. specialize (Hopt m Hm).
  pose proof entries_close_true as Hc. unfold entries_close in Hc. rewrite forallb_forall in Hc.
  pose proof (Hc _ (palette_indices_in _ Hr)) as H1. pose proof (Hc _ (palette_indices_in _ Hm)) as H2.
  apply andb_prop in H1. destruct H1 as [H1 U1x]. apply andb_prop in H1. destruct H1 as [C1 U1].
  apply andb_prop in H2. destruct H2 as [H2 U2x]. apply andb_prop in H2. destruct H2 as [C2 U2].
  assert (Uv : vec_in_unit (lin_vec c) = true).
  { unfold lin_vec, vec_in_unit. pose proof (lin_in_unit (cr c)). pose proof (lin_in_unit (cg c)).
    pose proof (lin_in_unit (cb c)). lia. }
  pose proof (d2_perturb _ _ _ Uv U1 U1x C1). pose proof (d2_perturb _ _ _ Uv U2 U2x C2).
  unfold eps_sq_bound. lia.
Qed.

(* ---------- no panic on the reduced-depth path ---------- *)
Lemma nth_chk_ok site t i : (i < length t)%nat -> nth_chk site t i = Ok (nthz t i).
Proof.
  intros H. unfold nth_chk, nthz. destruct (nth_error t i) eqn:E.
  - f_equal. symmetry. apply nth_error_nth. exact E.
  - apply nth_error_None in E. lia.
Qed.

Theorem pal_algo_chk_ok cube greys v :
  inc cube -> length cube = 6%nat -> inc greys -> length greys = 24%nat ->
  pal_algo_chk cube greys v = Ok (pal_algo cube greys v).
Proof.
  intros Hc Lc Hg Lg. destruct v as [[r g] b].
  assert (Nc : cube <> []) by (destruct cube; [discriminate | congruence]).
  assert (Ng3 : map (Z.mul 3) greys <> []) by (destruct greys; [discriminate | discriminate]).
  destruct (nearest_min r cube Hc Nc) as [Rr _]. destruct (nearest_min g cube Hc Nc) as [Rg _].
  destruct (nearest_min b cube Hc Nc) as [Rb _].
  destruct (nearest_min (r + g + b) _ (inc_map3 _ Hg) Ng3) as [Rs _]. rewrite map_length in Rs.
  unfold pal_algo_chk, pal_algo. rewrite !nth_chk_ok by assumption. cbn [bind].
  unfold grey_vec, cube_vec. destruct (_ <? _); reflexivity.
Qed.

Theorem pal256_chk_ok c : pal256_chk c = Ok (pal256_exact c).
Proof.
  destruct tables_facts as (Hc & Lc & Hg & Lg & _). apply pal_algo_chk_ok; assumption.
Qed.

Lemma all_ok_pal l : all_ok (map pal256_chk l) = Ok tt.
Proof. induction l as [|c l IH]; [reflexivity|]. cbn [map all_ok]. rewrite pal256_chk_ok. exact IH. Qed.

(* ---------- the tabulated brute force of the correspondence check ---------- *)
Lemma palette_entries_eq : palette_entries = map (entry xcube_z xgreys_z) palette_indices.
Proof. vm_compute. reflexivity. Qed.

Lemma fold_left_map_min (f : N -> vec) v l : forall init,
  fold_left (fun m e => Z.min m (d2 v e)) (map f l) init = fold_left (fun m n => Z.min m (d2 v (f n))) l init.
Proof. induction l as [|a l IH]; intros init; [reflexivity|]. cbn [map fold_left]. apply IH. Qed.

Theorem best_d2_tab_eq v : best_d2_tab v = best_d2 xcube_z xgreys_z v.
Proof. unfold best_d2_tab, best_d2. rewrite palette_entries_eq. apply fold_left_map_min. Qed.

Theorem best_d2_tab_spec v m :
  (16 <= m < 256)%N -> best_d2_tab v <= d2 v (entry xcube_z xgreys_z m).
Proof. intros H. rewrite best_d2_tab_eq. apply best_d2_spec, H. Qed.

(* ---------- statements restricted to what the property is about: opaque colours ---------- *)
Theorem pal256_exact_optimal_opaque (c : rgba) :
  rgba_ok c = true -> ca c = 255%N ->
  (16 <= pal256_exact c < 256)%N /\
  forall m, (16 <= m < 256)%N ->
    d2 (lin_vec c) (entry cube_z greys_z (pal256_exact c)) <= d2 (lin_vec c) (entry cube_z greys_z m).
Proof. intros _ _. apply pal256_exact_optimal. Qed.

Theorem pal256_true_palette_upto_eps_opaque (c : rgba) :
  rgba_ok c = true -> ca c = 255%N ->
  forall m, (16 <= m < 256)%N ->
    d2 (lin_vec c) (entry xcube_z xgreys_z (pal256_exact c))
    <= d2 (lin_vec c) (entry xcube_z xgreys_z m) + eps_sq_bound.
Proof. intros _ _. apply pal256_true_palette_upto_eps. Qed.

(* ---------- the tolerance predicate on arbitrary (non-square) arguments ---------- *)
(* sqrt_le_plus xx yy e stands for  sqrt xx <= sqrt yy + e.  Without real numbers: it is implied by
   that inequality for any integer upper bound a of sqrt xx and lower bound b of sqrt yy, and implies
   it for any integer lower bound a of sqrt xx and upper bound b of sqrt yy (the integers here are
   multiples of 1/color_den = 7.5e-15, so the two readings differ by nothing observable). *)
Theorem sqrt_le_plus_sound xx yy e a b :
  0 <= a -> 0 <= b -> 0 <= e -> a * a <= xx -> yy <= b * b ->
  sqrt_le_plus xx yy e = true -> a <= b + e.
Proof.
  intros Ha Hb He Hx Hy H. unfold sqrt_le_plus in H. apply orb_prop in H.
  destruct (Z.le_gt_cases a (b + e)) as [Hle|Hgt]; [exact Hle|exfalso].
  assert (Hl : 2 * e * b < xx - yy - e * e) by nia.
  destruct H as [H|H]; apply Z.leb_le in H; [nia|].
  assert (0 <= 2 * e * b) by nia.
  assert ((2 * e * b) * (2 * e * b) < (xx - yy - e * e) * (xx - yy - e * e)) by nia.
  assert (4 * e * e * yy <= (2 * e * b) * (2 * e * b)) by nia.
  nia.
Qed.

Theorem sqrt_le_plus_complete xx yy e a b :
  0 <= a -> 0 <= b -> 0 <= e -> 0 <= yy -> xx <= a * a -> b * b <= yy -> a <= b + e ->
  sqrt_le_plus xx yy e = true.
Proof.
  intros Ha Hb He Hyy Hx Hy H. unfold sqrt_le_plus. apply orb_true_iff.
  destruct (Z.leb_spec (xx - yy - e * e) 0) as [H0|H0]; [left; reflexivity|right].
  apply Z.leb_le.
  assert (Hu : xx - yy - e * e <= 2 * e * b) by nia.
  assert ((xx - yy - e * e) * (xx - yy - e * e) <= (2 * e * b) * (2 * e * b)) by nia.
  assert ((2 * e * b) * (2 * e * b) <= 4 * e * e * yy) by nia.
  nia.
Qed.

(* d2 is a sum of squares: non-negative *)
Lemma d2_nonneg v e : 0 <= d2 v e.
Proof.
  destruct v as [[a b] c], e as [[x y] z]. unfold d2.
  pose proof (Z.square_nonneg (a - x)). pose proof (Z.square_nonneg (b - y)). pose proof (Z.square_nonneg (c - z)). lia.
Qed.
