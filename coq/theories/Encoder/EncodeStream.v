(* One TTYEncoder object encoding a list of commands into one output.

   The state a TTYEncoder carries between calls (src/encoder.rs:26-29):
     caps    : TerminalCaps   immutable
     chunks  : Chunks         scratch buffer of the two SGR arms: `clear()`ed at the start of
                              Face / FaceModify, emptied again by `drain`
   and nothing else: no memo of the last face, mode, keyboard level or cursor.  The
   alternate-screen keyboard bracketing is a function of the command and caps only.
   `encode_st` threads exactly this state (the chunk list left in the buffer); the
   theorem EncodeMeaning.encode_st_stateless shows the output never depends on it, so
   encoding through one encoder is the concatenation of the per-command encodings.  A
   hidden memo added to the real encoder (skip a command "already sent") contradicts
   this model: the correspondence run then sees different bytes for repeated commands. *)
From Coq Require Import List NArith.
From SNT Require Import Base.Outcome Encoder.Decimal Encoder.Encode.
Import ListNotations.
Local Open Scope N_scope.

Section Stream.
  Variable pal256 : rgba -> N.
  Variable gray4 : rgba -> N.

  Definition enc_state : Type := list (list N).       (* chunks left in the scratch buffer *)
  Definition enc_new : enc_state := [].
  Definition chunks_clear (s : enc_state) : enc_state := [].

  Definition encode_st (cp : caps) (s : enc_state) (c : cmd) : outcome (list N * enc_state) :=
    match c with
    | Face f =>
        (* self.chunks.clear(); push ..; drain(b";") which clears again *)
        let chunks := chunks_clear s ++ face_chunks pal256 gray4 (cp_depth cp) f in
        Ok (sgr_bytes chunks, [])
    | FaceModify m =>
        let chunks := chunks_clear s ++ fm_chunks pal256 gray4 (cp_depth cp) m in
        match chunks with
        | [] => Ok ([], [])
        | _ => Ok (sgr_bytes chunks, [])
        end
    | _ =>
        (* no other arm touches the encoder *)
        let* b := encode pal256 gray4 cp c in Ok (b, s)
    end.

  Fixpoint encode_stream_st (cp : caps) (s : enc_state) (cs : list cmd) : outcome (list N * enc_state) :=
    match cs with
    | [] => Ok ([], s)
    | c :: r =>
        let* x := encode_st cp s c in
        let* y := encode_stream_st cp (snd x) r in
        Ok (fst x ++ fst y, snd y)
    end.

  (* the concatenation of self-contained per-command encodings *)
  Fixpoint encode_stream (cp : caps) (cs : list cmd) : outcome (list N) :=
    match cs with
    | [] => Ok []
    | c :: r =>
        let* b := encode pal256 gray4 cp c in
        let* br := encode_stream cp r in
        Ok (b ++ br)
    end.

  (* ---------- a writer that fails ---------- *)
  (* Writer oracle: `None` = healthy; `Some k` = accepts k more bytes, then every write returns an
     io::Error.  `write_all` / `write!` deliver the bytes in order, so what reaches the output is a
     prefix of what was to be written, and `?` returns at the first error. *)
  Definition budget : Type := option nat.
  Definition accepts (b : budget) (n : nat) : bool := match b with None => true | Some k => Nat.leb n k end.
  Definition spend (b : budget) (n : nat) : budget := match b with None => None | Some k => Some (k - n)%nat end.
  Definition delivered (b : budget) (bs : list N) : list N := match b with None => bs | Some k => firstn k bs end.

  (* one call of TTYEncoder::encode on a possibly failing writer:
       (bytes that reached the output, Ok(()) or Err, encoder state afterwards, writer afterwards).
     The SGR arms: `self.chunks.clear()`; pushes; write "ESC["; drain (writes the chunks, THEN clears --
     only if every write succeeded); write "m".  An error before the drain has completed leaves the
     chunks of this command in the scratch buffer. *)
  Definition sgr_w (s : enc_state) (chunks_pushed : list (list N)) (b : budget) : list N * bool * enc_state * budget :=
    let chunks := chunks_clear s ++ chunks_pushed in
    let all := sgr_bytes chunks in
    let upto_drain := length (CSI ++ join 59 chunks) in
    (delivered b all, accepts b (length all),
     if accepts b upto_drain then [] else chunks,
     spend b (length all)).

  Definition encode_stw (cp : caps) (s : enc_state) (c : cmd) (b : budget) : outcome (list N * bool * enc_state * budget) :=
    match c with
    | Face f => Ok (sgr_w s (face_chunks pal256 gray4 (cp_depth cp) f) b)
    | FaceModify m =>
        match chunks_clear s ++ fm_chunks pal256 gray4 (cp_depth cp) m with
        | [] => Ok ([], true, [], b)                     (* nothing is written: cannot fail *)
        | _ => Ok (sgr_w s (fm_chunks pal256 gray4 (cp_depth cp) m) b)
        end
    | _ =>
        (* the other arms only write; they touch no encoder state *)
        let* bs := encode pal256 gray4 cp c in
        Ok (delivered b bs, accepts b (length bs), s, spend b (length bs))
    end.
End Stream.
