(* a stream of commands, encoded one after the other by the same encoder into the same output *)
From Coq Require Import List NArith.
From SNT Require Import Base.Outcome Encoder.Encode.
Import ListNotations.
Local Open Scope N_scope.

Section Stream.
  Variable pal256 : rgba -> N.
  Variable gray4 : rgba -> N.
  Fixpoint encode_stream (cp : caps) (cs : list cmd) : outcome (list N) :=
    match cs with
    | [] => Ok []
    | c :: r =>
        let* b := encode pal256 gray4 cp c in
        let* br := encode_stream cp r in
        Ok (b ++ br)
    end.
End Stream.
