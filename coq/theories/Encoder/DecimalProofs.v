(* Round trips of Decimal.v: parse (print n) = n, unhex (hex2 ..) = id,
   split (join ..) = id. *)
From Coq Require Import List NArith ZArith Bool Lia ZifyBool ZifyN.
From SNT Require Import Encoder.Decimal.
Import ListNotations.
Local Open Scope N_scope.
Arguments N.add : simpl never. Arguments N.sub : simpl never. Arguments N.mul : simpl never.
Arguments N.div : simpl never. Arguments N.modulo : simpl never.
Arguments N.eqb : simpl never. Arguments N.ltb : simpl never. Arguments N.leb : simpl never.
Ltac Zify.zify_post_hook ::= Z.div_mod_to_equations.

(* ---------- decimal ---------- *)
Definition digits (ds : list N) : Prop := Forall (fun d => is_digit d = true) ds.

Lemma is_digit_range d : is_digit d = true <-> 48 <= d <= 57.
Proof. unfold is_digit. lia. Qed.

Lemma print_aux_S f n acc :
  print_aux (S f) n acc =
  if n / 10 =? 0 then (48 + n mod 10) :: acc else print_aux f (n / 10) ((48 + n mod 10) :: acc).
Proof. reflexivity. Qed.

(* the shape of print_aux: some digit string in front of acc, worth n *)
Lemma print_aux_spec : forall f n acc,
  n < 2 ^ N.of_nat f ->
  exists ds, print_aux (S f) n acc = ds ++ acc /\ ds <> [] /\ digits ds /\
             forall a, dec_val ds a = a * 10 ^ N.of_nat (length ds) + n.
Proof.
  induction f as [|f IH]; intros n acc Hn.
  - assert (n = 0) by (cbn in Hn; lia). subst n.
    exists [48]. split; [|split; [|split]].
    + reflexivity.
    + discriminate.
    + constructor; [reflexivity | constructor].
    + intros a. cbn. unfold dec_step. lia.
  - rewrite print_aux_S. destruct (n / 10 =? 0) eqn:Hq.
    + exists [48 + n mod 10]. split; [|split; [|split]].
      * reflexivity.
      * discriminate.
      * constructor; [apply is_digit_range; lia | constructor].
      * intros a. cbn. unfold dec_step. lia.
    + assert (Hlt : n / 10 < 2 ^ N.of_nat f).
      { rewrite Nat2N.inj_succ, N.pow_succ_r' in Hn. lia. }
      destruct (IH (n / 10) ((48 + n mod 10) :: acc) Hlt) as (ds & E & Hne & Hd & Hv).
      exists (ds ++ [48 + n mod 10]). split; [|split; [|split]].
      * rewrite E, <- app_assoc. reflexivity.
      * destruct ds; discriminate.
      * apply Forall_app. split; [exact Hd|]. constructor; [apply is_digit_range; lia | constructor].
      * intros a. unfold dec_val in *. rewrite fold_left_app, Hv. cbn [fold_left]. unfold dec_step.
        rewrite app_length. cbn [length]. rewrite Nat.add_1_r, Nat2N.inj_succ, N.pow_succ_r'. lia.
Qed.

Lemma print_spec n :
  print n <> [] /\ digits (print n) /\ dec_val (print n) 0 = n.
Proof.
  unfold print.
  destruct (print_aux_spec (N.to_nat (N.size n)) n []) as (ds & E & Hne & Hd & Hv).
  - rewrite N2Nat.id. apply N.size_gt.
  - rewrite E, app_nil_r. repeat split; auto. rewrite Hv. lia.
Qed.

Lemma print_nonempty n : print n <> [].
Proof. apply print_spec. Qed.
Lemma print_digits n : digits (print n).
Proof. apply print_spec. Qed.

Lemma digits_forallb ds : digits ds -> forallb is_digit ds = true.
Proof. intros H. apply forallb_forall. intros x Hx. unfold digits in H. rewrite Forall_forall in H. auto. Qed.

Theorem parse_print n : parse_dec (print n) = Some n.
Proof.
  destruct (print_spec n) as (Hne & Hd & Hv). unfold parse_dec.
  destruct (print n) eqn:E; [congruence|]. rewrite (digits_forallb _ Hd), Hv. reflexivity.
Qed.

Lemma digits_not_in ds s : digits ds -> (s < 48 \/ 57 < s) -> ~ In s ds.
Proof.
  intros H Hs Hin. unfold digits in H. rewrite Forall_forall in H. apply H in Hin. apply is_digit_range in Hin. lia.
Qed.

Lemma print_no_sep n s : (s < 48 \/ 57 < s) -> ~ In s (print n).
Proof. apply digits_not_in, print_digits. Qed.

(* ---------- hexadecimal ---------- *)
Lemma hex_val_digit d : d < 16 -> hex_val (hex_digit d) = Some d.
Proof.
  intros H. unfold hex_val, hex_digit. destruct (d <? 10) eqn:E.
  - replace ((48 <=? 48 + d) && (48 + d <=? 57)) with true by lia. f_equal. lia.
  - replace ((48 <=? 87 + d) && (87 + d <=? 57)) with false by lia.
    replace ((97 <=? 87 + d) && (87 + d <=? 102)) with true by lia. f_equal. lia.
Qed.

Lemma hex_digit_range d : d < 16 -> 48 <= hex_digit d <= 57 \/ 97 <= hex_digit d <= 102.
Proof. intros H. unfold hex_digit. destruct (d <? 10) eqn:E; lia. Qed.

Theorem unhex_hex2 bs :
  Forall (fun b => b < 256) bs -> unhex (flat_map hex2 bs) = Some bs.
Proof.
  induction 1 as [|b bs Hb _ IH]; [reflexivity|].
  cbn [flat_map hex2 app unhex]. rewrite !hex_val_digit, IH by lia. f_equal. f_equal. lia.
Qed.

Lemma hex2_no_sep bs s :
  Forall (fun b => b < 256) bs -> (s < 48 \/ 57 < s < 97 \/ 102 < s) -> ~ In s (flat_map hex2 bs).
Proof.
  induction 1 as [|b bs Hb _ IH]; intros Hs; [intros []|].
  cbn [flat_map hex2 app]. intros [E|[E|Hin]].
  - pose proof (hex_digit_range (b / 16)). lia.
  - pose proof (hex_digit_range (b mod 16)). lia.
  - exact (IH Hs Hin).
Qed.

(* ---------- split / join ---------- *)
Lemma split_go_nosep sep x cur rest :
  ~ In sep x ->
  split_go sep (x ++ rest) cur = split_go sep rest (rev x ++ cur).
Proof.
  revert cur. induction x as [|b x IH]; intros cur Hx; [reflexivity|].
  cbn [app split_go]. destruct (b =? sep) eqn:E.
  - exfalso. apply Hx. left. lia.
  - rewrite IH by (intros H; apply Hx; right; exact H).
    cbn [rev]. rewrite <- app_assoc. reflexivity.
Qed.

Theorem split_join sep xs :
  xs <> [] -> Forall (fun x => ~ In sep x) xs -> split sep (join sep xs) = xs.
Proof.
  unfold split. intros Hne H. induction H as [|x xs Hx Hxs IH]; [congruence|].
  destruct xs as [|y ys].
  - cbn [join]. pose proof (split_go_nosep sep x [] [] Hx) as E. rewrite app_nil_r in E. rewrite E.
    cbn [split_go]. rewrite app_nil_r, rev_involutive. reflexivity.
  - change (join sep (x :: y :: ys)) with (x ++ sep :: join sep (y :: ys)).
    rewrite split_go_nosep by exact Hx. cbn [split_go]. rewrite N.eqb_refl.
    rewrite app_nil_r, rev_involutive. f_equal. apply IH. discriminate.
Qed.

Lemma split_single sep x : ~ In sep x -> split sep x = [x].
Proof. intros H. apply (split_join sep [x]); [discriminate | constructor; auto]. Qed.

Lemma join_not_in sep s xs :
  s <> sep -> Forall (fun x => ~ In s x) xs -> ~ In s (join sep xs).
Proof.
  intros Hs H. induction H as [|x xs Hx Hxs IH]; [intros []|].
  destruct xs as [|y ys]; [exact Hx|].
  change (join sep (x :: y :: ys)) with (x ++ sep :: join sep (y :: ys)).
  intros Hin. apply in_app_or in Hin. destruct Hin as [Hin|[E|Hin]]; [auto | congruence | auto].
Qed.
