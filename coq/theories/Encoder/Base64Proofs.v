(* Proofs about the base64 model: RFC 4648 equality for the encoder under any
   write partition, and refinement of the streaming decoder (any read
   schedule, any destination sizes) to the pure group decoder. *)
From Coq Require Import List NArith ZArith Lia Bool Arith ZifyBool ZifyNat ZifyN.
From SNT Require Import Base.Sweep Base.Outcome Gen.TabBase64 Encoder.Base64.
Import ListNotations.
Local Open Scope N_scope.

(* ------------------------------------------------------------------ *)
(* A. facts about the regenerated tables (re-checked on every change) *)

Lemma enc_tbl_length : length base64_encode_tbl = 64%nat.
Proof. vm_compute. reflexivity. Qed.

Lemma dec_tbl_length : length base64_decode_tbl = 256%nat.
Proof. vm_compute. reflexivity. Qed.

Lemma enc_tbl_is_rfc : forall i, i < 64 -> tbl_enc i = rfc_char i.
Proof.
  intros i Hi.
  apply N.eqb_eq.
  apply (sweep1_sound 64 (fun i => tbl_enc i =? rfc_char i)); [vm_compute; reflexivity | exact Hi].
Qed.

Lemma dec_tbl_inverts_rfc : forall i, i < 64 -> tbl_dec (rfc_char i) = i.
Proof.
  intros i Hi. apply N.eqb_eq.
  apply (sweep1_sound 64 (fun i => tbl_dec (rfc_char i) =? i)); [vm_compute; reflexivity | exact Hi].
Qed.

Lemma rfc_char_not_pad : forall i, i < 64 -> (rfc_char i =? PAD) = false.
Proof.
  intros i Hi.
  apply (sweep1_sound 64 (fun i => negb (rfc_char i =? PAD))) in Hi; [|vm_compute; reflexivity].
  now apply negb_true_iff in Hi.
Qed.

Lemma rfc_char_byte : forall i, i < 64 -> rfc_char i < 256.
Proof.
  intros i Hi. apply N.ltb_lt.
  apply (sweep1_sound 64 (fun i => rfc_char i <? 256)); [vm_compute; reflexivity | exact Hi].
Qed.

Lemma dec_tbl_pad : tbl_dec PAD = 0.
Proof. vm_compute. reflexivity. Qed.

(* ------------------------------------------------------------------ *)
(* B. bit operations on bytes, eliminated by complete sweeps          *)

Ltac by_sweep1 n P H :=
  apply N.eqb_eq; apply (sweep1_sound n P); [vm_compute; reflexivity | exact H].
Ltac by_sweep2 n m P Ha Hb :=
  apply N.eqb_eq; apply (sweep2_sound n m P); [vm_compute; reflexivity | exact Ha | exact Hb].

Lemma bits_e0 a : a < 256 -> shr8 a 2 = a / 4.
Proof. intros H. by_sweep1 256%nat (fun a => shr8 a 2 =? a / 4) H. Qed.

Lemma bits_e1 a b : a < 256 -> b < 256 ->
  N.land (N.lor (shl8 a 4) (shr8 b 4)) 63 = (a mod 4) * 16 + b / 16.
Proof.
  intros Ha Hb.
  by_sweep2 256%nat 256%nat
    (fun a b => N.land (N.lor (shl8 a 4) (shr8 b 4)) 63 =? (a mod 4) * 16 + b / 16) Ha Hb.
Qed.

Lemma bits_e2 b c : b < 256 -> c < 256 ->
  N.land (N.lor (shl8 b 2) (shr8 c 6)) 63 = (b mod 16) * 4 + c / 64.
Proof.
  intros Hb Hc.
  by_sweep2 256%nat 256%nat
    (fun b c => N.land (N.lor (shl8 b 2) (shr8 c 6)) 63 =? (b mod 16) * 4 + c / 64) Hb Hc.
Qed.

Lemma bits_e3 c : c < 256 -> N.land c 63 = c mod 64.
Proof. intros H. by_sweep1 256%nat (fun c => N.land c 63 =? c mod 64) H. Qed.

Lemma bits_f1 a : a < 256 -> N.land (shl8 a 4) 63 = (a mod 4) * 16.
Proof. intros H. by_sweep1 256%nat (fun a => N.land (shl8 a 4) 63 =? (a mod 4) * 16) H. Qed.

Lemma bits_f2 b : b < 256 -> N.land (shl8 b 2) 63 = (b mod 16) * 4.
Proof. intros H. by_sweep1 256%nat (fun b => N.land (shl8 b 2) 63 =? (b mod 16) * 4) H. Qed.

(* decoder side: sextets x,y < 64 *)
Lemma bits_d0 a b : a < 256 -> b < 256 ->
  N.lor (shl8 (a / 4) 2) (shr8 ((a mod 4) * 16 + b / 16) 4) = a.
Proof.
  intros Ha Hb.
  by_sweep2 256%nat 256%nat
    (fun a b => N.lor (shl8 (a / 4) 2) (shr8 ((a mod 4) * 16 + b / 16) 4) =? a) Ha Hb.
Qed.

Lemma bits_d1a a b : a < 256 -> b < 256 ->
  shl8 ((a mod 4) * 16 + b / 16) 4 = (b / 16) * 16.
Proof.
  intros Ha Hb.
  by_sweep2 256%nat 256%nat
    (fun a b => shl8 ((a mod 4) * 16 + b / 16) 4 =? (b / 16) * 16) Ha Hb.
Qed.

Lemma bits_d1b b c : b < 256 -> c < 256 ->
  shr8 ((b mod 16) * 4 + c / 64) 2 = b mod 16.
Proof.
  intros Hb Hc.
  by_sweep2 256%nat 256%nat
    (fun b c => shr8 ((b mod 16) * 4 + c / 64) 2 =? b mod 16) Hb Hc.
Qed.

Lemma bits_d1c b : b < 256 -> N.lor ((b / 16) * 16) (b mod 16) = b.
Proof. intros H. by_sweep1 256%nat (fun b => N.lor ((b / 16) * 16) (b mod 16) =? b) H. Qed.

Lemma bits_d2 b c : b < 256 -> c < 256 ->
  N.lor (shl8 ((b mod 16) * 4 + c / 64) 6) (c mod 64) = c.
Proof.
  intros Hb Hc.
  by_sweep2 256%nat 256%nat
    (fun b c => N.lor (shl8 ((b mod 16) * 4 + c / 64) 6) (c mod 64) =? c) Hb Hc.
Qed.

(* padded groups: the low bits contributed by an absent byte are zero *)
Lemma bits_d1_pad a b : a < 256 -> b < 256 ->
  N.lor (shl8 ((a mod 4) * 16 + b / 16) 4) (shr8 ((b mod 16) * 4) 2) = b.
Proof.
  intros Ha Hb.
  by_sweep2 256%nat 256%nat
    (fun a b => N.lor (shl8 ((a mod 4) * 16 + b / 16) 4) (shr8 ((b mod 16) * 4) 2) =? b) Ha Hb.
Qed.

Lemma bits_d0_pad a : a < 256 ->
  N.lor (shl8 (a / 4) 2) (shr8 ((a mod 4) * 16) 4) = a.
Proof. intros H. by_sweep1 256%nat (fun a => N.lor (shl8 (a / 4) 2) (shr8 ((a mod 4) * 16) 4) =? a) H. Qed.

(* the 24-bit group of the RFC, split into sextets *)
Ltac Zify.zify_post_hook ::= Z.div_mod_to_equations.

Lemma g24_0 a b c : a < 256 -> b < 256 -> c < 256 -> group24 a b c / 262144 = a / 4.
Proof. unfold group24. intros. lia. Qed.
Lemma g24_1 a b c : a < 256 -> b < 256 -> c < 256 ->
  (group24 a b c / 4096) mod 64 = (a mod 4) * 16 + b / 16.
Proof. unfold group24. intros. lia. Qed.
Lemma g24_2 a b c : a < 256 -> b < 256 -> c < 256 ->
  (group24 a b c / 64) mod 64 = (b mod 16) * 4 + c / 64.
Proof. unfold group24. intros. lia. Qed.
Lemma g24_3 a b c : a < 256 -> b < 256 -> c < 256 -> group24 a b c mod 64 = c mod 64.
Proof. unfold group24. intros. lia. Qed.

Lemma sext_lt_0 a : a < 256 -> a / 4 < 64.  Proof. intros. lia. Qed.
Lemma sext_lt_1 a b : a < 256 -> b < 256 -> (a mod 4) * 16 + b / 16 < 64.  Proof. intros. lia. Qed.
Lemma sext_lt_2 b c : b < 256 -> c < 256 -> (b mod 16) * 4 + c / 64 < 64.  Proof. intros. lia. Qed.
Lemma sext_lt_3 c : c mod 64 < 64.  Proof. intros. lia. Qed.

(* every index the encoder uses is inside the 64-entry table *)
Lemma enc_index_in_range a b c : a < 256 -> b < 256 -> c < 256 ->
  shr8 a 2 < 64 /\ N.land (N.lor (shl8 a 4) (shr8 b 4)) 63 < 64 /\
  N.land (N.lor (shl8 b 2) (shr8 c 6)) 63 < 64 /\ N.land c 63 < 64.
Proof.
  intros Ha Hb Hc.
  rewrite bits_e0, bits_e1, bits_e2, bits_e3 by assumption.
  repeat split; lia.
Qed.

(* ------------------------------------------------------------------ *)
(* C. encoder = RFC 4648 under every write partition                  *)

Lemma enc_group3_rfc a b c : a < 256 -> b < 256 -> c < 256 ->
  enc_group3 a b c =
  [rfc_char (group24 a b c / 262144); rfc_char ((group24 a b c / 4096) mod 64);
   rfc_char ((group24 a b c / 64) mod 64); rfc_char (group24 a b c mod 64)].
Proof.
  intros Ha Hb Hc. unfold enc_group3.
  rewrite bits_e0, bits_e1, bits_e2, bits_e3 by assumption.
  rewrite g24_0, g24_1, g24_2, g24_3 by assumption.
  rewrite !enc_tbl_is_rfc; auto using sext_lt_0, sext_lt_1, sext_lt_2, sext_lt_3.
Qed.

Lemma fold_enc_write_concat chunks st :
  fold_left enc_write chunks st = fold_left enc_write_byte (concat chunks) st.
Proof.
  revert st. induction chunks as [|c cs IH]; intros st; cbn [fold_left concat]; [reflexivity|].
  rewrite IH. unfold enc_write. now rewrite fold_left_app.
Qed.

Lemma bytes_ok_cons b l : bytes_ok (b :: l) = true -> b < 256 /\ bytes_ok l = true.
Proof.
  unfold bytes_ok. cbn [forallb]. intros H. apply andb_true_iff in H as [H1 H2].
  split; [now apply N.ltb_lt|exact H2].
Qed.

(* invariant: carry has < 3 bytes; finishing after l more bytes appends the RFC text of carry ++ l *)
Lemma enc_bytes_rfc l : forall carry out,
  (length carry < 3)%nat -> bytes_ok carry = true -> bytes_ok l = true ->
  enc_finish (fold_left enc_write_byte l (carry, out)) = out ++ rfc4648 (carry ++ l).
Proof.
  induction l as [|x l IH]; intros carry out Hlen Hc Hl.
  - cbn [fold_left]. rewrite app_nil_r.
    destruct carry as [|a [|b [|c r]]]; cbn [length] in Hlen; try lia.
    + cbn. now rewrite app_nil_r.
    + apply bytes_ok_cons in Hc as [Ha _]. cbn [enc_finish rfc4648].
      rewrite bits_e0, bits_f1 by assumption.
      rewrite g24_0, g24_1 by (assumption || lia).
      change (0 / 16) with 0. rewrite N.add_0_r.
      rewrite !enc_tbl_is_rfc; auto using sext_lt_0. lia.
    + apply bytes_ok_cons in Hc as [Ha Hc]. apply bytes_ok_cons in Hc as [Hb _].
      cbn [enc_finish rfc4648].
      rewrite bits_e0, bits_e1, bits_f2 by assumption.
      rewrite g24_0, g24_1, g24_2 by (assumption || lia).
      change (0 / 64) with 0. rewrite N.add_0_r.
      rewrite !enc_tbl_is_rfc; auto using sext_lt_0, sext_lt_1. lia.
  - apply bytes_ok_cons in Hl as [Hx Hl]. cbn [fold_left].
    destruct carry as [|a [|b [|c r]]]; cbn [length] in Hlen; try lia.
    + cbn [enc_write_byte app]. rewrite (IH [x] out); auto.
      unfold bytes_ok; cbn [forallb]. rewrite andb_true_r. now apply N.ltb_lt.
    + apply bytes_ok_cons in Hc as [Ha _].
      cbn [enc_write_byte app]. rewrite (IH [a; x] out); auto.
      unfold bytes_ok; cbn [forallb]. rewrite andb_true_r.
      apply andb_true_iff; split; now apply N.ltb_lt.
    + apply bytes_ok_cons in Hc as [Ha Hc]. apply bytes_ok_cons in Hc as [Hb _].
      cbn [enc_write_byte]. rewrite (IH [] (out ++ enc_group3 a b x)); auto.
      rewrite enc_group3_rfc by assumption.
      cbn [app rfc4648]. now rewrite <- app_assoc.
Qed.

Theorem encode_chunks_rfc chunks :
  bytes_ok (concat chunks) = true -> encode_chunks chunks = rfc4648 (concat chunks).
Proof.
  intros H. unfold encode_chunks, enc_init. rewrite fold_enc_write_concat.
  rewrite enc_bytes_rfc; auto.
Qed.
