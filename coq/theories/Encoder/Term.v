(* Specification side of C05, second layer: what the operations DO to a terminal.
   A small xterm/kitty state machine over the operation lists of VT.v, used to
   compare final terminal STATES (from arbitrary, "dirty", initial states):

     - SGR              the rendition is transformed (rt_apply)
     - DECSET / DECRST  the set of DEC private modes; 1049 also selects the screen
     - kitty keyboard   each screen (main / alternate) has its own stack of
                        keyboard-flag levels (kitty keyboard protocol: "the main and
                        alternate screens maintain independent keyboard mode stacks");
                        CSI = f ; m u replaces / ors / and-nots the top, CSI > f u
                        pushes, CSI < n u pops
     - DECSTBM          the scrolling margins
     - OSC 0/1/2        icon name / window title
     - RIS (ESC c)      everything back to the power-on state (keyboard levels 0,
                        no modes, default rendition, full-screen margins, main screen)
     - everything else  (printing, cursor motion, erasing, scrolling, requests that
                        make the terminal answer) is kept, in order, in a log: the
                        screen contents are not modelled *)
From Coq Require Import List NArith Bool.
From SNT Require Import Encoder.VT.
Import ListNotations.
Local Open Scope N_scope.

Record tstate := mkT {
  ts_alt : bool;                      (* alternate screen selected *)
  ts_kbd_main : list N;               (* keyboard-flag stack of the main screen, top first; [] = level 0 *)
  ts_kbd_alt : list N;
  ts_modes : list N;                  (* DEC private modes that are set, ascending, no duplicates *)
  ts_rend : rendition;
  ts_margins : option N * option N;
  ts_icon : option (list N);
  ts_title : option (list N);
  ts_log : list op }.                 (* newest first *)

Definition rend_default : rendition :=
  mkRend INormal false LNone false false false false CDefault CDefault CDefault.

Definition ts_init : tstate := mkT false [] [] [] rend_default (None, None) None None [].

Fixpoint mode_insert (m : N) (l : list N) : list N :=
  match l with
  | [] => [m]
  | x :: r => if m <? x then m :: l else if m =? x then l else x :: mode_insert m r
  end.
Definition mode_remove (m : N) (l : list N) : list N := filter (fun x => negb (x =? m)) l.

Definition top (s : list N) : N := match s with x :: _ => x | [] => 0 end.
Definition set_top (v : N) (s : list N) : list N := match s with _ :: r => v :: r | [] => [v] end.

Definition on_kbd (f : list N -> list N) (s : tstate) : tstate :=
  if ts_alt s
  then mkT (ts_alt s) (ts_kbd_main s) (f (ts_kbd_alt s)) (ts_modes s) (ts_rend s) (ts_margins s) (ts_icon s) (ts_title s) (ts_log s)
  else mkT (ts_alt s) (f (ts_kbd_main s)) (ts_kbd_alt s) (ts_modes s) (ts_rend s) (ts_margins s) (ts_icon s) (ts_title s) (ts_log s).

Definition logged (o : op) (s : tstate) : tstate :=
  mkT (ts_alt s) (ts_kbd_main s) (ts_kbd_alt s) (ts_modes s) (ts_rend s) (ts_margins s) (ts_icon s) (ts_title s) (o :: ts_log s).

Definition apply_op (s : tstate) (o : op) : tstate :=
  match o with
  | OSgr t =>
      if t_bad t then logged o s
      else mkT (ts_alt s) (ts_kbd_main s) (ts_kbd_alt s) (ts_modes s) (rt_apply t (ts_rend s)) (ts_margins s)
               (ts_icon s) (ts_title s) (ts_log s)
  | ODecset m =>
      mkT (if m =? 1049 then true else ts_alt s) (ts_kbd_main s) (ts_kbd_alt s) (mode_insert m (ts_modes s))
          (ts_rend s) (ts_margins s) (ts_icon s) (ts_title s) (ts_log s)
  | ODecrst m =>
      mkT (if m =? 1049 then false else ts_alt s) (ts_kbd_main s) (ts_kbd_alt s) (mode_remove m (ts_modes s))
          (ts_rend s) (ts_margins s) (ts_icon s) (ts_title s) (ts_log s)
  | OKittySet f mode =>
      if mode =? 1 then on_kbd (set_top f) s
      else if mode =? 2 then on_kbd (fun st => set_top (N.lor (top st) f) st) s
      else if mode =? 3 then on_kbd (fun st => set_top (N.ldiff (top st) f) st) s
      else logged o s
  | OKittyPush f => on_kbd (fun st => f :: st) s
  | OKittyPop n => on_kbd (fun st => skipn (N.to_nat n) st) s
  | ODecstbm a b =>
      mkT (ts_alt s) (ts_kbd_main s) (ts_kbd_alt s) (ts_modes s) (ts_rend s) (a, b) (ts_icon s) (ts_title s) (ts_log s)
  | OTitle which text =>
      mkT (ts_alt s) (ts_kbd_main s) (ts_kbd_alt s) (ts_modes s) (ts_rend s) (ts_margins s)
          (if (which =? 0) || (which =? 1) then Some text else ts_icon s)
          (if (which =? 0) || (which =? 2) then Some text else ts_title s) (ts_log s)
  | ORis =>
      (* power-on state; title and icon name belong to the window and survive; the event itself is logged *)
      mkT false [] [] [] rend_default (None, None) (ts_icon s) (ts_title s) (ORis :: ts_log s)
  | _ => logged o s
  end.

Definition run_ops (s : tstate) (os : list op) : tstate := fold_left apply_op os s.

(* ---------- dirty initial states for the executable check ---------- *)
Definition ts_dirty1 : tstate :=
  mkT false [7; 1] [3] [7; 25; 1000; 2004]
      (mkRend IFaint true LDotted true true true true (CIdx 3) (CRgb 9 8 7) (CIdx 200))
      (Some 2, Some 5) (Some [105]) (Some [116]) [OPrint 120].
Definition ts_dirty2 : tstate :=
  mkT true [5] [31; 2; 9] [1006; 1049; 2026]
      (mkRend IBold false LCurly false true false true (CRgb 1 2 3) CDefault (CRgb 4 5 6))
      (None, Some 40) None (Some [122]) [].

Definition rendition_eq_dec : forall a b : rendition, {a = b} + {a <> b}.
Proof.
  decide equality; first [apply Bool.bool_dec | apply colour_eq_dec | apply intensity_eq_dec | apply uline_eq_dec].
Defined.
Definition tstate_eq_dec : forall a b : tstate, {a = b} + {a <> b}.
Proof.
  decide equality;
    first [apply Bool.bool_dec | apply nlist_eq_dec | apply rendition_eq_dec | apply (list_eq_dec op_eq_dec)
          | apply (option_eq_dec nlist_eq_dec)
          | (decide equality; apply (option_eq_dec N.eq_dec))].
Defined.
Definition tstate_eqb (a b : tstate) : bool := if tstate_eq_dec a b then true else false.

(* the two operation lists lead to the same terminal state from the clean and from both dirty states *)
Definition same_final_state (xs ys : list op) : bool :=
  forallb (fun s => tstate_eqb (run_ops s xs) (run_ops s ys)) [ts_init; ts_dirty1; ts_dirty2].
